/-
C20 — ValueMapping implements the DSP0004 ValueMap/Values semantics.
ONLY property theorems, non-vacuity examples and witnesses; helper lemmas are in
Proofs/Lemmas/{IntLit,ValueMap,ValueMap2,ValueMap3,ValueMap4,ValueMap5,ValueMap6,ValueMapApi}.lean.  The model (Model/ValueMap.lean) mirrors
pywbem/_valuemapping.py after the fix: commits of C20; `Spec` is the short reading of the property
statement (parse every entry, resolve open ends against the neighbours' closed ends and the type
limits, `claims` = exact entry, else first enclosing range, else unclaimed).
-/
import Proofs.Lemmas.ValueMap4
import Proofs.Lemmas.ValueMapApi
import Proofs.Lemmas.ValueMap5
import Proofs.Lemmas.ValueMap6

namespace C20
open Pywbem.Proto Pywbem.Model.IntLit Pywbem.Model.IntLit.Dsp0004 Pywbem.Model.ValueMap Pywbem.Model.ValueMap.Spec
open Proofs.ValueMap Proofs.IntLit

/-- **Construction = spec.**  For every element (any type name, Values/ValueMap present or not, any
    strings as entries, any sizes, any values_default) `_create_for_element` fails exactly when the
    spec reading fails, and then with the same exception class. -/
theorem C20_create_fails_iff_spec_fails (e : Elem) (vd : Option Str) (x : PyExc) :
    create e vd = .error x ↔ specCreate e vd = .error x := by
  rw [create_eq_spec]
  cases h : specCreate e vd with
  | error y => simp
  | ok p => obtain ⟨ents, values⟩ := p; simp

/-- **tovalues = claims.**  When construction succeeds the spec yields resolved entries `ents` (one per
    ValueMap entry, same order) and the adjusted Values array, and for EVERY integer v (of any size)
    tovalues(v) is the Values string at the index `claims ents v` (exact entry, else first enclosing
    range with open ends resolved against the neighbours / type limits, else the unclaimed entry),
    and ValueError exactly when nobody claims v. -/
theorem C20_tovalues_is_spec (e : Elem) (vd : Option Str) (vm : VM) (h : create e vd = .ok vm) :
    ∃ ents values, specCreate e vd = .ok (ents, values) ∧ ents.length = values.length ∧
      ∀ v : Int, tovalues vm v = specToValues ents values v := by
  rw [create_eq_spec] at h
  cases hs : specCreate e vd with
  | error y => rw [hs] at h; simp at h
  | ok p =>
    obtain ⟨ents, values⟩ := p
    rw [hs] at h; simp at h; subst h
    have hl := specCreate_lengths hs
    exact ⟨ents, values, rfl, hl, fun v => by rw [tovalues_addAll, specToValues_eq_claimV _ _ hl]⟩

/-- the spec never answers IndexError: with arrays of equal length `specToValues` is a Values string or ValueError -/
theorem C20_spec_tovalues_total (ents : List Ent) (values : List Str) (hl : ents.length = values.length) (v : Int) :
    (∃ i s, claims ents v = some i ∧ values[i]? = some s ∧ specToValues ents values v = .ok s) ∨
    (claims ents v = none ∧ specToValues ents values v = .error .valueError) := by
  unfold specToValues
  cases hc : claims ents v with
  | none => right; simp
  | some i =>
    left
    have hi : i < values.length := by
      unfold claims at hc
      cases h1 : lastIdx (isExact v) ents with
      | some j => rw [h1] at hc; simp at hc; subst hc; have := lastIdx_lt _ _ _ h1; omega
      | none =>
        rw [h1] at hc; simp only at hc
        cases h2 : firstIdx (isRangeOf v) ents with
        | some j => rw [h2] at hc; simp at hc; subst hc; have := firstIdx_lt _ _ _ h2; omega
        | none => rw [h2] at hc; simp only at hc; have := lastIdx_lt _ _ _ hc; omega
    exact ⟨i, values[i], rfl, List.getElem?_eq_getElem hi, by simp [List.getElem?_eq_getElem hi]⟩

/-- **Only ModelError / ValueError escape from construction** (no IndexError, RecursionError, … for any input). -/
theorem C20_create_only_model_or_value_error (e : Elem) (vd : Option Str) (x : PyExc)
    (h : create e vd = .error x) : x = .modelError ∨ x = .valueError :=
  specCreate_error ((C20_create_fails_iff_spec_fails e vd x).mp h)

/-- tovalues raises nothing but ValueError, tobinary nothing but ValueError -/
theorem C20_lookup_only_value_error (vm : VM) (x : PyExc) :
    (∀ v, tovalues vm v = .error x → x = .valueError) ∧ (∀ s, tobinary vm s = .error x → x = .valueError) := by
  constructor
  · intro v h
    unfold tovalues at h
    cases h1 : dictGet vm.single v with
    | some s => simp [h1] at h
    | none =>
      simp only [h1] at h
      cases h2 : vm.ranges.find? (fun r => decide (r.1 ≤ v) && decide (v ≤ r.2.1)) with
      | some r => simp [h2] at h
      | none =>
        simp only [h2] at h
        cases h3 : vm.unclaimed with
        | some u => simp [h3] at h
        | none => simp [h3] at h; exact h.symm
  · intro s h
    unfold tobinary at h
    cases h1 : dictGet vm.v2b s with
    | some b => simp [h1] at h
    | none => simp [h1] at h; exact h.symm

/-- **Termination of the neighbour recursion.**  For every ValueMap array and every position, a stack
    budget of length+1 frames suffices: `_values_tuple` returns or raises ModelError — never
    RecursionError, never IndexError.  (No hypothesis: after the fix the code itself refuses open
    ends that face each other.) -/
theorem C20_values_tuple_terminates (T : IntType) (vmap : List Str) (i fuel : Nat)
    (hi : i < vmap.length) (hf : vmap.length + 1 ≤ fuel) :
    (∃ lo hi, valuesTuple T vmap fuel i = .ok (lo, hi)) ∨ valuesTuple T vmap fuel i = .error .modelError := by
  have := tuple_okOrModel T vmap i fuel hi hf
  cases h : valuesTuple T vmap fuel i with
  | ok p => left; exact ⟨p.1, p.2, rfl⟩
  | error x => right; rw [this x h]

/-- negation witness for the code BEFORE the fix: without the two guards the recursion between
    `"1.."` and `"..5"` exhausts every stack budget (the RecursionError reproduced on the unchanged tree) -/
theorem C20_unguarded_recursion_diverges (T : IntType) (fuel : Nat) :
    valuesTupleUnguarded T [['1', '.', '.'], ['.', '.', '5']] fuel 0 = .error .recursionError ∧
    valuesTupleUnguarded T [['1', '.', '.'], ['.', '.', '5']] fuel 1 = .error .recursionError := by
  have r0 : rangeMatch ['1', '.', '.'] = some (['1'], []) := by decide
  have r1 : rangeMatch ['.', '.', '5'] = some ([], ['5']) := by decide
  have t1 : toInt ['1'] = .ok 1 := by decide
  induction fuel with
  | zero => simp [valuesTupleUnguarded]
  | succ f ih =>
    obtain ⟨ih0, ih1⟩ := ih
    constructor
    · simp [valuesTupleUnguarded, r0, t1, ih1]
    · simp [valuesTupleUnguarded, r1, ih0]

/-- … while the fixed code answers ModelError for the same arrays -/
theorem C20_facing_open_ends_model_error :
    create ⟨"uint8", some ["a".toList, "b".toList], some ["1..".toList, "..5".toList]⟩ none = .error .modelError ∧
    create ⟨"uint8", some ["a".toList, "b".toList], some ["..".toList, "..5".toList]⟩ none = .error .modelError ∧
    create ⟨"uint8", some ["a".toList, "b".toList], some ["1..".toList, "..".toList]⟩ none = .error .modelError := by
  decide +kernel

/-- **items() lists every entry in qualifier order**: the i-th item is the i-th resolved ValueMap
    entry (int, (lo, hi) or None) with the i-th (adjusted) Values string; nothing is merged or dropped. -/
theorem C20_items_in_qualifier_order (e : Elem) (vd : Option Str) (vm : VM) (h : create e vd = .ok vm) :
    ∃ ents values, specCreate e vd = .ok (ents, values) ∧ ents.length = values.length ∧
      items vm = (ents.zip values).map (fun p => (entBin p.1, p.2)) := by
  rw [create_eq_spec] at h
  cases hs : specCreate e vd with
  | error y => rw [hs] at h; simp at h
  | ok p =>
    obtain ⟨ents, values⟩ := p
    rw [hs] at h; simp at h; subst h
    exact ⟨ents, values, rfl, specCreate_lengths hs, by simp [items, addAll_items]⟩

/-- **tobinary = the last entry carrying that Values string**, ValueError for a string that is not in
    the (adjusted) Values array -/
theorem C20_tobinary_is_spec (e : Elem) (vd : Option Str) (vm : VM) (h : create e vd = .ok vm) :
    ∃ ents values, specCreate e vd = .ok (ents, values) ∧
      ∀ s : Str, tobinary vm s =
        (match lastIdx (fun t => decide (t = s)) values with
         | some i => (match ents[i]? with | some en => .ok (entBin en) | none => .error .indexError)
         | none => .error .valueError) := by
  rw [create_eq_spec] at h
  cases hs : specCreate e vd with
  | error y => rw [hs] at h; simp at h
  | ok p =>
    obtain ⟨ents, values⟩ := p
    rw [hs] at h; simp at h; subst h
    have hl := specCreate_lengths hs
    refine ⟨ents, values, rfl, fun s => ?_⟩
    unfold tobinary
    rw [addAll_v2b_get, lastBin_zip s ents values hl]
    cases h1 : lastIdx (fun t => decide (t = s)) values with
    | none => simp [dictGet]
    | some i =>
      have hi : i < ents.length := by have := lastIdx_lt _ _ _ h1; omega
      simp [List.getElem?_eq_getElem hi]

/-- what it means for v to lie in a resolved entry -/
def inEnt (v : Int) : Ent → Prop
  | none => False
  | some (lo, hi) => lo ≤ v ∧ v ≤ hi

/-- **tobinary is inverse to tovalues.**  If tobinary(s) returns a value or a range, then every
    member v of it maps back to s — provided no entry with a different Values string also encloses v
    (with overlapping entries the priority rules of `claims` decide, see `C20_tovalues_is_spec`). -/
theorem C20_tobinary_inverse (e : Elem) (vd : Option Str) (vm : VM) (h : create e vd = .ok vm)
    (ents : List Ent) (values : List Str) (hs : specCreate e vd = .ok (ents, values))
    (s : Str) (i : Nat) (en : Ent) (hi : lastIdx (fun t => decide (t = s)) values = some i)
    (hen : ents[i]? = some en) (v : Int) (hv : inEnt v en)
    (hdisj : ∀ (j : Nat) en' s', ents[j]? = some en' → values[j]? = some s' → inEnt v en' → s' = s) :
    tobinary vm s = .ok (entBin en) ∧ tovalues vm v = .ok s := by
  obtain ⟨ents', values', hs', htb⟩ := C20_tobinary_is_spec e vd vm h
  rw [hs] at hs'; simp at hs'; obtain ⟨rfl, rfl⟩ := hs'
  refine ⟨by rw [htb s, hi]; simp [hen], ?_⟩
  obtain ⟨ents', values', hs', hl, htv⟩ := C20_tovalues_is_spec e vd vm h
  rw [hs] at hs'; simp at hs'; obtain ⟨rfl, rfl⟩ := hs'
  rw [htv v]
  rcases C20_spec_tovalues_total ents values hl v with ⟨j, s', hc, hsj, hok⟩ | ⟨hc, _⟩
  · rw [hok]
    -- the claiming entry j encloses v, so it carries the string s
    have hj : j < ents.length := by have := (List.getElem?_eq_some_iff.mp hsj).1; omega
    have hin : inEnt v ents[j] := by
      unfold claims at hc
      cases h1 : lastIdx (isExact v) ents with
      | some k =>
        rw [h1] at hc; simp at hc; subst hc
        obtain ⟨a, ha, hp⟩ := lastIdx_sat _ _ _ h1
        rw [List.getElem?_eq_getElem hj] at ha; simp at ha; subst ha
        cases hq : ents[k] with
        | none => rw [hq] at hp; simp [isExact] at hp
        | some q => obtain ⟨lo, hi'⟩ := q; rw [hq] at hp; simp [isExact] at hp; simp [inEnt]; omega
      | none =>
        rw [h1] at hc; simp only at hc
        cases h2 : firstIdx (isRangeOf v) ents with
        | some k =>
          rw [h2] at hc; simp at hc; subst hc
          obtain ⟨a, ha, hp⟩ := firstIdx_sat _ _ _ h2
          rw [List.getElem?_eq_getElem hj] at ha; simp at ha; subst ha
          cases hq : ents[k] with
          | none => rw [hq] at hp; simp [isRangeOf] at hp
          | some q => obtain ⟨lo, hi'⟩ := q; rw [hq] at hp; simp [isRangeOf] at hp; simp [inEnt]; omega
        | none =>
          -- nobody encloses v exactly or as a range: contradicts hv
          exfalso
          have hmem : en ∈ ents := List.mem_of_getElem? hen
          have e1 := lastIdx_none _ _ h1 en hmem
          have e2 := firstIdx_none _ _ h2 en hmem
          cases en with
          | none => exact hv
          | some q =>
            obtain ⟨lo, hi'⟩ := q
            simp [inEnt] at hv
            simp [isExact] at e1
            simp [isRangeOf] at e2
            by_cases hlh : lo = hi'
            · subst hlh; have := e1 rfl; omega
            · have := e2 hlh hv.1; omega
    have := hdisj j ents[j] s' (List.getElem?_eq_getElem hj) hsj hin
    rw [this]
  · exfalso
    unfold claims at hc
    cases h1 : lastIdx (isExact v) ents with
    | some k => rw [h1] at hc; simp at hc
    | none =>
      rw [h1] at hc; simp only at hc
      cases h2 : firstIdx (isRangeOf v) ents with
      | some k => rw [h2] at hc; simp at hc
      | none =>
        have hmem : en ∈ ents := List.mem_of_getElem? hen
        have e1 := lastIdx_none _ _ h1 en hmem
        have e2 := firstIdx_none _ _ h2 en hmem
        cases en with
        | none => exact hv
        | some q =>
          obtain ⟨lo, hi'⟩ := q
          simp [inEnt] at hv
          simp [isExact] at e1
          simp [isRangeOf] at e2
          by_cases hlh : lo = hi'
          · subst hlh; have := e1 rfl; omega
          · have := e2 hlh hv.1; omega

/-- **Size reconciliation.**  `reconcile` succeeds iff the sizes agree or values_default is given; the
    result has exactly the ValueMap's size, keeps the original Values items in place and pads with the
    default (the IndexError of the unchanged tree was a truncation at the wrong index). -/
theorem C20_reconcile_spec (values0 vmap : List Str) (vd : Option Str) :
    (∀ x, reconcile values0 vmap vd = .error x → x = .modelError ∧ vd = none ∧ values0.length ≠ vmap.length) ∧
    (∀ values, reconcile values0 vmap vd = .ok values →
        values.length = vmap.length ∧
        (∀ i, i < values0.length → i < vmap.length → values[i]? = values0[i]?) ∧
        (∀ i, values0.length ≤ i → i < vmap.length → values[i]? = vd)) := by
  constructor
  · intro x h
    unfold reconcile at h
    split at h
    · cases vd <;> simp at h; exact ⟨h.symm, rfl, by omega⟩
    · split at h
      · cases vd <;> simp at h; exact ⟨h.symm, rfl, by omega⟩
      · simp at h
  · intro values h
    refine ⟨reconcile_length h, ?_, ?_⟩
    · intro i h1 h2
      unfold reconcile at h
      split at h
      · cases vd with
        | none => simp at h
        | some d => simp at h; subst h; simp [List.getElem?_append_left h1]
      · split at h
        · cases vd with
          | none => simp at h
          | some d => simp at h; subst h; simp [h2]
        · simp at h; subst h; rfl
    · intro i h1 h2
      unfold reconcile at h
      split at h
      · cases vd with
        | none => simp at h
        | some d =>
          simp at h; subst h
          rw [List.getElem?_append_right h1]
          simp [List.getElem?_replicate]; omega
      · omega


/-- **Entry parsing = the declarative entry grammar**: an entry is accepted (and read as `r`) iff it is
    ".." , an integer literal, or `[literal] ".." [literal]` with at least one end given — the regular
    expression `^(.*)\.\.(.*)\Z` (greedy split at the last "..", no newline) adds and loses nothing. -/
theorem C20_entry_grammar (s : Str) (r : Raw) : parseEntry s = some r ↔ IsEntry s r :=
  parseEntry_iff_isEntry s r

/-- **No ValueMap qualifier ⇒ DSP0004 default of 0-based consecutive numbers**: for every integer type,
    every Values array and every values_default the resolved entries are exactly 0, 1, …, n-1. -/
theorem C20_no_valuemap_default (typ : String) (T : IntType) (hT : intTypeOf typ = some T) (vals : List Str)
    (vd : Option Str) :
    specCreate ⟨typ, some vals, none⟩ vd =
      .ok ((List.range vals.length).map (fun (i : Nat) => some ((i : Int), (i : Int))), vals) :=
  specCreate_default typ T hT vals vd

/-- non-vacuity: a default mapping of three strings on a sint8 element -/
example : (match create ⟨"sint8", some ["a".toList, "b".toList, "c".toList], none⟩ none with
           | .ok vm => decide (tovalues vm 2 = .ok "c".toList ∧ tovalues vm 3 = .error .valueError ∧
                               tovalues vm (-1) = .error .valueError)
           | .error _ => false) = true := by decide +kernel

/-! ### integer literals of ValueMap entries vs the DSP0004 grammar -/

/-- **The recogniser accepts only DSP0004 integerValue strings, with the DSP0004 value** (binary, octal,
    decimal, hex; optional sign; value = positional value of the digits). -/
theorem C20_intlit_sound (s : Str) (v : Int) (h : integerValueToInt s = some v) : IsIntegerValue s v :=
  intlit_sound h

/-- **… and accepts every DSP0004 integerValue — partial**: except octal literals with a digit 0 after
    the leading 0 (known finding C20-KF1; OCTAL_VALUE has the digit class [1-7]).
    Full statement (fails, next theorem): `∀ s v, IsIntegerValue s v → integerValueToInt s = some v`. -/
theorem C20_intlit_complete_partial (s : Str) (v : Int) (h : IsIntegerValue s v) (hk : ¬ OctalWithZeroDigit s) :
    integerValueToInt s = some v :=
  intlit_complete_partial h hk

theorem C20_intlit_complete_fails_at : ¬ (∀ s v, IsIntegerValue s v → integerValueToInt s = some v) := by
  intro h
  have := h _ _ intlit_octal_zero_witness.1
  rw [intlit_octal_zero_witness.2.1] at this
  cases this

/-- **Decision procedure ⇔ grammar** (no exception): `Dsp0004.parse`, a regular-expression-free recogniser built
    from the same per-notation bodies as pywbem's (only the octal digit class differs), accepts exactly the
    strings of the DSP0004 integerValue grammar, with the grammar's value. -/
theorem C20_dsp0004_parse_iff_grammar (s : Str) (v : Int) : parse s = some v ↔ IsIntegerValue s v :=
  parse_iff s v

/-- the grammar assigns at most one value to a string (binary/octal/decimal/hex readings never conflict) -/
theorem C20_dsp0004_grammar_unambiguous (s : Str) (v w : Int) (h1 : IsIntegerValue s v) (h2 : IsIntegerValue s w) :
    v = w :=
  isIntegerValue_unique h1 h2

/-- **pywbem's recogniser = the decision procedure, except exactly on the class of C20-KF1**, where it answers
    "no literal" although the grammar has a value. -/
theorem C20_intlit_eq_parse_except_octal_zero (s : Str) :
    (¬ OctalWithZeroDigit s → integerValueToInt s = parse s) ∧
    (OctalWithZeroDigit s → integerValueToInt s = none ∧ ∃ v, parse s = some v) := by
  constructor
  · intro hk
    cases hp : parse s with
    | some v => exact intlit_complete_partial (parse_sound hp) hk
    | none =>
      cases hi : integerValueToInt s with
      | none => rfl
      | some v => rw [parse_complete (intlit_sound hi)] at hp; cases hp
  · exact intlit_none_of_octalZero

/-- non-vacuity of the hypothesis: a literal outside the excluded class, one inside -/
example : ¬ OctalWithZeroDigit ['0', '1', '7'] := by
  rintro ⟨sg, ds, h1, _, _, h4⟩
  cases sg <;> simp [Sign.chars] at h1
  subst h1; simp at h4
example : integerValueToInt "-0x1F".toList = some (-31) ∧ integerValueToInt "+101b".toList = some 5 ∧
    integerValueToInt "017".toList = some 15 ∧ integerValueToInt "08".toList = none := by decide

/-! ### NULL-valued qualifiers (known finding C20-KF2) -/

/-- `createQ` (qualifier values may be NULL) is `create` whenever no qualifier value is NULL -/
theorem C20_createQ_eq_create (e : ElemQ) (vd : Option Str)
    (hn : e.values ≠ some none ∧ e.valuemap ≠ some none) :
    createQ e vd = create ⟨e.typ, e.values.bind id, e.valuemap.bind id⟩ vd := by
  obtain ⟨typ, values, valuemap⟩ := e
  unfold createQ
  cases hT : intTypeOf typ with
  | none => simp [create, hT]
  | some T =>
    simp only
    cases values with
    | none => simp [create, hT]
    | some vo =>
      cases vo with
      | none => simp at hn
      | some vals =>
        cases valuemap with
        | none => simp
        | some mo =>
          cases mo with
          | none => simp at hn
          | some m => simp

/-- **only ModelError / ValueError escape — partial**: for elements without NULL-valued qualifiers.
    Full statement (fails, next theorem): no hypothesis `hn`. -/
theorem C20_createQ_only_model_or_value_error_partial (e : ElemQ) (vd : Option Str)
    (hn : e.values ≠ some none ∧ e.valuemap ≠ some none) (x : PyExc) (h : createQ e vd = .error x) :
    x = .modelError ∨ x = .valueError := by
  rw [C20_createQ_eq_create e vd hn] at h
  exact C20_create_only_model_or_value_error _ vd x h

theorem C20_createQ_null_value_leaks_fails_at :
    ¬ (∀ (e : ElemQ) (vd : Option Str) (x : PyExc), createQ e vd = .error x → x = .modelError ∨ x = .valueError) := by
  intro h
  have := h ⟨"uint8", some none, none⟩ none .typeError (by decide)
  simp at this


/-! ### the factory methods for_property / for_method / for_parameter (Model/ValueMapApi.lean) -/
section Factory
open Pywbem.Model.ValueMap.Api

/-- **Contract of the three factory methods**: an exception of the connection's GetClass passes through
    unchanged; a property / method / parameter name that is not in the class (compared case-insensitively)
    is KeyError; otherwise the result is `_create_for_element` on exactly that element — the property or
    parameter with its `type`, the method with its `return_type` and its own qualifiers. -/
theorem C20_factory_contract (gc : Except PyExc ClassG) (n n2 : Str) (vd : Option Str) :
    (∀ x, gc = .error x →
        forProperty gc n vd = .error x ∧ forMethod gc n vd = .error x ∧ forParameter gc n n2 vd = .error x) ∧
    (∀ c, gc = .ok c →
        forProperty gc n vd = (match ncGet c.props n with
                               | none => .error .keyError
                               | some el => createG el vd) ∧
        forMethod gc n vd = (match ncGet c.methods n with
                             | none => .error .keyError
                             | some m => createG m.ret vd) ∧
        forParameter gc n n2 vd = (match ncGet c.methods n with
                                   | none => .error .keyError
                                   | some m => match ncGet m.params n2 with
                                     | none => .error .keyError
                                     | some el => createG el vd)) := by
  constructor
  · intro x h; subst h; exact ⟨rfl, rfl, rfl⟩
  · intro c h; subst h; exact ⟨rfl, rfl, rfl⟩

/-- element names are looked up case-insensitively -/
theorem C20_factory_names_case_insensitive (gc : Except PyExc ClassG) (n n' m m' : Str) (vd : Option Str)
    (hn : fold n = fold n') (hm : fold m = fold m') :
    forProperty gc n vd = forProperty gc n' vd ∧ forMethod gc n vd = forMethod gc n' vd ∧
    forParameter gc n m vd = forParameter gc n' m' vd := by
  cases gc with
  | error x => exact ⟨rfl, rfl, rfl⟩
  | ok c =>
    refine ⟨?_, ?_, ?_⟩
    · simp only [forProperty, ncGet_congr c.props hn]
    · simp only [forMethod, ncGet_congr c.methods hn]
    · simp only [forParameter, ncGet_congr c.methods hn]
      cases ncGet c.methods n' with
      | none => rfl
      | some mm => simp only [ncGet_congr mm.params hm]

/-- the Values / ValueMap qualifiers are found whatever the case of their names in the class -/
theorem C20_qualifier_names_case_insensitive (e : ElemG) (f : Str → Str) (hf : ∀ k, fold (f k) = fold k)
    (vd : Option Str) :
    createG ⟨e.typ, e.quals.map (fun p => (f p.1, p.2))⟩ vd = createG e vd := by
  simp only [createG, ElemG.toQ, ncGet_rename e.quals f hf]

/-- **frame**: other properties of the class (with another name), all methods and all parameters are
    irrelevant for for_property — wherever the other property is declared -/
theorem C20_for_property_frame (ps1 ps2 : List (Str × ElemG)) (k0 : Str) (e0 : ElemG) (ms ms' : List (Str × MethodG))
    (n : Str) (vd : Option Str) (h : fold k0 ≠ fold n) :
    forProperty (.ok ⟨ps1 ++ (k0, e0) :: ps2, ms⟩) n vd = forProperty (.ok ⟨ps1 ++ ps2, ms'⟩) n vd := by
  simp only [forProperty, ncGet_insert ps1 ps2 k0 e0 n h]

/-- the same for parameters of the method and for other methods -/
theorem C20_for_parameter_frame (ms1 ms2 : List (Str × MethodG)) (k0 : Str) (m0 : MethodG) (ps ps' : List (Str × ElemG))
    (n n2 : Str) (vd : Option Str) (h : fold k0 ≠ fold n) :
    forParameter (.ok ⟨ps, ms1 ++ (k0, m0) :: ms2⟩) n n2 vd = forParameter (.ok ⟨ps', ms1 ++ ms2⟩) n n2 vd ∧
    forMethod (.ok ⟨ps, ms1 ++ (k0, m0) :: ms2⟩) n vd = forMethod (.ok ⟨ps', ms1 ++ ms2⟩) n vd := by
  simp only [forParameter, forMethod, ncGet_insert ms1 ms2 k0 m0 n h, and_self]

/-- **end to end**: whenever for_property succeeds on a class, the property exists (case-insensitively), carries a
    non-NULL Values qualifier (under any capitalisation) and for every integer v tovalues(v) is what the short
    spec says for that property's Values / ValueMap arrays, type and values_default. -/
theorem C20_for_property_end_to_end (c : ClassG) (n : Str) (vd : Option Str) (vm : VM)
    (h : forProperty (.ok c) n vd = .ok vm) :
    ∃ el vals, ncGet c.props n = some el ∧
      (ncGet el.quals kValues).map QVal.items = some (some vals) ∧
      (ncGet el.quals kValueMap).map QVal.items ≠ some none ∧
      ∃ ents values,
        specCreate ⟨el.typ, some vals, ((ncGet el.quals kValueMap).map QVal.items).bind id⟩ vd = .ok (ents, values) ∧
        ents.length = values.length ∧ ∀ v : Int, tovalues vm v = specToValues ents values v := by
  simp only [forProperty] at h
  cases hel : ncGet c.props n with
  | none => simp [hel] at h
  | some el =>
    simp only [hel, createG, createQ, ElemG.toQ] at h
    cases hT : intTypeOf el.typ with
    | none => simp [hT] at h
    | some T =>
      simp only [hT] at h
      cases hv : (ncGet el.quals kValues).map QVal.items with
      | none => simp [hv] at h
      | some vo =>
        cases vo with
        | none => simp [hv] at h
        | some vals =>
          simp only [hv] at h
          cases hm : (ncGet el.quals kValueMap).map QVal.items with
          | none =>
            simp only [hm] at h
            obtain ⟨ents, values, h1, h2, h3⟩ := C20_tovalues_is_spec _ vd vm h
            exact ⟨el, vals, rfl, hv, by rw [hm]; simp, ents, values, by rw [hm]; exact h1, h2, h3⟩
          | some mo =>
            cases mo with
            | none => simp [hm] at h
            | some m =>
              simp only [hm] at h
              obtain ⟨ents, values, h1, h2, h3⟩ := C20_tovalues_is_spec _ vd vm h
              exact ⟨el, vals, rfl, hv, by rw [hm]; simp, ents, values, by rw [hm]; exact h1, h2, h3⟩

/-- the same at the level of one CIM element (`_create_for_element` on a CIM object) -/
theorem C20_createG_end_to_end (el : ElemG) (vd : Option Str) (vm : VM) (h : createG el vd = .ok vm) :
    ∃ vals, (ncGet el.quals kValues).map QVal.items = some (some vals) ∧
      (ncGet el.quals kValueMap).map QVal.items ≠ some none ∧
      ∃ ents values,
        specCreate ⟨el.typ, some vals, ((ncGet el.quals kValueMap).map QVal.items).bind id⟩ vd = .ok (ents, values) ∧
        ents.length = values.length ∧ ∀ v : Int, tovalues vm v = specToValues ents values v := by
  -- reuse the property version on a one-property class
  have := C20_for_property_end_to_end ⟨[([], el)], []⟩ [] vd vm (by simpa [forProperty, ncGet] using h)
  obtain ⟨el', vals, hel, rest⟩ := this
  simp [ncGet] at hel; subst hel
  exact ⟨vals, rest⟩

/-- **end to end for for_method and for_parameter**: the method's return type and own qualifiers, resp. the
    parameter's type and qualifiers, decide — as for properties -/
theorem C20_for_method_parameter_end_to_end (c : ClassG) (n n2 : Str) (vd : Option Str) (vm : VM) :
    (forMethod (.ok c) n vd = .ok vm → ∃ m, ncGet c.methods n = some m ∧ createG m.ret vd = .ok vm) ∧
    (forParameter (.ok c) n n2 vd = .ok vm →
        ∃ m el, ncGet c.methods n = some m ∧ ncGet m.params n2 = some el ∧ createG el vd = .ok vm) := by
  constructor
  · intro h
    simp only [forMethod] at h
    cases hg : ncGet c.methods n with
    | none => simp [hg] at h
    | some m => simp only [hg] at h; exact ⟨m, rfl, h⟩
  · intro h
    simp only [forParameter] at h
    cases hg : ncGet c.methods n with
    | none => simp [hg] at h
    | some m =>
      simp only [hg] at h
      cases hg2 : ncGet m.params n2 with
      | none => simp [hg2] at h
      | some el => simp only [hg2] at h; exact ⟨m, el, rfl, hg2, h⟩

/-- `createG` only lets ModelError / ValueError escape — partial: for elements whose Values / ValueMap qualifiers
    are not NULL-valued (C20-KF2).  Full statement (fails: `C20_createQ_null_value_leaks_fails_at`): no `hn`. -/
theorem C20_factory_only_documented_errors_partial (gc : Except PyExc ClassG) (n n2 : Str) (vd : Option Str) (x : PyExc)
    (hn : ∀ c, gc = .ok c → ∀ el : ElemG,
        (el ∈ c.props.map (·.2) ∨ ∃ m ∈ c.methods.map (·.2), el = m.ret ∨ el ∈ m.params.map (·.2)) →
        el.toQ.values ≠ some none ∧ el.toQ.valuemap ≠ some none)
    (h : forProperty gc n vd = .error x ∨ forMethod gc n vd = .error x ∨ forParameter gc n n2 vd = .error x) :
    gc = .error x ∨ x = .keyError ∨ x = .modelError ∨ x = .valueError := by
  have hmem : ∀ {α} (d : List (Str × α)) (k : Str) (v : α), ncGet d k = some v → v ∈ d.map (·.2) := by
    intro α d k v hg
    unfold ncGet at hg
    cases hf : d.find? (fun p => fold p.1 = fold k) with
    | none => simp [hf] at hg
    | some p =>
      simp [hf] at hg; subst hg
      exact List.mem_map.mpr ⟨p, List.mem_of_find?_eq_some hf, rfl⟩
  have hcreate : ∀ el : ElemG, el.toQ.values ≠ some none ∧ el.toQ.valuemap ≠ some none →
      createG el vd = .error x → x = .modelError ∨ x = .valueError :=
    fun el hq hc => C20_createQ_only_model_or_value_error_partial el.toQ vd hq x hc
  cases gc with
  | error y =>
    rcases h with h | h | h <;> (simp [forProperty, forMethod, forParameter] at h; left; rw [h])
  | ok c =>
    right
    have hn' := hn c rfl
    rcases h with h | h | h
    · simp only [forProperty] at h
      cases hg : ncGet c.props n with
      | none => simp [hg] at h; exact Or.inl h.symm
      | some el =>
        simp only [hg] at h
        exact Or.inr (hcreate el (hn' el (Or.inl (hmem _ _ _ hg))) h)
    · simp only [forMethod] at h
      cases hg : ncGet c.methods n with
      | none => simp [hg] at h; exact Or.inl h.symm
      | some m =>
        simp only [hg] at h
        exact Or.inr (hcreate m.ret (hn' m.ret (Or.inr ⟨m, hmem _ _ _ hg, Or.inl rfl⟩)) h)
    · simp only [forParameter] at h
      cases hg : ncGet c.methods n with
      | none => simp [hg] at h; exact Or.inl h.symm
      | some m =>
        simp only [hg] at h
        cases hg2 : ncGet m.params n2 with
        | none => simp [hg2] at h; exact Or.inl h.symm
        | some el =>
          simp only [hg2] at h
          exact Or.inr (hcreate el (hn' el (Or.inr ⟨m, hmem _ _ _ hg, Or.inr (hmem _ _ _ hg2)⟩)) h)

/-- non-vacuity: a class with two properties and a method; lookups in other case, a missing name, a failing GetClass -/
example :
    let vq : List (Str × QVal) := [("VALUEMAP".toList, .arr ["1".toList, "2..".toList]), ("values".toList, .arr ["a".toList, "b".toList])]
    let c : ClassG := ⟨[("Q".toList, ⟨"string", []⟩), ("P".toList, ⟨"uint8", vq⟩)], [("M".toList, ⟨⟨"sint8", vq⟩, [("A".toList, ⟨"uint16", vq⟩)]⟩)]⟩
    (match forProperty (.ok c) "p".toList none with | .ok vm => decide (tovalues vm 200 = .ok "b".toList) | _ => false) = true ∧
    (match forMethod (.ok c) "m".toList none with | .ok vm => decide (tovalues vm 127 = .ok "b".toList ∧ tovalues vm 128 = .error .valueError) | _ => false) = true ∧
    (match forParameter (.ok c) "M".toList "a".toList none with | .ok vm => decide (tovalues vm 65535 = .ok "b".toList) | _ => false) = true ∧
    forProperty (.ok c) "R".toList none = .error .keyError ∧ forProperty (.ok c) "Q".toList none = .error .modelError ∧
    forParameter (.ok c) "M".toList "B".toList none = .error .keyError ∧
    forProperty (.error (.cimError 6)) "P".toList none = .error (.cimError 6) := by
  decide +kernel

end Factory

/-! ### argument forms of tovalues() / tobinary() -/
section Arguments
open Pywbem.Model.ValueMap.Api

/-- **tovalues(None) is None; a list or tuple is translated item by item** (result list of the same length, item i
    = the single-value translation of item i), and the call fails exactly with the exception of the first item
    whose single-value translation fails. -/
theorem C20_tovalues_argument_forms (vm : VM) :
    tovaluesArg vm (.scalar .none) = .ok .none ∧
    (∀ xs ss, tovaluesArg vm (.list xs) = .ok (.list ss) ↔
        ss.length = xs.length ∧ ∀ (i : Nat) x, xs[i]? = some x → ∃ s, ss[i]? = some s ∧ tovaluesSingle vm x = .ok s) ∧
    (∀ xs e, tovaluesArg vm (.list xs) = .error e ↔
        ∃ pre x post, xs = pre ++ x :: post ∧ (∀ y ∈ pre, ∃ s, tovaluesSingle vm y = .ok s) ∧
          tovaluesSingle vm x = .error e) := by
  refine ⟨rfl, ?_, ?_⟩
  · intro xs ss
    rw [← tovaluesList_ok_iff]
    simp only [tovaluesArg]
    cases tovaluesList vm xs <;> simp
  · intro xs e
    rw [← tovaluesList_error_iff]
    simp only [tovaluesArg]
    cases tovaluesList vm xs <;> simp

/-- **int, CIMInt and bool arguments are the integer they denote; everything else is TypeError**
    (None inside a list, str, float, a nested list) — and tobinary accepts only str. -/
theorem C20_argument_types (vm : VM) (v : Int) (b : Bool) (s : Str) :
    tovaluesSingle vm (.int v) = tovalues vm v ∧ tovaluesSingle vm (.cimint v) = tovalues vm v ∧
    tovaluesSingle vm (.bool b) = tovalues vm (if b then 1 else 0) ∧
    tovaluesSingle vm .none = .error .typeError ∧ tovaluesSingle vm (.str s) = .error .typeError ∧
    tovaluesSingle vm .other = .error .typeError ∧
    tobinaryArg vm (.str s) = tobinary vm s ∧
    (∀ x, (∀ t, x ≠ .str t) → tobinaryArg vm x = .error .typeError) := by
  refine ⟨rfl, rfl, rfl, rfl, rfl, rfl, rfl, ?_⟩
  intro x hx
  cases x <;> first | rfl | exact absurd rfl (hx _)

/-- only ValueError / TypeError escape from tovalues() and tobinary(), whatever is passed -/
theorem C20_lookup_calls_only_value_or_type_error (vm : VM) (x : PyExc) :
    (∀ a, tovaluesArg vm a = .error x → x = .valueError ∨ x = .typeError) ∧
    (∀ a, tobinaryArg vm a = .error x → x = .valueError ∨ x = .typeError) := by
  have hs : ∀ y, tovaluesSingle vm y = .error x → x = .valueError ∨ x = .typeError := by
    intro y hy
    cases y with
    | int v => exact Or.inl ((C20_lookup_only_value_error vm x).1 v hy)
    | cimint v => exact Or.inl ((C20_lookup_only_value_error vm x).1 v hy)
    | bool b => exact Or.inl ((C20_lookup_only_value_error vm x).1 _ hy)
    | none => simp [tovaluesSingle] at hy; exact Or.inr hy.symm
    | str s => simp [tovaluesSingle] at hy; exact Or.inr hy.symm
    | other => simp [tovaluesSingle] at hy; exact Or.inr hy.symm
  constructor
  · intro a h
    cases a with
    | scalar y =>
      cases y with
      | none => simp [tovaluesArg] at h
      | int v => simp only [tovaluesArg] at h; cases h1 : tovaluesSingle vm (.int v) with
        | error e => rw [h1] at h; simp at h; subst h; exact hs _ h1
        | ok s => rw [h1] at h; simp at h
      | cimint v => simp only [tovaluesArg] at h; cases h1 : tovaluesSingle vm (.cimint v) with
        | error e => rw [h1] at h; simp at h; subst h; exact hs _ h1
        | ok s => rw [h1] at h; simp at h
      | bool b => simp only [tovaluesArg] at h; cases h1 : tovaluesSingle vm (.bool b) with
        | error e => rw [h1] at h; simp at h; subst h; exact hs _ h1
        | ok s => rw [h1] at h; simp at h
      | str s => simp [tovaluesArg, tovaluesSingle] at h; exact Or.inr h.symm
      | other => simp [tovaluesArg, tovaluesSingle] at h; exact Or.inr h.symm
    | list xs =>
      have : tovaluesList vm xs = .error x := by
        simp only [tovaluesArg] at h
        cases hl : tovaluesList vm xs with
        | error e => rw [hl] at h; simp at h; rw [h]
        | ok ss => rw [hl] at h; simp at h
      obtain ⟨_, y, _, _, _, hy⟩ := (tovaluesList_error_iff vm xs x).mp this
      exact hs y hy
  · intro a h
    cases a with
    | str s => exact Or.inl ((C20_lookup_only_value_error vm x).2 s h)
    | none => simp [tobinaryArg] at h; exact Or.inr h.symm
    | int v => simp [tobinaryArg] at h; exact Or.inr h.symm
    | cimint v => simp [tobinaryArg] at h; exact Or.inr h.symm
    | bool b => simp [tobinaryArg] at h; exact Or.inr h.symm
    | other => simp [tobinaryArg] at h; exact Or.inr h.symm

end Arguments




/-! ### NULL elements inside the ValueMap array (known finding C20-KF4) -/

/-- the item-level construction (`createI`, items may be None) is `create` when no item is None, so every
    theorem about `create` transfers -/
theorem C20_createI_eq_create (typ : String) (vals vmap : List Str) (vd : Option Str) :
    createI typ vals (vmap.map some) vd = create ⟨typ, some vals, some vmap⟩ vd :=
  createI_eq_create typ vals vmap vd

/-- **a ValueMap array with a NULL element is never accepted** (whatever the other entries, sizes, type, default) -/
theorem C20_null_valuemap_element_never_constructs (typ : String) (vals : List Str) (vmap : List Item)
    (vd : Option Str) (h : none ∈ vmap) (vm : VM) : createI typ vals vmap vd ≠ .ok vm :=
  createI_none_fails typ vals vmap vd h vm

/-- only ModelError / ValueError escape from the item-level construction — partial: arrays without NULL element.
    Full statement (fails, next theorem): for every `vmap : List Item`. -/
theorem C20_createI_only_model_or_value_error_partial (typ : String) (vals : List Str) (vmap : List Item)
    (vd : Option Str) (hn : none ∉ vmap) (x : PyExc) (h : createI typ vals vmap vd = .error x) :
    x = .modelError ∨ x = .valueError := by
  have hv : ∀ l : List Item, none ∉ l → l = (l.filterMap id).map some := by
    intro l
    induction l with
    | nil => intro _; rfl
    | cons a t ih =>
      intro hl
      cases a with
      | none => simp at hl
      | some s =>
        have ht : none ∉ t := by intro hm; exact hl (by simp [hm])
        have := ih ht
        simp only [List.filterMap_cons, id, List.map_cons]
        rw [← this]
  have hv := hv vmap hn
  rw [hv, createI_eq_create] at h
  exact C20_create_only_model_or_value_error _ vd x h

/-- the rejection leaks TypeError (`re.match` on None) or AttributeError (`None.startswith`) -/
theorem C20_null_valuemap_element_leaks_fails_at :
    createI "uint8" ["a".toList, "b".toList] [none, some "1".toList] none = .error .typeError ∧
    createI "uint8" ["a".toList, "b".toList] [some "1..".toList, none] none = .error .attributeError ∧
    createI "uint8" ["a".toList, "b".toList] [some "x".toList, none] none = .error .modelError ∧
    ¬ (∀ (typ : String) (vals : List Str) (vmap : List Item) (vd : Option Str) (x : PyExc),
        createI typ vals vmap vd = .error x → x = .modelError ∨ x = .valueError) := by
  refine ⟨by decide +kernel, by decide +kernel, by decide +kernel, ?_⟩
  intro h
  have := h "uint8" ["a".toList, "b".toList] [none, some "1".toList] none .typeError (by decide +kernel)
  simp at this

/-! ### the stack budget of the neighbour recursion (known finding C20-KF3) -/

/-- **length+1 frames are all `_values_tuple` ever needs**: under any budget of at least (number of ValueMap
    entries)+1 frames the construction is exactly `create` (for which all theorems above hold). -/
theorem C20_budget_length_plus_one_suffices (budget : Nat) (e : Elem) (vd : Option Str)
    (hb : (effMap e.valuemap (e.values.getD []).length).length + 1 ≤ budget) :
    createB budget e vd = create e vd :=
  createB_eq_create budget e vd hb

/-- more stack never changes a finished `_values_tuple` result -/
theorem C20_values_tuple_budget_monotone (T : IntType) (vmap : List Str) (f k i : Nat)
    (h : valuesTuple T vmap f i ≠ .error .recursionError) :
    valuesTuple T vmap (f + k) i = valuesTuple T vmap f i :=
  valuesTuple_ge_stable T vmap f i h k

/-- only ModelError / ValueError escape under a budget — partial: for budgets of at least length+1 frames.
    Full statement (fails, next theorem; CPython's budget is what is left of its recursion limit, so a chain
    of ~1000 consecutive open ranges raises RecursionError): no hypothesis `hb`. -/
theorem C20_createB_only_model_or_value_error_partial (budget : Nat) (e : Elem) (vd : Option Str)
    (hb : (effMap e.valuemap (e.values.getD []).length).length + 1 ≤ budget) (x : PyExc)
    (h : createB budget e vd = .error x) : x = .modelError ∨ x = .valueError := by
  rw [createB_eq_create budget e vd hb] at h
  exact C20_create_only_model_or_value_error e vd x h

/-- a chain of four left-open ranges under three frames: RecursionError; under five frames: constructed -/
def chain4 : Elem := ⟨"uint8", some ["a".toList, "b".toList, "c".toList, "d".toList],
  some ["..1".toList, "..2".toList, "..3".toList, "..4".toList]⟩

theorem C20_small_budget_recursion_error_fails_at :
    ¬ (∀ (budget : Nat) (e : Elem) (vd : Option Str) (x : PyExc),
        createB budget e vd = .error x → x = .modelError ∨ x = .valueError) := by
  intro h
  have := h 3 chain4 none .recursionError (by decide +kernel)
  simp at this

example : (match createB 5 chain4 none with | .ok vm => decide (tovalues vm 3 = .ok "c".toList) | .error _ => false) = true := by
  decide +kernel

/-! ### type limits of the 8 CIM integer types -/

/-- every CIM integer type name is found with its limits, other CIM type names are not integer types -/
theorem C20_int_type_lookup :
    intTypeOf "uint8" = some ⟨0, 255⟩ ∧ intTypeOf "sint8" = some ⟨-128, 127⟩ ∧
    intTypeOf "uint16" = some ⟨0, 65535⟩ ∧ intTypeOf "sint16" = some ⟨-32768, 32767⟩ ∧
    intTypeOf "uint32" = some ⟨0, 4294967295⟩ ∧ intTypeOf "sint32" = some ⟨-2147483648, 2147483647⟩ ∧
    intTypeOf "uint64" = some ⟨0, 18446744073709551615⟩ ∧
    intTypeOf "sint64" = some ⟨-9223372036854775808, 9223372036854775807⟩ ∧
    (∀ t ∈ ["string", "boolean", "real32", "real64", "datetime", "char16", "reference", "Uint8", ""],
      intTypeOf t = none) := by
  decide +kernel

/-- **Open ends at the array border resolve against the type limits**: in every successfully resolved
    ValueMap, a first entry with an open lower end starts at the type's minvalue and a last entry with an
    open upper end stops at the type's maxvalue (for any type record, hence for all 8 types). -/
theorem C20_border_open_ends_use_type_limits (T : IntType) (raws : List Raw) (ents : List Ent)
    (h : resolve T raws = some ents) :
    (∀ hi, raws[0]? = some (.range none hi) → ∃ h', ents[0]? = some (some (T.minv, h'))) ∧
    (∀ lo, raws[raws.length - 1]? = some (.range lo none) →
        ∃ l', ents[raws.length - 1]? = some (some (l', T.maxv))) := by
  obtain ⟨_, hpt⟩ := (resolveFrom_some_iff T raws raws 0 ents).mp h
  constructor
  · intro hi h0
    obtain ⟨e, he, hr⟩ := hpt 0 _ h0
    obtain ⟨lo, hi', rfl, h1, _⟩ := resolveAt_some hr (by simp)
    simp [specLo] at h1
    exact ⟨hi', by rw [he, h1]⟩
  · intro lo hl
    obtain ⟨e, he, hr⟩ := hpt _ _ hl
    obtain ⟨lo', hi', rfl, _, h2⟩ := resolveAt_some hr (by simp)
    have hpos : 0 < raws.length := by
      have := (List.getElem?_eq_some_iff.mp hl).1; omega
    simp only [Nat.zero_add, specHi, show raws.length - 1 + 1 = raws.length by omega, if_true] at h2
    simp at h2
    exact ⟨lo', by rw [he, h2]⟩

/-- **Open ends inside the array are contiguous with the neighbour**: in every successfully resolved ValueMap,
    an entry with an open lower end (not the first) starts exactly one above the upper end of the resolved left
    neighbour, and an entry with an open upper end (not the last) stops exactly one below the lower end of the
    resolved right neighbour — no gap, no overlap between them. -/
theorem C20_inner_open_ends_contiguous (T : IntType) (raws : List Raw) (ents : List Ent)
    (h : resolve T raws = some ents) (i : Nat) :
    (∀ hi, raws[i + 1]? = some (.range none hi) →
        ∃ l h' lo' hi', ents[i]? = some (some (l, h')) ∧ ents[i + 1]? = some (some (lo', hi')) ∧ lo' = h' + 1) ∧
    (∀ lo, raws[i]? = some (.range lo none) → i + 1 < raws.length →
        ∃ l' h' lo' hi', ents[i]? = some (some (lo', hi')) ∧ ents[i + 1]? = some (some (l', h')) ∧ hi' = l' - 1) := by
  obtain ⟨_, hpt⟩ := (resolveFrom_some_iff T raws raws 0 ents).mp h
  have hpt' : ∀ (k : Nat) r, raws[k]? = some r → ∃ e, ents[k]? = some e ∧ resolveAt T raws k r = some e := by
    intro k r hr; simpa using hpt k r hr
  constructor
  · intro hi h1
    obtain ⟨e1, he1, hr1⟩ := hpt' (i + 1) _ h1
    obtain ⟨lo', hi', rfl, hlo, _⟩ := resolveAt_some hr1 (by simp)
    simp only [specLo, Nat.add_one_ne_zero, if_false, Nat.add_sub_cancel] at hlo
    cases hp : raws[i]? with
    | none => simp [hp] at hlo
    | some p =>
      simp [hp] at hlo
      obtain ⟨ph, hph, hlo'⟩ := hlo
      obtain ⟨e0, he0, hr0⟩ := hpt' i p hp
      obtain ⟨l, h', rfl, _, hhi0⟩ := resolveAt_some hr0 (closedHi_ne_unclaimed hph)
      rw [specHi_of_closedHi T raws i hph] at hhi0
      simp at hhi0; subst hhi0
      exact ⟨l, ph, lo', hi', he0, he1, hlo'.symm⟩
  · intro lo h0 hlt
    obtain ⟨e0, he0, hr0⟩ := hpt' i _ h0
    obtain ⟨lo', hi', rfl, _, hhi⟩ := resolveAt_some hr0 (by simp)
    have hne : i + 1 ≠ raws.length := by omega
    simp only [specHi, hne, if_false] at hhi
    cases hp : raws[i + 1]? with
    | none => simp [hp] at hhi
    | some p =>
      simp [hp] at hhi
      obtain ⟨nl, hnl, hhi'⟩ := hhi
      obtain ⟨e1, he1, hr1⟩ := hpt' (i + 1) p hp
      obtain ⟨l', h', rfl, hlo1, _⟩ := resolveAt_some hr1 (closedLo_ne_unclaimed hnl)
      rw [specLo_of_closedLo T raws (i + 1) hnl] at hlo1
      simp at hlo1; subst hlo1
      exact ⟨nl, h', lo', hi', he0, he1, hhi'.symm⟩

/-- exhaustive instance on an 8-bit type: `{"..-1", "0", "1.."}` on sint8 — every one of the 256 values and
    the two neighbours outside the type -/
theorem C20_sint8_sign_example_exhaustive :
    (match create ⟨"sint8", some ["neg".toList, "zero".toList, "pos".toList],
                   some ["..-1".toList, "0".toList, "1..".toList]⟩ none with
     | .error _ => false
     | .ok vm =>
       (List.range 256).all (fun n =>
         let v : Int := Int.ofNat n - 128
         decide (tovalues vm v = .ok (if v < 0 then "neg".toList else if v = 0 then "zero".toList else "pos".toList))) &&
       decide (tovalues vm (-129) = .error .valueError) && decide (tovalues vm 128 = .error .valueError) &&
       decide (tobinary vm "neg".toList = .ok (.range (-128) (-1))) &&
       decide (tobinary vm "pos".toList = .ok (.range 1 127))) = true := by
  decide +kernel

/-- the integer type limits regenerated from pywbem/_cim_types.py are the DSP0004 ones -/
theorem C20_int_type_limits :
    Pywbem.Generated.IntTypesVM.table =
      [("uint8", 0, 2 ^ 8 - 1), ("sint8", -2 ^ 7, 2 ^ 7 - 1), ("uint16", 0, 2 ^ 16 - 1), ("sint16", -2 ^ 15, 2 ^ 15 - 1),
       ("uint32", 0, 2 ^ 32 - 1), ("sint32", -2 ^ 31, 2 ^ 31 - 1), ("uint64", 0, 2 ^ 64 - 1), ("sint64", -2 ^ 63, 2 ^ 63 - 1)] := by
  decide

/-- the class docstring example of pywbem/_valuemapping.py -/
def docExample : Elem := ⟨"uint16",
  some ["zero".toList, "two-four".toList, "five-six".toList, "seven-eight".toList, "nine".toList, "unclaimed".toList],
  some ["0".toList, "2..4".toList, "..6".toList, "7..".toList, "9".toList, "..".toList]⟩

/-- non-vacuity / concrete instance: the docstring example, all values 0..11, two tobinary calls, items -/
theorem C20_docstring_example :
    (match create docExample none with
     | .error _ => false
     | .ok vm =>
       decide ((List.range 12).map (fun n => tovalues vm (Int.ofNat n)) =
         ["zero", "unclaimed", "two-four", "two-four", "two-four", "five-six", "five-six", "seven-eight", "seven-eight",
          "nine", "unclaimed", "unclaimed"].map (fun s => .ok s.toList)) &&
       decide (tobinary vm "five-six".toList = .ok (.range 5 6)) &&
       decide (tobinary vm "unclaimed".toList = .ok .unclaimed) &&
       decide ((items vm).map (·.1) = [.single 0, .range 2 4, .range 5 6, .range 7 8, .single 9, .unclaimed])) = true := by
  decide +kernel

end C20
