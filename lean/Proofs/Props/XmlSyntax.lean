/-
XmlSyntax — the element-level hypothesis of the CIM-XML wire model, discharged: `par` (Pywbem/Model/XmlParse.lean,
a concrete executable model of xml_to_tupletree_sax + CIMContentHandler over expat) applied to what minidom
`toxml()` writes (`Xml.ser`) returns the tree as the receiver sees it (`wireTree`).
ONLY property theorems and non-vacuity examples live here; helper lemmas are in Proofs/Lemmas/XmlParse.lean.

`WfTree t` (decidable, `wfTree`): element and attribute names are XML Names — first character an ASCII letter, `_` or `:`,
further characters additionally ASCII digits, `-`, `.` (the ASCII part of the XML Name production; hence no white space, `<`, `>`, `/`, `=`,
quotes, `&`; not empty; no leading digit) —, attribute names of one element pairwise distinct (`hasDup … = false`,
equivalent to `List.Nodup` by `Proofs.XmlParse.hasDup_eq_false_iff`), all characters of texts and attribute values
XML Chars.
`StableTree t` (decidable, `stableTree`): texts contain no CR, attribute values no TAB / LF / CR, no empty and no
adjacent text children.
`wireTree`: attribute values through `wireAttr`; the strings of adjacent text children are concatenated and the
result goes through `wireText` (concatenating first matters: a CR ending one text node and an LF starting the next
arrive as ONE line feed); empty character data leaves no node.
-/
import Proofs.Lemmas.XmlParse
import Proofs.Lemmas.XmlCdata

namespace XmlSyntax
open Pywbem.Model Pywbem.Model.XmlText Pywbem.Model.XmlParse Proofs.XmlParse

/-- **Round trip.** Parsing the serialisation of a well-formed element returns the tree the receiver sees. -/
theorem XmlSyntax_par_ser (t : Xml) (h : WfTree t) (hel : t.isElem = true) : par (Xml.ser t) = wireTree t := by
  cases t with
  | text s => simp [Xml.isElem] at hel
  | elem n as ks => exact par_ser n as ks h

/-- … and the receiver always sees something: the serialisation of a well-formed element is never rejected. -/
theorem XmlSyntax_par_ser_accepts (t : Xml) (h : WfTree t) (hel : t.isElem = true) : ∃ t', par (Xml.ser t) = some t' := by
  rw [XmlSyntax_par_ser t h hel]; exact wireTree_isSome t h

/-- **Stable round trip.** Texts without CR, attribute values without TAB/LF/CR, no empty or adjacent text children:
    the receiver sees exactly the tree the sender wrote. -/
theorem XmlSyntax_par_ser_stable (t : Xml) (h : WfTree t) (hel : t.isElem = true) (hs : StableTree t) :
    par (Xml.ser t) = some t := by
  rw [XmlSyntax_par_ser t h hel]; exact wireTree_stable t h hs

/-- **XML declaration.** The declaration line pywbem puts in front of requests and responses changes nothing. -/
theorem XmlSyntax_decl (t : Xml) (h : WfTree t) (hel : t.isElem = true) :
    par ("<?xml version=\"1.0\" encoding=\"utf-8\" ?>\n".toList ++ Xml.ser t) = par (Xml.ser t) := by
  cases t with
  | text s => simp [Xml.isElem] at hel
  | elem n as ks =>
    have hn : isName n = true := by
      have h' : wfTree (.elem n as ks) = true := h
      simp only [wfTree, Bool.and_eq_true] at h'; exact h'.1.1.1
    exact par_decl (ser_elem_startsTag n as ks hn)

/-! ### non-vacuity -/

/-- nested elements, attribute values containing `& < > "` (and `'`, TAB), a text containing `]]>` and CR LF split
    over two adjacent text nodes, an empty-text child (`<VALUE></VALUE>`), an element without children -/
def sample : Xml :=
  .elem "INSTANCE".toList [("CLASSNAME".toList, "a&<>\"'\tb".toList), ("x:y-z.1".toList, [])]
    [.elem "VALUE".toList [] [.text []],
     .text "a]]>\r".toList, .text "\nb".toList,
     .elem "PROPERTY".toList [("NAME".toList, "P".toList)] [.elem "VALUE".toList [] [.text "1 < 2 & 3".toList]],
     .elem "E".toList [] []]

/-- what the receiver sees of `sample`: TAB became a blank, `<VALUE></VALUE>` has no child, the two text nodes are
    one and CR LF is one LF -/
def sampleWire : Xml :=
  .elem "INSTANCE".toList [("CLASSNAME".toList, "a&<>\"' b".toList), ("x:y-z.1".toList, [])]
    [.elem "VALUE".toList [] [],
     .text "a]]>\nb".toList,
     .elem "PROPERTY".toList [("NAME".toList, "P".toList)] [.elem "VALUE".toList [] [.text "1 < 2 & 3".toList]],
     .elem "E".toList [] []]

example : WfTree sample ∧ sample.isElem = true := by decide
example : Xml.ser sample =
    ("<INSTANCE CLASSNAME=\"a&amp;&lt;&gt;&quot;'\tb\" x:y-z.1=\"\"><VALUE></VALUE>a]]&gt;\r\nb" ++
     "<PROPERTY NAME=\"P\"><VALUE>1 &lt; 2 &amp; 3</VALUE></PROPERTY><E/></INSTANCE>").toList := by decide +kernel
example : wireTree sample = some sampleWire := by rfl
example : par (Xml.ser sample) = some sampleWire :=
  (XmlSyntax_par_ser sample (by decide) (by decide)).trans (by rfl)
example : WfTree sampleWire ∧ sampleWire.isElem = true ∧ StableTree sampleWire := by decide
example : par (Xml.ser sampleWire) = some sampleWire := XmlSyntax_par_ser_stable sampleWire (by decide) (by decide) (by decide)
example : par ("<?xml version=\"1.0\" encoding=\"utf-8\" ?>\n".toList ++ Xml.ser sample) = some sampleWire :=
  (XmlSyntax_decl sample (by decide) (by decide)).trans ((XmlSyntax_par_ser sample (by decide) (by decide)).trans (by rfl))
set_option maxRecDepth 100000 in
/-- the parser itself, run by the kernel on the document (no theorem involved) -/
example : par (Xml.ser sample) = some sampleWire := by rfl
/-- rejected: duplicate attribute, mismatched end tag, literal `]]>` in content, trailing element, missing blank -/
example : par "<a b=\"1\" b=\"2\"/>".toList = none ∧ par "<a></b>".toList = none ∧ par "<a>]]></a>".toList = none ∧
    par "<a/><b/>".toList = none ∧ par "<a b=\"1\"c=\"2\"/>".toList = none := by
  refine ⟨?_, ?_, ?_, ?_, ?_⟩ <;> rfl

/-! ### CDATA-based escaping (`_cim_xml._CDATA_ESCAPING = True`)

`pcdataSer true s` (Pywbem/Model/XmlCdata.lean) is `_pcdata_nodes(s)` serialised: when `s` contains `<`, `>` or `&`
it is `s.split("]]>")` written as CDATA sections with the end marker split between neighbours, otherwise the
entity-escaped text node.  `Xml.serWith m` is `Xml.ser` with the text children written by `pcdataSer m`. -/

open Pywbem.Model.XmlCdata Proofs.XmlCdata

/-- **Split and re-join.** The contents of the CDATA sections written for `s`, concatenated, are `s` — for any
    number of `]]>` occurrences, adjacent (`]]>]]>`) or overlapping with brackets (`]]]>`). -/
theorem XmlSyntax_cdata_join (s : Str) : (cdataData true (splitCd s)).flatten = s := cdataData_join s

/-- No section's data contains `]]>`: minidom's `CDATASection.writexml` never raises, and each section ends where
    the writer meant it to end. -/
theorem XmlSyntax_cdata_sections_closed (s : Str) : ∀ d ∈ cdataData true (splitCd s), hasCdEnd d = false :=
  cdataData_noEnd true _ (splitCd_noEnd s)

/-- **One text child, CDATA mode.** The receiver gets the same text as with entity escaping: the string with its line
    ends normalised (CR and CR LF inside a CDATA section become LF just as in character data), no child for the
    empty string. -/
theorem XmlSyntax_par_cdata_text (n : Str) (as : List (Str × Str)) (s : Str) (h : WfTree (.elem n as [.text s])) :
    par (Xml.serWith true (.elem n as [.text s])) = wireTree (.elem n as [.text s]) ∧
    wireKids [] [.text s] = some (if s = [] then [] else [.text (normEOL false s)]) := by
  refine ⟨par_serWith_true n as [.text s] h (cdSafe_single n as s), ?_⟩
  have h' : wfTree (.elem n as [.text s]) = true := h
  simp only [wfTree, wfKids, Bool.and_eq_true, List.all_eq_true] at h'
  simp [wireKids, flushText_xml h'.2.1]

/- Full statement asked for — FALSE, for the model and for the real expat alike (`XmlSyntax_par_serWith_needs_cdSafe`):
     theorem XmlSyntax_par_serWith (m) (t) (h : WfTree t) (hel : t.isElem = true) : par (Xml.serWith m t) = wireTree t
   A text child ending in CR directly followed by a text child starting with LF is one run `…\r\n…` under entity
   escaping (one LF arrives) but two tokens when either is a CDATA section (two LF arrive: checked against
   xml_to_tupletree_sax on `<A><![CDATA[<\r]]>\n</A>`).  pywbem never writes two text nodes into one element.
   `CdSafe t` (decidable): no text child ending in CR is directly followed by another text child. -/

/-- **Round trip, either escaping mode.** -/
theorem XmlSyntax_par_serWith (m : Bool) (t : Xml) (h : WfTree t) (hel : t.isElem = true)
    (hc : m = true → CdSafe t) : par (Xml.serWith m t) = wireTree t := by
  cases m with
  | false => rw [serWith_false]; exact XmlSyntax_par_ser t h hel
  | true =>
    cases t with
    | text s => simp [Xml.isElem] at hel
    | elem n as ks => exact par_serWith_true n as ks h (hc rfl)

/-- **Stable round trip, either escaping mode**: the receiver sees exactly the tree the sender wrote. -/
theorem XmlSyntax_par_serWith_stable (m : Bool) (t : Xml) (h : WfTree t) (hel : t.isElem = true)
    (hs : StableTree t) : par (Xml.serWith m t) = some t := by
  rw [XmlSyntax_par_serWith m t h hel (fun _ => stable_cdSafe t hs)]; exact wireTree_stable t h hs

/-- the unconditional statement fails: CR and LF in two adjacent text children, the first written as CDATA -/
theorem XmlSyntax_par_serWith_needs_cdSafe :
    ∃ t, WfTree t ∧ t.isElem = true ∧ par (Xml.serWith true t) ≠ wireTree t := by
  refine ⟨.elem ['A'] [] [.text ['<', '\r'], .text ['\n']], by decide, rfl, ?_⟩
  have h1 : par (Xml.serWith true (.elem ['A'] [] [.text ['<', '\r'], .text ['\n']])) =
      some (.elem ['A'] [] [.text ['<', '\n', '\n']]) := by rfl
  have h2 : wireTree (.elem ['A'] [] [.text ['<', '\r'], .text ['\n']]) =
      some (.elem ['A'] [] [.text ['<', '\n']]) := by rfl
  rw [h1, h2]
  simp

/-! ### non-vacuity, CDATA mode -/

/-- the bytes: empty string; no special character (plain, `"` still escaped); special character, no `]]>`; one, two,
    adjacent and overlapping `]]>` -/
example : pcdataSer true [] = [] ∧
    pcdataSer true "a\"b]]".toList = "a&quot;b]]".toList ∧
    pcdataSer true "a<b&c".toList = "<![CDATA[a<b&c]]>".toList ∧
    pcdataSer true "a]]>b".toList = "<![CDATA[a]]]><![CDATA[]>b]]>".toList ∧
    pcdataSer true "a]]>b]]>c".toList = "<![CDATA[a]]]><![CDATA[]>b]]]><![CDATA[]>c]]>".toList ∧
    pcdataSer true "]]>]]>".toList = "<![CDATA[]]]><![CDATA[]>]]]><![CDATA[]>]]>".toList ∧
    pcdataSer true "]]]>".toList = "<![CDATA[]]]]><![CDATA[]>]]>".toList ∧
    pcdataSer false "a]]>b".toList = "a]]&gt;b".toList := by decide +kernel

/-- nested escaping as embedded objects produce it: the text of an embedded object, escaped once and twice -/
def emb0 : Str := "<VALUE>a&b</VALUE>".toList
def emb1 : Str := pcdataSer true emb0
def emb2 : Str := pcdataSer true emb1
example : emb1 = "<![CDATA[<VALUE>a&b</VALUE>]]>".toList ∧
    emb2 = "<![CDATA[<![CDATA[<VALUE>a&b</VALUE>]]]><![CDATA[]>]]>".toList := by decide +kernel

def V (s : Str) : Xml := .elem "VALUE".toList [] [.text s]

/-- each level of escaping is undone by one parse: the doubly escaped text is read back as the singly escaped one,
    and that as the original -/
example : par (Xml.serWith true (V emb1)) = some (V emb1) ∧ par ("<VALUE>".toList ++ emb2 ++ "</VALUE>".toList) = some (V emb1) ∧
    par ("<VALUE>".toList ++ emb1 ++ "</VALUE>".toList) = some (V emb0) := by
  refine ⟨?_, ?_, ?_⟩
  · exact XmlSyntax_par_serWith_stable true (V emb1) (by decide +kernel) rfl (by decide +kernel)
  · exact XmlSyntax_par_serWith_stable true (V emb1) (by decide +kernel) rfl (by decide +kernel)
  · exact XmlSyntax_par_serWith_stable true (V emb0) (by decide +kernel) rfl (by decide +kernel)

/-- read back through the theorem: 0, 1, 2, adjacent and overlapping occurrences, CR LF inside a section, empty -/
example : ∀ s ∈ ["a<b&c".toList, "a]]>b".toList, "a]]>b]]>c".toList, "]]>]]>".toList, "]]]>".toList, "]]>".toList,
      "<\r\n]]>\r".toList, []],
    par (Xml.serWith true (V s)) = some (.elem "VALUE".toList [] (if s = [] then [] else [.text (normEOL false s)])) := by
  intro s hs
  have hw : WfTree (V s) := by
    simp only [List.mem_cons, List.mem_nil_iff, or_false] at hs
    rcases hs with rfl | rfl | rfl | rfl | rfl | rfl | rfl | rfl <;> decide +kernel
  obtain ⟨h1, h2⟩ := XmlSyntax_par_cdata_text "VALUE".toList [] s hw
  rw [V, h1]
  simp only [wireTree, wireAttrs, h2]

set_option maxRecDepth 100000 in
/-- the parser itself, run by the kernel (no theorem involved): overlapping end markers, CR LF inside a section -/
example : par (Xml.serWith true (V "]]]>&\r\n]]>".toList)) = some (V "]]]>&\n]]>".toList) := by rfl

/-- a whole tree in CDATA mode: attributes stay entity-escaped, text children become sections -/
example : Xml.serWith true sample =
    ("<INSTANCE CLASSNAME=\"a&amp;&lt;&gt;&quot;'\tb\" x:y-z.1=\"\"><VALUE></VALUE><![CDATA[a]]]><![CDATA[]>\r]]>\nb" ++
     "<PROPERTY NAME=\"P\"><VALUE><![CDATA[1 < 2 & 3]]></VALUE></PROPERTY><E/></INSTANCE>").toList := by decide +kernel
example : CdSafe sampleWire ∧ ¬ CdSafe sample := by decide
example : par (Xml.serWith true sampleWire) = some sampleWire :=
  XmlSyntax_par_serWith_stable true sampleWire (by decide) (by decide) (by decide)

end XmlSyntax

