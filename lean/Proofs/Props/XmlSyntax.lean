/-
XmlSyntax — the element-level hypothesis of the CIM-XML wire model, discharged: `par` (Pywbem/Model/XmlParse.lean,
a concrete executable model of xml_to_tupletree_sax + CIMContentHandler over expat) applied to what minidom
`toxml()` writes (`Xml.ser`) returns the tree as the receiver sees it (`wireTree`).
ONLY property theorems and non-vacuity examples live here; helper lemmas are in Proofs/Lemmas/XmlParse.lean.

`WfTree t` (decidable, `wfTree`): element and attribute names are XML Names — first character an ASCII letter, `_` or `:`,
further characters additionally ASCII digits, `-`, `.` (the ASCII part of the XML Name production; hence no white space, `<`, `>`, `/`, `=`,
quotes, `&`; not empty; no leading digit) —, attribute names of one element pairwise distinct (`hasDup … = false`,
equivalent to `List.Nodup` by `Proofs.XmlParse.hasDup_eq_false_iff`), all characters of texts and attribute values
XML Chars.
`StableTree t` (decidable, `stableTree`): texts contain no CR, attribute values no TAB / LF / CR, no empty and no
adjacent text children.
`wireTree`: attribute values through `wireAttr`; the strings of adjacent text children are concatenated and the
result goes through `wireText` (concatenating first matters: a CR ending one text node and an LF starting the next
arrive as ONE line feed); empty character data leaves no node.
-/
import Proofs.Lemmas.XmlParse

namespace XmlSyntax
open Pywbem.Model Pywbem.Model.XmlText Pywbem.Model.XmlParse Proofs.XmlParse

/-- **Round trip.** Parsing the serialisation of a well-formed element returns the tree the receiver sees. -/
theorem XmlSyntax_par_ser (t : Xml) (h : WfTree t) (hel : t.isElem = true) : par (Xml.ser t) = wireTree t := by
  cases t with
  | text s => simp [Xml.isElem] at hel
  | elem n as ks => exact par_ser n as ks h

/-- … and the receiver always sees something: the serialisation of a well-formed element is never rejected. -/
theorem XmlSyntax_par_ser_accepts (t : Xml) (h : WfTree t) (hel : t.isElem = true) : ∃ t', par (Xml.ser t) = some t' := by
  rw [XmlSyntax_par_ser t h hel]; exact wireTree_isSome t h

/-- **Stable round trip.** Texts without CR, attribute values without TAB/LF/CR, no empty or adjacent text children:
    the receiver sees exactly the tree the sender wrote. -/
theorem XmlSyntax_par_ser_stable (t : Xml) (h : WfTree t) (hel : t.isElem = true) (hs : StableTree t) :
    par (Xml.ser t) = some t := by
  rw [XmlSyntax_par_ser t h hel]; exact wireTree_stable t h hs

/-- **XML declaration.** The declaration line pywbem puts in front of requests and responses changes nothing. -/
theorem XmlSyntax_decl (t : Xml) (h : WfTree t) (hel : t.isElem = true) :
    par ("<?xml version=\"1.0\" encoding=\"utf-8\" ?>\n".toList ++ Xml.ser t) = par (Xml.ser t) := by
  cases t with
  | text s => simp [Xml.isElem] at hel
  | elem n as ks =>
    have hn : isName n = true := by
      have h' : wfTree (.elem n as ks) = true := h
      simp only [wfTree, Bool.and_eq_true] at h'; exact h'.1.1.1
    exact par_decl (ser_elem_startsTag n as ks hn)

/-! ### non-vacuity -/

/-- nested elements, attribute values containing `& < > "` (and `'`, TAB), a text containing `]]>` and CR LF split
    over two adjacent text nodes, an empty-text child (`<VALUE></VALUE>`), an element without children -/
def sample : Xml :=
  .elem "INSTANCE".toList [("CLASSNAME".toList, "a&<>\"'\tb".toList), ("x:y-z.1".toList, [])]
    [.elem "VALUE".toList [] [.text []],
     .text "a]]>\r".toList, .text "\nb".toList,
     .elem "PROPERTY".toList [("NAME".toList, "P".toList)] [.elem "VALUE".toList [] [.text "1 < 2 & 3".toList]],
     .elem "E".toList [] []]

/-- what the receiver sees of `sample`: TAB became a blank, `<VALUE></VALUE>` has no child, the two text nodes are
    one and CR LF is one LF -/
def sampleWire : Xml :=
  .elem "INSTANCE".toList [("CLASSNAME".toList, "a&<>\"' b".toList), ("x:y-z.1".toList, [])]
    [.elem "VALUE".toList [] [],
     .text "a]]>\nb".toList,
     .elem "PROPERTY".toList [("NAME".toList, "P".toList)] [.elem "VALUE".toList [] [.text "1 < 2 & 3".toList]],
     .elem "E".toList [] []]

example : WfTree sample ∧ sample.isElem = true := by decide
example : Xml.ser sample =
    ("<INSTANCE CLASSNAME=\"a&amp;&lt;&gt;&quot;'\tb\" x:y-z.1=\"\"><VALUE></VALUE>a]]&gt;\r\nb" ++
     "<PROPERTY NAME=\"P\"><VALUE>1 &lt; 2 &amp; 3</VALUE></PROPERTY><E/></INSTANCE>").toList := by decide +kernel
example : wireTree sample = some sampleWire := by rfl
example : par (Xml.ser sample) = some sampleWire :=
  (XmlSyntax_par_ser sample (by decide) (by decide)).trans (by rfl)
example : WfTree sampleWire ∧ sampleWire.isElem = true ∧ StableTree sampleWire := by decide
example : par (Xml.ser sampleWire) = some sampleWire := XmlSyntax_par_ser_stable sampleWire (by decide) (by decide) (by decide)
example : par ("<?xml version=\"1.0\" encoding=\"utf-8\" ?>\n".toList ++ Xml.ser sample) = some sampleWire :=
  (XmlSyntax_decl sample (by decide) (by decide)).trans ((XmlSyntax_par_ser sample (by decide) (by decide)).trans (by rfl))
set_option maxRecDepth 100000 in
/-- the parser itself, run by the kernel on the document (no theorem involved) -/
example : par (Xml.ser sample) = some sampleWire := by rfl
/-- rejected: duplicate attribute, mismatched end tag, literal `]]>` in content, trailing element, missing blank -/
example : par "<a b=\"1\" b=\"2\"/>".toList = none ∧ par "<a></b>".toList = none ∧ par "<a>]]></a>".toList = none ∧
    par "<a/><b/>".toList = none ∧ par "<a b=\"1\"c=\"2\"/>".toList = none := by
  refine ⟨?_, ?_, ?_, ?_, ?_⟩ <;> rfl

end XmlSyntax

