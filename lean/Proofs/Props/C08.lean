/-
C08 — MOF produced by tomof() recompiles to the same objects.  Stage 1 (string level): the part of the
property about string literals ("MOF string literals ... arrive in the compiled object with exactly the
characters DSP0004 escaping denotes, wherever tomof() chose to fold the line").

Model: Pywbem/Model/MofStr.lean (generator side) and Pywbem/Model/MofLex.lean (compiler side).
The declaration level (classes, instances, qualifier declarations as wholes) is NOT modelled; it is
decided by the differential oracle of harness/c08.py only (C08 is labelled partial).
-/
import Proofs.Lemmas.MofStr
import Proofs.Lemmas.MofNum
import Proofs.Lemmas.MofArr
import Proofs.Lemmas.MofValue
import Proofs.Lemmas.MofQualList
import Proofs.Lemmas.MofInst
import Proofs.Lemmas.MofClass
import Proofs.Lemmas.MofTotal
import Proofs.Lemmas.MofInstCase

namespace C08
open Pywbem.Proto Pywbem.Model Pywbem.Model.MofStr Pywbem.Model.MofLex Pywbem.Lemmas.MofStr

/-- The replacement chain of `_mof_escaped`, applied rule after rule in source order, is a simultaneous
    per-character substitution (no rule re-escapes the output of an earlier one).  The side condition on
    the extracted chain is checked by `decide` (`chain_ok`). -/
theorem C08_escape_is_charwise (s : (List Nat)) : escape s = s.flatMap escChar := escape_eq s

/-- Every character is escaped to itself (and is then none of `" ' \ LF CR`), to `\` + a DSP0004 simple
    escape letter denoting it, or to `\x` + exactly four upper-case hex digits with its code point. -/
theorem C08_escape_unit_shape (c : Nat) : UnitShape c (escChar c) := escChar_shape c

/-- unescape ∘ escape = id: `_fixStringValue` applied to the quoted escaped text returns the original string,
    for *every* string (any code points, any length) and either quote character. -/
theorem C08_unescape_escape (q : Nat) (s : (List Nat)) : fixStringValue (q :: escape s ++ [q]) = .ok s :=
  fixStringValue_quoted q s

/-- The lexer's string-token regex, started at the opening quote of a literal produced by escaping, takes
    exactly that literal: it does not stop early at an escaped quote and does not run into the following text. -/
theorem C08_string_token_exact (s rest : (List Nat)) :
    lexStringValue (34 :: escape s ++ 34 :: rest) = some (34 :: escape s ++ [34], rest) := by
  simp [lexStringValue, scan_escape 34 (.inl rfl)]

/-- The fuel `len(escaped value) + 1` given to the loop model always suffices — for all arguments, also
    absurd ones: the model never runs out of fuel (each further iteration strictly shortens `value`). -/
theorem C08_mofstr_fuel_suffices (s : (List Nat)) (indent maxline : Nat) (linePos : Int) (endSpace : Nat)
    (avoid : Bool) (q : Nat) :
    mofstr s indent maxline linePos endSpace avoid q ≠ .error .recursionError := by
  unfold mofstr
  generalize escape s = v
  have key : ∀ (cfg : FoldCfg) (fuel : Nat) (v : (List Nat)) (lp : Int), v.length + 1 ≤ fuel →
      mofstrLoop cfg fuel v lp ≠ .error .recursionError := by
    intro cfg fuel
    induction fuel with
    | zero => intro v lp h; omega
    | succ fuel ih =>
      intro v lp h
      simp only [mofstrLoop]
      split
      · simp
      · split
        · simp
        · split
          · simp
          · rename_i h1 h2
            have hlt : (v.drop (cutPos cfg v lp)).length < v.length := by
              rw [List.length_drop]
              have hv : v ≠ [] := by intro e; subst e; simp at h1
              have hc : cutPos cfg v lp ≠ 0 := by intro e; rw [e] at h2; simp at h2
              have : 0 < v.length := List.length_pos_iff.mpr hv
              omega
            have := ih (v.drop (cutPos cfg v lp)) (lineLp cfg v lp + 2 + (v.take (cutPos cfg v lp)).length) (by omega)
            split
            · rename_i e he; intro hcon; injection hcon with hcon; subst hcon; exact this he
            · simp
  exact key _ _ v linePos (by omega)

/-- Termination without the "endless loop" assertion: for every line width that leaves at least 6 columns
    between the quotes on a continuation line (`indent + 8 ≤ maxline`; tomof() uses indent ≤ 12 and the
    property quantifies over maxline ≥ 40), mofstr returns normally for every string, every start column,
    every end_space and both avoid_splits settings. -/
theorem C08_mofstr_terminates (s : (List Nat)) (indent maxline : Nat) (linePos : Int) (endSpace : Nat)
    (avoid : Bool) (q : Nat) (h : indent + 8 ≤ maxline) :
    ∃ r, mofstr s indent maxline linePos endSpace avoid q = .ok r := by
  unfold mofstr
  obtain ⟨ps, lp, hr, _, _⟩ := loop_pieces ⟨indent, maxline, endSpace, avoid, q⟩ h _ s linePos (Nat.le_refl _)
  exact ⟨_, hr⟩

/-- FOLD SOUNDNESS.  Wherever mofstr folds — every string, every `maxline ≥ indent + 8`, every start
    column, end_space, avoid_splits — the generated text is a sequence of string tokens and white space, and
    lexing it (`t_stringValue`), un-escaping every token (`_fixStringValue`) and concatenating
    (`p_stringValueList`) yields exactly the original string. -/
theorem C08_mofstr_fold_sound (s : (List Nat)) (indent maxline : Nat) (linePos : Int) (endSpace : Nat)
    (avoid : Bool) (h : indent + 8 ≤ maxline) :
    ∃ mof lp, mofstr s indent maxline linePos endSpace avoid 34 = .ok (mof, lp) ∧
      compileStringList mof = some (.ok s) := by
  unfold mofstr
  obtain ⟨ps, lp, hr, hflat, hsep⟩ :=
    loop_pieces ⟨indent, maxline, endSpace, avoid, 34⟩ h _ s linePos (Nat.le_refl _)
  refine ⟨_, lp, hr, ?_⟩
  have hws : ∀ p ∈ ps, p.1.all isWs = true := fun p hp => sepOk_ws _ _ (hsep p hp)
  simp only [compileStringList, lexStringList]
  rw [lex_render ps hws _ (Nat.le_refl _)]
  simp [stringValueList_toks, hflat]

/-- The parts of a folded string are escapes of consecutive substrings: no fold falls inside an escape
    sequence (the defect fixed in mofstr), and every part is preceded by nothing or by newline + indent. -/
theorem C08_mofstr_parts_are_whole_escapes (s : (List Nat)) (indent maxline : Nat) (linePos : Int) (endSpace : Nat)
    (avoid : Bool) (q : Nat) (h : indent + 8 ≤ maxline) :
    ∃ (ps : List ((List Nat) × (List Nat))) (lp : Int),
      mofstr s indent maxline linePos endSpace avoid q = .ok (render q ps, lp) ∧
      (ps.map (·.2)).flatten = s ∧
      ∀ p ∈ ps, p.1 = [] ∨ p.1 = 10 :: List.replicate indent 32 := by
  unfold mofstr
  obtain ⟨ps, lp, hr, hflat, hsep⟩ :=
    loop_pieces ⟨indent, maxline, endSpace, avoid, q⟩ h _ s linePos (Nat.le_refl _)
  exact ⟨ps, lp, hr, hflat, hsep⟩

/-- LINE BOUND and line_pos BOOKKEEPING.  For every string and every `maxline ≥ indent + 8`, whatever the start
    column: no character of the text generated by mofstr lies beyond column `maxline` (a part that cannot be
    folded at a blank is cut within the word, never left over-long; only `end_space` of the *last* part may
    be used up), and the `line_pos` that mofstr returns is the true column after the generated text —
    the number every caller (mofval, _value_tomof, the tomof() methods) bases its next folding decision on. -/
theorem C08_mofstr_line_bound (s : (List Nat)) (indent maxline : Nat) (linePos : Int) (endSpace : Nat)
    (avoid : Bool) (q : Nat) (h : indent + 8 ≤ maxline) (hq : q ≠ 10) (mof : List Nat) (lp : Int)
    (hr : mofstr s indent maxline linePos endSpace avoid q = .ok (mof, lp)) :
    withinLine maxline linePos mof = true ∧ endCol linePos mof = lp := by
  unfold mofstr at hr
  have := loop_cols ⟨indent, maxline, endSpace, avoid, q⟩ h hq _ s linePos mof lp (Nat.le_refl _) hr
  exact ⟨this.2, this.1⟩

/-- ARRAYS OF STRINGS.  `_value_tomof` on a non-empty list of strings — every item folded by mofstr with
    `end_space + 2`, items separated by `, ` or by `,` + new line, `line_pos` adjusted as in the code — produces
    a text that the array-initializer part of the compiler model (string tokens, commas, p_stringValueList per
    item) reads back as exactly the original list: same number of items, same characters, for all strings,
    every `maxline ≥ indent + 8`, every start column, end_space, avoid_splits. -/
theorem C08_string_array_roundtrip (s : List Nat) (ss : List (List Nat)) (indent maxline : Nat) (linePos : Int)
    (endSpace : Nat) (avoid : Bool) (h : indent + 8 ≤ maxline) :
    ∃ mof lp, valueTomof (.inr ((s :: ss).map Item.str)) indent maxline linePos endSpace avoid = .ok (mof, lp) ∧
      compileStringArray mof = some (.ok (s :: ss)) := by
  obtain ⟨segs, lp, hr, hok⟩ := Pywbem.Lemmas.MofArr.array_layout indent maxline endSpace avoid h (s :: ss) true linePos
  refine ⟨_, lp, hr, ?_⟩
  have hlex := Pywbem.Lemmas.MofArr.lexArray_renderArr (s :: ss) true segs hok []
  simp only [List.append_nil] at hlex
  have hnil : lexArray [] = some [] := rfl
  rw [hnil] at hlex
  simp only [Option.map_some, List.append_nil] at hlex
  simp only [compileStringArray, hlex, Option.bind_some, Pywbem.Lemmas.MofArr.groupToks_arr s ss segs hok,
    Option.map_some, Pywbem.Lemmas.MofArr.stringValueLists_segs (s :: ss) true segs hok]

/-- INTEGER LITERALS.  Python's `str(v)` — what tomof() prints for every CIM integer value — followed by
    anything that can follow a value in MOF (end of input or a character that is no digit and none of
    `. x X b B`) is read by the lexer's five numeric token rules, tried in PLY's order (float, hex, binary,
    octal, decimal), as one integer token with value `v`, for every integer `v`. -/
theorem C08_int_literal_roundtrip (v : Int) (rest : List Nat) (hr : Pywbem.Lemmas.MofNum.Delim rest) :
    lexNumber (intStr v ++ rest) = some (.int v, rest) :=
  Pywbem.Lemmas.MofNum.lexNumber_intStr v rest hr

/-- char16: the literal produced for a one-character value is what DSP0004 denotes (its un-escaping is the
    character) ... -/
theorem C08_char16_literal_denotes (c : Nat) : fixStringValue (39 :: escape [c] ++ [39]) = .ok [c] :=
  fixStringValue_quoted 39 [c]

/-- ... but the compiler hands the charValue token on unchanged (known finding C08-F1), so the round trip
    of a char16 value fails already for `'a'`: PARTIAL — the string theorems above exclude char16. -/
theorem C08_char16_roundtrip_fails_at : ¬ (charConstantValue [39, 97, 39] = [97]) := by decide

/-! ## Stage 1 of the declaration level: typed values

`valueToMof` mirrors `_value_tomof` / `_scalar_value_tomof` over typed CIM values (Model/MofVal.lean),
`parseValue` mirrors the lexer, the value productions (`p_initializer`, `p_arrayInitializer`,
`p_constantValueList`, `p_constantValue`, `p_integerValue`, `p_booleanValue`, `p_nullValue`,
`p_stringValueList`) and the typing by `cimvalue`.  Conversions the model does not look into (float repr /
float(), CIMDateTime, WBEM URI) are the `Codec`; their laws are the hypothesis record `CodecLaws` (no axioms). -/

open Pywbem.Model.MofVal Pywbem.Lemmas.MofValue in
/-- VALUE ROUND TRIP (partial: char16 excluded, see `C08_char16_value_roundtrip_fails_at`).
    Full statement intended: for every CIM type and every value the object model can hold for it,
    `parseValue (valueToMof v) = v`.  Proved: for every type, every scalar and every array (any length, NULL
    items allowed) of strings (any content and length), booleans, integers of all 8 types within the range of
    the type, reals (through `CodecLaws`), datetimes and references (through `CodecLaws`), every
    `maxline ≥ indent + 8`, start column, end_space, avoid_splits: whenever `_value_tomof` returns text, reading
    and typing that text gives exactly the value back. -/
theorem C08_value_roundtrip_partial (c : Codec) (L : CodecLaws c) (ty : CimType) (v : Value c)
    (hv : ValueOk c L ty v) (indent maxline : Nat) (hw : indent + 8 ≤ maxline) (linePos : Int) (endSpace : Nat)
    (avoid : Bool) (mof : List Nat) (lp : Int)
    (hr : valueToMof c ty v indent maxline linePos endSpace avoid = .ok (mof, lp)) :
    parseValue c ty (Value.isArray v) mof = some v := by
  cases v with
  | scalar s =>
    simp only [valueToMof] at hr
    cases hi : scalarItem c ty s with
    | error e => simp [hi] at hr
    | ok i =>
      simp only [hi, valueTomof] at hr
      obtain ⟨toks, hst, hlex⟩ := scalar_lex c L ty s hv indent maxline hw linePos endSpace avoid i hi mof lp hr
      have h0 := hlex [] trivial
      simp only [List.append_nil] at h0
      have hl0 : lexToks ([] : List Nat) = some [] := rfl
      rw [hl0] at h0
      simp only [Option.map_some, List.append_nil] at h0
      have hp := parseConst_scalar c s toks [] hst trivial
      simp only [List.append_nil] at hp
      simp [parseValue, Value.isArray, h0, hp, typeRaw_scalar c L ty s hv]
  | array xs =>
    simp only [valueToMof] at hr
    cases hi : scalarItems c ty xs with
    | error e => simp [hi] at hr
    | ok is =>
      simp only [hi, valueTomof] at hr
      obtain ⟨tokss, hall, hlex⟩ := array_lex c L ty indent maxline hw endSpace avoid xs is true linePos mof lp hv hi hr
      have h0 := hlex [] trivial
      simp only [List.append_nil] at h0
      have hl0 : lexToks ([] : List Nat) = some [] := rfl
      rw [hl0] at h0
      simp only [Option.map_some, List.append_nil] at h0
      cases hall with
      | nil => simp [parseValue, Value.isArray, h0, joinToks]
      | cons hs hrest =>
        rename_i s ss t ts
        have hlen := joinToks_length c (s :: ss) (t :: ts) true (.cons hs hrest)
        have hne : joinToks true (t :: ts) ≠ [] := by
          intro e; rw [e] at hlen; simp at hlen
        have hpl : parseConstList (joinToks true (t :: ts)) = some ((s :: ss).map (rawOf c), []) := by
          unfold parseConstList
          have := parseConstList_join c ss ts s t hs hrest ((joinToks true (t :: ts)).length + 1)
            (by simp only [List.length_cons] at hlen; omega)
          simpa [joinToks] using this
        simp only [parseValue, Value.isArray, h0, if_true, hne, if_false, hpl]
        rw [typeRaws_scalars c L ty (s :: ss) hv]
        rfl

open Pywbem.Model.MofVal Pywbem.Lemmas.MofValue in
/-- The generator side fails on such values only with the ValueError documented for `mofval` (a non-string
    literal wider than the line: known finding C08-F2), never with the "endless loop" assertion or a TypeError. -/
theorem C08_value_tomof_fails_only_with_valueerror (c : Codec) (L : CodecLaws c) (ty : CimType) (v : Value c)
    (hv : ValueOk c L ty v) (indent maxline : Nat) (hw : indent + 8 ≤ maxline) (linePos : Int) (endSpace : Nat)
    (avoid : Bool) (e : PyExc) (hr : valueToMof c ty v indent maxline linePos endSpace avoid = .error e) :
    e = .valueError := by
  cases v with
  | scalar s =>
    obtain ⟨i, hi, hni⟩ := scalarItem_ok c L ty s hv
    simp only [valueToMof, hi, valueTomof] at hr
    exact scalarTomof_err i hni indent maxline hw linePos endSpace avoid e hr
  | array xs =>
    obtain ⟨is, hi, hni⟩ := scalarItems_ok c L ty xs hv
    simp only [valueToMof, hi, valueTomof] at hr
    exact arrayTomof_err indent maxline hw endSpace avoid is hni true linePos e hr

/-- toy codec (texts are their own carriers) and laws for it on the two-element float domain
    {"1.5", "1e+16"}: the hypothesis record is satisfiable and the two laws about floats are used -/
@[reducible] def toyCodec : Pywbem.Model.MofVal.Codec :=
  { F := Bool, D := List Nat, R := List Nat,
    realStr := fun b => if b then [49, 46, 53] else [49, 101, 43, 49, 54],
    realParse := fun t => if t = [49, 46, 53] then some true
                          else if t = [49, 101, 43, 49, 54] ∨ t = [49, 46, 48, 101, 43, 49, 54] then some false else none,
    dtStr := id, dtParse := some, refStr := id, refParse := some }

def toyLaws : Pywbem.Model.MofVal.CodecLaws toyCodec :=
  { realOk := fun _ => True,
    realShape := fun (b : Bool) =>
      if b then ⟨false, [49], some [53], none⟩ else ⟨false, [49], none, some (false, [49, 54])⟩,
    realShapeOk := by intro (x : Bool) _; cases x <;> exact ⟨rfl, rfl⟩,
    realRt := by intro (x : Bool) _; cases x <;> rfl,
    realDot0 := by intro (x : Bool) _ h; cases x <;> first | rfl | (simp at h),
    dtOk := fun _ => True, dtRt := fun _ _ => rfl, refOk := fun _ => True, refRt := fun _ _ => rfl }

-- non-vacuity: a real64 array with NULL, a value printed by repr without a fraction (1e+16 -> 1.0e+16) and 1.5
example : Pywbem.Model.MofVal.valueToMof toyCodec .real64 (.array [.real false, .null, .real true]) 3 80 10 1 true =
    .ok ([49, 46, 48, 101, 43, 49, 54, 44, 32, 78, 85, 76, 76, 44, 32, 49, 46, 53], 28) := by rfl
example : Pywbem.Model.MofVal.parseValue toyCodec .real64 true
    [49, 46, 48, 101, 43, 49, 54, 44, 32, 78, 85, 76, 76, 44, 32, 49, 46, 53] =
    some (.array [.real false, .null, .real true]) :=
  C08_value_roundtrip_partial toyCodec toyLaws .real64 (.array [.real false, .null, .real true])
    (by intro s hs; simp at hs; rcases hs with h | h | h <;> subst h <;> simp [Pywbem.Lemmas.MofValue.ScalarOk, toyLaws, Pywbem.Model.MofVal.CimType.isReal])
    3 80 (by decide) 10 1 true _ 28 (by rfl)
-- an integer outside the range of its type is not `ScalarOk` (and the reader refuses it)
example : Pywbem.Model.MofVal.parseValue toyCodec .uint8 false [50, 53, 54] = none := by rfl

/-- char16 (known finding C08-F1): the value `a` of type char16 is written as `'a'` and read back as the
    3-character text, so the value round trip fails at char16 — the exclusion in `ScalarOk` is necessary. -/
theorem C08_char16_value_roundtrip_fails_at :
    Pywbem.Model.MofVal.valueToMof toyCodec .char16 (.scalar (.char16 [97])) 3 80 0 0 false = .ok ([39, 97, 39], 3) ∧
    ¬ (Pywbem.Model.MofVal.parseValue toyCodec .char16 false [39, 97, 39] = some (.scalar (.char16 [97]))) := by
  constructor
  · rfl
  · intro h
    have : Pywbem.Model.MofVal.parseValue toyCodec .char16 false [39, 97, 39] = some (.scalar (.char16 [39, 97, 39])) := by rfl
    rw [this] at h
    injection h with h
    injection h with h
    injection h with h
    exact absurd h (by decide)

/-! ## Stage 2 of the declaration level: qualifier declarations and qualifier lists

`qualDeclTomof` mirrors `CIMQualifierDeclaration.tomof`, `qualifiersTomof` mirrors `_qualifiers_tomof` +
`CIMQualifier.tomof`; `readQualDecl` / `readQualList` are the hand-written reader over the tokens of `lexToks`,
mirroring `p_qualifierDeclaration` (`p_qualifierType_1/_2`, `p_array`, `p_defaultValue`, `p_scope*`,
`p_defaultFlavor`, `p_flavorListWithComma`, `_build_flavors`) and `p_qualifierList` / `p_qualifier` /
`p_qualifierParameter` (Model/MofDecl.lean).  PLY's LALR tables are not modelled (trusted, observed by K). -/

open Pywbem.Model.MofVal Pywbem.Model.MofDecl Pywbem.Lemmas.MofQual in
/-- QUALIFIER DECLARATION ROUND TRIP, modulo exactly the documented defaults (`normQualDecl`: the flavor
    `translatable` survives only when true, `toinstance` is never written).  For every qualifier declaration MOF
    can express (`QualDeclOk`: an identifier as name, any non-reference type, scalar or array with or without
    size, no default or any default value of stage 1, any non-empty scope set, any flavors) and every
    `maxline ≥ 11`: if tomof() returns text, the reader returns the normalised declaration. -/
theorem C08_qualifier_declaration_roundtrip (c : Codec) (L : CodecLaws c) (qd : QualDecl c)
    (hok : QualDeclOk c L qd) (maxline : Nat) (hm : Pywbem.Generated.mofIndent + 8 ≤ maxline) (text : List Nat)
    (hr : qualDeclTomof c qd maxline = .ok text) : readQualDecl c text = some (normQualDecl qd) :=
  qualDecl_roundtrip c L qd hok maxline hm text hr

open Pywbem.Model.MofVal Pywbem.Model.MofDecl Pywbem.Lemmas.MofQualList in
/-- QUALIFIER LIST ROUND TRIP.  For every list of qualifier values (any number, any order) whose declarations are
    in the repository and whose type and flavors are those of their declaration (tomof() writes no flavors on
    qualifier values: the compiler takes them from the declaration), with scalar (NULL included, after the fix
    "explicit NULL qualifier value") or array values of stage 1, every indentation and every
    `maxline ≥ indent + 12`: if `_qualifiers_tomof` returns text, the reader returns exactly the list. -/
theorem C08_qualifier_list_roundtrip (c : Codec) (L : CodecLaws c) (decls : List (QualDecl c))
    (qs : List (Qualifier c)) (hok : ∀ q ∈ qs, QualifierOk c L decls q) (indent maxline : Nat)
    (hm : indent + 1 + Pywbem.Generated.mofIndent + 8 ≤ maxline) (text : List Nat)
    (hr : qualifiersTomof c qs indent maxline = .ok text) : readQualList c decls text = some qs :=
  qualifiers_roundtrip c L decls qs hok indent maxline hm text hr

/-! ## Stage 3 of the declaration level: instances, then classes -/

open Pywbem.Model.MofVal Pywbem.Model.MofDecl Pywbem.Lemmas.MofInst in
/-- INSTANCE ROUND TRIP (partial: embedded instance / embedded object values and char16 values excluded).
    Full statement intended: for every CIMInstance and its class, `readInstance cls (instance.tomof()) = instance`.
    Proved: for every instance (any number of properties, in any order) of a class `cls` whose properties are
    properties of the class with the class's spelling/type/array shape and without qualifiers (`InstPropOk`: what
    the compiler copies from the class), with NULL, scalar or array values of stage 1 — references included through
    `CodecLaws` —, distinct property names, an identifier as class name (any spelling), and every `maxline ≥ 14`:
    if `CIMInstance.tomof` returns text, the reader (`p_instanceDeclaration`, `p_valueInitializer`, typing against
    the class) returns exactly the instance. -/
theorem C08_instance_roundtrip_partial (c : Codec) (L : CodecLaws c) (cls : Class c) (inst : Instance c)
    (hok : InstanceOk c L cls inst) (maxline : Nat)
    (hm : Pywbem.Generated.mofIndent + Pywbem.Generated.mofIndent + 8 ≤ maxline) (text : List Nat)
    (hr : instanceTomof c inst maxline = .ok text) : readInstance c cls text = some inst :=
  instance_roundtrip c L cls inst hok maxline hm text hr

open Pywbem.Model.MofVal Pywbem.Model.MofDecl Pywbem.Lemmas.MofClass in
/-- CLASS ROUND TRIP (partial: char16 default/qualifier values and embedded-object defaults excluded; aliases,
    class_origin / propagated not modelled).  Full statement intended: for every CIMClass,
    `readClass decls (class.tomof()) = class`.  Proved: for every class with any number of qualifiers, properties
    (of every type incl. references, scalar or array with or without size, with or without default value of
    stage 1, each with any number of qualifiers), methods (any non-reference return type, any number of
    parameters of every type incl. references and arrays, qualifiers on methods and parameters), with or without
    superclass, names being identifiers, the qualifier declarations in the repository (`ClassOk`), and every
    `maxline ≥ 21`: if `CIMClass.tomof` returns text, the reader (`p_classDeclaration`, `p_classFeatureList`,
    `p_propertyDeclaration_1..8`, `p_referenceDeclaration`, `p_methodDeclaration`, `p_parameterList`,
    `p_parameter_1..4`, `p_qualifierList`) returns exactly the class, features in order. -/
theorem C08_class_roundtrip_partial (c : Codec) (L : CodecLaws c) (decls : List (QualDecl c)) (cls : Class c)
    (hok : ClassOk c L decls cls) (maxline : Nat)
    (hm : Pywbem.Generated.mofIndent + Pywbem.Generated.mofIndent + Pywbem.Generated.mofIndent + 1 +
      Pywbem.Generated.mofIndent + 8 ≤ maxline) (text : List Nat)
    (hr : classTomof c cls maxline = .ok text) : readClass c decls text = some cls :=
  class_roundtrip c L decls cls hok maxline hm text hr

open Pywbem.Model.MofVal Pywbem.Model.MofDecl Pywbem.Lemmas.MofInstCase in
/-- INSTANCE ROUND TRIP WITH RE-CASED NAMES (partial as `C08_instance_roundtrip_partial`: embedded and char16
    values excluded).  CIM names are case insensitive: an instance may spell its class name and its property names
    in another case than the class declaration.  The compiler copies each property from the class, so the
    property names come back in the class's spelling: reader(instance.tomof()) = `normInstance cls inst`, the
    instance with exactly that documented normalisation (everything else — class name as written, types, array
    shapes, values, order — unchanged).  `C08_instance_roundtrip_partial` is the special case of equal spelling. -/
theorem C08_instance_roundtrip_recased_partial (c : Codec) (L : CodecLaws c) (cls : Class c) (inst : Instance c)
    (hok : InstanceOkC c L cls inst) (maxline : Nat)
    (hm : Pywbem.Generated.mofIndent + Pywbem.Generated.mofIndent + 8 ≤ maxline) (text : List Nat)
    (hr : instanceTomof c inst maxline = .ok text) : readInstance c cls text = some (normInstance cls inst) :=
  instance_roundtripC c L cls inst hok maxline hm text hr

/-! ### totality of the declaration-level generators up to the documented ValueError

Together with the round-trip theorems: for every expressible object, tomof() either raises the ValueError documented
for `mofval` (a non-string literal wider than the line, known finding C08-F2) or returns text that the reader turns
back into the object.  No "endless loop" assertion, no TypeError, no other exception. -/

open Pywbem.Model.MofVal Pywbem.Model.MofDecl Pywbem.Lemmas.MofQual in
theorem C08_qualifier_declaration_tomof_fails_only_with_valueerror (c : Codec) (L : CodecLaws c) (qd : QualDecl c)
    (hok : QualDeclOk c L qd) (maxline : Nat) (hm : Pywbem.Generated.mofIndent + 8 ≤ maxline) (e : PyExc)
    (hr : qualDeclTomof c qd maxline = .error e) : e = .valueError :=
  Pywbem.Lemmas.MofTotal.qualDecl_ve c L qd hok maxline hm e hr

open Pywbem.Model.MofVal Pywbem.Model.MofDecl Pywbem.Lemmas.MofQualList in
theorem C08_qualifier_list_tomof_fails_only_with_valueerror (c : Codec) (L : CodecLaws c) (decls : List (QualDecl c))
    (qs : List (Qualifier c)) (hok : ∀ q ∈ qs, QualifierOk c L decls q) (indent maxline : Nat)
    (hm : indent + 1 + Pywbem.Generated.mofIndent + 8 ≤ maxline) (e : PyExc)
    (hr : qualifiersTomof c qs indent maxline = .error e) : e = .valueError :=
  Pywbem.Lemmas.MofTotal.quals_ve c L qs (fun q hq => (hok q hq).valueOk) indent maxline hm e hr

open Pywbem.Model.MofVal Pywbem.Model.MofDecl Pywbem.Lemmas.MofInst in
theorem C08_instance_tomof_fails_only_with_valueerror (c : Codec) (L : CodecLaws c) (cls : Class c)
    (inst : Instance c) (hok : InstanceOk c L cls inst) (maxline : Nat)
    (hm : Pywbem.Generated.mofIndent + Pywbem.Generated.mofIndent + 8 ≤ maxline) (e : PyExc)
    (hr : instanceTomof c inst maxline = .error e) : e = .valueError :=
  Pywbem.Lemmas.MofTotal.instance_ve c L cls inst hok maxline hm e hr

open Pywbem.Model.MofVal Pywbem.Model.MofDecl Pywbem.Lemmas.MofClass in
theorem C08_class_tomof_fails_only_with_valueerror (c : Codec) (L : CodecLaws c) (decls : List (QualDecl c))
    (cls : Class c) (hok : ClassOk c L decls cls) (maxline : Nat)
    (hm : Pywbem.Generated.mofIndent + Pywbem.Generated.mofIndent + Pywbem.Generated.mofIndent + 1 +
      Pywbem.Generated.mofIndent + 8 ≤ maxline) (e : PyExc)
    (hr : classTomof c cls maxline = .error e) : e = .valueError :=
  Pywbem.Lemmas.MofTotal.class_ve c L decls cls hok maxline hm e hr

-- the ValueError does occur: a real64 literal of 23 characters does not fit a 20-column line
example : Pywbem.Model.MofStr.mofval (List.replicate 23 49) 3 20 0 3 = .error .valueError := by rfl

section Stage2Examples
open Pywbem.Model.MofVal Pywbem.Model.MofDecl Pywbem.Lemmas.MofQual Pywbem.Lemmas.MofQualList Pywbem.Lemmas.MofDoc
open Pywbem.Lemmas.MofValue

/-- `Qualifier Desc : string = "a", Scope(class, any), Flavor(EnableOverride, Translatable);` with toinstance=False -/
def exDecl : QualDecl toyCodec :=
  ⟨[68, 101, 115, 99], .string, false, none, some (.scalar (.str [97])),
   [true, false, false, false, false, false, false, true], ⟨some true, none, some true, some false⟩⟩

theorem exDecl_ok : QualDeclOk toyCodec toyLaws exDecl :=
  { nameWord := ⟨68, [101, 115, 99], rfl, by decide, by decide⟩, nameOk := by rfl, tyOk := by decide,
    sizeArr := fun h => absurd h (by decide), scopesLen := rfl, scopeSome := by decide,
    valueOk := by
      intro v hv
      have : v = .scalar (.str [97]) := by injection hv with hv; exact hv.symm
      subst this
      exact ⟨rfl, rfl, by simp⟩ }

-- non-vacuity of the declaration round trip; the normalisation drops toinstance=False
example : ∃ text, qualDeclTomof toyCodec exDecl 80 = .ok text ∧
    readQualDecl toyCodec text = some (normQualDecl exDecl) ∧ (normQualDecl exDecl).flavors = ⟨some true, none, some true, none⟩ :=
  ⟨_, rfl, C08_qualifier_declaration_roundtrip toyCodec toyLaws exDecl exDecl_ok 80 (by decide) _ rfl, rfl⟩

/-- `[desc ( "x" ), Desc ( NULL )]` against the declaration above: name in another case, explicit NULL -/
def exQuals : List (Qualifier toyCodec) :=
  [⟨[100, 101, 115, 99], .string, .scalar (.str [120]), exDecl.flavors⟩,
   ⟨[68, 101, 115, 99], .string, .scalar .null, exDecl.flavors⟩]

example : ∃ text, qualifiersTomof toyCodec exQuals 3 80 = .ok text ∧ readQualList toyCodec [exDecl] text = some exQuals := by
  refine ⟨_, rfl, C08_qualifier_list_roundtrip toyCodec toyLaws [exDecl] exQuals ?_ 3 80 (by decide) _ rfl⟩
  intro q hq
  simp only [exQuals, List.mem_cons, List.mem_nil_iff, or_false] at hq
  rcases hq with hq | hq <;> subst hq
  · exact ⟨⟨100, [101, 115, 99], rfl, by decide, by decide⟩, by rfl, ⟨exDecl, by rfl, rfl, rfl⟩, rfl⟩
  · exact ⟨⟨68, [101, 115, 99], rfl, by decide, by decide⟩, by rfl, ⟨exDecl, by rfl, rfl, rfl⟩, trivial⟩

open Pywbem.Lemmas.MofClass Pywbem.Lemmas.MofInst in
/-- `[Desc ( "x" )] class C_a : B { [Desc ( NULL )] string P1 = "a"; B REF R; uint8 M( [desc ( "x" )] uint8 a[2]); };` -/
def exClass : Class toyCodec :=
  ⟨[67, 95, 97], some [66], [⟨[68, 101, 115, 99], .string, .scalar (.str [120]), exDecl.flavors⟩],
   [⟨[80, 49], .string, none, false, none, some (.scalar (.str [97])),
      [⟨[68, 101, 115, 99], .string, .scalar .null, exDecl.flavors⟩]⟩,
    ⟨[82], .reference, some [66], false, none, none, []⟩],
   [⟨[77], .uint8, [⟨[97], .uint8, none, true, some 2,
      [⟨[100, 101, 115, 99], .string, .scalar (.str [120]), exDecl.flavors⟩]⟩], []⟩]⟩

open Pywbem.Lemmas.MofClass Pywbem.Lemmas.MofInst in
theorem exQualOk (n : List Nat) (hn : n = [68, 101, 115, 99] ∨ n = [100, 101, 115, 99]) (v : Scalar toyCodec)
    (hv : v = .str [120] ∨ v = .null) : QualifierOk toyCodec toyLaws [exDecl] ⟨n, .string, .scalar v, exDecl.flavors⟩ := by
  rcases hn with h | h <;> subst h <;> rcases hv with h | h <;> subst h
  · exact ⟨⟨68, [101, 115, 99], rfl, by decide, by decide⟩, by rfl, ⟨exDecl, by rfl, rfl, rfl⟩, rfl⟩
  · exact ⟨⟨68, [101, 115, 99], rfl, by decide, by decide⟩, by rfl, ⟨exDecl, by rfl, rfl, rfl⟩, trivial⟩
  · exact ⟨⟨100, [101, 115, 99], rfl, by decide, by decide⟩, by rfl, ⟨exDecl, by rfl, rfl, rfl⟩, rfl⟩
  · exact ⟨⟨100, [101, 115, 99], rfl, by decide, by decide⟩, by rfl, ⟨exDecl, by rfl, rfl, rfl⟩, trivial⟩

open Pywbem.Lemmas.MofClass Pywbem.Lemmas.MofInst in
theorem exClass_ok : ClassOk toyCodec toyLaws [exDecl] exClass where
  nameWord := ⟨67, [95, 97], rfl, by decide, by decide⟩
  nameId := by rfl
  super := by
    intro s hs
    have : s = [66] := by injection hs with hs; exact hs.symm
    subst this; exact ⟨⟨66, [], rfl, by decide, by decide⟩, by rfl⟩
  quals := by
    intro q hq; simp [exClass] at hq; subst hq; exact exQualOk _ (.inl rfl) _ (.inl rfl)
  props := by
    intro p hp
    simp [exClass] at hp
    rcases hp with hp | hp <;> subst hp
    · exact ⟨⟨80, [49], rfl, by decide, by decide⟩, by rfl, ⟨fun h => absurd h (by decide), fun _ => rfl⟩,
        fun h => absurd h (by decide), fun h => absurd h (by decide),
        by intro q hq; simp at hq; subst hq; exact exQualOk _ (.inl rfl) _ (.inr rfl),
        by intro v hv; injection hv with hv; subst hv; exact ⟨rfl, rfl, by simp⟩⟩
    · exact ⟨⟨82, [], rfl, by decide, by decide⟩, by rfl,
        ⟨fun _ => ⟨[66], rfl, ⟨66, [], rfl, by decide, by decide⟩, by rfl⟩, fun h => absurd rfl h⟩,
        fun _ => rfl, fun h => absurd h (by decide), by intro q hq; simp at hq,
        by intro v hv; simp at hv⟩
  methods := by
    intro m hm
    simp [exClass] at hm; subst hm
    refine ⟨⟨77, [], rfl, by decide, by decide⟩, by rfl, by decide, by intro q hq; simp at hq, ?_⟩
    intro p hp; simp at hp; subst hp
    exact ⟨⟨97, [], rfl, by decide, by decide⟩, by rfl, ⟨fun h => absurd h (by decide), fun _ => rfl⟩, fun _ => rfl,
      by intro q hq; simp at hq; subst hq; exact exQualOk _ (.inr rfl) _ (.inl rfl)⟩

-- non-vacuity of the class round trip (qualifier names in two spellings, explicit NULL, reference, array parameter)
example : ∃ text, classTomof toyCodec exClass 80 = .ok text ∧ readClass toyCodec [exDecl] text = some exClass :=
  ⟨_, rfl, C08_class_roundtrip_partial toyCodec toyLaws [exDecl] exClass exClass_ok 80 (by decide) _ rfl⟩

/-- `instance of c_A { P1 = "b"; R = NULL; };` against exClass (class name in another case) -/
def exInst : Instance toyCodec :=
  ⟨[99, 95, 65], [⟨[80, 49], .string, none, false, none, some (.scalar (.str [98])), []⟩,
                  ⟨[82], .reference, some [66], false, none, none, []⟩]⟩

open Pywbem.Lemmas.MofInst in
example : ∃ text, instanceTomof toyCodec exInst 80 = .ok text ∧ readInstance toyCodec exClass text = some exInst := by
  refine ⟨_, rfl, C08_instance_roundtrip_partial toyCodec toyLaws exClass exInst ?_ 80 (by decide) _ rfl⟩
  refine ⟨⟨99, [95, 65], rfl, by decide, by decide⟩, by rfl, ?_, by decide⟩
  intro p hp
  simp [exInst] at hp
  rcases hp with hp | hp <;> subst hp
  · exact ⟨⟨80, [49], rfl, by decide, by decide⟩, by rfl,
      ⟨exClass.props[0], by rfl, rfl, rfl, rfl, rfl, rfl, fun _ => ⟨by rfl, by rfl⟩⟩, rfl,
      by intro v hv; injection hv with hv; subst hv; exact ⟨rfl, rfl, by simp⟩⟩
  · exact ⟨⟨82, [], rfl, by decide, by decide⟩, by rfl,
      ⟨exClass.props[1], by rfl, rfl, rfl, rfl, rfl, rfl, fun h => absurd h (by decide)⟩, rfl,
      by intro v hv; simp at hv⟩

/-- `instance of C_A { p1 = "b"; };` against exClass: property `P1` spelled `p1` comes back as `P1` -/
def exInstC : Instance toyCodec := ⟨[67, 95, 65], [⟨[112, 49], .string, none, false, none, some (.scalar (.str [98])), []⟩]⟩

open Pywbem.Lemmas.MofInstCase in
example : ∃ text, instanceTomof toyCodec exInstC 80 = .ok text ∧
    readInstance toyCodec exClass text = some (normInstance exClass exInstC) ∧
    (normInstance exClass exInstC).props.map (·.name) = [[80, 49]] := by
  refine ⟨_, rfl, C08_instance_roundtrip_recased_partial toyCodec toyLaws exClass exInstC ?_ 80 (by decide) _ rfl, by rfl⟩
  refine ⟨⟨67, [95, 65], rfl, by decide, by decide⟩, by rfl, ?_, by decide⟩
  intro p hp
  simp [exInstC] at hp
  subst hp
  exact ⟨⟨112, [49], rfl, by decide, by decide⟩, by rfl,
    ⟨exClass.props[0], by rfl, rfl, rfl, rfl, rfl, fun _ => ⟨by rfl, by rfl⟩⟩, rfl,
    by intro v hv; injection hv with hv; subst hv; exact ⟨rfl, rfl, by simp⟩⟩

end Stage2Examples

/-! Non-vacuity and necessity of the hypotheses -/

-- the width hypothesis is satisfiable by what tomof() uses (indent 3..12, maxline 80) and at the edge
example : (3 : Nat) + 8 ≤ 80 := by decide
example : ∃ mof lp, mofstr [97, 34, 98] 3 80 0 0 false 34 = .ok (mof, lp) ∧ compileStringList mof = some (.ok [97, 34, 98]) :=
  C08_mofstr_fold_sound _ _ _ _ _ _ (by decide)
-- `a"b` escapes to a\"b; U+0001 to \x0001
example : escape [97, 34, 98] = [97, 92, 34, 98] := by decide
example : escape [1] = [92, 120, 48, 48, 48, 49] := by decide
-- a concrete fold at maxline 11, indent 3: the wanted split column 6 lies inside `\"`, the cut moves to 5
example : mofstr [97, 97, 97, 97, 97, 34, 98] 3 11 3 0 false 34 =
    .ok ([10, 32, 32, 32, 34, 97, 97, 97, 97, 97, 34, 10, 32, 32, 32, 34, 92, 34, 98, 34], 8) := by rfl
-- the line bound on the concrete fold above: columns 3+2+5 = 10 ≤ 11 and 3+2+3 = 8 = returned line_pos
example : withinLine 11 3 [10, 32, 32, 32, 34, 97, 97, 97, 97, 97, 34, 10, 32, 32, 32, 34, 92, 34, 98, 34] = true ∧
    endCol 3 [10, 32, 32, 32, 34, 97, 97, 97, 97, 97, 34, 10, 32, 32, 32, 34, 92, 34, 98, 34] = 8 := by decide
-- arrays: two items, the second starts a new line at maxline 14 (separator `,` + newline)
example : ∃ mof lp, valueTomof (.inr [Item.str [97, 98], Item.str [99, 34, 100]]) 3 14 6 0 true = .ok (mof, lp) ∧
    compileStringArray mof = some (.ok [[97, 98], [99, 34, 100]]) :=
  C08_string_array_roundtrip [97, 98] [[99, 34, 100]] 3 14 6 0 true (by decide)
example : valueTomof (.inr [Item.str [97, 98], Item.str [99, 34, 100]]) 3 14 6 0 true =
    .ok ([34, 97, 98, 34, 44, 10, 32, 32, 32, 34, 99, 92, 34, 100, 34], 8) := by rfl
-- integer literals: the delimiter hypothesis holds for `,` `;` ` ` `)` `}` newline; without it "10b" is binary 2
example : Pywbem.Lemmas.MofNum.Delim [44] ∧ Pywbem.Lemmas.MofNum.Delim [59, 10] ∧ Pywbem.Lemmas.MofNum.Delim [] := by
  simp [Pywbem.Lemmas.MofNum.Delim, isDigit]
example : intStr (-128) = [45, 49, 50, 56] := by decide
example : lexNumber (intStr 10 ++ [98]) = some (.int 2, []) := by decide
/-- without the width hypothesis the code's "endless loop" assertion does fire -/
theorem C08_mofstr_terminates_needs_width :
    mofstr [97, 98, 99] 2 4 0 0 false 34 = .error .assertionError := by rfl

end C08
