/-
C08 — MOF produced by tomof() recompiles to the same objects.  Stage 1 (string level): the part of the
property about string literals ("MOF string literals ... arrive in the compiled object with exactly the
characters DSP0004 escaping denotes, wherever tomof() chose to fold the line").

Model: Pywbem/Model/MofStr.lean (generator side) and Pywbem/Model/MofLex.lean (compiler side).
The declaration level (classes, instances, qualifier declarations as wholes) is NOT modelled; it is
decided by the differential oracle of harness/c08.py only (C08 is labelled partial).
-/
import Proofs.Lemmas.MofStr
import Proofs.Lemmas.MofNum
import Proofs.Lemmas.MofArr

namespace C08
open Pywbem.Proto Pywbem.Model Pywbem.Model.MofStr Pywbem.Model.MofLex Pywbem.Lemmas.MofStr

/-- The replacement chain of `_mof_escaped`, applied rule after rule in source order, is a simultaneous
    per-character substitution (no rule re-escapes the output of an earlier one).  The side condition on
    the extracted chain is checked by `decide` (`chain_ok`). -/
theorem C08_escape_is_charwise (s : (List Nat)) : escape s = s.flatMap escChar := escape_eq s

/-- Every character is escaped to itself (and is then none of `" ' \ LF CR`), to `\` + a DSP0004 simple
    escape letter denoting it, or to `\x` + exactly four upper-case hex digits with its code point. -/
theorem C08_escape_unit_shape (c : Nat) : UnitShape c (escChar c) := escChar_shape c

/-- unescape ∘ escape = id: `_fixStringValue` applied to the quoted escaped text returns the original string,
    for *every* string (any code points, any length) and either quote character. -/
theorem C08_unescape_escape (q : Nat) (s : (List Nat)) : fixStringValue (q :: escape s ++ [q]) = .ok s :=
  fixStringValue_quoted q s

/-- The lexer's string-token regex, started at the opening quote of a literal produced by escaping, takes
    exactly that literal: it does not stop early at an escaped quote and does not run into the following text. -/
theorem C08_string_token_exact (s rest : (List Nat)) :
    lexStringValue (34 :: escape s ++ 34 :: rest) = some (34 :: escape s ++ [34], rest) := by
  simp [lexStringValue, scan_escape 34 (.inl rfl)]

/-- The fuel `len(escaped value) + 1` given to the loop model always suffices — for all arguments, also
    absurd ones: the model never runs out of fuel (each further iteration strictly shortens `value`). -/
theorem C08_mofstr_fuel_suffices (s : (List Nat)) (indent maxline : Nat) (linePos : Int) (endSpace : Nat)
    (avoid : Bool) (q : Nat) :
    mofstr s indent maxline linePos endSpace avoid q ≠ .error .recursionError := by
  unfold mofstr
  generalize escape s = v
  have key : ∀ (cfg : FoldCfg) (fuel : Nat) (v : (List Nat)) (lp : Int), v.length + 1 ≤ fuel →
      mofstrLoop cfg fuel v lp ≠ .error .recursionError := by
    intro cfg fuel
    induction fuel with
    | zero => intro v lp h; omega
    | succ fuel ih =>
      intro v lp h
      simp only [mofstrLoop]
      split
      · simp
      · split
        · simp
        · split
          · simp
          · rename_i h1 h2
            have hlt : (v.drop (cutPos cfg v lp)).length < v.length := by
              rw [List.length_drop]
              have hv : v ≠ [] := by intro e; subst e; simp at h1
              have hc : cutPos cfg v lp ≠ 0 := by intro e; rw [e] at h2; simp at h2
              have : 0 < v.length := List.length_pos_iff.mpr hv
              omega
            have := ih (v.drop (cutPos cfg v lp)) (lineLp cfg v lp + 2 + (v.take (cutPos cfg v lp)).length) (by omega)
            split
            · rename_i e he; intro hcon; injection hcon with hcon; subst hcon; exact this he
            · simp
  exact key _ _ v linePos (by omega)

/-- Termination without the "endless loop" assertion: for every line width that leaves at least 6 columns
    between the quotes on a continuation line (`indent + 8 ≤ maxline`; tomof() uses indent ≤ 12 and the
    property quantifies over maxline ≥ 40), mofstr returns normally for every string, every start column,
    every end_space and both avoid_splits settings. -/
theorem C08_mofstr_terminates (s : (List Nat)) (indent maxline : Nat) (linePos : Int) (endSpace : Nat)
    (avoid : Bool) (q : Nat) (h : indent + 8 ≤ maxline) :
    ∃ r, mofstr s indent maxline linePos endSpace avoid q = .ok r := by
  unfold mofstr
  obtain ⟨ps, lp, hr, _, _⟩ := loop_pieces ⟨indent, maxline, endSpace, avoid, q⟩ h _ s linePos (Nat.le_refl _)
  exact ⟨_, hr⟩

/-- FOLD SOUNDNESS.  Wherever mofstr folds — every string, every `maxline ≥ indent + 8`, every start
    column, end_space, avoid_splits — the generated text is a sequence of string tokens and white space, and
    lexing it (`t_stringValue`), un-escaping every token (`_fixStringValue`) and concatenating
    (`p_stringValueList`) yields exactly the original string. -/
theorem C08_mofstr_fold_sound (s : (List Nat)) (indent maxline : Nat) (linePos : Int) (endSpace : Nat)
    (avoid : Bool) (h : indent + 8 ≤ maxline) :
    ∃ mof lp, mofstr s indent maxline linePos endSpace avoid 34 = .ok (mof, lp) ∧
      compileStringList mof = some (.ok s) := by
  unfold mofstr
  obtain ⟨ps, lp, hr, hflat, hsep⟩ :=
    loop_pieces ⟨indent, maxline, endSpace, avoid, 34⟩ h _ s linePos (Nat.le_refl _)
  refine ⟨_, lp, hr, ?_⟩
  have hws : ∀ p ∈ ps, p.1.all isWs = true := fun p hp => sepOk_ws _ _ (hsep p hp)
  simp only [compileStringList, lexStringList]
  rw [lex_render ps hws _ (Nat.le_refl _)]
  simp [stringValueList_toks, hflat]

/-- The parts of a folded string are escapes of consecutive substrings: no fold falls inside an escape
    sequence (the defect fixed in mofstr), and every part is preceded by nothing or by newline + indent. -/
theorem C08_mofstr_parts_are_whole_escapes (s : (List Nat)) (indent maxline : Nat) (linePos : Int) (endSpace : Nat)
    (avoid : Bool) (q : Nat) (h : indent + 8 ≤ maxline) :
    ∃ (ps : List ((List Nat) × (List Nat))) (lp : Int),
      mofstr s indent maxline linePos endSpace avoid q = .ok (render q ps, lp) ∧
      (ps.map (·.2)).flatten = s ∧
      ∀ p ∈ ps, p.1 = [] ∨ p.1 = 10 :: List.replicate indent 32 := by
  unfold mofstr
  obtain ⟨ps, lp, hr, hflat, hsep⟩ :=
    loop_pieces ⟨indent, maxline, endSpace, avoid, q⟩ h _ s linePos (Nat.le_refl _)
  exact ⟨ps, lp, hr, hflat, hsep⟩

/-- LINE BOUND and line_pos BOOKKEEPING.  For every string and every `maxline ≥ indent + 8`, whatever the start
    column: no character of the text generated by mofstr lies beyond column `maxline` (a part that cannot be
    folded at a blank is cut within the word, never left over-long; only `end_space` of the *last* part may
    be used up), and the `line_pos` that mofstr returns is the true column after the generated text —
    the number every caller (mofval, _value_tomof, the tomof() methods) bases its next folding decision on. -/
theorem C08_mofstr_line_bound (s : (List Nat)) (indent maxline : Nat) (linePos : Int) (endSpace : Nat)
    (avoid : Bool) (q : Nat) (h : indent + 8 ≤ maxline) (hq : q ≠ 10) (mof : List Nat) (lp : Int)
    (hr : mofstr s indent maxline linePos endSpace avoid q = .ok (mof, lp)) :
    withinLine maxline linePos mof = true ∧ endCol linePos mof = lp := by
  unfold mofstr at hr
  have := loop_cols ⟨indent, maxline, endSpace, avoid, q⟩ h hq _ s linePos mof lp (Nat.le_refl _) hr
  exact ⟨this.2, this.1⟩

/-- ARRAYS OF STRINGS.  `_value_tomof` on a non-empty list of strings — every item folded by mofstr with
    `end_space + 2`, items separated by `, ` or by `,` + new line, `line_pos` adjusted as in the code — produces
    a text that the array-initializer part of the compiler model (string tokens, commas, p_stringValueList per
    item) reads back as exactly the original list: same number of items, same characters, for all strings,
    every `maxline ≥ indent + 8`, every start column, end_space, avoid_splits. -/
theorem C08_string_array_roundtrip (s : List Nat) (ss : List (List Nat)) (indent maxline : Nat) (linePos : Int)
    (endSpace : Nat) (avoid : Bool) (h : indent + 8 ≤ maxline) :
    ∃ mof lp, valueTomof (.inr ((s :: ss).map Item.str)) indent maxline linePos endSpace avoid = .ok (mof, lp) ∧
      compileStringArray mof = some (.ok (s :: ss)) := by
  obtain ⟨segs, lp, hr, hok⟩ := Pywbem.Lemmas.MofArr.array_layout indent maxline endSpace avoid h (s :: ss) true linePos
  refine ⟨_, lp, hr, ?_⟩
  have hlex := Pywbem.Lemmas.MofArr.lexArray_renderArr (s :: ss) true segs hok []
  simp only [List.append_nil] at hlex
  have hnil : lexArray [] = some [] := rfl
  rw [hnil] at hlex
  simp only [Option.map_some, List.append_nil] at hlex
  simp only [compileStringArray, hlex, Option.bind_some, Pywbem.Lemmas.MofArr.groupToks_arr s ss segs hok,
    Option.map_some, Pywbem.Lemmas.MofArr.stringValueLists_segs (s :: ss) true segs hok]

/-- INTEGER LITERALS.  Python's `str(v)` — what tomof() prints for every CIM integer value — followed by
    anything that can follow a value in MOF (end of input or a character that is no digit and none of
    `. x X b B`) is read by the lexer's five numeric token rules, tried in PLY's order (float, hex, binary,
    octal, decimal), as one integer token with value `v`, for every integer `v`. -/
theorem C08_int_literal_roundtrip (v : Int) (rest : List Nat) (hr : Pywbem.Lemmas.MofNum.Delim rest) :
    lexNumber (intStr v ++ rest) = some (.int v, rest) :=
  Pywbem.Lemmas.MofNum.lexNumber_intStr v rest hr

/-- char16: the literal produced for a one-character value is what DSP0004 denotes (its un-escaping is the
    character) ... -/
theorem C08_char16_literal_denotes (c : Nat) : fixStringValue (39 :: escape [c] ++ [39]) = .ok [c] :=
  fixStringValue_quoted 39 [c]

/-- ... but the compiler hands the charValue token on unchanged (known finding C08-F1), so the round trip
    of a char16 value fails already for `'a'`: PARTIAL — the string theorems above exclude char16. -/
theorem C08_char16_roundtrip_fails_at : ¬ (charConstantValue [39, 97, 39] = [97]) := by decide

/-! Non-vacuity and necessity of the hypotheses -/

-- the width hypothesis is satisfiable by what tomof() uses (indent 3..12, maxline 80) and at the edge
example : (3 : Nat) + 8 ≤ 80 := by decide
example : ∃ mof lp, mofstr [97, 34, 98] 3 80 0 0 false 34 = .ok (mof, lp) ∧ compileStringList mof = some (.ok [97, 34, 98]) :=
  C08_mofstr_fold_sound _ _ _ _ _ _ (by decide)
-- `a"b` escapes to a\"b; U+0001 to \x0001
example : escape [97, 34, 98] = [97, 92, 34, 98] := by decide
example : escape [1] = [92, 120, 48, 48, 48, 49] := by decide
-- a concrete fold at maxline 11, indent 3: the wanted split column 6 lies inside `\"`, the cut moves to 5
example : mofstr [97, 97, 97, 97, 97, 34, 98] 3 11 3 0 false 34 =
    .ok ([10, 32, 32, 32, 34, 97, 97, 97, 97, 97, 34, 10, 32, 32, 32, 34, 92, 34, 98, 34], 8) := by rfl
-- the line bound on the concrete fold above: columns 3+2+5 = 10 ≤ 11 and 3+2+3 = 8 = returned line_pos
example : withinLine 11 3 [10, 32, 32, 32, 34, 97, 97, 97, 97, 97, 34, 10, 32, 32, 32, 34, 92, 34, 98, 34] = true ∧
    endCol 3 [10, 32, 32, 32, 34, 97, 97, 97, 97, 97, 34, 10, 32, 32, 32, 34, 92, 34, 98, 34] = 8 := by decide
-- arrays: two items, the second starts a new line at maxline 14 (separator `,` + newline)
example : ∃ mof lp, valueTomof (.inr [Item.str [97, 98], Item.str [99, 34, 100]]) 3 14 6 0 true = .ok (mof, lp) ∧
    compileStringArray mof = some (.ok [[97, 98], [99, 34, 100]]) :=
  C08_string_array_roundtrip [97, 98] [[99, 34, 100]] 3 14 6 0 true (by decide)
example : valueTomof (.inr [Item.str [97, 98], Item.str [99, 34, 100]]) 3 14 6 0 true =
    .ok ([34, 97, 98, 34, 44, 10, 32, 32, 32, 34, 99, 92, 34, 100, 34], 8) := by rfl
-- integer literals: the delimiter hypothesis holds for `,` `;` ` ` `)` `}` newline; without it "10b" is binary 2
example : Pywbem.Lemmas.MofNum.Delim [44] ∧ Pywbem.Lemmas.MofNum.Delim [59, 10] ∧ Pywbem.Lemmas.MofNum.Delim [] := by
  simp [Pywbem.Lemmas.MofNum.Delim, isDigit]
example : intStr (-128) = [45, 49, 50, 56] := by decide
example : lexNumber (intStr 10 ++ [98]) = some (.int 2, []) := by decide
/-- without the width hypothesis the code's "endless loop" assertion does fire -/
theorem C08_mofstr_terminates_needs_width :
    mofstr [97, 98, 99] 2 4 0 0 false 34 = .error .assertionError := by rfl

end C08
