/-
C15 — Iter… operations equal the traditional result, with or without pull; clean up.
ONLY property theorems, non-vacuity examples and witnesses live here; helper lemmas are in
Proofs/Lemmas/Iter.lean.  Model: Pywbem/Model/Iter.lean (client generators) on top of
Pywbem/Model/Pull.lean (the C14 server).  Single-call theorems quantify over an arbitrary connection
state (any server table satisfying the C14 invariant, any flag values, any arguments); history theorems
quantify over arbitrary event lists with any number of generators alive at once.
-/
import Proofs.Lemmas.Iter

namespace C15
open Pywbem.Model.Pull Pywbem.Model.Iter Pywbem.Proto Proofs.Pull Proofs.Iter

/-! ### the shape of the seven methods (generated table) -/

/-- Every Iter method has the shape the model assumes: guard `flag is None or flag`, `assert flag is False`,
    `except CIMError` that learns only while the flag is None, flag set to True right after the Open call,
    validation of OperationTimeout and MaxObjectCount before anything else, a `finally` clause that calls
    CloseEnumeration when `pull_result` is not at eos; the status codes that switch the flag are
    CIM_ERR_NOT_SUPPORTED and CIM_ERR_FAILED; only the two Enumerate methods complete paths; only
    IterQueryInstances is not a generator. -/
theorem C15_source_shape :
    (∀ f : Family, f.row.guardIsNoneOrTrue = true ∧ f.row.learnsOnlyWhenNone = true ∧
      f.row.setsTrueAfterOpen = true ∧ f.row.validatesFirst = true ∧ f.row.closesInFinally = true ∧
      f.row.learnCodes = [7, 1] ∧ f.row.rejectCoe = true) ∧
    (∀ f : Family, f.row.completesPath = true ↔ (f = .enumInst ∨ f = .enumPath)) ∧
    (∀ f : Family, f.row.isLazy = true ↔ f ≠ .query) ∧
    (∀ f : Family, f.row.rejectFilter = true ↔ f ≠ .query) ∧
    (∀ f : Family, f.row.rejectRqrc = true ↔ f = .query) := by
  refine ⟨?_, ?_, ?_, ?_, ?_⟩ <;> intro f <;> cases f <;> decide

/-- In the mock, every Open…() registers the pull type its Iter method later pulls with — except
    OpenQueryInstances, which registers 'PullInstancesWithPath' while IterQueryInstances pulls with
    PullInstances (latent: the mock's ExecQuery always answers CIM_ERR_NOT_SUPPORTED first). -/
theorem C15_pull_types_agree : ∀ f : Family, f ≠ .query → openKind f = pullKind f := kinds_agree

theorem C15_query_pull_type_mismatch : openKind .query ≠ pullKind .query := by decide

/-! ### validation comes first -/

/-- **Invalid arguments.**  Whatever the flag and the server say: a call whose OperationTimeout or
    MaxObjectCount is invalid raises at the first `next()`, nothing reaches the server, nothing is learned. -/
theorem C15_validation_first (c : Conn) (a : Args) (e : PyExc) (h : validate a = some e) :
    next c (.notStarted a) = (c, .finished, .raise e) := by
  simp [next, start, h]

/-- … and the exception is exactly the documented one: TypeError for a non-integer, ValueError for
    None / zero / negative MaxObjectCount and for a negative OperationTimeout. -/
theorem C15_validation_classes (a : Args) :
    (a.timeout = .none ∨ (∃ t, a.timeout = .int t ∧ 0 ≤ t) →
      (a.max = .other → validate a = some .typeError) ∧
      (a.max = .none → validate a = some .valueError) ∧
      (∀ k, a.max = .int k → k ≤ 0 → validate a = some .valueError) ∧
      (∀ k, a.max = .int k → 0 < k → validate a = none)) ∧
    (a.timeout = .other → validate a = some .typeError) ∧
    (∀ t, a.timeout = .int t → t < 0 → validate a = some .valueError) := by
  refine ⟨?_, ?_, ?_⟩
  · intro ht
    have hvt : validateTimeout a.timeout = none := by
      rcases ht with ht | ⟨t, ht, h0⟩
      · simp [ht, validateTimeout]
      · simp [ht, validateTimeout]; omega
    refine ⟨?_, ?_, ?_, ?_⟩
    · intro hm; simp [validate, hvt, hm, validateMax]
    · intro hm; simp [validate, hvt, hm, validateMax]
    · intro k hm hk; simp [validate, hvt, hm, validateMax, hk]
    · intro k hm hk; simp [validate, hvt, hm, validateMax]; omega
  · intro ht; simp [validate, ht, validateTimeout]
  · intro t ht h0; simp [validate, ht, validateTimeout, h0]

/-- **Iter = traditional, all configurations at once.**  Any connection state (any flag value for the
    family: None, True, False — configured or learned; server with or without pull; any foreign contexts in
    its table), any arguments of the six generator methods: `k` times `next()` gives
    (1) the first `k` objects of the traditional result unchanged, then StopIteration (pull path), or
    (2) the first `k` objects of the traditional result with completed paths, then StopIteration (fallback), or
    (3) nothing: the very first `next()` raises ValueError, TypeError or a CIMError.
    No fourth behaviour exists (no partial result followed by an error, no duplicates, no reordering). -/
theorem C15_iter_equals_traditional (c : Conn) (a : Args) (k : Nat) (hinv : Inv c.srv) (hq : a.fam ≠ .query) :
    outcome c a k = specOf a.tradObjs k ∨
    outcome c a k = specOf (fallbackItems a) k ∨
    (∃ e, (e = .valueError ∨ e = .typeError ∨ ∃ code, e = .cimError code) ∧
      (k = 0 ∨ outcome c a k = ([], some (.raise e)))) := by
  rcases classify c a with ⟨hv, hu, hd, hns, hp, ht⟩ | ⟨hv, hu, hr, ht⟩ | ⟨e, he⟩
  · exact Or.inl (pull_path_spec c a k hv hu hd hns hp ht hinv hq).1
  · exact Or.inr (Or.inl (fallback_spec c a k hv hu hr ht).1)
  · refine Or.inr (Or.inr ⟨e, ?_, ?_⟩)
    · have := (start_res c a).1
      simp only [next] at he
      rw [he] at this
      rcases this with h | h
      · exact h
      · cases h
    · cases k with
      | zero => exact Or.inl rfl
      | succ k =>
        have := takeN_raise he k
        exact Or.inr (by simp only [outcome]; rw [this.1, this.2])

/-! ### argument forms -/

/-- **An int subclass is its value.**  pywbem.Uint32 / Uint64 (and every other `int` subclass except bool) given for
    MaxObjectCount or OperationTimeout is canonicalised to the plain integer it stands for; a bool and any foreign
    type are "not an integer"; None stays None. -/
theorem C15_int_subclass_is_its_value (v : Int) :
    (PyInt.uint32 v).canon = (PyInt.int v).canon ∧ (PyInt.uint64 v).canon = (PyInt.int v).canon ∧
    (∀ m : PyInt, m.value? = some v → m.canon = .int v) ∧
    (∀ b, (PyInt.bool b).canon = .other) ∧ PyInt.other.canon = .other ∧ PyInt.none.canon = .none := by
  refine ⟨rfl, rfl, ?_, fun _ => rfl, rfl, rfl⟩
  intro m hm
  cases m <;> simp [PyInt.value?] at hm <;> simp [PyInt.canon, hm]

/-- **Forms are equivalent to their canonical form.**  Two calls that differ only in the FORM of MaxObjectCount /
    OperationTimeout (same canonical value: e.g. `5`, `Uint32(5)`, `Uint64(5)`) are the same call: on every connection
    state they yield the same objects, end the same way, and leave the same connection and server state, for every
    number `k` of `next()` calls. -/
theorem C15_int_forms_equivalent (c : Conn) (a : Args) (m m' t t' : PyInt) (k : Nat)
    (hm : m.canon = m'.canon) (ht : t.canon = t'.canon) :
    takeN c (.notStarted (a.withForms m t)) k = takeN c (.notStarted (a.withForms m' t')) k := by
  simp [Args.withForms, hm, ht]

/-- … in particular for any two int-like forms of the same integers -/
theorem C15_same_value_same_behaviour (c : Conn) (a : Args) (m m' t t' : PyInt) (k : Nat) (v w : Int)
    (hm : m.value? = some v) (hm' : m'.value? = some v) (ht : t.value? = some w) (ht' : t'.value? = some w) :
    takeN c (.notStarted (a.withForms m t)) k = takeN c (.notStarted (a.withForms m' t')) k := by
  have h := (C15_int_subclass_is_its_value v).2.2.1
  have h' := (C15_int_subclass_is_its_value w).2.2.1
  exact C15_int_forms_equivalent c a m m' t t' k (by rw [h m hm, h m' hm']) (by rw [h' t ht, h' t' ht'])

/-- **A bool is not an integer here, in every mode** (flag None / True / False, server with or without pull): a bool
    OperationTimeout, or a bool MaxObjectCount with a valid OperationTimeout, raises TypeError at the first `next()`;
    nothing is sent, nothing is learned.  And zero or a negative MaxObjectCount in ANY int-like form raises the
    documented ValueError (not a TypeError). -/
theorem C15_bool_is_not_an_integer (c : Conn) (a : Args) (b : Bool) :
    (∀ m : PyInt, next c (.notStarted (a.withForms m (.bool b))) = (c, .finished, .raise .typeError)) ∧
    (∀ t : PyInt, validateTimeout t.canon = none →
      next c (.notStarted (a.withForms (.bool b) t)) = (c, .finished, .raise .typeError)) ∧
    (∀ (m t : PyInt) (v : Int), validateTimeout t.canon = none → m.value? = some v → v ≤ 0 →
      next c (.notStarted (a.withForms m t)) = (c, .finished, .raise .valueError)) := by
  refine ⟨fun m => ?_, fun t ht => ?_, fun m t v ht hm hv => ?_⟩
  · exact C15_validation_first c _ _ (by simp [validate, Args.withForms, PyInt.canon, validateTimeout])
  · exact C15_validation_first c _ _ (by
      show validate { a with max := (PyInt.bool b).canon, timeout := t.canon } = some .typeError
      simp only [validate, ht]; rfl)
  · have hc := (C15_int_subclass_is_its_value v).2.2.1 m hm
    exact C15_validation_first c _ _ (by
      show validate { a with max := m.canon, timeout := t.canon } = some .valueError
      simp only [validate, ht, hc, validateMax, hv, if_true])

/-! ### pull path -/

/-- **Iter = traditional (pull path).**  Connection with the family's flag at None or True, server with
    pull enabled, valid arguments, the traditional operation succeeding with `a.tradObjs`: for every `k`,
    `k` times `next()` yields exactly the first `k` objects of the traditional result, in order, unchanged;
    the `(|result|+1)`-th `next()` raises StopIteration, and then the server's context table is exactly what
    it was before the call (for every MaxObjectCount ≥ 1, every result size, every foreign content of the
    table).  After the first `next()` the flag is True. -/
theorem C15_pull_path_equals_traditional (c : Conn) (a : Args) (k : Nat)
    (hv : validate a = none) (hu : usePull (c.flags a.fam) = true) (hd : c.srv.disabled = false)
    (hns : a.ns ∈ c.srv.nss) (hp : openParamErr a = none) (ht : a.tradErr = none) (hinv : Inv c.srv)
    (hq : a.fam ≠ .query) :
    (takeN c (.notStarted a) k).2.2.1 = a.tradObjs.take k ∧
    (takeN c (.notStarted a) k).2.2.2 = (if k ≤ a.tradObjs.length then none else some .stop) ∧
    (a.tradObjs.length < k →
      (takeN c (.notStarted a) k).2.1 = .finished ∧ (takeN c (.notStarted a) k).1.srv.ctxs = c.srv.ctxs) ∧
    (0 < k → (takeN c (.notStarted a) k).1.flags a.fam = some true) := by
  have h := pull_path_spec c a k hv hu hd hns hp ht hinv hq
  have h1 := h.1
  simp only [outcome, specOf, Prod.mk.injEq] at h1
  exact ⟨h1.1, h1.2, h.2.1, h.2.2⟩

/-- **Early close.**  Same situation; the consumer takes any number `k` of objects and then calls
    `close()` (or drops the generator): `close()` returns normally and the server's context table is exactly
    what it was before the Iter call — the enumeration the generator had open is closed, nothing else is
    touched. -/
theorem C15_early_close_restores_server (c : Conn) (a : Args) (k : Nat)
    (hv : validate a = none) (hu : usePull (c.flags a.fam) = true) (hd : c.srv.disabled = false)
    (hns : a.ns ∈ c.srv.nss) (hp : openParamErr a = none) (ht : a.tradErr = none) (hinv : Inv c.srv)
    (hq : a.fam ≠ .query) :
    let r := takeN c (.notStarted a) k
    (close r.1 r.2.1).2.2 = .ok ∧ (close r.1 r.2.1).2.1 = .finished ∧
    (close r.1 r.2.1).1.srv.ctxs = c.srv.ctxs := by
  intro r
  cases k with
  | zero => simp [r, takeN, close]
  | succ k =>
    obtain ⟨c1, p, e, x, hs, hl, ok, _, _, _⟩ := start_pull hv hu hd hns hp ht hinv (kinds_agree _ hq)
    have hn : next c (.notStarted a) = next c1 (.pulling a p e x) := by simp [next, hs]
    have hr : r = takeN c1 (.pulling a p e x) (k + 1) := takeN_congr_next hn k
    have h := takeN_pulling (k + 1) ok hl
    by_cases hle : k + 1 ≤ a.tradObjs.length
    · obtain ⟨c', p', e', x', hk, hl', ok', _⟩ := h.1 hle
      obtain ⟨c'', hcl, hc'', _⟩ := close_linked ok' hl'
      rw [hr, hk]; simp only []; rw [hcl]; exact ⟨rfl, rfl, hc''⟩
    · obtain ⟨c', hk, hc', _⟩ := h.2 (by omega)
      rw [hr, hk]; simp [close, hc']

/-- **Pull forced on a server without pull.**  Flag True and the server answers CIM_ERR_NOT_SUPPORTED:
    the first `next()` raises exactly that CIMError; the server is untouched and the flag stays True.
    (Refined with the model: if a pull-only argument has a wrong type — `typeBad` — the client part of Open…
    raises TypeError before anything is sent; everything else as stated.) -/
theorem C15_forced_pull_unsupported (c : Conn) (a : Args) (hv : validate a = none)
    (hf : c.flags a.fam = some true) (hd : c.srv.disabled = true) :
    (next c (.notStarted a)).2.2 =
      .raise (if typeBad a then .typeError else .cimError CIM_ERR_NOT_SUPPORTED) ∧
    (next c (.notStarted a)).2.1 = .finished ∧
    (next c (.notStarted a)).1.srv = c.srv ∧ (next c (.notStarted a)).1.flags = c.flags := by
  cases htb : typeBad a <;>
    simp [next, start, hv, hf, usePull, doOpen, srvOpen, htb, hd, handleErr, learns, finallyClose]

/-- **Wrongly typed pull-only argument.**  Pull path (flag None or True), ContinueOnError that is not a bool,
    FilterQuery / FilterQueryLanguage that is not a string, or a class name where the Associator/Reference methods
    need an instance path (`typeBad`): the first `next()` raises TypeError out of the client part of Open…; nothing is sent, nothing is learned (the flag keeps its value, also None on a server without
    pull).  With the flag at False the same call raises the ValueError of `C15_fallback_rejects` instead. -/
theorem C15_wrong_type_raises_typeerror (c : Conn) (a : Args) (hv : validate a = none)
    (hu : usePull (c.flags a.fam) = true) (htb : typeBad a = true) :
    (next c (.notStarted a)).2.2 = .raise .typeError ∧ (next c (.notStarted a)).2.1 = .finished ∧
    (next c (.notStarted a)).1.srv = c.srv ∧ (next c (.notStarted a)).1.flags = c.flags := by
  simp [next, start, hv, hu, doOpen, srvOpen, htb, handleErr, learns, finallyClose]

/-! ### traditional fallback -/

/-- **Iter = traditional (fallback).**  For every `k`, `k` times `next()` yields the first `k` objects of
    the traditional result with completed paths (`fallbackItems`), then StopIteration; the server state is
    not touched at all (no context can be left behind), and the flag is False afterwards.
    (`UsesFallback c a`: the flag is False, or it is None and the server refuses Open… with
    CIM_ERR_NOT_SUPPORTED.) -/
theorem C15_fallback_equals_traditional (c : Conn) (a : Args) (k : Nat)
    (hv : validate a = none) (hu : UsesFallback c a) (hr : fallbackReject a = false) (ht : a.tradErr = none) :
    (takeN c (.notStarted a) k).2.2.1 = (fallbackItems a).take k ∧
    (takeN c (.notStarted a) k).2.2.2 = (if k ≤ (fallbackItems a).length then none else some .stop) ∧
    ((fallbackItems a).length < k → (takeN c (.notStarted a) k).2.1 = .finished) ∧
    (takeN c (.notStarted a) k).1.srv = c.srv ∧
    (0 < k → (takeN c (.notStarted a) k).1.flags a.fam = some false) := by
  have h := fallback_spec c a k hv hu hr ht
  have h1 := h.1
  simp only [outcome, specOf, Prod.mk.injEq] at h1
  exact ⟨h1.1, h1.2, h.2.1, h.2.2.1, h.2.2.2⟩

/-- **Same objects, completed paths.**  What the fallback yields are the traditional objects themselves
    (same identities, same order); for the two Enumerate families every path names namespace and host
    afterwards, for the other families the objects are passed through unchanged. -/
theorem C15_fallback_items_spec (a : Args) :
    (fallbackItems a).map ident = a.tradObjs.map ident ∧
    (a.fam.row.completesPath = true → ∀ o ∈ fallbackItems a, hasNs o = true ∧ hasHost o = true) ∧
    (a.fam.row.completesPath = false → fallbackItems a = a.tradObjs) ∧
    (∀ o ∈ a.tradObjs, hasNs o = true → hasHost o = true → o ∈ fallbackItems a) := by
  by_cases h : a.fam.row.completesPath = true
  · have e : fallbackItems a = a.tradObjs.map complete := by simp [fallbackItems, h]
    rw [e]
    refine ⟨?_, ?_, ?_, ?_⟩
    · simp [List.map_map, Function.comp_def, ident_complete]
    · intro _ o ho
      obtain ⟨x, _, rfl⟩ := List.mem_map.mp ho
      exact ⟨hasNs_complete x, hasHost_complete x⟩
    · intro h'; rw [h] at h'; exact absurd h' (by decide)
    · intro o ho h1 h2
      exact List.mem_map.mpr ⟨o, ho, complete_of_complete o h1 h2⟩
  · have e : fallbackItems a = a.tradObjs := by simp [fallbackItems, h]
    rw [e]
    exact ⟨rfl, fun h' => absurd h' h, fun _ => rfl, fun o ho _ _ => ho⟩

/-- **FilterQuery / ContinueOnError with the traditional fallback.**  The first `next()` raises ValueError;
    the traditional operation is not sent (the server is untouched). -/
theorem C15_fallback_rejects (c : Conn) (a : Args) (hv : validate a = none) (hu : UsesFallback c a)
    (hr : fallbackReject a = true) :
    (next c (.notStarted a)).2.2 = .raise .valueError ∧ (next c (.notStarted a)).2.1 = .finished ∧
    (next c (.notStarted a)).1.srv = c.srv := by
  rcases hu with hf | ⟨hf, hd, htb⟩
  · simp [next, start_flag_false hv hf, fallbackStart_reject hf hr]
  · have hf' : (afterLearn c a CIM_ERR_NOT_SUPPORTED).flags a.fam = some false := by simp [afterLearn, setFlag]
    have e : next c (.notStarted a) = (afterLearn c a CIM_ERR_NOT_SUPPORTED, .finished, .raise .valueError) := by
      simp only [next]; rw [start_learn hv hf hd htb, fallbackStart_reject hf' hr]
    rw [e]; exact ⟨rfl, rfl, rfl⟩

/-- what the fallback rejects, spelled out per family -/
theorem C15_fallback_reject_iff (a : Args) :
    fallbackReject a = true ↔
      (a.fam ≠ .query ∧ (a.query = true ∨ a.lang ≠ .none)) ∨ (a.fam = .query ∧ a.rqrc = true) ∨ a.coe = true := by
  cases hf : a.fam <;>
    simp [fallbackReject, hf, Family.row, Family.idx, Pywbem.Generated.IterOps.rows, List.getD]

/-- **IterQueryInstances when the server's query operation fails** (the mock's ExecQuery always answers
    CIM_ERR_NOT_SUPPORTED; OpenQueryInstances passes that on): the call raises a documented exception, no
    enumeration context is created, whatever the flag and the capability.  (The method is not a generator: the
    exception comes out of the call itself.) -/
theorem C15_query_traditional_fails (c : Conn) (a : Args) (code : Nat) (h : a.tradErr = some code) :
    ∃ e, (callEager c a).2 = .raise e ∧ (e = .valueError ∨ e = .typeError ∨ ∃ code', e = .cimError code') ∧
      (callEager c a).1.srv = c.srv :=
  callEager_traderr c a code h

/-! ### histories: any number of generators, interleaved, on one connection -/

/-- **Flags are monotone.**  Over any history of consumer events (calls of all seven methods, next, close,
    drop, throw, the server switching its pull capability on and off), a flag that is decided (True or
    False) never changes again; only None → decided happens. -/
theorem C15_flags_monotone (w : World) (evs : List Ev) (f : Family) (b : Bool)
    (h : w.conn.flags f = some b) : (runW w evs).1.conn.flags f = some b :=
  run_mono evs w f b h

/-- **No context leak.**  Start from a server with an empty context table and pull enabled, a fresh
    connection with any `use_pull_operations`; run any history in which the server keeps supporting pull (it may
    remove namespaces under running enumerations: the failing Pull is followed by CloseEnumeration) and
    the calls are those of the six generator methods (any arguments, any interleaving of next / close / drop /
    throw on any number of generators).  Then every enumeration context the server holds is held by a
    generator that is suspended inside its pull loop; in particular, once no generator is suspended there
    (all exhausted, closed, dropped or ended by an exception) the server's table is empty. -/
theorem C15_no_context_leak (s : State) (u : Option Bool) (evs : List Ev)
    (hs : s.ctxs = []) (hd : s.disabled = false) (hev : ∀ ev ∈ evs, Allowed ev) :
    let w := (runW (fresh s u) evs).1
    (∀ x ∈ w.conn.srv.ctxs, ∃ j, j < w.n ∧ holds (w.gens j) x.id) ∧
    ((∀ j i, ¬ holds (w.gens j) i) → w.conn.srv.ctxs = []) := by
  intro w
  have h0 : HInv (fresh s u) :=
    ⟨by intro x hx; simp [fresh, hs] at hx, hd, fun j _ _ _ _ h => (by cases h), fun _ _ => rfl⟩
  have h : HInv w := hinv_run evs h0 hev
  constructor
  · intro x hx
    obtain ⟨j, hj⟩ := h.owned x hx
    refine ⟨j, ?_, hj⟩
    by_cases hlt : j < w.n
    · exact hlt
    · rw [h.beyond j (by omega)] at hj
      obtain ⟨_, _, hj⟩ := hj; cases hj
  · intro hnone
    cases hc : w.conn.srv.ctxs with
    | nil => rfl
    | cons x rest =>
      obtain ⟨j, hj⟩ := h.owned x (by rw [hc]; simp)
      exact absurd hj (hnone j x.id)

/-- **Interleaved generators each equal their traditional result.**  Server with an empty context table that
    keeps supporting pull, fresh connection with any `use_pull_operations`, ANY history of calls (six generator
    methods with any arguments; IterQueryInstances with a failing ExecQuery), next / close / drop / throw on any
    number of generators in any interleaving.  An observer notes for generator `j` (creation order): `trad j` /
    `comp j` = traditional result of its call / the same with completed paths, `got j` = the objects it has
    yielded so far, `stopped j` = it ended with StopIteration.  Then at every point of the history: what `j` has
    yielded is a prefix of `exp j`, which is `trad j` or `comp j`; and if it ended with StopIteration it has
    yielded exactly that — nothing lost, duplicated or reordered, no matter what the other generators did to
    the shared server in between. -/
theorem C15_interleaved_generators_equal_traditional (s : State) (u : Option Bool) (evs : List Ev)
    (hs : s.ctxs = []) (hd : s.disabled = false) (hev : ∀ ev ∈ evs, AllowedI ev) (j : Nat) :
    let gh := (runG (fresh s u) {} evs).2
    gh.got j <+: gh.exp j ∧ (gh.stopped j = true → gh.got j = gh.exp j) ∧
    (j < (runW (fresh s u) evs).1.n → gh.exp j = gh.trad j ∨ gh.exp j = gh.comp j) := by
  intro gh
  have hinv : Inv s :=
    ⟨fun c1 h1 => (by rw [hs] at h1; cases h1), fun c1 h1 => (by rw [hs] at h1; cases h1),
     fun c1 h1 => (by rw [hs] at h1; cases h1)⟩
  have hi := iinv_run evs (iinv_fresh s u hs hinv) (fun ev h => (hev ev h).allowed.callOk)
  have hp := (hi.ok j).prefix
  refine ⟨hp.1, hp.2, fun hj => hi.expok j ?_⟩
  rw [runG_world]; exact hj

/-- **No context leak, whatever the server does.**  Server with an empty context table, fresh connection with any
    `use_pull_operations`, ANY history: the server may switch pull off and on and remove namespaces at any moment;
    calls of the six generator methods with any arguments (IterQueryInstances with a failing ExecQuery); any
    interleaving of next / close / drop / throw.  Every enumeration context on the server is then held by a
    generator suspended in its pull loop — or the request log shows that the server answered
    CIM_ERR_NOT_SUPPORTED to the CloseEnumeration of exactly that context (`Refused`).  So a context outlives its
    generator only if the server itself refused to close it.  This discharges the "server keeps supporting pull"
    hypothesis of `C15_no_context_leak`. -/
theorem C15_no_context_leak_any_server (s : State) (u : Option Bool) (evs : List Ev)
    (hs : s.ctxs = []) (hev : ∀ ev ∈ evs, CallOk ev) :
    let w := (runW (fresh s u) evs).1
    ∀ x ∈ w.conn.srv.ctxs, (∃ j, j < w.n ∧ holds (w.gens j) x.id) ∨ Refused w.conn x.id := by
  intro w x hx
  have h0 : HInv2 (fresh s u) :=
    ⟨by intro x hx; simp [fresh, hs] at hx, fun j _ _ _ _ h => (by cases h), fun _ _ => rfl⟩
  have h : HInv2 w := hinv2_run evs h0 hev
  rcases h.owned x hx with ⟨j, hj⟩ | hr
  · refine Or.inl ⟨j, ?_, hj⟩
    by_cases hlt : j < w.n
    · exact hlt
    · rw [h.beyond j (by omega)] at hj
      obtain ⟨_, _, hj⟩ := hj; cases hj
  · exact Or.inr hr

/-- **Interleaved generators each equal their traditional result — whatever the server does.**
    As `C15_interleaved_generators_equal_traditional`, without its hypotheses on the server: the server may switch
    pull off and on and remove namespaces at any moment of the history (`CallOk` only restricts IterQueryInstances
    to a failing ExecQuery).  At every point: what generator `j` has yielded is a prefix of `exp j` (= `trad j` or
    `comp j`), and equals it once `j` ended with StopIteration.  A Pull the server refuses ends the generator with
    that error — nothing wrong, duplicated or reordered has been delivered before, and nothing is delivered after.
    (For a call whose namespace is removed before its first `next()` the observer's notes `trad`/`comp`/`exp`
    become empty: its traditional operation now fails.) -/
theorem C15_interleaved_generators_any_server (s : State) (u : Option Bool) (evs : List Ev)
    (hs : s.ctxs = []) (hev : ∀ ev ∈ evs, CallOk ev) (j : Nat) :
    let gh := (runG (fresh s u) {} evs).2
    gh.got j <+: gh.exp j ∧ (gh.stopped j = true → gh.got j = gh.exp j) ∧
    (j < (runW (fresh s u) evs).1.n → gh.exp j = gh.trad j ∨ gh.exp j = gh.comp j) := by
  intro gh
  have hinv : Inv s :=
    ⟨fun c1 h1 => (by rw [hs] at h1; cases h1), fun c1 h1 => (by rw [hs] at h1; cases h1),
     fun c1 h1 => (by rw [hs] at h1; cases h1)⟩
  have hi := iinv_run evs (iinv_fresh s u hs hinv) hev
  have hp := (hi.ok j).prefix
  refine ⟨hp.1, hp.2, fun hj => hi.expok j ?_⟩
  rw [runG_world]; exact hj

/-- the server refusing CloseEnumeration is the one way a context can outlive its generator: with pull
    switched off between `next()` and `close()`, `close()` raises CIM_ERR_NOT_SUPPORTED and the context
    stays (this is why `C15_no_context_leak` asks for a server that keeps supporting pull) -/
theorem C15_refused_close_leaves_context :
    let w := (runW (fresh { nss := [0] } none)
      [.call { fam := .enumPath, ns := 0, tradObjs := [6, 10, 14], max := .int 1 }, .next 0,
       .setDisabled true, .close 0]).1
    w.conn.srv.ctxs.map (·.id) = [0] ∧ w.gens 0 = .finished ∧
    (runW (fresh { nss := [0] } none)
      [.call { fam := .enumPath, ns := 0, tradObjs := [6, 10, 14], max := .int 1 }, .next 0,
       .setDisabled true, .close 0]).2 = [.ok, .yield 6, .ok, .raise (.cimError 7)] := by
  decide

/-- **Only documented exceptions, and the model's `while not eos` loop always ends.**  Over any history
    (any interleaving, the server toggling its capability at will; calls of the six generator methods with
    any arguments, IterQueryInstances when the server's ExecQuery fails, as the mock's always does): whatever
    a `next()`, `close()`, `throw()` or call raises is ValueError, TypeError or a CIMError — or the very
    exception the consumer threw in; never AssertionError (the `assert flag is False` cannot fire) nor any
    other class; and no step diverges. -/
theorem C15_documented_errors (s : State) (u : Option Bool) (evs : List Ev) (hc : ∀ ev ∈ evs, CallOk ev) :
    ∀ p ∈ evs.zip (runW (fresh s u) evs).2,
      (∀ e, p.2 = .raise e →
        (e = .valueError ∨ e = .typeError ∨ ∃ code, e = .cimError code) ∨ thrown p.1 = some e) ∧
      p.2 ≠ .diverge := by
  intro p hp
  have h := run_res evs (fresh s u) (fun _ _ _ _ _ hh => by cases hh) hc p hp
  constructor
  · intro e he; rw [he] at h; exact h
  · intro he; rw [he] at h; exact h

/-- **While a generator is inside its pull loop its family's flag is True** (any history, any events): the
    `except CIMError` clause can therefore not "learn" in the middle of an enumeration, and a Pull error is
    always re-raised. -/
theorem C15_pull_phase_flag_true (s : State) (u : Option Bool) (evs : List Ev) (j : Nat) (a : Args)
    (p : List Obj) (e : Bool) (x : Option Nat)
    (h : (runW (fresh s u) evs).1.gens j = .pulling a p e x) :
    (runW (fresh s u) evs).1.conn.flags a.fam = some true :=
  pt_run evs (w := fresh s u) (fun _ _ _ _ _ hh => by cases hh) j a p e x h

/-- **What a connection can learn.**  History against a server whose pull capability never changes
    (`SteadyEv`: calls of the six generator methods whose traditional operation does not itself answer
    CIM_ERR_NOT_SUPPORTED/CIM_ERR_FAILED): every flag is still the configured value, or — configured None —
    it is True on a server with pull and False on a server without. -/
theorem C15_learned_flags (s : State) (hinv : Inv s) (u : Option Bool) (evs : List Ev)
    (hev : ∀ ev ∈ evs, SteadyEv s.disabled ev) (f : Family) :
    (runW (fresh s u) evs).1.conn.flags f = u ∨
    (u = none ∧ (runW (fresh s u) evs).1.conn.flags f = some (!s.disabled)) :=
  (steady_run evs (steady_fresh s u hinv) hev).ff f

/-- **Learned state is harmless — under "capability constant" (partial).**
    Full statement (`LearnedStateHarmless`, FALSE, see the witness below): after ANY history, a call that
    succeeds on a connection that has learned nothing has the same outcome on the connection with its
    history.  Proved here: the same, for histories in which the server's capability stays what it was and
    the traditional operations of the earlier calls do not themselves answer CIM_ERR_NOT_SUPPORTED /
    CIM_ERR_FAILED.  `outcome c a k` = (objects yielded by `k` times `next()`, final non-yield result). -/
theorem C15_learned_state_harmless_partial (s : State) (u : Option Bool) (evs : List Ev) (a : Args) (k : Nat)
    (hinv : Inv s) (hq : a.fam ≠ .query) (hev : ∀ ev ∈ evs, SteadyEv s.disabled ev)
    (hok : ∀ e, (outcome { (runW (fresh s u) evs).1.conn with flags := fun _ => u } a k).2 ≠ some (.raise e)) :
    outcome (runW (fresh s u) evs).1.conn a k =
      outcome { (runW (fresh s u) evs).1.conn with flags := fun _ => u } a k := by
  have st := steady_run evs (steady_fresh s u hinv) hev
  exact learned_equiv _ a u st.inv hq (by rw [st.dis]; exact st.ff a.fam) k hok

/-- **Learned state against a server that toggles at will: exactly KF1 and KF2, nothing else.**
    ANY history on a connection created with `use_pull_operations=None` (any events: calls of all seven methods,
    next/close/drop/throw, the server switching pull on and off any number of times, namespaces removed), then any
    call of the six generator methods that succeeds within `k` steps on the same connection with nothing learned
    (`unlearned`).  On the connection with its history the call
    (1) has the same outcome, or
    (2) yields the same traditional objects through the fallback (completed paths) instead of the pull path
        [flag stale False, server has pull again, no pull-only argument], or
    (3) raises ValueError at the first `next()` [flag stale False, server has pull again, FilterQuery /
        ContinueOnError given] — known finding C15-KF1, or
    (4) raises CIM_ERR_NOT_SUPPORTED at the first `next()` [flag stale True, server lost pull] — C15-KF2.
    This discharges the "capability constant" hypothesis of `C15_learned_state_harmless_partial`: it is the strongest
    statement that is true of the code. -/
theorem C15_learned_state_dichotomy (s : State) (hinv : Inv s) (evs : List Ev) (a : Args) (k : Nat)
    (hq : a.fam ≠ .query)
    (hok : ∀ e, (outcome (unlearned (runW (fresh s none) evs).1.conn) a k).2 ≠ some (.raise e)) :
    let c := (runW (fresh s none) evs).1.conn
    outcome c a k = outcome (unlearned c) a k ∨
    (c.flags a.fam = some false ∧ c.srv.disabled = false ∧ fallbackReject a = false ∧
      outcome c a k = specOf (fallbackItems a) k ∧ outcome (unlearned c) a k = specOf a.tradObjs k) ∨
    (c.flags a.fam = some false ∧ c.srv.disabled = false ∧ fallbackReject a = true ∧
      (k = 0 ∨ outcome c a k = ([], some (.raise .valueError)))) ∨
    (c.flags a.fam = some true ∧ c.srv.disabled = true ∧
      (k = 0 ∨ outcome c a k = ([], some (.raise (.cimError CIM_ERR_NOT_SUPPORTED))))) :=
  learned_dichotomy _ a k (runW_inv evs (fresh s none) hinv) hq hok

/-- **A flag that agrees with the server as it is now is harmless, whatever happened before** (history-free form of
    the learned-state clause): any connection state whose flag for the family is still the configured value `u`, or —
    configured None — was learned and matches the server's present capability; a call that succeeds with nothing
    learned has the same outcome. -/
theorem C15_consistent_flag_harmless (c : Conn) (a : Args) (u : Option Bool) (k : Nat) (hinv : Inv c.srv)
    (hq : a.fam ≠ .query)
    (hfl : c.flags a.fam = u ∨ (u = none ∧ c.flags a.fam = some (!c.srv.disabled)))
    (hok : ∀ e, (outcome { c with flags := fun _ => u } a k).2 ≠ some (.raise e)) :
    outcome c a k = outcome { c with flags := fun _ => u } a k :=
  learned_equiv c a u hinv hq hfl k hok

/-- **Every yielded path names the namespace; fallback paths of the Enumerate methods name the host.**
    If the traditional operation's objects name their namespace (the client sets it on every traditional result),
    so does every object an Iter generator yields — in every mode, for every flag, capability and prefix length;
    and when the traditional fallback is used by a method whose traditional response format carries neither
    namespace nor host (EnumerateInstances, EnumerateInstanceNames) every yielded path also names the host. -/
theorem C15_paths_name_namespace (c : Conn) (a : Args) (k : Nat) (hinv : Inv c.srv) (hq : a.fam ≠ .query)
    (hns : ∀ o ∈ a.tradObjs, hasNs o = true) :
    (∀ o ∈ (outcome c a k).1, hasNs o = true) ∧
    (UsesFallback c a → a.fam.row.completesPath = true → ∀ o ∈ (outcome c a k).1, hasHost o = true) := by
  have hfb : ∀ o ∈ fallbackItems a, hasNs o = true := by
    intro o ho
    by_cases hc : a.fam.row.completesPath = true
    · exact ((C15_fallback_items_spec a).2.1 hc o ho).1
    · have := (C15_fallback_items_spec a).2.2.1 (by simpa using hc)
      rw [this] at ho; exact hns o ho
  constructor
  · intro o ho
    rcases C15_iter_equals_traditional c a k hinv hq with h | h | ⟨e, _, h⟩
    · rw [h] at ho; exact hns o (List.mem_of_mem_take ho)
    · rw [h] at ho; exact hfb o (List.mem_of_mem_take ho)
    · rcases h with h | h
      · subst h; rw [outcome_zero] at ho; cases ho
      · rw [h] at ho; cases ho
  · intro hu hc o ho
    rcases classify c a with ⟨_, hp, hd, _⟩ | ⟨hv, _, hr, ht⟩ | hfail
    · exfalso
      rcases hu with hf | ⟨_, hd', _⟩
      · rw [hf] at hp; simp [usePull] at hp
      · rw [hd] at hd'; cases hd'
    · rw [(fallback_spec c a k hv hu hr ht).1] at ho
      exact ((C15_fallback_items_spec a).2.1 hc o (List.mem_of_mem_take ho)).2
    · cases k with
      | zero => rw [outcome_zero] at ho; cases ho
      | succ k =>
        obtain ⟨e, he⟩ := hfail
        rw [fails_outcome_exact he k] at ho; cases ho

/-- negation witness 1 (known finding C15-KF1): server without pull, one Iter call (the flag becomes False),
    the server gains pull, then an Iter call with ContinueOnError: ValueError — a fresh connection yields -/
theorem C15_learned_state_harmless_fails_at : ¬ LearnedStateHarmless := by
  intro h
  have hnew : outcome { (runW (fresh { nss := [0], disabled := true } none)
      [.call { fam := .enumInst, ns := 0, tradObjs := [6, 10], max := .int 1 }, .next 0, .drop 0,
       .setDisabled false]).1.conn with flags := fun _ => none }
      { fam := .enumInst, ns := 0, tradObjs := [6, 10], max := .int 1, coe := true } 1 = ([6], none) := by decide
  have := h { nss := [0], disabled := true } none
    [.call { fam := .enumInst, ns := 0, tradObjs := [6, 10], max := .int 1 }, .next 0, .drop 0, .setDisabled false]
    { fam := .enumInst, ns := 0, tradObjs := [6, 10], max := .int 1, coe := true } 1
    ⟨by intro c1 h1; simp at h1, by intro c1 h1; simp at h1, by intro c1 h1; simp at h1⟩ (by decide)
    (by intro e he; rw [hnew] at he; cases he)
  rw [hnew] at this
  exact absurd this (by decide)

/-- negation witness 2 (known finding C15-KF2): server with pull, one Iter call (the flag becomes True), the
    server loses pull, then the same Iter call: CIM_ERR_NOT_SUPPORTED — a fresh connection falls back and
    yields -/
theorem C15_learned_state_true_then_disabled_fails_at :
    let evs : List Ev := [.call { fam := .enumPath, ns := 0, tradObjs := [6, 10], max := .int 1 }, .next 0, .drop 0,
      .setDisabled true]
    let a : Args := { fam := .enumPath, ns := 0, tradObjs := [6, 10], max := .int 1 }
    let c := (runW (fresh { nss := [0] } none) evs).1.conn
    outcome c a 1 = ([], some (.raise (.cimError 7))) ∧
    outcome { c with flags := fun _ => none } a 1 = ([7], none) := by
  decide

/-! ### non-vacuity -/

def demoSrv : State := { nss := [0], ctxs := [{ id := 7, kind := .paths, ns := 0, data := [100] }], nextId := 8 }
def demoConn (fl : Option Bool) (dis : Bool) : Conn :=
  { srv := { demoSrv with disabled := dis }, flags := fun _ => fl }
def demoArgs : Args := { fam := .enumInst, ns := 0, tradObjs := [6, 10, 14, 18, 22], max := .int 2 }

example : Inv demoSrv := ⟨by intro a ha b hb _; simp [demoSrv] at ha hb; rw [ha, hb],
  by intro a ha; simp [demoSrv] at ha; subst ha; decide, by intro a ha; simp [demoSrv] at ha; subst ha; decide⟩
example : validate demoArgs = none ∧ openParamErr demoArgs = none ∧ fallbackReject demoArgs = false := by decide
-- pull path: three objects taken, one foreign context and the generator's own context on the server …
example : (takeN (demoConn none false) (.notStarted demoArgs) 3).2.2.1 = [6, 10, 14] ∧
    (takeN (demoConn none false) (.notStarted demoArgs) 3).1.srv.ctxs.map (·.id) = [7, 8] := by decide
-- … close(): only the foreign context is left
example : let r := takeN (demoConn none false) (.notStarted demoArgs) 3
    (close r.1 r.2.1).1.srv.ctxs.map (·.id) = [7] := by decide
-- fallback: completed paths (6 = id 1, namespace set, host missing -> 7)
example : (takeN (demoConn none true) (.notStarted demoArgs) 9).2.2.1 = [7, 11, 15, 19, 23] ∧
    (takeN (demoConn none true) (.notStarted demoArgs) 9).2.2.2 = some .stop := by decide
example : UsesFallback (demoConn none true) demoArgs := Or.inr ⟨rfl, rfl, rfl⟩
example : (next (demoConn (some true) true) (.notStarted demoArgs)).2.2 = .raise (.cimError 7) := by decide
example : (next (demoConn (some false) false) (.notStarted { demoArgs with coe := true })).2.2 =
    .raise .valueError := by decide

-- a history for C15_no_context_leak: two generators interleaved, one closed early, one exhausted
def demoHistory : List Ev :=
  [.call demoArgs, .call { demoArgs with fam := .assocPath, max := .int 1 }, .next 0, .next 1, .next 0, .next 1,
   .close 1, .next 0, .next 0, .next 0, .next 0]
example : ∀ ev ∈ demoHistory, Allowed ev := by decide
example : (runW (fresh { nss := [0] } none) (demoHistory.take 6)).1.conn.srv.ctxs.map (·.id) = [0, 1] := by decide
example : (runW (fresh { nss := [0] } none) demoHistory).1.conn.srv.ctxs = [] ∧
    (runW (fresh { nss := [0] } none) demoHistory).2.getLast? = some .stop := by decide

-- C15_learned_state_harmless_partial: a steady history (server without pull) after which the flag is learned
def steadyHistory : List Ev :=
  [.call demoArgs, .next 0, .next 0, .call { demoArgs with fam := .refPath }, .next 1, .close 1]
example : ∀ ev ∈ steadyHistory, SteadyEv true ev := by decide
example : (runW (fresh { nss := [0], disabled := true } none) steadyHistory).1.conn.flags .enumInst = some false ∧
    (runW (fresh { nss := [0], disabled := true } none) steadyHistory).1.conn.flags .query = none := by decide
example : outcome (runW (fresh { nss := [0], disabled := true } none) steadyHistory).1.conn demoArgs 6 =
    ([7, 11, 15, 19, 23], some .stop) := by decide
example : ∀ ev ∈ demoHistory, CallOk ev := by decide

-- C15_interleaved_generators_equal_traditional on demoHistory: generator 0 exhausted, generator 1 closed after 2
example : let gh := (runG (fresh { nss := [0] } none) {} demoHistory).2
    gh.got 0 = [6, 10, 14, 18, 22] ∧ gh.stopped 0 = true ∧ gh.got 1 = [6, 10] ∧ gh.stopped 1 = false ∧
    gh.exp 1 = [6, 10, 14, 18, 22] := by decide

-- namespace removed under a running enumeration: the next Pull is refused (CIM_ERR_INVALID_NAMESPACE), the
-- `finally` clause closes the enumeration, nothing stays on the server (covered by C15_no_context_leak)
def rmnsHistory : List Ev :=
  [.call { demoArgs with ns := 1, max := .int 1 }, .next 0, .removeNs 1, .next 0]
example : ∀ ev ∈ rmnsHistory, Allowed ev := by decide
example : (runW (fresh { nss := [0, 1] } none) rmnsHistory).2 = [.ok, .yield 6, .ok, .raise (.cimError 3)] ∧
    (runW (fresh { nss := [0, 1] } none) (rmnsHistory.take 3)).1.conn.srv.ctxs.map (·.id) = [0] ∧
    (runW (fresh { nss := [0, 1] } none) rmnsHistory).1.conn.srv.ctxs = [] := by decide

-- C15_learned_state_dichotomy, the four cases on concrete toggling histories
def learnFalseThenEnable : List Ev := [.setDisabled true, .call demoArgs, .next 0, .drop 0, .setDisabled false]
def learnTrueThenDisable : List Ev := [.call demoArgs, .next 0, .drop 0, .setDisabled true]
example : let c := (runW (fresh { nss := [0] } none) learnFalseThenEnable).1.conn   -- case (2)
    outcome c demoArgs 2 = ([7, 11], none) ∧ outcome (unlearned c) demoArgs 2 = ([6, 10], none) := by decide
example : let c := (runW (fresh { nss := [0] } none) learnFalseThenEnable).1.conn   -- case (3)
    outcome c { demoArgs with coe := true } 1 = ([], some (.raise .valueError)) ∧
    outcome (unlearned c) { demoArgs with coe := true } 1 = ([6], none) := by decide
example : let c := (runW (fresh { nss := [0] } none) learnTrueThenDisable).1.conn   -- case (4)
    outcome c demoArgs 1 = ([], some (.raise (.cimError 7))) ∧ outcome (unlearned c) demoArgs 1 = ([7], none) := by
  decide
example : ∀ o ∈ demoArgs.tradObjs, hasNs o = true := by decide

-- C15_no_context_leak_any_server on the refused-close history: the surviving context 0 is logged as refused
example : Refused (runW (fresh { nss := [0] } none)
    [.call { fam := .enumPath, ns := 0, tradObjs := [6, 10, 14], max := .int 1 }, .next 0, .setDisabled true, .close 0,
     .setDisabled false]).1.conn 0 := by unfold Refused; decide

-- a namespace removed BEFORE the generator's first next(): the call now answers CIM_ERR_INVALID_NAMESPACE in
-- every mode (pull: Open refused; fallback: the traditional operation refused), nothing is created on the server
example : (runW (fresh { nss := [0, 1] } none)
      [.call { demoArgs with ns := 1 }, .removeNs 1, .next 0]).2 = [.ok, .ok, .raise (.cimError 3)] ∧
    (runW (fresh { nss := [0, 1] } (some false))
      [.call { demoArgs with ns := 1 }, .removeNs 1, .next 0]).2 = [.ok, .ok, .raise (.cimError 3)] := by decide

-- wrongly typed ContinueOnError: TypeError on the pull path (also on a server without pull: nothing learned),
-- ValueError once the flag is False
example : typeBad { demoArgs with coe := true, coeType := true } = true := by decide
example : (next (demoConn none true) (.notStarted { demoArgs with coe := true, coeType := true })).2.2 =
      .raise .typeError ∧
    (next (demoConn none true) (.notStarted { demoArgs with coe := true, coeType := true })).1.flags .enumInst = none ∧
    (next (demoConn (some false) true) (.notStarted { demoArgs with coe := true, coeType := true })).2.2 =
      .raise .valueError := by decide

-- C15_interleaved_generators_any_server: pull switched off under generator 0 (it ends with CIMError 7 after
-- [6, 10]: a prefix), generator 1 started later falls back and delivers everything
def toggledHistory : List Ev :=
  [.call demoArgs, .next 0, .next 0, .setDisabled true, .next 0, .call { demoArgs with fam := .enumPath }, .next 1,
   .next 1, .next 1, .next 1, .next 1, .next 1]
example : ∀ ev ∈ toggledHistory, CallOk ev := by decide
example : let gh := (runG (fresh { nss := [0] } none) {} toggledHistory).2
    gh.got 0 = [6, 10] ∧ gh.stopped 0 = false ∧ gh.exp 0 = [6, 10, 14, 18, 22] ∧
    gh.got 1 = [7, 11, 15, 19, 23] ∧ gh.stopped 1 = true := by decide

-- class-level request to an Associator/Reference method: TypeError on the pull path, the class-level traditional
-- result through the fallback (C15_wrong_type_raises_typeerror / C15_fallback_equals_traditional)
example : typeBad { demoArgs with fam := .assocInst, srcIsClass := true } = true ∧
    typeBad { demoArgs with fam := .enumInst, srcIsClass := true } = false := by decide
example : (next (demoConn none false) (.notStarted { demoArgs with fam := .assocInst, srcIsClass := true })).2.2 =
      .raise .typeError ∧
    outcome (demoConn (some false) false) { demoArgs with fam := .assocInst, srcIsClass := true } 2 =
      ([6, 10], none) := by decide

-- argument forms: Uint32(2) behaves as 2; True is rejected also where the traditional path is in effect
example : outcome (demoConn none false) (demoArgs.withForms (.uint32 2) .none) 3 =
    outcome (demoConn none false) (demoArgs.withForms (.int 2) .none) 3 := by decide
example : (next (demoConn (some false) true) (.notStarted (demoArgs.withForms (.bool true) .none))).2.2 =
    .raise .typeError ∧
    (next (demoConn (some false) true) (.notStarted (demoArgs.withForms (.uint32 0) (.uint64 10)))).2.2 =
    .raise .valueError := by decide

end C15
