/-
C17 — The listener answers any HTTP request with one well-formed response and survives.
ONLY property theorems, non-vacuity examples and witnesses; helper lemmas are in
Proofs/Lemmas/ListenerHttp.lean.  The theorems quantify over every request (method, header list,
body octets), every outcome of the parts outside the model (`Env`: expat, message texts, the
instance parser, foreign subtrees, allocation limit) and every listener state / history.
`Cfg.fixed` = the code with the four C17 fixes; the `C17_original_*` witnesses show what each fix repairs.
-/
import Proofs.Lemmas.ListenerHttp
import Proofs.Lemmas.ListenerXml
import Proofs.Lemmas.ListenerConc
import Proofs.Lemmas.ListenerPar
import Proofs.Lemmas.XmlText

namespace C17
open Pywbem.Proto Pywbem.Model Pywbem.Model.XmlText Pywbem.Model.ListenerHttp Proofs.ListenerHttp
open Pywbem.Generated.ListenerConsts

/-! ## pins: the hand-written recognisers and tables are for exactly this source text -/

theorem C17_pin_patterns :
    tokenQualityPattern = "([^;, ]+)(?:; *q=([01](?:\\.[0-9]*)?))?(?:, *)?" ∧
    tokenCharsetPattern = "([^;, ]+)(?:; *charset=\"?([^\";, ]*)\"?)?(?:, *)?" := by decide

theorem C17_pin_header_checks :
    acceptValues = ["text/xml", "application/xml", "*/*"] ∧ charsetTokens = ["utf-8", "*"] ∧
    contentTypeTokens = ["text/xml", "application/xml"] ∧ contentCharset = "utf-8" ∧
    contentEncodingValue = "identity" ∧
    headerDefaults = [("Accept", "text/xml"), ("Accept-Charset", "UTF-8"), ("Content-Encoding", "identity")] := by decide

theorem C17_pin_methods_versions_codes :
    invalidMethods = ["OPTIONS", "HEAD", "GET", "PUT", "PATCH", "DELETE", "TRACE", "CONNECT", "M_POST"] ∧
    (implCimVersion, implDtdVersion, implProtocolVersion) = ("2.0", "2.4", "1.4") ∧
    (cimPrefix, dtdPrefix, protoPrefix) = ("2.", "2.", "1.") ∧
    (cimErrFailed, cimErrInvalidParameter, cimErrNotSupported) = (1, 4, 7) := by decide

/-! ## the header recognisers -/

/-- the fuel `len + 1` that the header checks hand to the two findall recognisers suffices: any larger
    fuel yields the same matches (the recursion is on ever shorter suffixes of the header value) -/
theorem C17_findall_fuel_suffices (v : Str) (k : Nat) :
    tokensQ (v.length + 1 + k) v = tokensQ (v.length + 1) v ∧
    tokensC (v.length + 1 + k) v = tokensC (v.length + 1) v :=
  ⟨tokensQ_enough v k, tokensC_enough v k⟩

/-- what the checks accept and reject on the DSP0200 examples and on the near misses the regular
    expressions are known for (a q-value that does not parse becomes a token of its own; `Charset=` with a
    capital C is not the charset parameter; a quoted charset is) -/
theorem C17_header_check_examples :
    acceptCharsetOk "UTF-8".toList = true ∧ acceptCharsetOk "iso-8859-1, utf-8;q=0.5".toList = true ∧
    acceptCharsetOk "iso-8859-1;q=0.5, *;q=0.1".toList = true ∧ acceptCharsetOk "ASCII".toList = false ∧
    acceptCharsetOk "utf8".toList = false ∧ acceptCharsetOk "x;q=7;*".toList = true ∧
    acceptCharsetOk "foo;q=1utf-8".toList = true ∧
    contentTypeOk "application/xml; charset=utf-8".toList = true ∧ contentTypeOk "TEXT/XML;charset=\"UTF-8\"".toList = true ∧
    contentTypeOk "text/xml; charset=ascii".toList = false ∧ contentTypeOk "text/xml; Charset=ascii".toList = true ∧
    contentTypeOk "foo_application/xml".toList = false ∧ contentTypeOk "text/html, text/xml".toList = true ∧
    acceptOk "*/*".toList = true ∧ acceptOk "text/xml, application/xml".toList = false ∧
    contentEncodingOk "Identity".toList = true ∧ contentEncodingOk "gzip".toList = false := by decide

/-! ## one response, no leak -/

/-- **handler_no_leak.**  For every request whose method the handler class implements, every
    environment and every listener state, do_<METHOD> returns normally with exactly one response:
    no exception leaves the handler (which would close the connection without an answer). -/
theorem C17_handler_no_leak (E : Env) (s : LState) (r : Req) (x : X (LState × Response))
    (h : handle Cfg.fixed E s r = some x) : ∃ s' rsp, x = .ok (s', rsp) := by
  rcases handle_fixed E s r with hn | ⟨y, hy, _⟩
  · rw [hn] at h; cases h
  · rw [hy] at h; cases h; exact ⟨y.1, y.2, rfl⟩

/-- the methods without a do_<METHOD> (left to http.server's 501) are exactly those that are neither
    POST nor one of the nine 405 methods -/
theorem C17_unmodelled_methods (E : Env) (s : LState) (r : Req) :
    handle Cfg.fixed E s r = none ↔ (r.method ≠ "POST".toList ∧ isInvalidMethod r.method = false) := by
  unfold handle
  by_cases hp : r.method = "POST".toList
  · simp only [hp, ↓reduceIte]; simp
  · simp only [hp, ↓reduceIte]
    by_cases hi : isInvalidMethod r.method = true
    · simp only [hi, ↓reduceIte]; simp
    · simp only [hi]
      simp only [Bool.not_eq_true] at hi
      simp only [and_true]
      simpa using hp

/-- **one_response.** the status is one of the documented ones and carries its standard reason phrase -/
theorem C17_one_response_documented_status (E : Env) (s s' : LState) (r : Req) (rsp : Response)
    (h : handle Cfg.fixed E s r = some (.ok (s', rsp))) :
    rsp.status ∈ [200, 400, 405, 406, 500] ∧ rsp.reason = reasonOf rsp.status ∧ rsp.reason ≠ [] := by
  rcases handle_fixed E s r with hn | ⟨y, hy, ho⟩
  · rw [hn] at h; cases h
  · rw [hy] at h; cases h
    cases ho with
    | httpError code ce d extra hmem _ =>
      simp only [errTable, List.mem_cons, Prod.mk.injEq, List.mem_nil_iff, or_false] at hmem
      rcases hmem with h | h | h | h | h | h | h | h <;> (obtain ⟨rfl, _, _⟩ := h; simp [httpErrRsp]; decide)
    | cimError => simp [exportRsp]; decide
    | accepted => simp [exportRsp]; decide

/-- **no_header_injection.**  Every header pywbem sends has a value made of printable US-ASCII only —
    no CR, no LF, no other control character, nothing outside Latin-1 — whatever text the request
    (header values, XML attribute values, parser messages quoting the body) contained; and the header
    names are pywbem's own, each at most once. -/
theorem C17_no_header_injection (E : Env) (s s' : LState) (r : Req) (rsp : Response)
    (h : handle Cfg.fixed E s r = some (.ok (s', rsp))) :
    (∀ kv ∈ rsp.headers, ∀ c ∈ kv.2, c ≠ '\r' ∧ c ≠ '\n' ∧ 0x20 ≤ c.toNat ∧ c.toNat < 0x7F) ∧
    (rsp.headers.map (·.1)).Nodup ∧
    (∀ kv ∈ rsp.headers, kv.1 ∈ ["CIMExport".toList, "CIMError".toList, "CIMErrorDetails".toList, "Allow".toList,
                                  "Content-Type".toList, "Content-Length".toList]) := by
  have key : hdrsPrintable rsp.headers = true ∧ (rsp.headers.map (·.1)).Nodup ∧
      (∀ kv ∈ rsp.headers, kv.1 ∈ ["CIMExport".toList, "CIMError".toList, "CIMErrorDetails".toList, "Allow".toList,
                                    "Content-Type".toList, "Content-Length".toList]) := by
    rcases handle_fixed E s r with hn | ⟨y, hy, ho⟩
    · rw [hn] at h; cases h
    · rw [hy] at h; cases h
      cases ho with
      | httpError code ce d extra hmem _ =>
        simp only [errTable, List.mem_cons, Prod.mk.injEq, List.mem_nil_iff, or_false] at hmem
        have hp : hdrsPrintable (errHeaders ce d extra) = true := by
          rcases hmem with h | h | h | h | h | h | h | h <;>
            (obtain ⟨_, rfl, rfl⟩ := h
             first
               | exact errHeaders_printable _ d _ (ce_ok _ (by decide)) (by decide)
               | exact errHeaders_printable _ d _ ce_none (by decide))
        refine ⟨hp, ?_, ?_⟩
        · rcases hmem with h | h | h | h | h | h | h | h <;>
            (obtain ⟨_, rfl, rfl⟩ := h; cases d <;> simp [httpErrRsp, errHeaders] <;> decide)
        · rcases hmem with h | h | h | h | h | h | h | h <;>
            (obtain ⟨_, rfl, rfl⟩ := h; cases d <;> simp [httpErrRsp, errHeaders])
      | cimError msgid m code desc =>
        refine ⟨exportHeaders_printable _, ?_, ?_⟩
        · simp [exportRsp, exportHeaders] <;> decide
        · simp [exportRsp, exportHeaders]
      | accepted msgid inst =>
        refine ⟨exportHeaders_printable _, ?_, ?_⟩
        · simp [exportRsp, exportHeaders] <;> decide
        · simp [exportRsp, exportHeaders]
  refine ⟨?_, key.2.1, key.2.2⟩
  intro kv hkv c hc
  have hk := key.1
  simp only [hdrsPrintable, List.all_eq_true, Bool.and_eq_true] at hk
  have hpc := printable_mem (hk kv hkv).2 hc
  have := printableC_not_crlf hpc
  simp only [printableC, Bool.and_eq_true, decide_eq_true_eq] at hpc
  exact ⟨this.1, this.2, hpc.1, hpc.2⟩

/-- **syntactically valid header section.**  Cutting the octets pywbem + http.server write before the body
    at every CR LF gives back exactly: the status line, the Server and Date lines, one `name: value` line
    per header pywbem sent, and the empty line that ends the header section — no additional line, no
    earlier empty line (so a receiver finds the body, and only the intended headers, where pywbem
    means them to be), provided the stdlib-made Server and Date values contain no CR. -/
theorem C17_wire_header_section (E : Env) (s s' : LState) (r : Req) (rsp : Response)
    (h : handle Cfg.fixed E s r = some (.ok (s', rsp))) (server date : Str)
    (hsv : '\r' ∉ server) (hdt : '\r' ∉ date) :
    splitCRLF false [] (wireHead server date rsp) = headLines server date rsp ++ [[], []] := by
  rcases handle_fixed E s r with hn | ⟨y, hy, ho⟩
  · rw [hn] at h; cases h
  · rw [hy] at h; cases h
    obtain ⟨hh, hr⟩ := outcome_printable ho
    apply splitCRLF_join
    intro l hl
    simp only [headLines, List.mem_cons, List.mem_map] at hl
    rcases hl with rfl | rfl | rfl | ⟨kv, hkv, rfl⟩
    · have h1 := printable_no_cr (natStr_printable rsp.status)
      have h2 := printable_no_cr hr
      simp only [List.mem_append, List.mem_cons, not_or]
      exact ⟨⟨by decide, h1⟩, by decide, h2⟩
    · simp only [headerLine, List.mem_append, List.mem_cons, not_or]
      exact ⟨by decide, by decide, by decide, hsv⟩
    · simp only [headerLine, List.mem_append, List.mem_cons, not_or]
      exact ⟨by decide, by decide, by decide, hdt⟩
    · simp only [hdrsPrintable, List.all_eq_true, Bool.and_eq_true] at hh
      have := hh kv hkv
      simp only [headerLine, List.mem_append, List.mem_cons, not_or]
      exact ⟨printable_no_cr this.1, by decide, by decide, printable_no_cr this.2⟩

/-- **header section, with the stdlib-made values modelled.**  The Date value http.server writes
    (`email.utils.formatdate(…, usegmt=True)`, any field values) is printable US-ASCII, so its hypothesis in
    `C17_wire_header_section` is discharged; the Server value is pywbem's `version_string()` and is CR-free as soon
    as the three version texts of the installation (pywbem, http.server, Python) are. -/
theorem C17_wire_header_section_dated (E : Env) (s s' : LState) (r : Req) (rsp : Response)
    (h : handle Cfg.fixed E s r = some (.ok (s', rsp))) (wd d mon y hh mm ss : Nat) (pv sv sysv : Str)
    (hv : '\r' ∉ pv ∧ '\r' ∉ sv ∧ '\r' ∉ sysv) :
    splitCRLF false [] (wireHead (versionString pv sv sysv) (dateString wd d mon y hh mm ss) rsp) =
      headLines (versionString pv sv sysv) (dateString wd d mon y hh mm ss) rsp ++ [[], []] := by
  have hsv : '\r' ∉ versionString pv sv sysv := by
    have hpp : printable "pywbem-listener/".toList = true := by decide
    have hp : '\r' ∉ "pywbem-listener/".toList := printable_no_cr hpp
    have hsp : ('\r' : Char) ≠ ' ' := by decide
    intro hm
    unfold versionString at hm
    rcases List.mem_append.mp hm with hm | hm
    · rcases List.mem_append.mp hm with hm | hm
      · rcases List.mem_append.mp hm with hm | hm
        · rcases List.mem_append.mp hm with hm | hm
          · exact hp hm
          · exact hv.1 hm
        · rcases List.mem_cons.mp hm with hm | hm
          · exact hsp hm
          · exact hv.2.1 hm
      · rcases List.mem_cons.mp hm with hm | hm
        · exact hsp hm
        · exact hv.2.2 hm
    · rcases List.mem_cons.mp hm with hm | hm
      · exact hsp hm
      · cases hm
  have hdt : '\r' ∉ dateString wd d mon y hh mm ss := printable_no_cr (dateString_printable wd d mon y hh mm ss)
  exact C17_wire_header_section E s s' r rsp h _ _ hsv hdt

/-- the two values on a concrete instant and installation -/
theorem C17_date_server_examples :
    dateString 4 25 9 2026 18 49 5 = "Fri, 25 Sep 2026 18:49:05 GMT".toList ∧
    dateString 0 1 1 999 0 0 0 = "Mon, 01 Jan 0999 00:00:00 GMT".toList ∧
    versionString "1.8.0".toList "BaseHTTP/0.6".toList "Python/3.12.1".toList =
      "pywbem-listener/1.8.0 BaseHTTP/0.6 Python/3.12.1 ".toList := ⟨by decide, by decide, by decide⟩

/-- an HTTP-level error (4xx/5xx) has an empty body, no Content-Length, the CIMExport header; 400 and 406
    carry a CIMError header, 405 carries `Allow: POST`; 4xx/5xx from do_POST always carry CIMErrorDetails -/
theorem C17_error_status_has_cimerror (E : Env) (s s' : LState) (r : Req) (rsp : Response)
    (h : handle Cfg.fixed E s r = some (.ok (s', rsp))) (hs : rsp.status ≠ 200) :
    s' = s ∧ rsp.body = [] ∧ hget rsp.headers "Content-Length" = none ∧
    hget rsp.headers "CIMExport" = some "MethodResponse".toList ∧
    ((rsp.status = 400 ∨ rsp.status = 406) → (hget rsp.headers "CIMError").isSome) ∧
    (rsp.status = 405 → hget rsp.headers "Allow" = some "POST".toList) ∧
    (rsp.status ≠ 405 → (hget rsp.headers "CIMErrorDetails").isSome) := by
  rcases handle_fixed E s r with hn | ⟨y, hy, ho⟩
  · rw [hn] at h; cases h
  · rw [hy] at h; cases h
    cases ho with
    | httpError code ce d extra hmem hd =>
      simp only [errTable, List.mem_cons, Prod.mk.injEq, List.mem_nil_iff, or_false] at hmem
      rcases hmem with h | h | h | h | h | h | h | h <;>
        (obtain ⟨rfl, rfl, rfl⟩ := h
         cases d with
         | none => first | (exfalso; simpa using hd) | (simp [httpErrRsp, errHeaders, hget, lowerAscii] <;> decide)
         | some dd => simp [httpErrRsp, errHeaders, hget, lowerAscii] <;> decide)
    | cimError => exact absurd rfl hs
    | accepted => exact absurd rfl hs

/-- **body_is_valid_export_response.**  A 200 answer is `Content-Type: text/xml`, `Content-Length` = the
    number of UTF-8 octets of the body, `CIMExport: MethodResponse`, and the body is the XML declaration
    followed by the serialised tree CIM(2.0, 2.4) / MESSAGE(ID, 1.4) / SIMPLEEXPRSP / EXPMETHODRESPONSE(NAME)
    with at most one child ERROR(CODE ∈ {1, 4, 7}, DESCRIPTION); code 1 only when the queue is full. -/
theorem C17_body_is_valid_export_response (E : Env) (s s' : LState) (r : Req) (rsp : Response)
    (h : handle Cfg.fixed E s r = some (.ok (s', rsp))) (hs : rsp.status = 200) :
    ∃ msgid m err, rsp = exportRsp msgid m err ∧ rsp.body = xmlDecl ++ (rspTree msgid m err).ser ∧
      hget rsp.headers "Content-Length" = some (natStr (utf8Bytes rsp.body).length) ∧
      hget rsp.headers "Content-Type" = some "text/xml".toList ∧
      (∀ c d, err = some (c, d) → c ∈ [1, 4, 7] ∧ (c = 1 → s.full = true)) := by
  rcases handle_fixed E s r with hn | ⟨y, hy, ho⟩
  · rw [hn] at h; cases h
  · rw [hy] at h; cases h
    cases ho with
    | httpError code ce d extra hmem _ =>
      simp only [errTable, List.mem_cons, Prod.mk.injEq, List.mem_nil_iff, or_false] at hmem
      rcases hmem with h | h | h | h | h | h | h | h <;> (obtain ⟨rfl, _, _⟩ := h; simp [httpErrRsp] at hs)
    | cimError msgid m code desc hc hf =>
      refine ⟨msgid, m, some (code, desc), rfl, rfl, by simp [exportRsp, exportHeaders, hget, lowerAscii] <;> decide,
        by simp [exportRsp, exportHeaders, hget, lowerAscii] <;> decide, ?_⟩
      intro c d hcd
      cases hcd
      exact ⟨by simpa [cimErrFailed, cimErrInvalidParameter, cimErrNotSupported] using hc, fun h1 => hf (by subst h1; rfl)⟩
    | accepted msgid inst =>
      exact ⟨msgid, _, none, rfl, rfl, by simp [exportRsp, exportHeaders, hget, lowerAscii] <;> decide,
        by simp [exportRsp, exportHeaders, hget, lowerAscii] <;> decide, by intro c d hcd; cases hcd⟩

set_option maxRecDepth 4000 in
/-- the text of the two kinds of export response, character for character (request-derived text appears only
    inside attribute values, escaped by `esc`) -/
theorem C17_export_response_text (msgid m : Str) (code : Nat) (desc : Str) :
    rspBody msgid m none =
      xmlDecl ++ "<CIM CIMVERSION=\"2.0\" DTDVERSION=\"2.4\"><MESSAGE ID=\"".toList ++ esc msgid ++
      "\" PROTOCOLVERSION=\"1.4\"><SIMPLEEXPRSP><EXPMETHODRESPONSE NAME=\"".toList ++ esc m ++
      "\"/></SIMPLEEXPRSP></MESSAGE></CIM>".toList ∧
    rspBody msgid m (some (code, desc)) =
      xmlDecl ++ "<CIM CIMVERSION=\"2.0\" DTDVERSION=\"2.4\"><MESSAGE ID=\"".toList ++ esc msgid ++
      "\" PROTOCOLVERSION=\"1.4\"><SIMPLEEXPRSP><EXPMETHODRESPONSE NAME=\"".toList ++ esc m ++
      "\"><ERROR CODE=\"".toList ++ esc (natStr code) ++ "\" DESCRIPTION=\"".toList ++ esc desc ++
      "\"/></EXPMETHODRESPONSE></SIMPLEEXPRSP></MESSAGE></CIM>".toList := by
  have e1 : esc "2.0".toList = "2.0".toList := by decide
  have e2 : esc "2.4".toList = "2.4".toList := by decide
  have e3 : esc "1.4".toList = "1.4".toList := by decide
  constructor <;>
    (simp only [rspBody, rspTree, Xml.ser, Xml.serList, Xml.serAttrs, implCimVersion, implDtdVersion,
       implProtocolVersion, e1, e2, e3]
     simp)

/-- … and what an XML parser reads back from the ID / NAME attributes is the request's message id / method
    name after attribute-value normalisation (TAB, CR, LF become blanks) — unchanged when it has none of them -/
theorem C17_response_ids_read_back (v : Str) (hx : ∀ c ∈ v, isXmlChar c = true) :
    recvAttr (.txt false) (esc v) = some (normAttr false v) ∧
    ((∀ c ∈ v, c ≠ '\r' ∧ c ≠ '\n' ∧ c ≠ '\t') → wireAttr v = some v) :=
  ⟨Proofs.XmlText.recvAttr_esc v false hx, fun hp => Proofs.XmlText.wireAttr_id v hx hp⟩

/-- **failed_request_leaves_state.**  The listener state changes only when the answer is the success
    response, and then exactly by appending that indication to the queue (which was not full). -/
theorem C17_failed_request_leaves_state (E : Env) (s s' : LState) (r : Req) (rsp : Response)
    (h : handle Cfg.fixed E s r = some (.ok (s', rsp))) :
    s' = s ∨ (∃ msgid inst, s.full = false ∧ s' = LState.push s (msgid, inst) ∧
                rsp = exportRsp msgid "ExportIndication".toList none) := by
  rcases handle_fixed E s r with hn | ⟨y, hy, ho⟩
  · rw [hn] at h; cases h
  · rw [hy] at h; cases h
    cases ho with
    | httpError => exact Or.inl rfl
    | cimError => exact Or.inl rfl
    | accepted msgid inst hf => exact Or.inr ⟨msgid, inst, hf, rfl, rfl⟩

/-! ## the 200 body is well-formed XML of the EXPMETHODRESPONSE shape (proved XML parser, not only lxml) -/

/-- **Every export response text is a document the proved XML parser `XmlParse.par` accepts**, and what it
    returns is the tree CIM(CIMVERSION, DTDVERSION) / MESSAGE(ID, PROTOCOLVERSION) / SIMPLEEXPRSP /
    EXPMETHODRESPONSE(NAME) [ / ERROR(CODE, DESCRIPTION) ] with the message id, method name and description as
    attribute values (attribute-value normalised: TAB/CR/LF read back as blanks) — for ANY message id and
    method name made of XML characters and any description made of XML characters. -/
theorem C17_export_response_parses (msgid m : Str) (err : Option (Nat × Str))
    (h1 : ∀ c ∈ msgid, isXmlChar c = true) (h2 : ∀ c ∈ m, isXmlChar c = true)
    (h3 : ∀ p, err = some p → ∀ c ∈ p.2, isXmlChar c = true) :
    Pywbem.Model.XmlParse.par (rspBody msgid m err) =
      some (rspTree (normAttr false msgid) (normAttr false m) (err.map (fun p => (p.1, normAttr false p.2)))) :=
  par_rspBody msgid m err h1 h2 h3

/-- **body_is_valid_export_response, discharged.**  Whatever the request, when the handler answers 200 the body
    it wrote is accepted by the proved XML parser and is the EXPMETHODRESPONSE tree that echoes the request's
    message id and method name; the only assumption is that the XML parser that read the request hands out
    attribute values made of XML characters (`XmlCharsEnv`; true of expat and of `par`).  The ERROR description
    needs no assumption: it is proved printable US-ASCII (`_ascii2`, `str(int)`, constants). -/
theorem C17_response_body_is_xml (E : Env) (hE : XmlCharsEnv E) (s s' : LState) (r : Req) (rsp : Response)
    (h : handle Cfg.fixed E s r = some (.ok (s', rsp))) (hs : rsp.status = 200) :
    ∃ msgid m err, rsp = exportRsp msgid m err ∧
      Pywbem.Model.XmlParse.par rsp.body = some (rspTreeRead msgid m err) ∧
      (∀ p, err = some p → normAttr false p.2 = p.2) := by
  obtain ⟨bytes, msgid, m, params, hp, hd⟩ := handle_200_source E s s' r rsp h hs
  obtain ⟨err, he, hpr⟩ := dispatch_rsp s s' msgid m params rsp hd
  obtain ⟨h1, h2⟩ := parseExportRequest_ids hE hp
  refine ⟨msgid, m, err, he, ?_, ?_⟩
  · rw [he]
    exact par_rspBody msgid m err h1 h2 (fun p hp' => printable_xmlChars (hpr p hp'))
  · intro p hp'
    exact Proofs.XmlText.normAttr_plain p.2 (printable_plain (hpr p hp'))

/-! ## histories: the listener survives anything -/

/-- **survives.**  After ANY sequence of requests (each with its own environment) interleaved with
    deliveries by the callback thread, starting from a fresh listener: every event produced exactly
    one observation, none of them is a dropped connection, every indication that was answered with a
    success response is either delivered or still queued — in order, nothing else, nothing twice —
    and a bounded queue never exceeds its bound. -/
theorem C17_survives_any_history (cap : Nat) (evs : List Ev) :
    let r := run Cfg.fixed (LState.init cap) evs
    r.2.length = evs.length ∧ (∀ o ∈ r.2, ∀ e, o ≠ .dropped e) ∧
    r.1.accepted = r.1.delivered ++ r.1.queue ∧ r.1.cap = cap ∧ (cap ≠ 0 → r.1.queue.length ≤ cap) := by
  intro r
  have h := run_fixed (LState.init cap) (inv_init cap) evs
  have hc : r.1.cap = cap := h.2.1
  exact ⟨h.2.2.1, h.2.2.2, h.1.acc, hc, fun hne => by have := h.1.bound (by rw [hc]; exact hne); rw [hc] at this; exact this⟩

/-- what makes a request a valid indication delivery, in terms of the model's inputs -/
structure ValidIndication (E : Env) (r : Req) (msgid : Str) (inst : Xml) : Prop where
  post : r.method = "POST".toList
  headers : headerCheck r.headers = none
  len : ∃ n : Nat, contentLen r.headers = some (n : Int) ∧ n ≤ maxSsize ∧ n ≤ E.allocLimit ∧
    parseExportRequest Cfg.fixed E (r.body.take n) =
      .ok (msgid, "ExportIndication".toList, [("NewIndication".toList, some inst)])

/-- **later valid indications are accepted.**  In ANY listener state (hence after any history) a valid
    indication is answered with the success response and queued, unless the bounded queue is full, in
    which case it is answered with ERROR CODE="1" and nothing changes. -/
theorem C17_valid_indication_accepted (E : Env) (s : LState) (r : Req) (msgid : Str) (inst : Xml)
    (hv : ValidIndication E r msgid inst) :
    handle Cfg.fixed E s r = some (.ok (
      if s.full then (s, exportRsp msgid "ExportIndication".toList
          (some (1, fmt1 "Indication queue is full (size " (natStr s.cap) ")")))
      else (LState.push s (msgid, inst), exportRsp msgid "ExportIndication".toList none))) := by
  obtain ⟨hp, hh, n, hcl, hmax, hal, hparse⟩ := hv
  have hclv : clValue r.headers = (n : Int) := by simp [clValue, hcl]
  have hread : readFor E (n : Int) r.body = .ok (r.body.take n) := by
    have h1 : ¬ ((n : Int) < 0) := by omega
    have h2 : ¬ (n > maxSsize) := by omega
    have h3 : ¬ (n > E.allocLimit) := by omega
    simp [readFor, readBody, h1, h2, h3]
  simp only [handle, hp, ↓reduceIte, doPost, hh, postBody, fixed_validateLen, Bool.true_and, hclv]
  have h1 : ¬ ((n : Int) < 0) := by omega
  simp only [h1, decide_false, Bool.false_eq_true, ↓reduceIte, Bool.not_true, Bool.false_and, hread, hparse,
    dispatch, sendExportResponse_eq]
  by_cases hf : s.full = true
  · simp only [hf, ↓reduceIte, cimErrFailed]; rfl
  · simp only [hf, Bool.false_eq_true, ↓reduceIte]; rfl

/-! ## any request line: http.server's parse_request in front of the handler -/

/-- **Any request line.**  For EVERY raw request line (any octets, any length), every header list and body, every
    environment and state, one connection ends in exactly one of: nothing written (`silent`), an HTTP/0.9-style
    bare body, http.server's own error response, or pywbem's response — never a handler exception; the state
    changes only together with a pywbem 200 answer; http.server's own codes are 400, 414, 431, 501, 505; pywbem's
    are 200, 400, 405, 406, 500; and the connection stays silent only for a blank line or an HTTP/0.9 request
    (where http.server suppresses status line and headers). -/
theorem C17_any_request_line (E : Env) (s : LState) (raw : Str) (hf : Bool) (headers : List (Str × Str))
    (body : List Nat) :
    let r := serve Cfg.fixed E s raw hf headers body
    (∀ e, r.2 ≠ .dropped e) ∧
    (∀ code, (r.2 = .stdlib code ∨ r.2 = .bare code) → code ∈ [400, 414, 431, 501, 505]) ∧
    (∀ rsp, r.2 = .status rsp → rsp.status ∈ [200, 400, 405, 406, 500]) ∧
    (r.1 ≠ s → ∃ rsp, (r.2 = .status rsp ∨ r.2 = .bareBody) ∧ rsp.status = 200) ∧
    (r.2 = .silent → raw = [] ∨ pySplit (rstripCRLF raw) = [] ∨
      ∃ c p, parseRequestLine raw = .dispatch c p "HTTP/0.9".toList) := by
  intro r
  have hr : r = serve Cfg.fixed E s raw hf headers body := rfl
  clear_value r
  unfold serve at hr
  cases hp : parseRequestLine raw with
  | silent =>
    simp only [hp] at hr
    subst hr
    refine ⟨by simp, by simp, by simp, by simp, fun _ => ?_⟩
    unfold parseRequestLine at hp
    split at hp
    · cases hp
    · split at hp
      · rename_i h; exact Or.inl h
      · simp only at hp
        split at hp
        · rename_i h; exact Or.inr (Or.inl h)
        · split at hp
          · cases hp
          · split at hp
            · split at hp <;> cases hp
            · cases hp
            · cases hp
  | reject w =>
    simp only [hp] at hr
    subst hr
    rcases parseRequestLine_reject hp with rfl | rfl | rfl | rfl <;> simp
  | dispatch c p ver =>
    simp only [hp] at hr
    cases hf with
    | true =>
      simp only [↓reduceIte] at hr
      subst hr
      rcases emitError_cases ver 431 with e | e <;> simp [e]
    | false =>
      simp only [Bool.false_eq_true, ↓reduceIte] at hr
      rcases handle_fixed E s { method := c, headers := headers, body := body } with hn | ⟨x, hx, ho⟩
      · simp only [hn] at hr
        subst hr
        rcases emitError_cases ver 501 with e | e <;> simp [e]
      · obtain ⟨s', rsp⟩ := x
        simp only [hx] at hr
        subst hr
        have hst := (C17_one_response_documented_status E s s' _ rsp hx).1
        have hfl := C17_failed_request_leaves_state E s s' _ rsp hx
        simp only [render]
        by_cases h9 : ver = "HTTP/0.9".toList
        · simp only [h9, ↓reduceIte]
          refine ⟨by split <;> simp, by split <;> simp, by split <;> simp, ?_, fun _ => Or.inr (Or.inr ⟨c, p, by rw [← h9]⟩)⟩
          intro hne
          rcases hfl with rfl | ⟨msgid, inst, _, _, hrsp⟩
          · exact absurd rfl hne
          · refine ⟨rsp, ?_, by rw [hrsp]; rfl⟩
            have : rsp.body ≠ [] := by
              rw [hrsp]; simp only [exportRsp, rspBody]; rw [xmlDecl_head]; simp
            simp [this]
        · simp only [h9, ↓reduceIte]
          refine ⟨by simp, by simp, by intro r' hr'; cases hr'; exact hst, ?_, by simp⟩
          intro hne
          rcases hfl with rfl | ⟨msgid, inst, _, _, hrsp⟩
          · exact absurd rfl hne
          · exact ⟨rsp, Or.inl rfl, by rw [hrsp]; rfl⟩

/-- the request-line rules on the cases the RFCs and http.server's comments name -/
theorem C17_request_line_examples :
    parseRequestLine "POST / HTTP/1.1\r\n".toList = .dispatch "POST".toList "/".toList "HTTP/1.1".toList ∧
    parseRequestLine "GET /\r\n".toList = .dispatch "GET".toList "/".toList "HTTP/0.9".toList ∧
    parseRequestLine "POST /\r\n".toList = .reject (.bare 400) ∧
    parseRequestLine "POST / HTTP/2.0\r\n".toList = .reject (.bare 505) ∧
    parseRequestLine "POST / HTTP/1.1.1\r\n".toList = .reject (.bare 400) ∧
    parseRequestLine "POST / FOO/1.1\r\n".toList = .reject (.bare 400) ∧
    parseRequestLine "POST / x HTTP/1.1\r\n".toList = .reject (.stdlib 400) ∧
    parseRequestLine "POST\t/\u00a0HTTP/1.0\n".toList = .dispatch "POST".toList "/".toList "HTTP/1.0".toList ∧
    parseRequestLine "\r\n".toList = .silent ∧ parseRequestLine "FOO".toList = .reject (.bare 400) := by decide

/-- **Any raw request head.**  The same for the raw text behind the request line (any characters): the header
    section is parsed by the model of http.client.parse_headers (`parseHeaders`: readline limits ⇒ 431, header lines
    = longest prefix matching the feed parser's headerRE, continuation lines, `From ` lines and empty names
    skipped, value = text after the first colon without leading blanks, folded lines kept, trailing CR/LF removed)
    and whatever it yields, the connection is never dropped and the state changes only with a 200. -/
theorem C17_any_raw_request (E : Env) (s : LState) (raw rest : Str) (body : List Nat) :
    let r := serveRaw Cfg.fixed E s raw rest body
    (∀ e, r.2 ≠ .dropped e) ∧
    (∀ code, (r.2 = .stdlib code ∨ r.2 = .bare code) → code ∈ [400, 414, 431, 501, 505]) ∧
    (∀ rsp, r.2 = .status rsp → rsp.status ∈ [200, 400, 405, 406, 500]) ∧
    (r.1 ≠ s → ∃ rsp, (r.2 = .status rsp ∨ r.2 = .bareBody) ∧ rsp.status = 200) := by
  intro r
  have hr : r = serveRaw Cfg.fixed E s raw rest body := rfl
  clear_value r
  unfold serveRaw at hr
  cases hp : parseHeaders rest with
  | none =>
    simp only [hp] at hr
    have := C17_any_request_line E s raw true [] body
    simp only at this
    rw [← hr] at this
    exact ⟨this.1, this.2.1, this.2.2.1, this.2.2.2.1⟩
  | some hs =>
    simp only [hp] at hr
    have := C17_any_request_line E s raw false hs body
    simp only at this
    rw [← hr] at this
    exact ⟨this.1, this.2.1, this.2.2.1, this.2.2.2.1⟩

/-- the header-section rules on the forms the listener's checks depend on: name case kept, blanks after the colon
    dropped, trailing blanks kept, obs-fold kept inside the value, a bare LF line end, duplicate headers both kept
    (the checks read the first), a line without colon ends the header section, `From ` lines and empty names skipped -/
theorem C17_header_section_examples :
    parseHeaders "Content-Type: text/xml\r\ncontent-length:12 \r\n\r\n".toList =
      some [("Content-Type".toList, "text/xml".toList), ("content-length".toList, "12 ".toList)] ∧
    parseHeaders "Accept: foo\r\n bar\r\nX:\t \ty\n\n".toList =
      some [("Accept".toList, "foo\r\n bar".toList), ("X".toList, "y".toList)] ∧
    parseHeaders "A: 1\r\nA: 2\r\n\r\n".toList = some [("A".toList, "1".toList), ("A".toList, "2".toList)] ∧
    parseHeaders "A: 1\r\nno colon\r\nB: 2\r\n\r\n".toList = some [("A".toList, "1".toList)] ∧
    parseHeaders "From me\r\n: x\r\n cont\r\nB: 2\r\n\r\n".toList = some [("B".toList, "2".toList)] ∧
    parseHeaders "A: a\u000bb\r\n\r\n".toList = some [("A".toList, "a\u000bb".toList)] :=
  ⟨by decide, by decide, by decide, by decide, by decide, by decide⟩

/-! ## handler threads: peers do not wait for each other -/

/-- the listener's server class puts ThreadingMixIn before HTTPServer (else process_request is the serial one) -/
theorem C17_pin_threaded_server : serverBases = ["socketserver.ThreadingMixIn", "HTTPServer"] := by decide

/-- **Linearisable.**  Whatever the interleaving of connections (request heads arriving, body octets trickling
    in, peers giving up, the callback thread delivering), the listener state and the sequence of answers are
    exactly those of the sequential model run on the requests in the order in which they became complete: every
    theorem about `run` (in particular `C17_survives_any_history`) speaks about concurrent peers, too. -/
theorem C17_concurrent_linearizable (cfg : Cfg) (cs : CState) (evs : List CEv) :
    run cfg cs.ls (crun cfg cs evs).trace = ((crun cfg cs evs).st.ls, (crun cfg cs evs).obs) :=
  crun_lin cfg cs evs

/-- **Progress: nobody waits for somebody else.**  After any such interleaving, starting without pending
    connections, every connection still unanswered is one whose OWN peer has announced more octets than it has
    sent and has not stopped sending (a POST that passed the header checks, with a valid Content-Length) — a
    stalled or slow peer never keeps another request from being answered. -/
theorem C17_concurrent_progress (s : LState) (evs : List CEv) :
    ∀ c ∈ (crun Cfg.fixed { ls := s, pending := [] } evs).st.pending,
      c.eof = false ∧ c.method = "POST".toList ∧ headerCheck c.headers = none ∧
      0 ≤ clValue c.headers ∧ c.got.length < (clValue c.headers).toNat := by
  intro c hc
  have hw := crun_wait Cfg.fixed { ls := s, pending := [] } evs (by intro x hx; cases hx) c hc
  simp only [Conn.waits, fixed_validateLen, Bool.not_true, Bool.false_and, Bool.and_eq_true, beq_iff_eq,
    Option.isNone_iff_eq_none, Bool.not_eq_true'] at hw
  obtain ⟨⟨⟨hm, hh⟩, he⟩, hl⟩ := hw
  by_cases hneg : clValue c.headers < 0
  · simp [hneg] at hl
  · simp only [hneg, ↓reduceIte, Bool.and_eq_true, decide_eq_true_eq] at hl
    exact ⟨he, hm, hh, by omega, hl.2⟩

/-- a connection whose request is complete is answered at once, with the answer the sequential handler gives in
    the current listener state, whatever other connections are pending (and they stay pending, untouched) -/
theorem C17_stalled_peer_blocks_nobody (cfg : Cfg) (cs : CState) (c : Conn) (h : c.waits cfg = false) :
    (cstep cfg cs (.connect c)).obs = [(step cfg cs.ls (.request c.E c.req)).2] ∧
    (cstep cfg cs (.connect c)).st.pending = cs.pending := by
  simp [cstep, advance, h]

/-- nothing is dropped and the queue bookkeeping holds in every concurrent history -/
theorem C17_concurrent_survives (cap : Nat) (evs : List CEv) :
    let o := crun Cfg.fixed { ls := LState.init cap, pending := [] } evs
    (∀ x ∈ o.obs, ∀ e, x ≠ .dropped e) ∧ o.st.ls.accepted = o.st.ls.delivered ++ o.st.ls.queue ∧
    (cap ≠ 0 → o.st.ls.queue.length ≤ cap) := by
  intro o
  have hl := crun_lin Cfg.fixed { ls := LState.init cap, pending := [] } evs
  have hs := C17_survives_any_history cap o.trace
  simp only at hl hs
  rw [hl] at hs
  exact ⟨hs.2.1, hs.2.2.1, hs.2.2.2.2⟩

/-! ## the request parser made concrete: strict UTF-8 + the proved XML parser, end to end from octets -/

/-- strict UTF-8 decoding undoes encoding (so the octets of any text reach the XML parser as that text) -/
theorem C17_utf8_decode_encode (s : Str) : utf8Decode (utf8Bytes s) = some s := utf8Decode_utf8Bytes s

/-- the concrete request parser `parseBytes` (UTF-8 decoding, BOM, `XmlParse.par`) applied to the octets of
    "XML declaration + serialisation of ANY well-formed element" returns exactly what the wire makes of that
    element (`wireTree`): the `xmlParse` parameter of the general theorems is discharged for every document a
    minidom-style serialiser can produce -/
theorem C17_serialised_request_parsed (t : Xml) (h : Pywbem.Model.XmlParse.WfTree t) (hel : t.isElem = true) :
    ∃ t', Pywbem.Model.XmlParse.wireTree t = some t' ∧ parseBytes (utf8Bytes (xmlDecl ++ Xml.ser t)) = .ok t' :=
  parseBytes_ser t h hel

/-- **A serialised indication is accepted, from the octets on.**  For ANY message id made of XML characters and
    ANY well-formed INSTANCE element, the octets a sender's serialiser writes (declaration + `ser` of the
    ExportIndication envelope around the instance), posted with headers that pass the header checks and a
    Content-Length equal to the number of octets, are parsed by the concrete parser and answered with the
    success response; the indication queued is the instance as the wire delivers it (`wireTree`), under the
    attribute-normalised message id — in any listener state (ERROR 1 when the queue is full).  Only the INSTANCE
    content parser is still a parameter (assumed to accept). -/
theorem C17_serialised_indication_accepted (instP : Xml → Except PyExc Unit) (hI : ∀ t, instP t = .ok ())
    (s : LState) (r : Req) (msgid : Str) (ias : List (Str × Str)) (iks : List Xml)
    (h1 : ∀ c ∈ msgid, isXmlChar c = true) (h2 : Pywbem.Model.XmlParse.WfTree (.elem "INSTANCE".toList ias iks))
    (hm : r.method = "POST".toList) (hh : headerCheck r.headers = none)
    (hb : r.body = utf8Bytes (xmlDecl ++ Xml.ser (reqTree msgid (.elem "INSTANCE".toList ias iks))))
    (hcl : contentLen r.headers = some (r.body.length : Int)) (hlen : r.body.length ≤ 2 ^ 40) :
    ∃ ias' iks', Pywbem.Model.XmlParse.wireTree (.elem "INSTANCE".toList ias iks) = some (.elem "INSTANCE".toList ias' iks') ∧
      handle Cfg.fixed (parEnv instP) s r = some (.ok (
        if s.full then (s, exportRsp (normAttr false msgid) "ExportIndication".toList
            (some (1, fmt1 "Indication queue is full (size " (natStr s.cap) ")")))
        else (LState.push s (normAttr false msgid, .elem "INSTANCE".toList ias' iks'),
              exportRsp (normAttr false msgid) "ExportIndication".toList none))) := by
  obtain ⟨ias', iks', hw, hp⟩ := parseExportRequest_serialised instP msgid ias iks h1 h2 hI
  refine ⟨ias', iks', hw, ?_⟩
  apply C17_valid_indication_accepted
  refine ⟨hm, hh, r.body.length, hcl, ?_, hlen, ?_⟩
  · have : (2 : Nat) ^ 40 ≤ maxSsize := by decide
    omega
  · rw [List.take_length, hb]
    exact hp

/-- the concrete request parser satisfies the one assumption of `C17_response_body_is_xml`: every attribute value
    `XmlParse.par` returns consists of XML characters (proved through `recvAttr`, `parseAttrs`, `contentLoop`,
    `parseElem`) -/
theorem C17_concrete_parser_xml_chars (instP : Xml → Except PyExc Unit) : XmlCharsEnv (parEnv instP) :=
  parEnv_xmlChars instP

/-- **body_is_valid_export_response, without assumptions** for the concrete parser: whatever octets are posted,
    whatever the headers and the listener state, whenever the answer is 200 its body is accepted by the proved XML
    parser and is the EXPMETHODRESPONSE tree echoing the request's message id and method name. -/
theorem C17_response_body_is_xml_concrete (instP : Xml → Except PyExc Unit) (s s' : LState) (r : Req) (rsp : Response)
    (h : handle Cfg.fixed (parEnv instP) s r = some (.ok (s', rsp))) (hs : rsp.status = 200) :
    ∃ msgid m err, rsp = exportRsp msgid m err ∧
      Pywbem.Model.XmlParse.par rsp.body = some (rspTreeRead msgid m err) :=
  let ⟨msgid, m, err, h1, h2, _⟩ := C17_response_body_is_xml _ (parEnv_xmlChars instP) s s' r rsp h hs
  ⟨msgid, m, err, h1, h2⟩

/-! ## the request classes the property names -/

/-- unknown export method ⇒ export response with ERROR CODE="7" -/
theorem C17_unknown_method_answered_with_error (s : LState) (msgid m : Str) (params : List (Str × Option Xml))
    (hm : m ≠ "ExportIndication".toList) :
    dispatch s msgid m params =
      .ok (s, exportRsp msgid m (some (7, fmt1 "Unknown export method: " (ascii2 m) ""))) := by
  unfold dispatch
  simp only [hm, ↓reduceIte, sendExportResponse_eq, cimErrNotSupported]
  rfl

/-- wrong parameters (none, several, wrong name, no instance) ⇒ ERROR CODE="4", nothing queued -/
theorem C17_wrong_parameters_answered_with_error (s : LState) (msgid : Str) (params : List (Str × Option Xml))
    (hw : ∀ inst, params ≠ [("NewIndication".toList, some inst)]) :
    ∃ desc, dispatch s msgid "ExportIndication".toList params =
      .ok (s, exportRsp msgid "ExportIndication".toList (some (4, desc))) := by
  simp only [dispatch, ↓reduceIte, sendExportResponse_eq, cimErrInvalidParameter]
  rcases params with _ | ⟨⟨k, v⟩, _ | ⟨p2, rest⟩⟩
  · exact ⟨_, rfl⟩
  · by_cases hk : k = "NewIndication".toList
    · cases v with
      | none => simp only [hk, ↓reduceIte]; exact ⟨_, rfl⟩
      | some inst => exact absurd (by rw [hk]) (hw inst)
    · simp only [hk, ↓reduceIte]; exact ⟨_, rfl⟩
  · exact ⟨_, rfl⟩

/-- duplicate parameter names never reach the dispatcher: the request is rejected as not well-formed -/
theorem C17_duplicate_parameters_rejected (E : Env) (body : List Nat) (t : Xml) (msgid m : Str)
    (ps : List (Str × Option Xml)) (hx : E.xmlParse body = .ok t) (hc : parseCim E t = .ok (msgid, m, ps))
    (hd : hasDupName ps = true) : parseExportRequest Cfg.fixed E body = .error .notWellFormed := by
  simp [parseExportRequest, hx, hc, hd, fixed_rejectDup, bind, Except.bind]

/-- unsupported CIMVERSION / DTDVERSION ⇒ the corresponding version error (mapped to HTTP 400 with
    CIMError unsupported-version / unsupported-dtd-version by `parseFailure`) -/
theorem C17_unsupported_versions_rejected (E : Env) (t : Xml) (as : List (Str × Str)) (ks : List Xml)
    (hc : checkNode t "CIM" ["CIMVERSION", "DTDVERSION"] [] none false = .ok (as, ks)) :
    (startsWith (attrD as "CIMVERSION") cimPrefix.toList = false →
      parseCim E t = .error (.cimVersion (attrD as "CIMVERSION"))) ∧
    (startsWith (attrD as "CIMVERSION") cimPrefix.toList = true →
      startsWith (attrD as "DTDVERSION") dtdPrefix.toList = false →
      parseCim E t = .error (.dtdVersion (attrD as "DTDVERSION"))) := by
  constructor
  · intro h
    simp only [parseCim, hc, liftR, bind, Except.bind, h, Bool.not_false, ↓reduceIte]
  · intro h1 h2
    simp only [parseCim, hc, liftR, bind, Except.bind, h1, h2, Bool.not_true, Bool.false_eq_true, Bool.not_false,
      ↓reduceIte]

/-- ill-formed XML (expat error) ⇒ HTTP 400, CIMError request-not-well-formed, details = %-escaped message -/
theorem C17_ill_formed_xml_answered_400 (E : Env) (body : List Nat) (hx : E.xmlParse body = .error none) :
    parseExportRequest Cfg.fixed E body = .error .notWellFormed ∧
    parseFailure Cfg.fixed E .notWellFormed =
      .ok (httpErrRsp 400 (some "request-not-well-formed") (some E.parserMsg) []) := by
  refine ⟨by simp [parseExportRequest, hx], ?_⟩
  simp only [parseFailure]
  exact sendHttpError_fixed _ _ _ _ (ce_ok _ (by decide)) rfl

/-- header mismatch ⇒ 406 with CIMError header-mismatch, before anything is read from the connection -/
theorem C17_header_mismatch_answered_406 (E : Env) (s : LState) (r : Req) (d : Str)
    (hh : headerCheck r.headers = some d) :
    doPost Cfg.fixed E s r = .ok (s, httpErrRsp 406 (some "header-mismatch") (some d) []) ∧
    bytesRead Cfg.fixed E r = none := by
  constructor
  · simp only [doPost, hh]
    rw [sendHttpError_fixed _ _ _ _ (ce_ok "header-mismatch" (by decide)) rfl]; rfl
  · simp [bytesRead, hh]

/-- invalid or negative Content-Length ⇒ 400 without reading; otherwise never more than announced or sent -/
theorem C17_content_length_respected (E : Env) (r : Req) (hh : headerCheck r.headers = none) :
    (clValue r.headers < 0 → bytesRead Cfg.fixed E r = none) ∧
    (∀ k, bytesRead Cfg.fixed E r = some k → k ≤ r.body.length ∧ (k : Int) ≤ clValue r.headers) := by
  constructor
  · intro h; simp [bytesRead, hh, fixed_validateLen, h]
  · intro k hk
    simp only [bytesRead, hh, fixed_validateLen, Bool.true_and, Bool.not_true, Bool.false_and,
      Bool.false_eq_true, ↓reduceIte] at hk
    by_cases hneg : clValue r.headers < 0
    · simp [hneg] at hk
    · have hrf : readFor E (clValue r.headers) r.body = readBody E (clValue r.headers).toNat r.body := by
        simp [readFor, hneg]
      simp only [hneg, decide_false, Bool.false_eq_true, ↓reduceIte, hrf] at hk
      unfold readBody at hk
      by_cases h1 : (clValue r.headers).toNat > maxSsize
      · simp [h1] at hk
      · by_cases h2 : (clValue r.headers).toNat > E.allocLimit
        · simp [h1, h2] at hk
        · simp [h1, h2] at hk
          omega

/-! ## the CIMErrorDetails encoding -/

/-- the encoded details contain printable US-ASCII only … -/
theorem C17_details_printable (d : Str) :
    ∀ c ∈ quoteDetails d, c ≠ '\r' ∧ c ≠ '\n' ∧ 0x20 ≤ c.toNat ∧ c.toNat < 0x7F := by
  intro c hc
  have hpc := printable_mem (quoteDetails_printable d) hc
  have := printableC_not_crlf hpc
  simp only [printableC, Bool.and_eq_true, decide_eq_true_eq] at hpc
  exact ⟨this.1, this.2, hpc.1, hpc.2⟩

/-- … and lose nothing: %-unescaping gives back exactly the UTF-8 octets of the message -/
theorem C17_details_roundtrip (d : Str) : unquoteBytes (quoteDetails d) = utf8Bytes d :=
  unquote_quoteBytes _ (utf8Bytes_lt d)

/-! ## what each fix repairs: witnesses on the code as it was (`Cfg.original`) -/

def demoEnv (tree : Option Xml) (msg : Str) (inst : Except PyExc Unit) : Env :=
  { xmlParse := fun _ => match tree with | some t => .ok t | none => .error none, parserMsg := msg, instParse := fun _ => inst, foreign := fun _ => none,
    allocLimit := 1000, excText := fun e => e.name.toList }

def demoHeaders (cl : String) : List (Str × Str) :=
  [("Content-Type".toList, "text/xml".toList), ("Content-Length".toList, cl.toList)]

def demoReq (cl : String) : Req := { method := "POST".toList, headers := demoHeaders cl, body := [60, 67] }

def demoTree (cimver : String) (params : List Xml) : Xml :=
  .elem "CIM".toList [("CIMVERSION".toList, cimver.toList), ("DTDVERSION".toList, "2.4".toList)] [
    .elem "MESSAGE".toList [("ID".toList, "42".toList), ("PROTOCOLVERSION".toList, "1.4".toList)] [
      .elem "SIMPLEEXPREQ".toList [] [.elem "EXPMETHODCALL".toList [("NAME".toList, "ExportIndication".toList)] params]]]

def demoParam (cls : String) : Xml :=
  .elem "EXPPARAMVALUE".toList [("NAME".toList, "NewIndication".toList)]
    [.elem "INSTANCE".toList [("CLASSNAME".toList, cls.toList)] []]

def s0 : LState := LState.init 0

def isDropped (o : Option (X (LState × Response))) (name : String) : Bool :=
  match o with
  | some (.error e) => e.name == name
  | _ => false

def hasRawLF (o : Option (X (LState × Response))) : Bool :=
  match o with
  | some (.ok (_, rsp)) => rsp.headers.any (fun kv => kv.2.contains '\n')
  | _ => false

def isSuccess (o : Option (X (LState × Response))) : Bool :=
  match o with
  | some (.ok (s, rsp)) => rsp.status == 200 && s.queue.length == 1 && rsp == exportRsp "42".toList "ExportIndication".toList none
  | _ => false

def statusIs (o : Option (X (LState × Response))) (n : Nat) : Bool :=
  match o with
  | some (.ok (_, rsp)) => rsp.status == n
  | _ => false

/-- `Content-Length: abc`: ValueError left do_POST (connection dropped, no response) … -/
theorem C17_original_drops_on_bad_length :
    isDropped (handle Cfg.original (demoEnv none [] (.ok ())) s0 (demoReq "abc")) "ValueError" = true := by decide
/-- … now answered 400 -/
example : statusIs (handle Cfg.fixed (demoEnv none [] (.ok ())) s0 (demoReq "abc")) 400 = true := by decide
example : statusIs (handle Cfg.fixed (demoEnv none [] (.ok ())) s0 (demoReq "-1")) 400 = true := by decide

/-- a multi-line parser message went into CIMErrorDetails raw: a header value containing LF … -/
theorem C17_original_header_injection :
    hasRawLF (handle Cfg.original (demoEnv none "line1\nX-Injected: 1".toList (.ok ())) s0 (demoReq "2")) = true := by
  decide
/-- … as did request text: CIMVERSION="3&#10;X-Injected: 1" -/
theorem C17_original_header_injection_from_request :
    hasRawLF (handle Cfg.original (demoEnv (some (demoTree "3\nX-Injected: 1" [])) [] (.ok ())) s0 (demoReq "2")) = true := by
  decide
example : hasRawLF (handle Cfg.fixed (demoEnv (some (demoTree "3\nX-Injected: 1" [])) [] (.ok ())) s0 (demoReq "2")) = false := by
  decide

/-- … and on the wire the header section of that answer then has a line pywbem never meant to send -/
theorem C17_original_header_section_split :
    (match handle Cfg.original (demoEnv (some (demoTree "3\r\nX-Injected: 1" [])) [] (.ok ())) s0 (demoReq "2") with
     | some (.ok (_, rsp)) => (splitCRLF false [] (wireHead [] [] rsp)).length == (headLines [] [] rsp).length + 3
     | _ => false) = true := by decide

/-- text outside Latin-1 in the details: UnicodeEncodeError in send_header, connection dropped -/
theorem C17_original_drops_on_non_latin1_details :
    isDropped (handle Cfg.original (demoEnv (some (demoTree "3€" [])) [] (.ok ())) s0 (demoReq "2")) "UnicodeEncodeError" = true := by
  decide
example : statusIs (handle Cfg.fixed (demoEnv (some (demoTree "3€" [])) [] (.ok ())) s0 (demoReq "2")) 400 = true := by decide

/-- an exception class the handler did not expect (here OverflowError from the instance parser) left do_POST -/
theorem C17_original_leaks_parser_exception :
    isDropped (handle Cfg.original (demoEnv (some (demoTree "2.0" [demoParam "C"])) [] (.error .overflowError)) s0 (demoReq "2"))
      "OverflowError" = true := by decide
example : statusIs (handle Cfg.fixed (demoEnv (some (demoTree "2.0" [demoParam "C"])) [] (.error .overflowError)) s0 (demoReq "2")) 500 = true := by
  decide

set_option maxRecDepth 8000 in
/-- two NewIndication parameters were answered with success although only one indication was queued -/
theorem C17_original_accepts_duplicate_parameters :
    isSuccess (handle Cfg.original (demoEnv (some (demoTree "2.0" [demoParam "A", demoParam "B"])) [] (.ok ())) s0 (demoReq "2")) = true := by
  decide
example : statusIs (handle Cfg.fixed (demoEnv (some (demoTree "2.0" [demoParam "A", demoParam "B"])) [] (.ok ())) s0 (demoReq "2")) 400 = true := by
  decide

/-! ## non-vacuity -/

/-- `ValidIndication` is satisfiable, and then `C17_valid_indication_accepted` applies -/
example : ValidIndication (demoEnv (some (demoTree "2.0" [demoParam "C"])) [] (.ok ())) (demoReq "2") "42".toList
    (.elem "INSTANCE".toList [("CLASSNAME".toList, "C".toList)] []) :=
  ⟨rfl, by decide, 2, by decide, by decide, by decide, by rfl⟩

set_option maxRecDepth 8000 in
example : isSuccess (handle Cfg.fixed (demoEnv (some (demoTree "2.0" [demoParam "C"])) [] (.ok ())) s0 (demoReq "2")) = true := by
  decide

set_option maxRecDepth 8000 in
/-- a history with a drop-provoking request in the middle: nothing is dropped, the later indication is queued -/
example :
    (run Cfg.fixed (LState.init 1) [.request (demoEnv none [] (.ok ())) (demoReq "abc"),
       .request (demoEnv (some (demoTree "2.0" [demoParam "C"])) [] (.ok ())) (demoReq "2"), .deliver]).1.delivered.length = 1 := by
  decide

/-- non-vacuity of `C17_response_body_is_xml`: an environment with the assumed property (its request is answered
    200, see above), and a body with characters that need escaping / normalising, parsed -/
example : XmlCharsEnv (demoEnv (some (demoTree "2.0" [demoParam "C"])) [] (.ok ())) := by
  intro b t ht
  simp only [demoEnv] at ht
  cases ht
  decide

example : Pywbem.Model.XmlParse.par (rspBody "4&2".toList "Export\tIndication".toList (some (7, "x".toList))) =
    some (rspTree (normAttr false "4&2".toList) (normAttr false "Export\tIndication".toList)
      (some (7, normAttr false "x".toList))) :=
  C17_export_response_parses _ _ _ (by decide) (by decide) (by intro p hp; cases hp; decide)

example : normAttr false "Export\tIndication".toList = "Export Indication".toList := by decide

/-- non-vacuity of `C17_serialised_indication_accepted`: a concrete request (2 headers, 296 octets) meets all its
    hypotheses -/
def serReq : Req :=
  { method := "POST".toList,
    headers := [("Content-Type".toList, "text/xml".toList), ("Content-Length".toList, "296".toList)],
    body := utf8Bytes (xmlDecl ++ Xml.ser (reqTree "4\t2".toList (.elem "INSTANCE".toList [("CLASSNAME".toList, "C".toList)] []))) }

set_option maxRecDepth 20000 in
example : headerCheck serReq.headers = none ∧ contentLen serReq.headers = some (serReq.body.length : Int) ∧
    serReq.body.length ≤ 2 ^ 40 ∧
    Pywbem.Model.XmlParse.WfTree (.elem "INSTANCE".toList [("CLASSNAME".toList, "C".toList)] []) := by decide

/-- non-vacuity / witness for the thread model: a peer that announces 5 octets and sends 2 stays pending, the valid
    indication that arrives meanwhile is answered 200 and queued; with ONE serving thread (`sstepConnect`, the
    server class without the mixin first) the same indication gets no answer while the first peer stalls -/
def stalledConn : Conn :=
  { id := 1, E := demoEnv none [] (.ok ()), method := "POST".toList, headers := demoHeaders "5", got := [60, 67], eof := false }
def goodConn : Conn :=
  { id := 2, E := demoEnv (some (demoTree "2.0" [demoParam "C"])) [] (.ok ()), method := "POST".toList,
    headers := demoHeaders "2", got := [60, 67], eof := true }

set_option maxRecDepth 8000 in
theorem C17_threaded_vs_serial_witness :
    let o := crun Cfg.fixed { ls := s0, pending := [] } [.connect stalledConn, .connect goodConn]
    (o.st.pending.map (·.id) = [1] ∧ o.st.ls.queue.length = 1 ∧ o.obs.length = 1) ∧
    (let o1 := sstepConnect Cfg.fixed { ls := s0, pending := [] } stalledConn
     (sstepConnect Cfg.fixed o1.st goodConn).obs = [] ∧ o1.obs = []) := by decide

end C17
