/-
C03 — Everything pywbem puts on the wire is well-formed, DTD-valid CIM-XML.
ONLY property theorems, non-vacuity examples and negation witnesses live here; lemmas are in
Proofs/Lemmas/Dtd*.lean.  `dtd` is the table generated from tests/dtd/DSP0203_2.3.1.dtd on every run;
`validTree dtd t` = DTD structure of the tree (`structNode`) ∧ every character is an XML 1.0 Char (`charsOk`).
-/
import Proofs.Lemmas.DtdWire
import Proofs.Lemmas.DtdUri
import Proofs.Lemmas.DtdVal
import Proofs.Lemmas.DtdChars
import Proofs.Lemmas.DtdRecv

namespace C03
open Pywbem.Model Pywbem.Model.Dtd Pywbem.Model.XmlText Pywbem.Model.Sendable Pywbem.Model.Req Pywbem.Proto
open Proofs.Dtd Proofs.DtdEnc Proofs.DtdReq
open Pywbem.Generated (dtd)
open Pywbem.Model.XmlParse (par wireTree WfTree)
open Proofs.XmlParse (declStr)
open Proofs.DtdWire

/-- **The validator's content-model matcher is exact**: for every content model (deterministic or not) and every
    sequence of child names, `matchRe` answers true iff the sequence is in the language of the model. -/
theorem C03_matcher_exact (r : Re) (w : List Name) : matchRe r w = true ↔ Lang r w := matchRe_iff r w

/-- **tocimxml() of every CIM object kind is valid** (paths, instances, classes, properties, methods, parameters,
    qualifiers, qualifier declarations; arbitrary nesting of references, arrays, embedded objects), for every
    codec of the third-party conversions.
    `sendableObj C o` = the constructor invariants of the pywbem classes (`shapeObj`) ∧ every character of the
    encoding is an XML character (what `_check_xml_chars` enforces while the tree is built).
    *partial*: for qualifier declarations `shapeObj` excludes scopes with `any: False` or a name outside the
    seven DSP0201 scopes (known findings C03-KF1 / C03-KF2; negation witnesses below).  Full statement:
    the same for every object the constructors accept. -/
theorem C03_encode_valid_partial (C : Codec) (o : Obj) (h : sendableObj C o = true) :
    validTree dtd (encObj C o) = true := by
  simp only [sendableObj, Bool.and_eq_true] at h
  simp only [validTree, Bool.and_eq_true]
  exact ⟨⟨encObj_isElem C o, struct_encObj C o h.1⟩, h.2⟩

/-- the structural half needs no character hypothesis at all, and no hypothesis on the codec -/
theorem C03_encode_structure (C : Codec) (o : Obj) (h : shapeObj o = true) : structNode dtd (encObj C o) = true :=
  struct_encObj C o h

/-- CIMParameter.tocimxml(as_value=True) (PARAMVALUE with VALUE / VALUE.REFERENCE / VALUE.ARRAY / VALUE.REFARRAY) -/
theorem C03_paramvalue_valid (C : Codec) (p : Param) (h : sendableParamValue C p = true) :
    validTree dtd (encParamValue C p) = true := by
  simp only [sendableParamValue, Bool.and_eq_true] at h
  simp only [validTree, Bool.and_eq_true]
  refine ⟨⟨?_, struct_encParamValue C p h.1⟩, h.2⟩
  cases p; simp only [encParamValue, E, Xml.isElem]

/-- an embedded instance is an INSTANCE element (no path), itself valid when its content is sendable -/
theorem C03_embedded_instance_structure (C : Codec) (i : Inst) (h : shapeInst i = true) :
    structNode dtd (encInstElem C i) = true := struct_encInstElem C i h

/-- **Well-formedness at character level**: every text node / attribute value the validator accepts is received by
    the XML parser model (expat side of Model/XmlText) — nothing is rejected, only end-of-line / attribute-value
    normalisation applies -/
theorem C03_valid_text_accepted (s : Str) (h : strOk s = true) :
    wireText s = some (normEOL false s) ∧ wireAttr s = some (normAttr false s) :=
  ⟨text_accepted s h, attr_accepted s h⟩

/-- … and conversely a text with a character outside the XML `Char` production, written the way minidom writes it,
    is rejected by the receiving side: the `_check_xml_chars` test is necessary (the defect fixed by 3198ecf) -/
theorem C03_illegal_char_is_illformed (s : Str) (h : strOk s = false) : wireText s = none := by
  unfold wireText; exact text_rejected s false h

/-- **Listener responses are valid**: the success response and the error response (status codes < 100) for every
    message id, method name and description made of XML characters — which is what the listener has, since it took
    them from a request its XML parser accepted -/
theorem C03_listener_rsp_valid (msgid methodname desc : Str) (code : Nat) (hc : code < 100)
    (h1 : strOk msgid = true) (h2 : strOk methodname = true) (h3 : strOk desc = true) :
    validTree dtd (listenerSuccess msgid methodname) = true ∧
    validTree dtd (listenerError msgid methodname code desc) = true := by
  have hcode := statusCode_chars code hc
  constructor
  · simp only [validTree, Bool.and_eq_true]
    refine ⟨⟨rfl, struct_listenerSuccess msgid methodname⟩, ?_⟩
    simp [listenerSuccess, listenerEnvelope, E, charsOk, charsOkList, attrsCharsOk, h1, h2]
    decide
  · simp only [validTree, Bool.and_eq_true]
    refine ⟨⟨rfl, struct_listenerError msgid methodname code desc⟩, ?_⟩
    simp [listenerError, listenerEnvelope, E, charsOk, charsOkList, attrsCharsOk, h1, h2, h3, hcode]
    decide

/-- **Every operation method passes the static check**: in the table extracted from pywbem/_cim_operations.py on
    this run, every parameter handed to `_imethodcall` by name has been through a normalising `_iparam_*` /
    `_validate_*` statement, and a parameter handed over as `P[0]` (the enumeration context) is not reassigned. -/
theorem C03_ops_table_ok : Pywbem.Generated.ops.all specOk = true := ops_specOk

/-- **request_valid (intrinsic operations).**  For every operation method of the extracted table, every connection
    default namespace, every namespace argument and all arguments whose objects satisfy the constructor invariants
    (`argShape`; for Pull…/CloseEnumeration: the context's first item is a plain value): if the method gets as far
    as sending (`runOp … = .ok`), the request document is a valid CIM-XML document.  Together with
    `runOp` returning `.error` otherwise, this is "valid document or local exception". -/
theorem C03_request_valid (C : Codec) (dn : Str) (spec : OpSpec) (hmem : spec ∈ Pywbem.Generated.ops) (ns : Arg)
    (args : List (String × Arg)) (h : Headers) (x : Xml)
    (hshape : ∀ p ∈ args, argShape p.2 = true)
    (hctx : ∀ n p, (n, PSrc.item0 p) ∈ spec.params → ∀ l, lookupArg args p = .list l → plainArg (listItem l 0) = true)
    (hr : runOp C dn spec ns args = .ok (h, x)) : validTree dtd x = true :=
  runOp_valid C dn spec ns args h x (List.all_eq_true.mp ops_specOk spec hmem) hshape hctx hr

/-- **request_headers_agree (intrinsic operations)**: CIMOperation is MethodCall, the CIMMethod header is the NAME of
    the IMETHODCALL element (both the operation's name), the CIMObject header is the namespace the body's
    LOCALNAMESPACEPATH names -/
theorem C03_request_headers_agree (C : Codec) (dn : Str) (spec : OpSpec) (ns : Arg) (args : List (String × Arg))
    (h : Headers) (x : Xml) (hr : runOp C dn spec ns args = .ok (h, x)) :
    header h "CIMOperation" = some "MethodCall".toList ∧
    header h "CIMMethod" = bodyMethodName x ∧ bodyMethodName x = some spec.name.toList ∧
    header h "CIMObject" = bodyNamespace x ∧ (bodyNamespace x).isSome = true := by
  obtain ⟨h1, h2, h3, n, h4, h5⟩ := runOp_headers C dn spec ns args h x hr
  exact ⟨h1, by rw [h2, h3], h3, by rw [h4, h5], by rw [h5]; rfl⟩

/-- **request_valid (InvokeMethod)**: method parameters given as CIMParameter objects or (name, value) pairs /
    keyword arguments, values of every CIM type incl. arrays, references, embedded objects; `mparamShape` = a
    CIMParameter has a valid type name / embedded_object, references have a representation.  Needs the rejection of
    nested and mixed arrays in `paramvalue` (fix dca0e65): without it the statement is false. -/
theorem C03_invoke_valid (C : Codec) (K : KeyCodec) (dn : Str) (m obj : Arg) (params : List MParam) (h : Headers) (x : Xml)
    (hobj : argShape obj = true) (hparams : ∀ p ∈ params, mparamShape p = true)
    (hr : methodcall C K dn m obj params = .ok (h, x)) : validTree dtd x = true :=
  (methodcall_valid C K dn m obj params h x hobj hparams hr).1

/-- **request_headers_agree (InvokeMethod)**, *partial*: the CIMMethod header is the NAME of the METHODCALL element;
    the CIMObject header starts with `namespace:classname` of the body's LOCALINSTANCEPATH / LOCALCLASSPATH.
    Not proved: that the keybinding part of the header denotes the body's keybindings (both are produced from the
    same keybindings; the oracle compares them on every run — known finding C03-KF3 lives there). -/
theorem C03_invoke_headers_agree_partial (C : Codec) (K : KeyCodec) (dn : Str) (m obj : Arg) (params : List MParam)
    (h : Headers) (x : Xml) (hobj : argShape obj = true) (hparams : ∀ p ∈ params, mparamShape p = true)
    (hr : methodcall C K dn m obj params = .ok (h, x)) :
    header h "CIMMethod" = bodyMethodName x ∧
    ∃ hdr n c, header h "CIMObject" = some hdr ∧ bodyNamespace x = some n ∧ bodyClassName x = some c ∧
      (n ++ ':' :: c) <+: hdr :=
  ⟨(methodcall_valid C K dn m obj params h x hobj hparams hr).2, methodcall_cimobject C K dn m obj params h x hr⟩

/-- **ExportIndication**: the request is valid (the indication is sent as INSTANCE, fix 09ec1a6) and the
    CIMExportMethod header is the NAME of the EXPMETHODCALL element -/
theorem C03_export_valid (C : Codec) (a : Arg) (h : Headers) (x : Xml) (hs : argShape a = true)
    (hr : exportIndication C a = .ok (h, x)) :
    validTree dtd x = true ∧ header h "CIMExportMethod" = bodyMethodName x :=
  exportIndication_valid C a h x hs hr

/-- an argument with a character XML cannot carry never reaches the wire: the call fails locally -/
theorem C03_illegal_char_fails_locally (C : Codec) (m : String) (n : Str) (s : Str) (hs : strOk s = false) :
    imethodcall C m (.str n) [("QualifierName", .str s)] = .error .valueError := by
  simp [imethodcall, iparamValues, argXml, checked, valueElem, E, charsOk, charsOkList, attrsCharsOk, hs, bind, Except.bind]

/-! ### well-formedness of the document text, by proof (extension round)

`par` (Pywbem/Model/XmlParse.lean) is the executable model of xml_to_tupletree_sax / expat; `Xml.ser` is minidom's
`toxml()`; `declStr` is the XML declaration line pywbem puts in front of requests and listener responses. -/

/-- **DTD validity of the tree gives well-formedness of the text and validity of what arrives.**  For every tree the
    validator accepts: it is a `WfTree` (its element and attribute names are declared names of the DTD, hence XML
    Names; attribute names distinct; XML Chars only), so the parser accepts its serialisation with and without the
    XML declaration and returns `wireTree t`; and that received tree (attribute values normalised, character data
    merged and end-of-line normalised, empty character data dropped) is again valid against the DTD. -/
theorem C03_valid_document_wellformed (t : Xml) (h : validTree dtd t = true) :
    WfTree t ∧ par (Xml.ser t) = wireTree t ∧ par (declStr ++ Xml.ser t) = wireTree t ∧
    ∃ t', wireTree t = some t' ∧ validTree dtd t' = true := by
  have hw := wfTree_of_validTree h
  simp only [validTree, Bool.and_eq_true] at h
  obtain ⟨⟨hel, hs⟩, hc⟩ := h
  cases t with
  | text s => simp [Xml.isElem] at hel
  | elem n as ks =>
    have hp := Proofs.XmlParse.par_ser n as ks hw
    have hn : Pywbem.Model.XmlParse.isName n = true := by
      have h' : Pywbem.Model.XmlParse.wfTree (.elem n as ks) = true := hw
      simp only [Pywbem.Model.XmlParse.wfTree, Bool.and_eq_true] at h'; exact h'.1.1.1
    have hd := Proofs.XmlParse.par_decl (Proofs.XmlParse.ser_elem_startsTag n as ks hn)
    obtain ⟨t', ht'⟩ := Proofs.XmlParse.wireTree_isSome (.elem n as ks) hw
    obtain ⟨w1, w2, w3, _⟩ := wire_valid dtd_ok (.elem n as ks) t' hc ht'
    refine ⟨hw, hp, hd.trans hp, t', ht', ?_⟩
    simp only [validTree, Bool.and_eq_true]
    exact ⟨⟨w3 rfl, w1 hs⟩, w2⟩

/-- **Every request of an intrinsic operation is a well-formed XML document** (same hypotheses as
    `C03_request_valid`): the body `declStr ++ ser x` is accepted by the parser, and the document the server's
    parser sees is DTD-valid. -/
theorem C03_request_wellformed (C : Codec) (dn : Str) (spec : OpSpec) (hmem : spec ∈ Pywbem.Generated.ops) (ns : Arg)
    (args : List (String × Arg)) (h : Headers) (x : Xml)
    (hshape : ∀ p ∈ args, argShape p.2 = true)
    (hctx : ∀ n p, (n, PSrc.item0 p) ∈ spec.params → ∀ l, lookupArg args p = .list l → plainArg (listItem l 0) = true)
    (hr : runOp C dn spec ns args = .ok (h, x)) :
    ∃ t', par (declStr ++ Xml.ser x) = some t' ∧ validTree dtd t' = true := by
  obtain ⟨_, _, h3, t', h4, h5⟩ :=
    C03_valid_document_wellformed x (C03_request_valid C dn spec hmem ns args h x hshape hctx hr)
  exact ⟨t', h3.trans h4, h5⟩

/-- the same for InvokeMethod -/
theorem C03_invoke_wellformed (C : Codec) (K : KeyCodec) (dn : Str) (m obj : Arg) (params : List MParam) (h : Headers)
    (x : Xml) (hobj : argShape obj = true) (hparams : ∀ p ∈ params, mparamShape p = true)
    (hr : methodcall C K dn m obj params = .ok (h, x)) :
    ∃ t', par (declStr ++ Xml.ser x) = some t' ∧ validTree dtd t' = true := by
  obtain ⟨_, _, h3, t', h4, h5⟩ := C03_valid_document_wellformed x (C03_invoke_valid C K dn m obj params h x hobj hparams hr)
  exact ⟨t', h3.trans h4, h5⟩

/-- … for ExportIndication -/
theorem C03_export_wellformed (C : Codec) (a : Arg) (h : Headers) (x : Xml) (hs : argShape a = true)
    (hr : exportIndication C a = .ok (h, x)) :
    ∃ t', par (declStr ++ Xml.ser x) = some t' ∧ validTree dtd t' = true := by
  obtain ⟨_, _, h3, t', h4, h5⟩ := C03_valid_document_wellformed x (C03_export_valid C a h x hs hr).1
  exact ⟨t', h3.trans h4, h5⟩

/-- … for `tocimxmlstr()` of every sendable CIM object (no declaration there) -/
theorem C03_encode_wellformed (C : Codec) (o : Obj) (h : sendableObj C o = true) :
    ∃ t', par (Xml.ser (encObj C o)) = some t' ∧ validTree dtd t' = true := by
  obtain ⟨_, h2, _, t', h4, h5⟩ := C03_valid_document_wellformed _ (C03_encode_valid_partial C o h)
  exact ⟨t', h2.trans h4, h5⟩

/-- … and for both listener responses -/
theorem C03_listener_rsp_wellformed (msgid methodname desc : Str) (code : Nat) (hc : code < 100)
    (h1 : strOk msgid = true) (h2 : strOk methodname = true) (h3 : strOk desc = true) :
    (∃ t', par (declStr ++ Xml.ser (listenerSuccess msgid methodname)) = some t' ∧ validTree dtd t' = true) ∧
    (∃ t', par (declStr ++ Xml.ser (listenerError msgid methodname code desc)) = some t' ∧ validTree dtd t' = true) := by
  obtain ⟨v1, v2⟩ := C03_listener_rsp_valid msgid methodname desc code hc h1 h2 h3
  obtain ⟨_, _, a3, t1, a4, a5⟩ := C03_valid_document_wellformed _ v1
  obtain ⟨_, _, b3, t2, b4, b5⟩ := C03_valid_document_wellformed _ v2
  exact ⟨⟨t1, a3.trans a4, a5⟩, ⟨t2, b3.trans b4, b5⟩⟩

/-- **request_headers_agree (InvokeMethod), keybinding part.**  The CIMObject header in full: with the target `lo` of
    the call (namespace filled in, host removed) whose encoding is the first child of the METHODCALL element, the
    header is `ns:Class` for a class and, for an instance, `ns:Class` followed — when there are keybindings — by `.` and
    the comma-joined tokens `name=value`, exactly one per keybinding of `lo`, in an order that is a permutation of
    the order of the KEYBINDING elements and sorted by key name, each token agreeing with its keybinding (`KeyAgrees`: strings quoted and
    escaped — invertibly, `C03_uri_escape_invertible` —, booleans / integers the KEYVALUE text, datetimes quoted,
    references the quoted header form of the referenced path, reals what `repr()` prints), and the tokens are in code
    point order of the key names (`SortedKeys`: what `sorted(keys)` yields). -/
theorem C03_invoke_cimobject_keys (C : Codec) (K : KeyCodec) (dn : Str) (m obj : Arg) (params : List MParam)
    (h : Headers) (x : Xml) (hr : methodcall C K dn m obj params = .ok (h, x)) :
    ∃ (hdr n c : Str) (keys : Option (List Key)),
      header h "CIMObject" = some hdr ∧
      bodyTarget x = some (encPath C (match keys with | some ks => Path.inst c none (some n) ks | none => Path.cls c none (some n))) ∧
      match keys with
      | none => hdr = n ++ ':' :: c
      | some ks => ∃ (named sorted : List (Str × Atom)) (toks : List Str) (rec : Path → Option Str),
          namedKeys ks = some named ∧ sorted.Perm named ∧ SortedKeys sorted ∧
          Zip2 (fun kv t => KeyAgrees C K rec kv t) sorted toks ∧
          hdr = (if toks.isEmpty then n ++ ':' :: c else n ++ ':' :: c ++ '.' :: joinComma toks) := by
  obtain ⟨hdr, n, c, keys, h1, h2, h3⟩ := methodcall_cimobject_keys C K dn m obj params h x hr
  refine ⟨hdr, n, c, keys, h1, h2, ?_⟩
  cases keys with
  | none => exact h3
  | some ks =>
    obtain ⟨named, sorted, toks, rec, a1, a2, a3, a4, a5⟩ := h3
    exact ⟨named, sorted, toks, rec, a1, a2, a3 ▸ foldr_insertKey_sorted named, a4, a5⟩

/-- the escaping of string key values in the header (`\\` and `"` get a backslash) loses nothing -/
theorem C03_uri_escape_invertible (s : Str) : uriUnescape (uriEscape s) = s := uriUnescape_escape s

/-- **request_headers_agree on the document as received** (intrinsic operations).  The server's parser accepts the
    request text; in the tree it returns, the NAME of the call element is the (attribute-normalised) operation name and
    the namespace read from LOCALNAMESPACEPATH is the attribute-value-normalised CIMObject header: TAB / LF / CR of a
    namespace arrive as blanks in the body while the header keeps them — exactly known finding C03-KF4 — and when the
    namespace contains none of them (`plainStr`) the received body and the header name the same namespace. -/
theorem C03_request_headers_agree_received (C : Codec) (dn : Str) (spec : OpSpec) (hmem : spec ∈ Pywbem.Generated.ops)
    (ns : Arg) (args : List (String × Arg)) (h : Headers) (x : Xml)
    (hshape : ∀ p ∈ args, argShape p.2 = true)
    (hctx : ∀ n p, (n, PSrc.item0 p) ∈ spec.params → ∀ l, lookupArg args p = .list l → plainArg (listItem l 0) = true)
    (hr : runOp C dn spec ns args = .ok (h, x)) :
    ∃ t' n, par (declStr ++ Xml.ser x) = some t' ∧ header h "CIMObject" = some n ∧
      bodyMethodName t' = some (normAttr false spec.name.toList) ∧
      bodyNamespace t' = some (normAttr false n) ∧
      (plainStr n = true → bodyNamespace t' = header h "CIMObject") := by
  obtain ⟨_, _, h3, t', h4, _⟩ :=
    C03_valid_document_wellformed x (C03_request_valid C dn spec hmem ns args h x hshape hctx hr)
  unfold runOp at hr
  obtain ⟨s, _, hr⟩ := bind_ok hr
  obtain ⟨a1, n, a2, a3, a4⟩ := Proofs.DtdRecv.imethodcall_received C spec.name _ _ h x hr t' h4
  exact ⟨t', n, h3.trans h4, a2, a1, a3, a4⟩

/-- the negative side of C03-KF4, on the model: a namespace with a TAB is sent, header and received body then differ -/
example : normAttr false "a\tb".toList ≠ "a\tb".toList ∧ plainStr "a\tb".toList = false ∧ plainStr "root/cimv2".toList = true := by
  decide

/-- **Listener responses, every status code.**  `C03_listener_rsp_valid` without the bound on the status code: the
    decimal digits Python's `str()` writes are XML characters for every natural number. -/
theorem C03_listener_rsp_valid_any_code (msgid methodname desc : Str) (code : Nat)
    (h1 : strOk msgid = true) (h2 : strOk methodname = true) (h3 : strOk desc = true) :
    validTree dtd (listenerSuccess msgid methodname) = true ∧
    validTree dtd (listenerError msgid methodname code desc) = true := by
  have hcode := natToStr_ok code
  constructor
  · simp only [validTree, Bool.and_eq_true]
    refine ⟨⟨rfl, struct_listenerSuccess msgid methodname⟩, ?_⟩
    simp [listenerSuccess, listenerEnvelope, E, charsOk, charsOkList, attrsCharsOk, h1, h2]
    decide
  · simp only [validTree, Bool.and_eq_true]
    refine ⟨⟨rfl, struct_listenerError msgid methodname code desc⟩, ?_⟩
    simp [listenerError, listenerEnvelope, E, charsOk, charsOkList, attrsCharsOk, h1, h2, h3, hcode]
    decide

/-- **Every CIM-XML response the listener emits.**  `listenerRespond` is the decision of `do_POST` once the export
    request has been parsed: for every message id, method name, list of (distinct) parameter names with the flag "is a
    CIMInstance", queue state and error description (XML characters — the listener's own parser delivered them), the
    response is valid, its text is accepted by the parser and what arrives is valid, and it echoes the request: the
    MESSAGE ID and the NAME of EXPMETHODRESPONSE are the request's. -/
theorem C03_listener_every_response (msgid methodname desc : Str) (params : List (Str × Bool)) (queueFull : Bool)
    (h1 : strOk msgid = true) (h2 : strOk methodname = true) (h3 : strOk desc = true) :
    validTree dtd (listenerRespond msgid methodname params queueFull desc) = true ∧
    (∃ t', par (declStr ++ Xml.ser (listenerRespond msgid methodname params queueFull desc)) = some t' ∧
      validTree dtd t' = true) ∧
    bodyMessageId (listenerRespond msgid methodname params queueFull desc) = some msgid ∧
    bodyMethodName (listenerRespond msgid methodname params queueFull desc) = some methodname := by
  have key : ∀ x, (x = listenerSuccess msgid methodname ∨ ∃ code, x = listenerError msgid methodname code desc) →
      validTree dtd x = true ∧ (∃ t', par (declStr ++ Xml.ser x) = some t' ∧ validTree dtd t' = true) ∧
      bodyMessageId x = some msgid ∧ bodyMethodName x = some methodname := by
    intro x hx
    have hv : validTree dtd x = true := by
      rcases hx with rfl | ⟨code, rfl⟩
      · exact (C03_listener_rsp_valid_any_code msgid methodname desc 0 h1 h2 h3).1
      · exact (C03_listener_rsp_valid_any_code msgid methodname desc code h1 h2 h3).2
    obtain ⟨_, _, a3, t', a4, a5⟩ := C03_valid_document_wellformed x hv
    refine ⟨hv, ⟨t', a3.trans a4, a5⟩, ?_, ?_⟩
    · rcases hx with rfl | ⟨code, rfl⟩ <;>
        simp [listenerSuccess, listenerError, listenerEnvelope, E, bodyMessageId, Xml.attr]
    · rcases hx with rfl | ⟨code, rfl⟩ <;>
        simp [listenerSuccess, listenerError, listenerEnvelope, E, bodyMethodName, bodyCall, Xml.attr]
  apply key
  unfold listenerRespond
  split
  · split
    · split
      · split
        · split
          · exact .inr ⟨_, rfl⟩
          · exact .inl rfl
        · exact .inr ⟨_, rfl⟩
      · exact .inr ⟨_, rfl⟩
    · exact .inr ⟨_, rfl⟩
  · exact .inr ⟨_, rfl⟩

/-- the decision itself: success exactly for ExportIndication with the single parameter NewIndication holding an
    instance and room in the queue; otherwise an ERROR with status 4 (INVALID_PARAMETER), 1 (FAILED, queue full) or
    7 (NOT_SUPPORTED, unknown export method) -/
example : listenerRespond "1".toList "ExportIndication".toList [("NewIndication".toList, true)] false [] =
      listenerSuccess "1".toList "ExportIndication".toList ∧
    listenerRespond "1".toList "ExportIndication".toList [("NewIndication".toList, true)] true "q".toList =
      listenerError "1".toList "ExportIndication".toList 1 "q".toList ∧
    listenerRespond "1".toList "ExportIndication".toList [("newindication".toList, true)] false "d".toList =
      listenerError "1".toList "ExportIndication".toList 4 "d".toList ∧
    listenerRespond "1".toList "ExportIndication".toList [] false "d".toList =
      listenerError "1".toList "ExportIndication".toList 4 "d".toList ∧
    listenerRespond "1".toList "Foo".toList [("NewIndication".toList, true)] false "d".toList =
      listenerError "1".toList "Foo".toList 7 "d".toList := by
  refine ⟨?_, ?_, ?_, ?_, ?_⟩ <;> rfl

/-- **`tocimxml(value)` / `tocimxmlstr(value)` of a plain CIM data value** (string, char16, boolean, integer, real,
    datetime, a list of them with NULL entries, or an object name / instance / class given as the value): whenever the
    function returns, the element is valid, its text is accepted by the parser and what arrives is valid.  Otherwise
    it raised (ValueError for None or a non-XML character, TypeError for a CIM object inside a list). -/
theorem C03_value_valid (C : Codec) (v : Val) (x : Xml) (hs : valShape v = true) (h : tocimxmlValue C v = .ok x) :
    validTree dtd x = true ∧ ∃ t', par (Xml.ser x) = some t' ∧ validTree dtd t' = true := by
  have hv := tocimxmlValue_valid C v x hs h
  obtain ⟨_, h2, _, t', h4, h5⟩ := C03_valid_document_wellformed x hv
  exact ⟨hv, t', h2.trans h4, h5⟩

/-- **The character hypothesis of `C03_encode_valid_partial`, discharged from the constituents of the object.**
    `contentOkObj C o`: every string the object holds (names, class origins, reference classes, superclass, hosts,
    namespaces, string / char16 / datetime values, keybinding names and values, at every nesting depth) consists of
    XML characters, the codec prints reals with XML characters, and embedded instances / classes satisfy the same and
    their shape invariants.  Then the object is sendable: no character check of `_cim_xml` can fail. -/
theorem C03_sendable_of_content (C : Codec) (o : Obj) (hs : shapeObj o = true) (hc : contentOkObj C o = true) :
    sendableObj C o = true := by
  simp only [sendableObj, Bool.and_eq_true]
  exact ⟨hs, Proofs.DtdChars.chars_encObj C o hc⟩

/-- … hence validity and well-formedness of `tocimxml()` / `tocimxmlstr()` from the object's shape and content alone
    (*partial* only through `shapeObj`, see `C03_encode_valid_partial`) -/
theorem C03_encode_valid_of_content_partial (C : Codec) (o : Obj) (hs : shapeObj o = true) (hc : contentOkObj C o = true) :
    validTree dtd (encObj C o) = true ∧ ∃ t', par (Xml.ser (encObj C o)) = some t' ∧ validTree dtd t' = true :=
  ⟨C03_encode_valid_partial C o (C03_sendable_of_content C o hs hc),
   C03_encode_wellformed C o (C03_sendable_of_content C o hs hc)⟩

/-- minidom's `toxml()` of a well-formed tree consists of XML characters (this is why an embedded object, whose
    serialisation becomes the text of a VALUE element, passes the character check of the outer element) -/
theorem C03_ser_chars (t : Xml) (h : WfTree t) : strOk (Xml.ser t) = true := Proofs.DtdChars.ser_ok t h

/-! ### up to the socket: `requests` and `http.client` (extension round) -/

/-- **A request that reaches the connection**: `sendOp` = the operation method followed by the header checks of
    `requests` (`^\\S[^\\r\\n]*\\Z|^\\Z`) and `http.client` (latin-1).  Whenever it returns `.ok`: the document is valid and
    well-formed, the headers agree with the body, and no header value contains CR or LF (no header injection through
    a namespace or method name) or a character outside latin-1.  Otherwise the call failed locally. -/
theorem C03_sent_request (C : Codec) (dn : Str) (spec : OpSpec) (hmem : spec ∈ Pywbem.Generated.ops) (ns : Arg)
    (args : List (String × Arg)) (h : Headers) (x : Xml)
    (hshape : ∀ p ∈ args, argShape p.2 = true)
    (hctx : ∀ n p, (n, PSrc.item0 p) ∈ spec.params → ∀ l, lookupArg args p = .list l → plainArg (listItem l 0) = true)
    (hr : sendOp C dn spec ns args = .ok (h, x)) :
    validTree dtd x = true ∧ (∃ t', par (declStr ++ Xml.ser x) = some t' ∧ validTree dtd t' = true) ∧
    header h "CIMMethod" = bodyMethodName x ∧ header h "CIMObject" = bodyNamespace x ∧
    ∀ p ∈ h, '\r' ∉ p.2 ∧ '\n' ∉ p.2 ∧ latin1Ok p.2 = true := by
  simp only [sendOp] at hr
  obtain ⟨r, hr1, hr2⟩ := bind_ok hr
  obtain ⟨rfl, hh⟩ := transport_ok hr2
  have hv := C03_request_valid C dn spec hmem ns args h x hshape hctx hr1
  obtain ⟨_, a2, _, a4, _⟩ := C03_request_headers_agree C dn spec ns args h x hr1
  refine ⟨hv, C03_request_wellformed C dn spec hmem ns args h x hshape hctx hr1, a2, a4, fun p hp => ?_⟩
  obtain ⟨b1, b2⟩ := hh p hp
  obtain ⟨c1, c2⟩ := headerValueOk_noCRLF b1
  exact ⟨c1, c2, b2⟩

/-- the same for InvokeMethod (`sendInvoke`) -/
theorem C03_sent_invoke (C : Codec) (K : KeyCodec) (dn : Str) (m obj : Arg) (params : List MParam) (h : Headers)
    (x : Xml) (hobj : argShape obj = true) (hparams : ∀ p ∈ params, mparamShape p = true)
    (hr : sendInvoke C K dn m obj params = .ok (h, x)) :
    validTree dtd x = true ∧ (∃ t', par (declStr ++ Xml.ser x) = some t' ∧ validTree dtd t' = true) ∧
    header h "CIMMethod" = bodyMethodName x ∧ ∀ p ∈ h, '\r' ∉ p.2 ∧ '\n' ∉ p.2 ∧ latin1Ok p.2 = true := by
  simp only [sendInvoke] at hr
  obtain ⟨r, hr1, hr2⟩ := bind_ok hr
  obtain ⟨rfl, hh⟩ := transport_ok hr2
  refine ⟨C03_invoke_valid C K dn m obj params h x hobj hparams hr1,
    C03_invoke_wellformed C K dn m obj params h x hobj hparams hr1,
    (C03_invoke_headers_agree_partial C K dn m obj params h x hobj hparams hr1).1, fun p hp => ?_⟩
  obtain ⟨b1, b2⟩ := hh p hp
  obtain ⟨c1, c2⟩ := headerValueOk_noCRLF b1
  exact ⟨c1, c2, b2⟩

/-! ### non-vacuity and negation witnesses -/

def toyCodec : Codec :=
  { fmtReal := fun _ _ => "1.5".toList, strFloat := fun _ => "1.5".toList, parseFloat := fun _ => none,
    parseDt := fun _ => none, par := fun _ => none }

def demoInst : Inst :=
  .mk "C".toList (some (.inst "C".toList (some "h".toList) (some "a/b".toList)
      [.mk (some "k".toList) (.ref (.cls "D".toList none (some "x".toList))), .mk (some "n".toList) (.int .u8 5)]))
    [.mk "p".toList "string".toList (.array [.str "a<b".toList, .null]) true (some 3) none (some "O".toList) (some true)
       none [.mk "q".toList "boolean".toList (.scalar (.bool true)) none (some false) none none none],
     .mk "r".toList "reference".toList (.scalar (.ref (.inst "E".toList none none []))) false none (some "E".toList)
       none none none []]
    []

theorem demoInst_sendable : sendableObj toyCodec (.inst demoInst) = true := by
  have h1 : shapeObj (.inst demoInst) = true := by decide +kernel
  have h2 : charsOk (encObj toyCodec (.inst demoInst)) = true := by
    simp [demoInst, encObj, encInst, encPath, encKeys, encKey, encKey.keyval, encProps, encProp, encQuals, encQual,
      encVal, encArrItems, encArrItem, atomText, valueElem, E, localNsPath, nsPath, splitSlash, optAttr, optBoolAttr,
      boolAttr, charsOk, charsOkList, attrsCharsOk, intToStr, natToStr, toyCodec]
    decide +kernel
  simp [sendableObj, h1, h2]

/-- the hypothesis of `C03_encode_valid_partial` is satisfiable: an instance with host/namespace path, a reference
    keybinding, an array property with a NULL entry and markup characters, a qualifier, a reference property -/
example : validTree dtd (encObj toyCodec (.inst demoInst)) = true :=
  C03_encode_valid_partial toyCodec _ demoInst_sendable

/-- `C03_sendable_of_content` is not vacuous: shape and content of `demoInst` are decided by evaluation, without
    looking at the encoding -/
example : shapeObj (.inst demoInst) = true ∧ contentOkObj toyCodec (.inst demoInst) = true := by
  constructor <;> decide +kernel

/-- `C03_encode_wellformed` is not vacuous -/
example : ∃ t', par (Xml.ser (encObj toyCodec (.inst demoInst))) = some t' ∧ validTree dtd t' = true :=
  C03_encode_wellformed toyCodec _ demoInst_sendable

/-- a listener response whose message id holds a TAB and markup: the text is accepted, the receiver sees a blank
    instead of the TAB (attribute-value normalisation), and what it sees is still valid -/
example : par (declStr ++ Xml.ser (listenerSuccess "a\t<&\"b".toList "ExportIndication".toList)) =
      some (listenerSuccess "a <&\"b".toList "ExportIndication".toList) ∧
    validTree dtd (listenerSuccess "a <&\"b".toList "ExportIndication".toList) = true := by
  have hv := (C03_listener_rsp_valid "a\t<&\"b".toList "ExportIndication".toList [] 1 (by decide) (by decide +kernel)
    (by decide +kernel) rfl).1
  obtain ⟨_, _, h3, _⟩ := C03_valid_document_wellformed _ hv
  refine ⟨h3.trans (by rfl), ?_⟩
  exact (C03_listener_rsp_valid "a <&\"b".toList "ExportIndication".toList [] 1 (by decide) (by decide +kernel)
    (by decide +kernel) rfl).1

def qdeclAnyFalse : QualDecl :=
  { name := "Q".toList, ty := "string".toList, val := .null, isArray := false, arraySize := none,
    scopes := [("any".toList, false)], overridable := none, tosubclass := none, toinstance := none, translatable := none }

def qdeclOddScope : QualDecl := { qdeclAnyFalse with scopes := [("foo".toList, true)] }

def qdeclClassScope : QualDecl := { qdeclAnyFalse with scopes := [("class".toList, true)] }

example : shapeObj (.qdecl qdeclClassScope) = true := by decide +kernel
example : shapeObj (.qdecl qdeclAnyFalse) = false := by decide +kernel
example : shapeObj (.qdecl qdeclOddScope) = false := by decide +kernel

/-- known finding C03-KF1: `<SCOPE ANY="false"/>` is not valid -/
theorem C03_encode_valid_fails_at_scope_any_false : ¬ validTree dtd (encObj toyCodec (.qdecl qdeclAnyFalse)) = true := by
  have : encObj toyCodec (.qdecl qdeclAnyFalse) =
      E "QUALIFIER.DECLARATION" [("NAME".toList, "Q".toList), ("TYPE".toList, "string".toList), ("ISARRAY".toList, "false".toList)]
        [E "SCOPE" [("ANY".toList, "false".toList)] []] := by
    simp [encObj, encQualDecl, qdeclAnyFalse, encVal, encScope, insertSorted, upperAscii, boolAttr, optAttr, optBoolAttr, E]
  rw [this]; decide +kernel

/-- known finding C03-KF5: an `embedded_object` value other than 'object' / 'instance' (assigned through the setter; the
    empty string also through the constructor before fix 973b1cd) is written as the EmbeddedObject attribute and is not
    valid; `shapeObj` (`embOk`) excludes it -/
theorem C03_encode_valid_fails_at_embedded_object_empty :
    shapeObj (.prop (.mk "p".toList "string".toList .null false none none none none (some []) [])) = false ∧
    ¬ validTree dtd (encObj toyCodec (.prop (.mk "p".toList "string".toList .null false none none none none (some []) []))) = true := by
  refine ⟨by decide +kernel, ?_⟩
  have : encObj toyCodec (.prop (.mk "p".toList "string".toList .null false none none none none (some []) [])) =
      E "PROPERTY" [("NAME".toList, "p".toList), ("TYPE".toList, "string".toList), ("EmbeddedObject".toList, [])] [] := by
    simp [encObj, encProp, encQuals, encVal, optAttr, optBoolAttr, E]
  rw [this]; decide +kernel

/-- known finding C03-KF2: a scope name outside the seven DSP0201 scopes becomes an undeclared attribute -/
theorem C03_encode_valid_fails_at_unknown_scope : ¬ validTree dtd (encObj toyCodec (.qdecl qdeclOddScope)) = true := by
  have : encObj toyCodec (.qdecl qdeclOddScope) =
      E "QUALIFIER.DECLARATION" [("NAME".toList, "Q".toList), ("TYPE".toList, "string".toList), ("ISARRAY".toList, "false".toList)]
        [E "SCOPE" [("FOO".toList, "true".toList)] []] := by
    simp [encObj, encQualDecl, qdeclOddScope, qdeclAnyFalse, encVal, encScope, insertSorted, upperAscii, boolAttr, optAttr,
      optBoolAttr, E]
  rw [this]; decide +kernel

example : validTree dtd (listenerError "1".toList "Foo".toList 7 "Unknown export method: 'Foo'".toList) = true :=
  (C03_listener_rsp_valid _ _ _ 7 (by decide) (by decide +kernel) (by decide +kernel) (by decide +kernel)).2

example : strOk ['a', Char.ofNat 1] = false := by decide

def isOk {α : Type} : Except PyExc α → Bool
  | .ok _ => true
  | .error _ => false

def errOf' {α : Type} : Except PyExc α → Option PyExc
  | .ok _ => none
  | .error e => some e

/-- `C03_request_valid` is not vacuous: the extracted table contains GetQualifier and OpenEnumerateInstancePaths, and
    calls of them get as far as sending -/
example : (match findOp "GetQualifier" with
    | some spec => isOk (runOp toyCodec "root/cimv2".toList spec (.str "/a/b/".toList) [("QualifierName", .str "Q<".toList)])
    | none => false) = true := by decide +kernel

example : (match findOp "OpenEnumerateInstancePaths" with
    | some spec => isOk (runOp toyCodec "root/cimv2".toList spec .none
        [("ClassName", .str "C".toList), ("MaxObjectCount", .int 5), ("ContinueOnError", .bool false)])
    | none => false) = true := by decide +kernel

/-- … and a wrong argument type is a local exception, not a document -/
example : (match findOp "OpenEnumerateInstancePaths" with
    | some spec => isOk (runOp toyCodec "root/cimv2".toList spec .none
        [("ClassName", .str "C".toList), ("MaxObjectCount", .int (-1))])
    | none => true) = false := by decide +kernel

/-- without the normalisation done by `_iparam_instancename` the statement fails: an instance name that keeps its
    namespace is written as LOCALINSTANCEPATH, which IPARAMVALUE does not admit (`sentOk` is needed) -/
theorem C03_request_valid_fails_without_normalisation :
    ¬ structNode dtd (E "IPARAMVALUE" [("NAME".toList, "InstanceName".toList)]
        [encPath toyCodec (.inst "C".toList none (some "a".toList) [])]) = true := by
  have : encPath toyCodec (.inst "C".toList none (some "a".toList) []) =
      E "LOCALINSTANCEPATH" [] [localNsPath "a".toList, E "INSTANCENAME" [("CLASSNAME".toList, "C".toList)] []] := by
    simp [encPath, encKeys, E]
  rw [this]; decide +kernel

def toyK : KeyCodec := { reprReal := fun _ _ => "1.5".toList }

/-- the header of a call on an instance path: keys in code point order (`K` before `a`), the string value escaped, the
    reference key as the quoted, escaped header form of the referenced path (its host dropped, a leading `/` kept) -/
example : pathUri toyK 2 (.inst "C".toList none (some "root/a".toList)
      [.mk (some "a".toList) (.str "x\"y\\".toList), .mk (some "K".toList) (.int .u8 5),
       .mk (some "r".toList) (.ref (.inst "D".toList (some "h".toList) (some "n".toList) [.mk (some "k".toList) (.bool true)]))]) =
    some "root/a:C.K=5,a=\"x\\\"y\\\\\",r=\"/n:D.k=TRUE\"".toList := by decide +kernel

example : uriUnescape (uriEscape "x\"y\\".toList) = "x\"y\\".toList := C03_uri_escape_invertible _

/-- `C03_value_valid` is not vacuous: a string with markup characters is encoded; a list holding an instance is
    refused (TypeError); a string with U+0001 is refused (ValueError) -/
example : tocimxmlValue toyCodec (.scalar (.str "a<b".toList)) = .ok (valueElem "a<b".toList) ∧
    errOf' (tocimxmlValue toyCodec (.array [.einst demoInst])) = some .typeError ∧
    tocimxmlValue toyCodec (.scalar (.str ['a', Char.ofNat 1])) = .error .valueError := by
  refine ⟨?_, by decide +kernel, ?_⟩
  · simp only [tocimxmlValue, atomText, checked]; rw [if_pos (by decide +kernel)]
  · simp only [tocimxmlValue, atomText, checked]; rw [if_neg (by decide +kernel)]

def errOf {α : Type} : Except PyExc α → Option PyExc
  | .ok _ => none
  | .error e => some e

/-- a namespace with a line break never reaches the connection: the call fails locally (ConnectionError raised from
    requests' InvalidHeader); a namespace outside latin-1 fails in http.client; a plain one is sent -/
example : (match findOp "EnumerateQualifiers" with
    | some spec => (errOf (sendOp toyCodec "root/cimv2".toList spec (.str "a\nX-Injected: 1".toList) []),
                    errOf (sendOp toyCodec "root/cimv2".toList spec (.str "r\u4e2d".toList) []),
                    errOf (sendOp toyCodec "r".toList spec .none []))
    | none => (none, none, some .keyError)) = (some .connectionError, some .unicodeError, none) := by decide +kernel

end C03
