/-
C13 — Association traversal is consistent with the stored association instances.

Property theorems over `Pywbem.Model.Assoc` (the model of pywbem_mock's References / ReferenceNames /
Associators / AssociatorNames, instance and class level).  All theorems quantify over arbitrary
repositories, sources and filters.
-/
import Proofs.Lemmas.Assoc
import Proofs.Lemmas.AssocClass

namespace C13
open Pywbem.Proto Pywbem.Model.Assoc

/-! ## specification vocabulary -/

/-- "stored association instance `a` links `x` to `y` through two different reference properties that
    satisfy Role (source end), ResultRole (far end), AssocClass (class of `a`, incl. subclasses) and
    ResultClass (class named by the far end, incl. subclasses)" -/
def Linked (cs : List Cls) (a : Inst) (x y : Path) (f : AFilter) : Prop :=
  ∃ p ∈ a.props, ∃ q ∈ a.props, p ≠ q ∧ p.isRef = true ∧ q.isRef = true ∧
    (∃ v, p.value = some v ∧ v.eqv x = true) ∧ q.value = some y ∧
    classAdmits cs f.assocClass a.cls = true ∧ classAdmits cs f.resultClass y.cls = true ∧
    roleAdmits f.role p.name = true ∧ roleAdmits f.resultRole q.name = true

/-- "`a` references `x` through a reference property satisfying Role, and its class satisfies
    ResultClass" (References / ReferenceNames) -/
def Refers (cs : List Cls) (a : Inst) (x : Path) (rc role : Option Name) : Prop :=
  ∃ p ∈ a.props, p.isRef = true ∧ (∃ v, p.value = some v ∧ v.eqv x = true) ∧
    classAdmits cs rc a.cls = true ∧ roleAdmits role p.name = true

/-- `f'` has at least the filters of `f`: every component of `f` is inactive (None or '') or equal -/
def optLe (a b : Option Name) : Prop := truthy a = false ∨ a = b

def FLe (f f' : AFilter) : Prop :=
  optLe f.assocClass f'.assocClass ∧ optLe f.resultClass f'.resultClass ∧
  optLe f.role f'.role ∧ optLe f.resultRole f'.resultRole

/-- the filter for the reverse traversal: same AssocClass, roles swapped, no ResultClass -/
def swapRoles (f : AFilter) : AFilter :=
  { assocClass := f.assocClass, resultClass := none, role := f.resultRole, resultRole := f.role }

/-- repository invariants of an instance store: it is a dict keyed by instance path (no two stored
    instances have equal paths) and stored paths carry no host (`add_cimobjects` removes it,
    `CreateInstance` builds paths without one) -/
structure StoreOk (is : List Inst) : Prop where
  nohost : ∀ a ∈ is, a.path.host = none
  unique : ∀ a ∈ is, ∀ b ∈ is, a.path.eqv b.path = true → a = b

/-! ## 1. characterisation of the traversal results -/

/-- **ReferenceNames**: a path is returned iff it is the path of a stored instance that refers to `x`. -/
theorem C13_reference_characterisation {S : NsStore} {x : Path} {rc role : Option Name} {l : List Path}
    (h : refInstNames S x rc role = .ok l) (r : Path) :
    r ∈ l ↔ ∃ a ∈ S.insts, a.path = r ∧ Refers S.classes a x rc role := by
  unfold refInstNames at h
  cases hr : refInstsE S x rc role with
  | error e => simp [hr] at h
  | ok l0 =>
    simp [hr] at h
    obtain ⟨_, _, hl0⟩ := refInstsE_ok hr
    subst hl0; subst h
    simp only [List.mem_map, mem_refInsts, Refers]
    constructor
    · rintro ⟨a, ⟨ha, p, hp, hhit⟩, rfl⟩
      exact ⟨a, ha, rfl, p, hp, refPropHit_iff.mp hhit⟩
    · rintro ⟨a, ha, rfl, p, hp, hhit⟩
      exact ⟨a, ⟨ha, p, hp, refPropHit_iff.mpr hhit⟩, rfl⟩

/-- **AssociatorNames** (`associator_characterisation`): `y` is returned for source `x` iff `y` is not
    `x` and some stored instance links `x` to `y` through two different reference properties satisfying
    the four filters.  (`y` ranges over the stored reference values; the Python result is the set of
    them.) -/
theorem C13_associator_characterisation {S : NsStore} {x : Path} {f : AFilter} {l : List Path}
    (h : assocInstNames S x f = .ok l) (y : Path) :
    y ∈ l ↔ y.eqv x = false ∧ ∃ a ∈ S.insts, Linked S.classes a x y f := by
  rw [mem_assocInstNames h]
  constructor
  · rintro ⟨a, ha, ⟨p, hp, hhit⟩, q, hq, hoe⟩
    obtain ⟨hpr, ⟨v, hpv, hvx⟩, hac, hrole⟩ := refPropHit_iff.mp hhit
    obtain ⟨hqr, hqv, hyx, hrc, hrr⟩ := otherEnd_iff.mp hoe
    refine ⟨hyx, a, ha, p, hp, q, hq, ?_, hpr, hqr, ⟨v, hpv, hvx⟩, hqv, hac, hrc, hrole, hrr⟩
    intro hpq
    subst hpq
    rw [hpv] at hqv
    cases hqv
    simp [hvx] at hyx
  · rintro ⟨hyx, a, ha, p, hp, q, hq, _, hpr, hqr, hv, hqv, hac, hrc, hrole, hrr⟩
    exact ⟨a, ha, ⟨p, hp, refPropHit_iff.mpr ⟨hpr, hv, hac, hrole⟩⟩,
      q, hq, otherEnd_iff.mpr ⟨hqr, hqv, hyx, hrc, hrr⟩⟩

/-- the source itself is never among its associators (self-associations contribute nothing) -/
theorem C13_source_not_own_associator {S : NsStore} {x : Path} {f : AFilter} {l : List Path}
    (h : assocInstNames S x f = .ok l) : ∀ y ∈ l, y.eqv x = false :=
  fun y hy => ((C13_associator_characterisation h y).mp hy).1

/-- every associator is reached through an instance that ReferenceNames (ResultClass := AssocClass,
    same Role) returns -/
theorem C13_associators_via_references {S : NsStore} {x : Path} {f : AFilter} {l : List Path}
    (h : assocInstNames S x f = .ok l) :
    ∃ rl, refInstNames S x f.assocClass f.role = .ok rl ∧
      ∀ y ∈ l, ∃ a ∈ S.insts, a.path ∈ rl ∧ ∃ q ∈ a.props, q.value = some y := by
  obtain ⟨h1, _, h3, _⟩ := assocInstNames_ok h
  refine ⟨(refInsts S x f.assocClass f.role).map (·.path), by simp [refInstNames, refInstsE_eq_ok h3 h1], ?_⟩
  intro y hy
  obtain ⟨a, ha, hp, q, hq, hoe⟩ := (mem_assocInstNames h y).mp hy
  exact ⟨a, ha, List.mem_map.mpr ⟨a, mem_refInsts.mpr ⟨ha, hp⟩, rfl⟩, q, hq, (otherEnd_iff.mp hoe).2.1⟩

/-! ## 2. adding a filter never adds results -/

theorem classAdmits_mono {cs : List Cls} {a b : Option Name} (h : optLe a b) {c : Name}
    (hb : classAdmits cs b c = true) : classAdmits cs a c = true := by
  rcases h with h | h
  · exact truthy_false_classAdmits h c
  · rw [h]; exact hb

theorem roleAdmits_mono {a b : Option Name} (h : optLe a b) {p : Name}
    (hb : roleAdmits b p = true) : roleAdmits a p = true := by
  rcases h with h | h
  · exact truthy_false_roleAdmits h p
  · rw [h]; exact hb

theorem filterClassOk_mono {cs : List Cls} {a b : Option Name} (h : optLe a b)
    (hb : filterClassOk cs b = true) : filterClassOk cs a = true := by
  rcases h with h | h
  · exact filterClassOk_of_not_truthy h
  · rw [h]; exact hb

/-- **filter_monotone**, AssociatorNames: if the operation succeeds with the filters `f'`, it succeeds
    with any weaker `f` and returns at least the same objects. -/
theorem C13_filter_monotone {S : NsStore} {x : Path} {f f' : AFilter} {l' : List Path}
    (hle : FLe f f') (h' : assocInstNames S x f' = .ok l') :
    ∃ l, assocInstNames S x f = .ok l ∧ ∀ y ∈ l', y ∈ l := by
  obtain ⟨hac, hrc, hro, hrr⟩ := hle
  obtain ⟨h1, h2, h3, _⟩ := assocInstNames_ok h'
  have hok := assocInstNames_eq_ok (f := f) (filterClassOk_mono hac h1) (filterClassOk_mono hrc h2) h3
  refine ⟨_, hok, ?_⟩
  intro y hy
  rw [C13_associator_characterisation hok]
  obtain ⟨hyx, a, ha, p, hp, q, hq, hne, hpr, hqr, hv, hqv, hA, hR, hRo, hRr⟩ :=
    (C13_associator_characterisation h' y).mp hy
  exact ⟨hyx, a, ha, p, hp, q, hq, hne, hpr, hqr, hv, hqv, classAdmits_mono hac hA, classAdmits_mono hrc hR,
    roleAdmits_mono hro hRo, roleAdmits_mono hrr hRr⟩

/-- **filter_monotone**, ReferenceNames -/
theorem C13_filter_monotone_references {S : NsStore} {x : Path} {rc rc' role role' : Option Name}
    {l' : List Path} (h1 : optLe rc rc') (h2 : optLe role role')
    (h' : refInstNames S x rc' role' = .ok l') :
    ∃ l, refInstNames S x rc role = .ok l ∧ ∀ r ∈ l', r ∈ l := by
  have hE : ∃ l0, refInstsE S x rc' role' = .ok l0 := by
    unfold refInstNames at h'
    cases hr : refInstsE S x rc' role' with
    | error e => simp [hr] at h'
    | ok l0 => exact ⟨l0, rfl⟩
  obtain ⟨l0, hl0⟩ := hE
  obtain ⟨hc, hf, _⟩ := refInstsE_ok hl0
  have hok : refInstNames S x rc role = .ok ((refInsts S x rc role).map (·.path)) := by
    simp [refInstNames, refInstsE_eq_ok hc (filterClassOk_mono h1 hf)]
  refine ⟨_, hok, ?_⟩
  intro r hr
  rw [C13_reference_characterisation hok]
  obtain ⟨a, ha, hpath, p, hp, hpr, hv, hA, hRo⟩ := (C13_reference_characterisation h' r).mp hr
  exact ⟨a, ha, hpath, p, hp, hpr, hv, classAdmits_mono h1 hA, roleAdmits_mono h2 hRo⟩

/-! ## 3. symmetry -/

/-- **assoc_symmetric** (general form, source namespace store `S`, far-end namespace store `T`):
    if `y` is an associator of `x` in `S`, then `x` is an associator of `y` in `T` with the roles swapped,
    provided the association instances of `S` are also stored in `T` (the shadow instances that
    CreateInstance writes for cross-namespace associations; trivial for `T = S`), the class of `y` and
    the AssocClass exist in `T`, and `T` admits at least the association classes `S` admits. -/
theorem C13_assoc_symmetric {S T : NsStore} {x y : Path} {f : AFilter} {l : List Path}
    (hshadow : ∀ a ∈ S.insts, ∃ a' ∈ T.insts, a'.cls = a.cls ∧ a'.props = a.props)
    (hycls : classExists T.classes y.cls = true)
    (hacT : filterClassOk T.classes f.assocClass = true)
    (hadm : ∀ c, classAdmits S.classes f.assocClass c = true → classAdmits T.classes f.assocClass c = true)
    (h : assocInstNames S x f = .ok l) (hy : ∃ y' ∈ l, y'.eqv y = true) :
    ∃ l', assocInstNames T y (swapRoles f) = .ok l' ∧ ∃ x' ∈ l', x'.eqv x = true := by
  obtain ⟨y', hy'l, hy'y⟩ := hy
  obtain ⟨hyx, a, ha, p, hp, q, hq, _, hpr, hqr, ⟨v, hpv, hvx⟩, hqv, hA, _, hRo, hRr⟩ :=
    (C13_associator_characterisation h y').mp hy'l
  obtain ⟨a', ha', hcls, hprops⟩ := hshadow a ha
  have hok := assocInstNames_eq_ok (S := T) (x := y) (f := swapRoles f) hacT (by simp [swapRoles, filterClassOk]) hycls
  refine ⟨_, hok, v, ?_, hvx⟩
  rw [C13_associator_characterisation hok]
  have hvy : v.eqv y = false := by
    have h1 : v.eqv y' = false := eqv_false_of hvx hyx
    rw [← eqv_congr_right hy'y]; exact h1
  refine ⟨hvy, a', ha', q, hprops ▸ hq, p, hprops ▸ hp, ?_, hqr, hpr, ⟨y', hqv, hy'y⟩, hpv, ?_, ?_, hRr, hRo⟩
  · intro hqp
    subst hqp
    rw [hpv] at hqv
    cases hqv
    simp [hvx] at hyx
  · simp only [swapRoles]; rw [hcls]; exact hadm _ hA
  · simp [swapRoles, classAdmits, truthy]

/-- **assoc_symmetric** within one namespace: `y` is associated with `x` iff `x` is associated with `y`
    (roles swapped, no ResultClass), for sources whose classes exist. -/
theorem C13_assoc_symmetric_same_namespace {S : NsStore} {x y : Path} {f : AFilter} {l l' : List Path}
    (hf : f.resultClass = none)
    (h : assocInstNames S x f = .ok l) (h' : assocInstNames S y (swapRoles f) = .ok l') :
    (∃ y' ∈ l, y'.eqv y = true) ↔ (∃ x' ∈ l', x'.eqv x = true) := by
  obtain ⟨hac, _, hxc, _⟩ := assocInstNames_ok h
  obtain ⟨_, _, hyc, _⟩ := assocInstNames_ok h'
  constructor
  · intro hy
    obtain ⟨l2, hl2, hx⟩ := C13_assoc_symmetric (S := S) (T := S) (fun a ha => ⟨a, ha, rfl, rfl⟩) hyc hac
      (fun _ hc => hc) h hy
    rw [h'] at hl2; cases hl2; exact hx
  · intro hx
    have hsw : swapRoles (swapRoles f) = f := by
      cases f; simp_all [swapRoles]
    obtain ⟨l2, hl2, hy⟩ := C13_assoc_symmetric (S := S) (T := S) (f := swapRoles f) (fun a ha => ⟨a, ha, rfl, rfl⟩) hxc
      (by simpa [swapRoles] using hac) (fun _ hc => hc) h' hx
    rw [hsw, h] at hl2; cases hl2; exact hy

/-! ## 4. Names = paths of the full results (instance level) -/

theorem findInst_self {is : List Inst} (hok : StoreOk is) {a : Inst} (ha : a ∈ is) :
    findInst is a.path = some a := by
  unfold findInst
  cases hf : is.find? (fun i => i.path.eqv a.path) with
  | none =>
    rw [List.find?_eq_none] at hf
    have := hf a ha
    simp [eqv_refl] at this
  | some b =>
    have hb := List.mem_of_find?_eq_some hf
    have hbe : b.path.eqv a.path = true := by
      have := List.find?_some hf; exact this
    rw [hok.unique b hb a ha hbe]

/-- **names_are_paths_of_full**, References / ReferenceNames (instance level): for every server whose
    instance store is a well-formed dict, ReferenceNames returns exactly the paths of what References
    returns, and they fail alike. -/
theorem C13_names_are_paths_of_full_references {sv : Server} {ns : Name} {x : Path} {rc role : Option Name}
    (hok : ∀ S ∈ sv.repo, StoreOk S.insts) :
    (match referencesI sv ns x rc role with
     | .ok is => Except.ok (is.map (·.path))
     | .error e => Except.error e) = referenceNamesI sv ns x rc role := by
  unfold referencesI referenceNamesI withNs
  cases hS : findNs sv.repo ns with
  | none => rfl
  | some S =>
    have hSok : StoreOk S.insts := hok S (List.mem_of_find?_eq_some hS)
    simp only
    unfold refInstNames
    cases hr : refInstsE S (srcPath ns x) rc role with
    | error e => rfl
    | ok l0 =>
      simp only
      obtain ⟨_, _, hl0⟩ := refInstsE_ok hr
      have hget : mapE (getInstance S.insts) (l0.map (·.path)) =
          .ok (l0.map (fun a => ({ a with path := { a.path with host := none } } : Inst))) := by
        apply mapE_map_ok
        intro a ha
        have haS : a ∈ S.insts := by rw [hl0] at ha; exact (mem_refInsts.mp ha).1
        simp [getInstance, findInst_self hSok haS]
      rw [hget]
      simp only [List.map_map]
      congr 1
      apply List.map_congr_left
      intro a ha
      have haS : a ∈ S.insts := by rw [hl0] at ha; exact (mem_refInsts.mp ha).1
      have hh := hSok.nohost a haS
      simp [setHost, fillHost, hh]

/-- **names_are_paths_of_full**, Associators / AssociatorNames (instance level): whenever Associators
    succeeds, AssociatorNames succeeds and returns, position by position, the paths of the returned
    instances up to the host (Associators leaves `host` empty where AssociatorNames fills in the
    server's: finding C13-KF4) and up to lexical case.  When AssociatorNames fails, Associators fails
    with the same error. -/
theorem C13_names_are_paths_of_full_associators {sv : Server} {ns : Name} {x : Path} {f : AFilter}
    (hok : ∀ S ∈ sv.repo, StoreOk S.insts) :
    (∀ is, associatorsI sv ns x f = .ok is →
      ∃ l, associatorNamesI sv ns x f = .ok l ∧ l.length = is.length ∧
        ∀ i (h1 : i < l.length) (h2 : i < is.length), (fillHost sv.host (is[i]).path).eqv (l[i]) = true) ∧
    (∀ e, associatorNamesI sv ns x f = .error e → associatorsI sv ns x f = .error e) := by
  unfold associatorsI associatorNamesI withNs
  cases hS : findNs sv.repo ns with
  | none => simp
  | some S =>
    simp only
    cases hn : assocInstNames S (srcPath ns x) f with
    | error e => simp
    | ok l0 =>
      simp only
      refine ⟨?_, by simp⟩
      intro is his
      refine ⟨_, rfl, ?_, ?_⟩
      · have := mapE_ok_iff.mp his
        have hlen := congrArg List.length this
        simpa using hlen
      · intro i h1 h2
        have hmap := mapE_ok_iff.mp his
        have h1' : i < l0.length := by simpa using h1
        have hi : fetchEnd sv (l0[i]) = .ok (is[i]) := by
          have := congrArg (fun l => l[i]?) hmap
          simp [h1', h2] at this
          exact this
        simp only [List.getElem_map]
        -- unfold the lookup of one end
        unfold fetchEnd endStore at hi
        cases hns : (l0[i]).ns with
        | none => simp [hns] at hi
        | some n =>
          simp only [hns] at hi
          cases hT : findNs sv.repo n with
          | none => simp [hT] at hi
          | some T =>
            simp only [hT] at hi
            unfold getInstance at hi
            cases hfi : findInst T.insts (l0[i]) with
            | none => simp [hfi] at hi
            | some b =>
              simp [hfi] at hi
              have hbT : b ∈ T.insts := List.mem_of_find?_eq_some hfi
              have hbe : b.path.eqv (l0[i]) = true := by
                have := List.find?_some hfi; simpa using this
              have hTok := hok T (List.mem_of_find?_eq_some hT)
              have hbh := hTok.nohost b hbT
              have hyh : (l0[i]).host = none := by
                have := (eqv_iff.mp hbe).1
                rw [hbh] at this
                cases hh : (l0[i]).host <;> simp_all [eqOptName]
              rw [← hi]
              simp only [fillHost, hyh]
              rw [eqv_iff] at hbe ⊢
              exact ⟨by simp [eqOptName, ieq_refl], hbe.2.1, hbe.2.2.1, hbe.2.2.2⟩

/-- the converse needs every returned end to exist (`_partial`: excluded input class = dangling ends,
    ends without namespace or with host; findings C13-KF1..KF3): if AssociatorNames succeeds and every
    returned path can be fetched, Associators succeeds. -/
theorem C13_names_are_paths_of_full_associators_converse_partial {sv : Server} {ns : Name} {x : Path}
    {f : AFilter} {l : List Path}
    (h : associatorNamesI sv ns x f = .ok l)
    (hres : ∀ S, findNs sv.repo ns = some S → ∀ l0, assocInstNames S (srcPath ns x) f = .ok l0 →
      ∀ y ∈ l0, ∃ i, fetchEnd sv y = .ok i) :
    ∃ is, associatorsI sv ns x f = .ok is := by
  unfold associatorNamesI withNs at h
  unfold associatorsI withNs
  cases hS : findNs sv.repo ns with
  | none => simp [hS] at h
  | some S =>
    simp only [hS] at h ⊢
    cases hn : assocInstNames S (srcPath ns x) f with
    | error e => simp [hn] at h
    | ok l0 =>
      simp only
      cases hm : mapE (fetchEnd sv) l0 with
      | ok is => exact ⟨is, rfl⟩
      | error e =>
        obtain ⟨y, hy, hfy⟩ := mapE_error_mem hm
        obtain ⟨i, hi⟩ := hres S hS l0 hn y hy
        rw [hi] at hfy; cases hfy

/-! ## 5. only documented errors from the Names operations -/

/-- ReferenceNames / AssociatorNames (instance level) fail only with CIM_ERR_INVALID_NAMESPACE or
    CIM_ERR_INVALID_PARAMETER — in particular NULL reference ends raise nothing (fix). -/
theorem C13_names_errors_documented {sv : Server} {ns : Name} {x : Path} {f : AFilter} {rc role : Option Name}
    {e : PyExc} :
    (associatorNamesI sv ns x f = .error e → e = errNamespace ∨ e = errParam) ∧
    (referenceNamesI sv ns x rc role = .error e → e = errNamespace ∨ e = errParam) := by
  unfold associatorNamesI referenceNamesI withNs
  cases hS : findNs sv.repo ns with
  | none => simp; intro h; exact Or.inl h.symm
  | some S =>
    simp only
    constructor
    · cases hn : assocInstNames S (srcPath ns x) f with
      | error e' => simp; intro h; subst h; exact Or.inr (assocInstNames_error hn)
      | ok l0 => simp
    · unfold refInstNames
      cases hr : refInstsE S (srcPath ns x) rc role with
      | error e' => simp; intro h; subst h; exact Or.inr (refInstsE_error hr)
      | ok l0 => simp

end C13
