/-
C13 — Association traversal is consistent with the stored association instances.

Property theorems over `Pywbem.Model.Assoc` (the model of pywbem_mock's References / ReferenceNames /
Associators / AssociatorNames, instance and class level).  All theorems quantify over arbitrary
repositories, sources and filters.
-/
import Proofs.Lemmas.AssocStore
import Proofs.Lemmas.AssocWrite4
import Proofs.Lemmas.AssocMore
import Proofs.Lemmas.AssocPull

namespace C13
open Pywbem.Proto Pywbem.Model.Assoc

/-! ## specification vocabulary

The definitions `Linked`, `Refers`, `optLe`, `FLe`, `swapRoles`, `StoreOk` (and, for the class level and
the hierarchy, `Desc`, `RefClassesExist`, `FIeq`) live in `Proofs/Lemmas/AssocSpec.lean` so that helper
lemmas can use them; they are definitions, not theorems:

* `Linked cs a x y f`  — stored instance `a` has two different reference properties `p ≠ q` with
  `p.value ≡ x`, `q.value = y`, `AssocClass` admits `a.cls`, `ResultClass` admits `y.cls` (both incl.
  subclasses: `classAdmits`), `Role` admits `p.name`, `ResultRole` admits `q.name` (case-insensitive);
* `Refers cs a x rc role` — `a` has a reference property `p` with `p.value ≡ x`, Role admits `p.name`,
  ResultClass admits `a.cls`;
* `FLe f f'` — every component of `f` is inactive (None or '') or equal to that of `f'`;
* `swapRoles f` — same AssocClass, Role and ResultRole exchanged, no ResultClass;
* `StoreOk is` — the instance store is a dict keyed by path (no two stored paths are equal under
  `CIMInstanceName.__eq__`) and stored paths have no host. -/

/-! ## 1. characterisation of the traversal results -/

/-- **ReferenceNames**: a path is returned iff it is the path of a stored instance that refers to `x`. -/
theorem C13_reference_characterisation {S : NsStore} {x : Path} {rc role : Option Name} {l : List Path}
    (h : refInstNames S x rc role = .ok l) (r : Path) :
    r ∈ l ↔ ∃ a ∈ S.insts, a.path = r ∧ Refers S.classes a x rc role := by
  unfold refInstNames at h
  cases hr : refInstsE S x rc role with
  | error e => simp [hr] at h
  | ok l0 =>
    simp [hr] at h
    obtain ⟨_, _, hl0⟩ := refInstsE_ok hr
    subst hl0; subst h
    simp only [List.mem_map, mem_refInsts, Refers]
    constructor
    · rintro ⟨a, ⟨ha, p, hp, hhit⟩, rfl⟩
      exact ⟨a, ha, rfl, p, hp, refPropHit_iff.mp hhit⟩
    · rintro ⟨a, ha, rfl, p, hp, hhit⟩
      exact ⟨a, ⟨ha, p, hp, refPropHit_iff.mpr hhit⟩, rfl⟩

/-- **AssociatorNames** (`associator_characterisation`): `y` is returned for source `x` iff `y` is not
    `x` and some stored instance links `x` to `y` through two different reference properties satisfying
    the four filters.  (`y` ranges over the stored reference values; the Python result is the set of
    them.) -/
theorem C13_associator_characterisation {S : NsStore} {x : Path} {f : AFilter} {l : List Path}
    (h : assocInstNames S x f = .ok l) (y : Path) :
    y ∈ l ↔ y.eqv x = false ∧ ∃ a ∈ S.insts, Linked S.classes a x y f := by
  rw [mem_assocInstNames h]
  constructor
  · rintro ⟨a, ha, ⟨p, hp, hhit⟩, q, hq, hoe⟩
    obtain ⟨hpr, ⟨v, hpv, hvx⟩, hac, hrole⟩ := refPropHit_iff.mp hhit
    obtain ⟨hqr, hqv, hyx, hrc, hrr⟩ := otherEnd_iff.mp hoe
    refine ⟨hyx, a, ha, p, hp, q, hq, ?_, hpr, hqr, ⟨v, hpv, hvx⟩, hqv, hac, hrc, hrole, hrr⟩
    intro hpq
    subst hpq
    rw [hpv] at hqv
    cases hqv
    simp [hvx] at hyx
  · rintro ⟨hyx, a, ha, p, hp, q, hq, _, hpr, hqr, hv, hqv, hac, hrc, hrole, hrr⟩
    exact ⟨a, ha, ⟨p, hp, refPropHit_iff.mpr ⟨hpr, hv, hac, hrole⟩⟩,
      q, hq, otherEnd_iff.mpr ⟨hqr, hqv, hyx, hrc, hrr⟩⟩

/-- the source itself is never among its associators (self-associations contribute nothing) -/
theorem C13_source_not_own_associator {S : NsStore} {x : Path} {f : AFilter} {l : List Path}
    (h : assocInstNames S x f = .ok l) : ∀ y ∈ l, y.eqv x = false :=
  fun y hy => ((C13_associator_characterisation h y).mp hy).1

/-- every associator is reached through an instance that ReferenceNames (ResultClass := AssocClass,
    same Role) returns -/
theorem C13_associators_via_references {S : NsStore} {x : Path} {f : AFilter} {l : List Path}
    (h : assocInstNames S x f = .ok l) :
    ∃ rl, refInstNames S x f.assocClass f.role = .ok rl ∧
      ∀ y ∈ l, ∃ a ∈ S.insts, a.path ∈ rl ∧ ∃ q ∈ a.props, q.value = some y := by
  obtain ⟨h1, _, h3, _⟩ := assocInstNames_ok h
  refine ⟨(refInsts S x f.assocClass f.role).map (·.path), by simp [refInstNames, refInstsE_eq_ok h3 h1], ?_⟩
  intro y hy
  obtain ⟨a, ha, hp, q, hq, hoe⟩ := (mem_assocInstNames h y).mp hy
  exact ⟨a, ha, List.mem_map.mpr ⟨a, mem_refInsts.mpr ⟨ha, hp⟩, rfl⟩, q, hq, (otherEnd_iff.mp hoe).2.1⟩

/-- operation level (what `FakedWBEMConnection.AssociatorNames` returns): the returned paths are exactly
    the host-completed stored values `y ≢ x` linked to the source by a stored instance of the request
    namespace; the source enters only through class name, keybindings and the request namespace. -/
theorem C13_associator_characterisation_operation {sv : Server} {ns : Name} {x : Path} {f : AFilter}
    {S : NsStore} {l : List Path} (hS : findNs sv.repo ns = some S)
    (h : associatorNamesI sv ns x f = .ok l) (z : Path) :
    z ∈ l ↔ ∃ y, z = fillHost sv.host y ∧ y.eqv (srcPath ns x) = false ∧
      ∃ a ∈ S.insts, Linked S.classes a (srcPath ns x) y f := by
  unfold associatorNamesI withNs at h
  simp only [hS] at h
  cases hn : assocInstNames S (srcPath ns x) f with
  | error e => simp [hn] at h
  | ok l0 =>
    simp only [hn] at h
    cases h
    simp only [List.mem_map]
    constructor
    · rintro ⟨y, hy, rfl⟩
      exact ⟨y, rfl, (C13_associator_characterisation hn y).mp hy⟩
    · rintro ⟨y, rfl, hy⟩
      exact ⟨y, (C13_associator_characterisation hn y).mpr hy, rfl⟩

/-! ## 2. adding a filter never adds results -/

/-- **filter_monotone**, AssociatorNames: if the operation succeeds with the filters `f'`, it succeeds
    with any weaker `f` and returns at least the same objects. -/
theorem C13_filter_monotone {S : NsStore} {x : Path} {f f' : AFilter} {l' : List Path}
    (hle : FLe f f') (h' : assocInstNames S x f' = .ok l') :
    ∃ l, assocInstNames S x f = .ok l ∧ ∀ y ∈ l', y ∈ l := by
  obtain ⟨hac, hrc, hro, hrr⟩ := hle
  obtain ⟨h1, h2, h3, _⟩ := assocInstNames_ok h'
  have hok := assocInstNames_eq_ok (f := f) (filterClassOk_mono hac h1) (filterClassOk_mono hrc h2) h3
  refine ⟨_, hok, ?_⟩
  intro y hy
  rw [C13_associator_characterisation hok]
  obtain ⟨hyx, a, ha, p, hp, q, hq, hne, hpr, hqr, hv, hqv, hA, hR, hRo, hRr⟩ :=
    (C13_associator_characterisation h' y).mp hy
  exact ⟨hyx, a, ha, p, hp, q, hq, hne, hpr, hqr, hv, hqv, classAdmits_mono hac hA, classAdmits_mono hrc hR,
    roleAdmits_mono hro hRo, roleAdmits_mono hrr hRr⟩

/-- **filter_monotone**, ReferenceNames -/
theorem C13_filter_monotone_references {S : NsStore} {x : Path} {rc rc' role role' : Option Name}
    {l' : List Path} (h1 : optLe rc rc') (h2 : optLe role role')
    (h' : refInstNames S x rc' role' = .ok l') :
    ∃ l, refInstNames S x rc role = .ok l ∧ ∀ r ∈ l', r ∈ l := by
  have hE : ∃ l0, refInstsE S x rc' role' = .ok l0 := by
    unfold refInstNames at h'
    cases hr : refInstsE S x rc' role' with
    | error e => simp [hr] at h'
    | ok l0 => exact ⟨l0, rfl⟩
  obtain ⟨l0, hl0⟩ := hE
  obtain ⟨hc, hf, _⟩ := refInstsE_ok hl0
  have hok : refInstNames S x rc role = .ok ((refInsts S x rc role).map (·.path)) := by
    simp [refInstNames, refInstsE_eq_ok hc (filterClassOk_mono h1 hf)]
  refine ⟨_, hok, ?_⟩
  intro r hr
  rw [C13_reference_characterisation hok]
  obtain ⟨a, ha, hpath, p, hp, hpr, hv, hA, hRo⟩ := (C13_reference_characterisation h' r).mp hr
  exact ⟨a, ha, hpath, p, hp, hpr, hv, classAdmits_mono h1 hA, roleAdmits_mono h2 hRo⟩

/-! ## 3. symmetry -/

/-- **assoc_symmetric** (general form, source namespace store `S`, far-end namespace store `T`):
    if `y` is an associator of `x` in `S`, then `x` is an associator of `y` in `T` with the roles swapped,
    provided the association instances of `S` are also stored in `T` (the shadow instances that
    CreateInstance writes for cross-namespace associations; trivial for `T = S`), the class of `y` and
    the AssocClass exist in `T`, and `T` admits at least the association classes `S` admits. -/
theorem C13_assoc_symmetric {S T : NsStore} {x y : Path} {f : AFilter} {l : List Path}
    (hshadow : ∀ a ∈ S.insts, ∃ a' ∈ T.insts, a'.cls = a.cls ∧ a'.props = a.props)
    (hycls : classExists T.classes y.cls = true)
    (hacT : filterClassOk T.classes f.assocClass = true)
    (hadm : ∀ c, classAdmits S.classes f.assocClass c = true → classAdmits T.classes f.assocClass c = true)
    (h : assocInstNames S x f = .ok l) (hy : ∃ y' ∈ l, y'.eqv y = true) :
    ∃ l', assocInstNames T y (swapRoles f) = .ok l' ∧ ∃ x' ∈ l', x'.eqv x = true := by
  obtain ⟨y', hy'l, hy'y⟩ := hy
  obtain ⟨hyx, a, ha, p, hp, q, hq, _, hpr, hqr, ⟨v, hpv, hvx⟩, hqv, hA, _, hRo, hRr⟩ :=
    (C13_associator_characterisation h y').mp hy'l
  obtain ⟨a', ha', hcls, hprops⟩ := hshadow a ha
  have hok := assocInstNames_eq_ok (S := T) (x := y) (f := swapRoles f) hacT (by simp [swapRoles, filterClassOk]) hycls
  refine ⟨_, hok, v, ?_, hvx⟩
  rw [C13_associator_characterisation hok]
  have hvy : v.eqv y = false := by
    have h1 : v.eqv y' = false := eqv_false_of hvx hyx
    rw [← eqv_congr_right hy'y]; exact h1
  refine ⟨hvy, a', ha', q, hprops ▸ hq, p, hprops ▸ hp, ?_, hqr, hpr, ⟨y', hqv, hy'y⟩, hpv, ?_, ?_, hRr, hRo⟩
  · intro hqp
    subst hqp
    rw [hpv] at hqv
    cases hqv
    simp [hvx] at hyx
  · simp only [swapRoles]; rw [hcls]; exact hadm _ hA
  · simp [swapRoles, classAdmits, truthy]

/-- **assoc_symmetric** within one namespace: `y` is associated with `x` iff `x` is associated with `y`
    (roles swapped, no ResultClass), for sources whose classes exist. -/
theorem C13_assoc_symmetric_same_namespace {S : NsStore} {x y : Path} {f : AFilter} {l l' : List Path}
    (hf : f.resultClass = none)
    (h : assocInstNames S x f = .ok l) (h' : assocInstNames S y (swapRoles f) = .ok l') :
    (∃ y' ∈ l, y'.eqv y = true) ↔ (∃ x' ∈ l', x'.eqv x = true) := by
  obtain ⟨hac, _, hxc, _⟩ := assocInstNames_ok h
  obtain ⟨_, _, hyc, _⟩ := assocInstNames_ok h'
  constructor
  · intro hy
    obtain ⟨l2, hl2, hx⟩ := C13_assoc_symmetric (S := S) (T := S) (fun a ha => ⟨a, ha, rfl, rfl⟩) hyc hac
      (fun _ hc => hc) h hy
    rw [h'] at hl2; cases hl2; exact hx
  · intro hx
    have hsw : swapRoles (swapRoles f) = f := by
      cases f; simp_all [swapRoles]
    obtain ⟨l2, hl2, hy⟩ := C13_assoc_symmetric (S := S) (T := S) (f := swapRoles f) (fun a ha => ⟨a, ha, rfl, rfl⟩) hxc
      (by simpa [swapRoles] using hac) (fun _ hc => hc) h' hx
    rw [hsw, h] at hl2; cases hl2; exact hy

/-! ## 4. Names = paths of the full results (instance level) -/

/-- **names_are_paths_of_full**, References / ReferenceNames (instance level): for every server whose
    instance store is a well-formed dict, ReferenceNames returns exactly the paths of what References
    returns, and they fail alike. -/
theorem C13_names_are_paths_of_full_references {sv : Server} {ns : Name} {x : Path} {rc role : Option Name}
    (hok : ∀ S ∈ sv.repo, StoreOk S.insts) :
    (match referencesI sv ns x rc role with
     | .ok is => Except.ok (is.map (·.path))
     | .error e => Except.error e) = referenceNamesI sv ns x rc role := by
  unfold referencesI referenceNamesI withNs
  cases hS : findNs sv.repo ns with
  | none => rfl
  | some S =>
    have hSok : StoreOk S.insts := hok S (List.mem_of_find?_eq_some hS)
    simp only
    unfold refInstNames
    cases hr : refInstsE S (srcPath ns x) rc role with
    | error e => rfl
    | ok l0 =>
      simp only
      obtain ⟨_, _, hl0⟩ := refInstsE_ok hr
      have hget : mapE (getInstance S.insts) (l0.map (·.path)) =
          .ok (l0.map (fun a => ({ a with path := { a.path with host := none } } : Inst))) := by
        apply mapE_map_ok
        intro a ha
        have haS : a ∈ S.insts := by rw [hl0] at ha; exact (mem_refInsts.mp ha).1
        simp [getInstance, findInst_self hSok haS]
      rw [hget]
      simp only [List.map_map]
      congr 1
      apply List.map_congr_left
      intro a ha
      have haS : a ∈ S.insts := by rw [hl0] at ha; exact (mem_refInsts.mp ha).1
      have hh := hSok.nohost a haS
      simp [setHost, fillHost, hh]

/- Full statement (false on the code, see the two negation witnesses below):
     `(Associators …).map (List.map (·.path)) = AssociatorNames …`
   It fails (a) by the host: Associators leaves `host = None` (C13-KF4) and (b) for ends that cannot be
   fetched (C13-KF1..KF3).  Proved instead: -/
/-- **names_are_paths_of_full** (`_partial`), Associators / AssociatorNames (instance level): whenever Associators
    succeeds, AssociatorNames succeeds and returns, position by position, the paths of the returned
    instances up to the host (Associators leaves `host` empty where AssociatorNames fills in the
    server's: finding C13-KF4) and up to lexical case.  When AssociatorNames fails, Associators fails
    with the same error. -/
theorem C13_names_are_paths_of_full_associators_partial {sv : Server} {ns : Name} {x : Path} {f : AFilter}
    (hok : ∀ S ∈ sv.repo, StoreOk S.insts) :
    (∀ is, associatorsI sv ns x f = .ok is →
      ∃ l, associatorNamesI sv ns x f = .ok l ∧ l.length = is.length ∧
        ∀ i (h1 : i < l.length) (h2 : i < is.length), (fillHost sv.host (is[i]).path).eqv (l[i]) = true) ∧
    (∀ e, associatorNamesI sv ns x f = .error e → associatorsI sv ns x f = .error e) := by
  unfold associatorsI associatorNamesI withNs
  cases hS : findNs sv.repo ns with
  | none => simp
  | some S =>
    simp only
    cases hn : assocInstNames S (srcPath ns x) f with
    | error e => simp
    | ok l0 =>
      simp only
      refine ⟨?_, by simp⟩
      intro is his
      refine ⟨_, rfl, ?_, ?_⟩
      · have := mapE_ok_iff.mp his
        have hlen := congrArg List.length this
        simpa using hlen
      · intro i h1 h2
        have hmap := mapE_ok_iff.mp his
        have h1' : i < l0.length := by simpa using h1
        have hi : fetchEnd sv (l0[i]) = .ok (is[i]) := by
          have := congrArg (fun l => l[i]?) hmap
          simp [h1', h2] at this
          exact this
        simp only [List.getElem_map]
        -- unfold the lookup of one end
        unfold fetchEnd endStore at hi
        cases hns : (l0[i]).ns with
        | none => simp [hns] at hi
        | some n =>
          simp only [hns] at hi
          cases hT : findNs sv.repo n with
          | none => simp [hT] at hi
          | some T =>
            simp only [hT] at hi
            unfold getInstance at hi
            cases hfi : findInst T.insts (l0[i]) with
            | none => simp [hfi] at hi
            | some b =>
              simp [hfi] at hi
              have hbT : b ∈ T.insts := List.mem_of_find?_eq_some hfi
              have hbe : b.path.eqv (l0[i]) = true := by
                have := List.find?_some hfi; simpa using this
              have hTok := hok T (List.mem_of_find?_eq_some hT)
              have hbh := hTok.nohost b hbT
              have hyh : (l0[i]).host = none := by
                have := (eqv_iff.mp hbe).1
                rw [hbh] at this
                cases hh : (l0[i]).host <;> simp_all [eqOptName]
              rw [← hi]
              simp only [fillHost, hyh]
              rw [eqv_iff] at hbe ⊢
              exact ⟨by simp [eqOptName, ieq_refl], hbe.2.1, hbe.2.2.1, hbe.2.2.2⟩

/-- the converse needs every returned end to exist (`_partial`: excluded input class = dangling ends,
    ends without namespace or with host; findings C13-KF1..KF3): if AssociatorNames succeeds and every
    returned path can be fetched, Associators succeeds. -/
theorem C13_names_are_paths_of_full_associators_converse_partial {sv : Server} {ns : Name} {x : Path}
    {f : AFilter} {l : List Path}
    (h : associatorNamesI sv ns x f = .ok l)
    (hres : ∀ S, findNs sv.repo ns = some S → ∀ l0, assocInstNames S (srcPath ns x) f = .ok l0 →
      ∀ y ∈ l0, ∃ i, fetchEnd sv y = .ok i) :
    ∃ is, associatorsI sv ns x f = .ok is := by
  unfold associatorNamesI withNs at h
  unfold associatorsI withNs
  cases hS : findNs sv.repo ns with
  | none => simp [hS] at h
  | some S =>
    simp only [hS] at h ⊢
    cases hn : assocInstNames S (srcPath ns x) f with
    | error e => simp [hn] at h
    | ok l0 =>
      simp only
      cases hm : mapE (fetchEnd sv) l0 with
      | ok is => exact ⟨is, rfl⟩
      | error e =>
        obtain ⟨y, hy, hfy⟩ := mapE_error_mem hm
        obtain ⟨i, hi⟩ := hres S hS l0 hn y hy
        rw [hi] at hfy; cases hfy

/-! ## 5. only documented errors from the Names operations -/

/-- ReferenceNames / AssociatorNames (instance level) fail only with CIM_ERR_INVALID_NAMESPACE or
    CIM_ERR_INVALID_PARAMETER — in particular NULL reference ends raise nothing (fix). -/
theorem C13_names_errors_documented {sv : Server} {ns : Name} {x : Path} {f : AFilter} {rc role : Option Name}
    {e : PyExc} :
    (associatorNamesI sv ns x f = .error e → e = errNamespace ∨ e = errParam) ∧
    (referenceNamesI sv ns x rc role = .error e → e = errNamespace ∨ e = errParam) := by
  unfold associatorNamesI referenceNamesI withNs
  cases hS : findNs sv.repo ns with
  | none => simp; intro h; exact Or.inl h.symm
  | some S =>
    simp only
    constructor
    · cases hn : assocInstNames S (srcPath ns x) f with
      | error e' => simp; intro h; subst h; exact Or.inr (assocInstNames_error hn)
      | ok l0 => simp
    · unfold refInstNames
      cases hr : refInstsE S (srcPath ns x) rc role with
      | error e' => simp; intro h; subst h; exact Or.inr (refInstsE_error hr)
      | ok l0 => simp

/-- exact status of AssociatorNames (instance level): INVALID_NAMESPACE iff the namespace is unknown;
    otherwise INVALID_PARAMETER iff the source class, an active AssocClass or an active ResultClass is
    not in the class store; otherwise a result. -/
theorem C13_associator_names_status_exact {sv : Server} {ns : Name} {x : Path} {f : AFilter} :
    (findNs sv.repo ns = none ∧ associatorNamesI sv ns x f = .error errNamespace) ∨
    (∃ S, findNs sv.repo ns = some S ∧
      ((classExists S.classes x.cls = true ∧ filterClassOk S.classes f.assocClass = true ∧
          filterClassOk S.classes f.resultClass = true ∧ ∃ l, associatorNamesI sv ns x f = .ok l) ∨
       ((classExists S.classes x.cls = false ∨ filterClassOk S.classes f.assocClass = false ∨
          filterClassOk S.classes f.resultClass = false) ∧ associatorNamesI sv ns x f = .error errParam))) := by
  unfold associatorNamesI withNs
  cases hS : findNs sv.repo ns with
  | none => exact Or.inl ⟨rfl, rfl⟩
  | some S =>
    right
    refine ⟨S, rfl, ?_⟩
    simp only
    cases hn : assocInstNames S (srcPath ns x) f with
    | ok l0 =>
      obtain ⟨h1, h2, h3, _⟩ := assocInstNames_ok hn
      exact Or.inl ⟨h3, h1, h2, _, rfl⟩
    | error e =>
      right
      have he := assocInstNames_error hn
      subst he
      refine ⟨?_, rfl⟩
      by_cases h3 : classExists S.classes x.cls = true
      · by_cases h1 : filterClassOk S.classes f.assocClass = true
        · by_cases h2 : filterClassOk S.classes f.resultClass = true
          · have := assocInstNames_eq_ok (S := S) (x := srcPath ns x) (f := f) h1 h2 h3
            rw [this] at hn; cases hn
          · exact Or.inr (Or.inr (by simpa using h2))
        · exact Or.inr (Or.inl (by simpa using h1))
      · exact Or.inl (by simpa using h3)
/-- the CIM status codes of the raise sites (regenerated from the source text on every run) are the
    ones DSP0200 prescribes for these operations: INVALID_NAMESPACE (3), INVALID_PARAMETER (4) for an
    unknown source / filter class and for a bad end point, INVALID_CLASS (5), NOT_FOUND (6),
    ALREADY_EXISTS (11). -/
theorem C13_status_codes_pinned :
    errNamespace = .cimError 3 ∧ errParam = .cimError 4 ∧ errClass = .cimError 5 ∧
    errNotFound = .cimError 6 ∧ errExists = .cimError 11 ∧
    Pywbem.Generated.Assoc.sourceClassStatus = Pywbem.Generated.Assoc.validateClassStatus ∧
    Pywbem.Generated.Assoc.endPointStatus = Pywbem.Generated.Assoc.validateClassStatus := by decide

/-! ## 6. class level -/

/-- **names_are_paths_of_full**, class level, References / ReferenceNames: the class names that
    ReferenceNames returns are exactly the names in the (classpath, class) tuples of References, and
    they fail alike — for every class store. -/
theorem C13_class_names_are_names_of_full_references {sv : Server} {ns cn : Name} {rc role : Option Name} :
    (match referencesC sv ns cn rc role with
     | .ok l => Except.ok (l.map Prod.fst)
     | .error e => Except.error e) = referenceNamesC sv ns cn rc role := by
  unfold referencesC referenceNamesC withNs
  cases hS : findNs sv.repo ns with
  | none => rfl
  | some S =>
    simp only
    unfold refClassNames
    cases hr : refClasses S cn rc role with
    | error e => rfl
    | ok l0 =>
      simp only
      have hm : ∀ c ∈ l0, classTuple S.classes c.name = .ok (c.name, ((findClass S.classes c.name).getD default).name) := by
        intro c hc
        obtain ⟨c', hc', _, _⟩ := findClass_of_exists (classExists_of_mem (refClasses_mem hr hc))
        simp [classTuple, hc']
      rw [mapE_map_ok hm]
      simp [List.map_map]

/-- **names_are_paths_of_full**, class level, Associators / AssociatorNames: same statement, for class
    stores in which every reference declaration names an existing class (the invariant CreateClass
    maintains; without it Associators raises CIM_ERR_NOT_FOUND from `get_class`). -/
theorem C13_class_names_are_names_of_full_associators {sv : Server} {ns cn : Name} {f : AFilter}
    (hrefs : ∀ S ∈ sv.repo, RefClassesExist S.classes) :
    (match associatorsC sv ns cn f with
     | .ok l => Except.ok (l.map Prod.fst)
     | .error e => Except.error e) = associatorNamesC sv ns cn f := by
  unfold associatorsC associatorNamesC withNs
  cases hS : findNs sv.repo ns with
  | none => rfl
  | some S =>
    simp only
    cases hn : assocClassNames S cn f with
    | error e => rfl
    | ok l0 =>
      simp only
      have hRE := hrefs S (List.mem_of_find?_eq_some hS)
      obtain ⟨_, _, rl, hrl, hl0⟩ := assocClassNames_ok hn
      have hm : ∀ n ∈ l0, classTuple S.classes n = .ok (n, ((findClass S.classes n).getD default).name) := by
        intro n hnl
        rw [hl0, List.mem_flatMap] at hnl
        obtain ⟨c, hc, hnc⟩ := hnl
        obtain ⟨p, hp, rfl, hpr, _, _⟩ := mem_assocClassEnds.mp hnc
        obtain ⟨c', hc', _, _⟩ := findClass_of_exists (hRE c (refClasses_mem hrl hc) p hp hpr)
        simp [classTuple, hc']
      have := mapE_map_ok (h := fun n => n) hm
      simp only [List.map_id'] at this
      rw [this]
      simp [List.map_map, Function.comp_def]

/-- **filter_monotone**, class level: adding a filter to a class-level AssociatorNames /
    ReferenceNames request never adds class names. -/
theorem C13_filter_monotone_class {S : NsStore} {cn : Name} {f f' : AFilter} {l' : List Name}
    (hle : FLe f f') (h' : assocClassNames S cn f' = .ok l') :
    ∃ l, assocClassNames S cn f = .ok l ∧ ∀ n ∈ l', n ∈ l := by
  obtain ⟨hac, hrc, hro, hrr⟩ := hle
  obtain ⟨h1, h2, rl', hrl', hl'⟩ := assocClassNames_ok h'
  obtain ⟨hce, _, sup, hsup, hrl'eq⟩ := refClasses_ok hrl'
  have hrl := refClasses_eq_ok (S := S) (cn := cn) (rc := f.assocClass) (role := f.role) hce
    (filterClassOk_mono hac h1) hsup
  have hok := assocClassNames_eq_ok (filterClassOk_mono hac h1) (filterClassOk_mono hrc h2) hrl
  refine ⟨_, hok, ?_⟩
  intro n hn
  rw [hl', List.mem_flatMap] at hn
  obtain ⟨c, hc, hnc⟩ := hn
  rw [List.mem_flatMap]
  refine ⟨c, ?_, ?_⟩
  · rw [hrl'eq] at hc
    obtain ⟨hcS, hcond⟩ := List.mem_filter.mp hc
    apply List.mem_filter.mpr
    refine ⟨hcS, ?_⟩
    simp only [Bool.and_eq_true, List.any_eq_true] at hcond ⊢
    obtain ⟨hassoc, p, hp, hpr, hmatch⟩ := hcond
    exact ⟨hassoc, p, hp, hpr, refPropMatches_mono (optLe_lists hac) (optLe_lcOpt hro) hmatch⟩
  · rw [mem_assocClassEnds] at hnc ⊢
    obtain ⟨p, hp, hpn, hpr, hmatch, hskip⟩ := hnc
    exact ⟨p, hp, hpn, hpr, assocPropMatches_mono (optLe_lists hac) (optLe_lists hrc) (optLe_lcOpt hrr) hmatch, hskip⟩

theorem C13_filter_monotone_class_references {S : NsStore} {cn : Name} {rc rc' role role' : Option Name}
    {l' : List Name} (h1 : optLe rc rc') (h2 : optLe role role') (h' : refClassNames S cn rc' role' = .ok l') :
    ∃ l, refClassNames S cn rc role = .ok l ∧ ∀ n ∈ l', n ∈ l := by
  unfold refClassNames at h'
  cases hr' : refClasses S cn rc' role' with
  | error e => simp [hr'] at h'
  | ok rl' =>
    simp [hr'] at h'
    obtain ⟨hce, hf, sup, hsup, hrl'eq⟩ := refClasses_ok hr'
    have hrl := refClasses_eq_ok (S := S) (cn := cn) (rc := rc) (role := role) hce (filterClassOk_mono h1 hf) hsup
    have hok : refClassNames S cn rc role = .ok ((S.classes.filter (fun c => c.isAssoc && c.props.any (fun p => p.isRef &&
            refPropMatches p ((sup ++ [cn]).map lower) (lower c.name) (subclassesLc S.classes rc) (lcOpt role)))).map (·.name)) := by
      simp only [refClassNames, hrl]
    refine ⟨_, hok, ?_⟩
    intro n hn
    rw [← h', List.mem_map] at hn
    obtain ⟨c, hc, rfl⟩ := hn
    apply List.mem_map.mpr
    refine ⟨c, ?_, rfl⟩
    rw [hrl'eq] at hc
    obtain ⟨hcS, hcond⟩ := List.mem_filter.mp hc
    apply List.mem_filter.mpr
    refine ⟨hcS, ?_⟩
    simp only [Bool.and_eq_true, List.any_eq_true] at hcond ⊢
    obtain ⟨hassoc, p, hp, hpr, hmatch⟩ := hcond
    exact ⟨hassoc, p, hp, hpr, refPropMatches_mono (optLe_lists h1) (optLe_lcOpt h2) hmatch⟩

/-! ## 7. names are case-insensitive -/

/-- instance level: equal source paths (under `CIMInstanceName.__eq__`: class name and namespace
    compared case-insensitively) and filter tuples that differ only in lexical case (or None vs '')
    give identical results, for References and Associators alike. -/
theorem C13_case_insensitive_instance {S : NsStore} {x x' : Path} {f f' : AFilter}
    (hx : x.eqv x' = true) (hf : FIeq f f') :
    assocInstNames S x f = assocInstNames S x' f' ∧
    refInstNames S x f.resultClass f.role = refInstNames S x' f'.resultClass f'.role := by
  obtain ⟨hac, hrc, hro, hrr⟩ := hf
  constructor
  · unfold assocInstNames
    rw [filterClassOk_congr hac, filterClassOk_congr hrc, refInstsE_congr hx hac hro]
    have : otherEnd S.classes x f.resultClass f.resultRole = otherEnd S.classes x' f'.resultClass f'.resultRole :=
      funext (otherEnd_congr hx hrc hrr)
    rw [this]
  · unfold refInstNames
    rw [refInstsE_congr hx hrc hro]

/-- class level (after fix C13-F2): a recased source class name and recased filters give identical
    results. -/
theorem C13_case_insensitive_class {S : NsStore} {cn cn' : Name} {f f' : AFilter}
    (hc : lower cn = lower cn') (hf : FIeq f f') :
    assocClassNames S cn f = assocClassNames S cn' f' ∧
    refClassNames S cn f.resultClass f.role = refClassNames S cn' f'.resultClass f'.role := by
  obtain ⟨hac, hrc, hro, hrr⟩ := hf
  constructor
  · unfold assocClassNames
    rw [filterClassOk_congr hac, filterClassOk_congr hrc, refClasses_congr hc hac hro,
      subclassesLc_congr hac, subclassesLc_congr hrc]
    have hrr' : lcOpt f.resultRole = lcOpt f'.resultRole := hrr
    rw [hrr']
    have : ∀ c, assocClassEnds c cn (subclassesLc S.classes f'.assocClass) (subclassesLc S.classes f'.resultClass)
          (lcOpt f'.resultRole) = assocClassEnds c cn' (subclassesLc S.classes f'.assocClass)
          (subclassesLc S.classes f'.resultClass) (lcOpt f'.resultRole) :=
      fun c => assocClassEnds_congr hc _ _ _
    simp only [this]
  · unfold refClassNames
    rw [refClasses_congr hc hrc hro]

/-- operation level: the namespace name is case-insensitive too, and the `host`/`namespace`
    attributes of the source path passed by the client are irrelevant. -/
theorem C13_case_insensitive_operation {sv : Server} {ns ns' : Name} {x x' : Path} {f f' : AFilter}
    (hns : lower ns = lower ns') (hcls : lower x.cls = lower x'.cls) (hkey : x.key = x'.key) (hf : FIeq f f') :
    associatorNamesI sv ns x f = associatorNamesI sv ns' x' f' := by
  have hx : (srcPath ns x).eqv (srcPath ns' x') = true := by
    rw [eqv_iff]; simp [srcPath, eqOptName, ieq, hns, hcls, hkey]
  unfold associatorNamesI withNs
  have hfind : findNs sv.repo ns = findNs sv.repo ns' := by simp [findNs, ieq, hns]
  rw [hfind]
  cases findNs sv.repo ns' with
  | none => rfl
  | some S => simp only; rw [(C13_case_insensitive_instance (S := S) hx hf).1]

/-! ## 8. the class filters are the subclass relation of the store -/

/-- soundness: a class admitted by an active class filter `f` is `f` itself or a stored descendant of
    `f` (walking superclass links; names compared case-insensitively) — for every class store. -/
theorem C13_class_filter_sound {cs : List Cls} {fn c : Name} (hne : fn.isEmpty = false)
    (h : classAdmits cs (some fn) c = true) :
    lower c = lower fn ∨ ∃ d, Desc cs d fn ∧ lower c = lower d := by
  simp only [classAdmits, truthy, hne, subclassesLc] at h
  simp at h
  rcases h with h | ⟨d, hd, hdc⟩
  · exact Or.inl h
  · exact Or.inr ⟨d, subNamesDeep_sound hd, hdc.symm⟩

/-- completeness: `f` itself and every stored descendant reachable by at most `|classes| + 1`
    superclass links is admitted (in a store without superclass cycles — C12 — every descendant is). -/
theorem C13_class_filter_complete {cs : List Cls} {fn c : Name} (hne : fn.isEmpty = false)
    (h : lower c = lower fn ∨ ∃ d, DescN cs (cs.length + 1) d fn ∧ lower c = lower d) :
    classAdmits cs (some fn) c = true := by
  simp only [classAdmits, truthy, hne, subclassesLc]
  simp
  rcases h with h | ⟨d, hd, hdc⟩
  · exact Or.inl h
  · exact Or.inr ⟨d, subNamesDeep_complete hd, hdc.symm⟩

/-! ## 9. storing association instances: shadow instances in every namespace involved -/

/-- **multi-namespace shadows**: when CreateInstance of an association instance succeeds, a copy with
    the same class and properties is stored in the target namespace and in the namespace of every
    non-NULL end — exactly the hypothesis `hshadow` of `C13_assoc_symmetric` for the new instance —
    and the class stores are unchanged. -/
theorem C13_create_writes_shadows {sv sv' : Server} {ns : Name} {a : Inst}
    (h : createAssoc sv ns a = .ok sv') :
    ∀ n ∈ otherNamespaces a ns ++ [ns], ∃ T, findNs sv'.repo n = some T ∧
      ∃ a' ∈ T.insts, a'.cls = a.cls ∧ a'.props = a.props ∧ a'.path.key = a.path.key :=
  create_writes_shadows h

/-- **a created association is traversable from every end**: after a successful CreateInstance of an
    association instance, for any two reference properties `p`, `q` of it with values `x ≢ y`, the
    namespace named by `x` exists and (if the class of `x` is known there) AssociatorNames of `x` in that
    namespace returns `y` — in particular in both directions and across namespaces. -/
theorem C13_created_association_traversable {sv sv' : Server} {ns : Name} {a : Inst}
    (h : createAssoc sv ns a = .ok sv')
    {p q : IProp} (hp : p ∈ a.props) (hq : q ∈ a.props) (hpr : p.isRef = true) (hqr : q.isRef = true)
    {x y : Path} (hpx : p.value = some x) (hqy : q.value = some y) (hxy : y.eqv x = false) :
    ∃ n T, x.ns = some n ∧ findNs sv'.repo n = some T ∧
      (classExists T.classes x.cls = true → ∃ l, assocInstNames T x {} = .ok l ∧ y ∈ l) := by
  have hsh := create_writes_shadows h
  unfold createAssoc at h
  cases hS : findNs sv.repo ns with
  | none => simp [hS] at h
  | some S =>
    simp only [hS] at h
    split at h
    · cases h
    · split at h
      · cases h
      · rename_i hhost
        split at h
        · cases h
        · rename_i hends
          have hxmem : x ∈ a.props.filterMap (fun p => if p.isRef then p.value else none) := by
            rw [List.mem_filterMap]; exact ⟨p, hp, by simp [hpr, hpx]⟩
          have hxns : ∃ n, x.ns = some n := by
            cases hn : x.ns with
            | some n => exact ⟨n, rfl⟩
            | none =>
              exfalso; apply hends
              simp only [List.any_eq_true]
              exact ⟨x, hxmem, by simp [hn]⟩
          obtain ⟨n, hn⟩ := hxns
          obtain ⟨m, hm, hmn⟩ := end_namespace_covered (target := ns) hp hpr hpx hn
          obtain ⟨T, hT, a', ha', hcls, hprops, _⟩ := hsh m hm
          refine ⟨n, T, hn, by rw [← findNs_congr hmn]; exact hT, ?_⟩
          intro hce
          have hok := assocInstNames_eq_ok (S := T) (x := x) (f := {}) (by simp [filterClassOk]) (by simp [filterClassOk]) hce
          refine ⟨_, hok, ?_⟩
          rw [mem_assocInstNames hok]
          refine ⟨a', ha', ⟨p, hprops ▸ hp, ?_⟩, q, hprops ▸ hq, ?_⟩
          · rw [refPropHit_iff]
            exact ⟨hpr, ⟨x, hpx, eqv_refl x⟩, by simp [classAdmits, truthy], by simp [roleAdmits, lcOpt]⟩
          · rw [otherEnd_iff]
            exact ⟨hqr, hqy, hxy, by simp [classAdmits, truthy], by simp [roleAdmits, lcOpt]⟩

/-- storing keeps the instance store a well-formed dict (the hypothesis `StoreOk` of the Names = full
    theorems): appending an instance whose path is not yet a key preserves "keys unique, no host". -/
theorem C13_add_preserves_store_ok {is : List Inst} {a : Inst} {n : Name}
    (hok : StoreOk is) (hnew : findInst is (rebase a n).path = none) : StoreOk (is ++ [rebase a n]) :=
  storeOk_append hok hnew

/-! ## 11. the write path keeps the shadow copies in step: symmetry across namespaces after any history

Vocabulary (definitions in `Proofs/Lemmas/AssocWrite*.lean`, model in `Pywbem/Model/AssocWrite.lean`):
* `WInv r` — the shadow-copy discipline of a repository: namespaces unique up to case; stored paths carry
  their store's namespace and no host; one instance per class name + keybindings in a store; an instance
  with ends lives in a namespace one of its ends names; an association instance without ends has no namesake
  in another namespace; for every namespace an end names a namesake is stored there; namesakes of an
  association instance have its properties and class (they are copies of one instance).
* `CreateOk r ns a` — the request namespace is named by an end of `a` (or `a` has no end) and class name +
  keybindings of `a` are new in the whole repository.
* `ModifyOk sv ns p chg` — the addressed instance has a reference property and the merged instance still names
  the request namespace by an end (or has no end).
* `HistOk sv ops` — every Create/Modify request of the history meets its request condition in the state it is
  applied to.
* `runW sv ops` — the server after the write requests `ops` (a refused request changes nothing). -/

/-- **assoc_symmetric**, strongest form: only the association instances that actually reference `y`
    need a copy in `y`'s namespace store `T`. -/
theorem C13_assoc_symmetric_linked {S T : NsStore} {x y : Path} {f : AFilter} {l : List Path}
    (hshadow : ∀ a ∈ S.insts, (∃ q ∈ a.props, q.isRef = true ∧ ∃ y', q.value = some y' ∧ y'.eqv y = true) →
      ∃ a' ∈ T.insts, a'.cls = a.cls ∧ a'.props = a.props)
    (hycls : classExists T.classes y.cls = true)
    (hacT : filterClassOk T.classes f.assocClass = true)
    (hadm : ∀ c, classAdmits S.classes f.assocClass c = true → classAdmits T.classes f.assocClass c = true)
    (h : assocInstNames S x f = .ok l) (hy : ∃ y' ∈ l, y'.eqv y = true) :
    ∃ l', assocInstNames T y (swapRoles f) = .ok l' ∧ ∃ x' ∈ l', x'.eqv x = true := by
  obtain ⟨y', hy'l, hy'y⟩ := hy
  obtain ⟨hyx, a, ha, p, hp, q, hq, _, hpr, hqr, ⟨v, hpv, hvx⟩, hqv, hA, _, hRo, hRr⟩ :=
    (C13_associator_characterisation h y').mp hy'l
  obtain ⟨a', ha', hcls, hprops⟩ := hshadow a ha ⟨q, hq, hqr, y', hqv, hy'y⟩
  have hok := assocInstNames_eq_ok (S := T) (x := y) (f := swapRoles f) hacT (by simp [swapRoles, filterClassOk]) hycls
  refine ⟨_, hok, v, ?_, hvx⟩
  rw [C13_associator_characterisation hok]
  have hvy : v.eqv y = false := by
    have h1 : v.eqv y' = false := eqv_false_of hvx hyx
    rw [← eqv_congr_right hy'y]; exact h1
  refine ⟨hvy, a', ha', q, hprops ▸ hq, p, hprops ▸ hp, ?_, hqr, hpr, ⟨y', hqv, hy'y⟩, hpv, ?_, ?_, hRr, hRo⟩
  · intro hqp
    subst hqp
    rw [hpv] at hqv
    cases hqv
    simp [hvx] at hyx
  · simp only [swapRoles]; rw [hcls]; exact hadm _ hA
  · simp [swapRoles, classAdmits, truthy]

/-- **symmetry across namespaces from the discipline**: in a repository that satisfies `WInv`, if `y`
    (a stored end naming namespace `n2`) is an associator of `x` in namespace `ns1`, then `x` is an
    associator of `y` in `n2` with the roles swapped — provided `y`'s class and the AssocClass are known
    in `n2` and `n2` admits at least the association classes `ns1` admits (same schema). -/
theorem C13_symmetric_across_namespaces {sv : Server} (hinv : WInv sv.repo)
    {ns1 n2 : Name} {S T : NsStore} (hS : findNs sv.repo ns1 = some S) (hT : findNs sv.repo n2 = some T)
    {x y : Path} {f : AFilter} {l : List Path}
    (h : assocInstNames S x f = .ok l) (hy : y ∈ l) (hyns : y.ns = some n2)
    (hycls : classExists T.classes y.cls = true)
    (hacT : filterClassOk T.classes f.assocClass = true)
    (hadm : ∀ c, classAdmits S.classes f.assocClass c = true → classAdmits T.classes f.assocClass c = true) :
    ∃ l', assocInstNames T y (swapRoles f) = .ok l' ∧ ∃ x' ∈ l', x'.eqv x = true := by
  obtain ⟨hSr, _⟩ := findNs_mem hS
  obtain ⟨hTr, hTn⟩ := findNs_mem hT
  apply C13_assoc_symmetric_linked (S := S) (T := T) ?_ hycls hacT hadm h ⟨y, hy, eqv_refl y⟩
  intro a ha ⟨q, hq, hqr, y', hqv, hy'y⟩
  -- the end `y'` names (up to case) the namespace `n2`
  have hy'ns : ∃ n', y'.ns = some n' ∧ ieq n' n2 = true := by
    have := (eqv_iff.mp hy'y).2.1
    rw [hyns] at this
    cases hn : y'.ns with
    | none => simp [hn, eqOptName] at this
    | some n' => exact ⟨n', rfl, by simpa [hn, eqOptName] using this⟩
  obtain ⟨n', hn', hn'2⟩ := hy'ns
  have hmem : n' ∈ endNss a := mem_endNss.mpr ⟨q, hq, hqr, y', hqv, hn'⟩
  obtain ⟨T', hT', hT'n, a', ha', hpk⟩ := hinv.shadow S hSr a ha n' hmem
  have hTT : T' = T := hinv.uniq T' hT' T hTr (ieq_trans hT'n (ieq_trans hn'2 (ieq_symm hTn)))
  subst hTT
  obtain ⟨hprops, hcls⟩ := hinv.coh S hSr T' hT' a ha a' ha' (pkEq_symm hpk) (hasRef_of_endNss hmem)
  exact ⟨a', ha', hcls.symm, hprops.symm⟩

/-- **the write path keeps the discipline**, one request: CreateInstance, ModifyInstance and
    DeleteInstance of association instances preserve `WInv` (for Create and Modify under the request
    conditions `CreateOk` / `ModifyOk`; DeleteInstance unconditionally).
    Full statement without the request conditions: false — see `C13_write_discipline_fails_without_home`. -/
theorem C13_write_step_keeps_discipline_partial {sv sv' : Server} (hinv : WInv sv.repo) :
    (∀ ns a, CreateOk sv.repo ns a → createAssoc sv ns a = .ok sv' → WInv sv'.repo) ∧
    (∀ ns p chg, ModifyOk sv ns p chg → modifyAssoc sv ns p chg = .ok sv' → WInv sv'.repo) ∧
    (∀ ns p, deleteAssoc sv ns p = .ok sv' → WInv sv'.repo) ∧
    (∀ ns cn, deleteClassAssoc sv ns cn = .ok sv' → WInv sv'.repo) :=
  ⟨fun _ _ hreq h => create_preserves hinv hreq h,
   fun _ _ _ hreq h => modify_preserves hinv hreq h,
   fun _ _ h => delete_preserves hinv h,
   fun _ _ h => deleteClass_preserves hinv h⟩

/-- **invariant over histories**: after ANY history of CreateInstance / ModifyInstance / DeleteInstance
    requests for association instances (accepted or refused, in any order, through any namespace) whose
    Create/Modify requests meet the request conditions, the repository satisfies the discipline. -/
theorem C13_write_history_keeps_discipline_partial : ∀ (ops : List WOp) (sv : Server),
    WInv sv.repo → HistOk sv ops → WInv (runW sv ops).repo
  | [], _, hinv, _ => hinv
  | op :: ops, sv, hinv, hok => by
    obtain ⟨hreq, hrest⟩ := hok
    have hstep : WInv (stepW sv op).repo := by
      unfold stepW
      cases hres : applyW sv op with
      | error e => exact hinv
      | ok sv' =>
        cases op with
        | create ns a => exact create_preserves hinv hreq hres
        | modify ns p chg => exact modify_preserves hinv hreq hres
        | delete ns p => exact delete_preserves hinv hres
        | deleteClass ns cn => exact deleteClass_preserves hinv hres
    exact C13_write_history_keeps_discipline_partial ops (stepW sv op) hstep hrest

/-- **after any such history traversal is symmetric across namespaces** (composition of the two
    theorems above). -/
theorem C13_history_symmetric_across_namespaces_partial {sv : Server} {ops : List WOp}
    (hinv : WInv sv.repo) (hok : HistOk sv ops)
    {ns1 n2 : Name} {S T : NsStore} (hS : findNs (runW sv ops).repo ns1 = some S)
    (hT : findNs (runW sv ops).repo n2 = some T)
    {x y : Path} {f : AFilter} {l : List Path}
    (h : assocInstNames S x f = .ok l) (hy : y ∈ l) (hyns : y.ns = some n2)
    (hycls : classExists T.classes y.cls = true)
    (hacT : filterClassOk T.classes f.assocClass = true)
    (hadm : ∀ c, classAdmits S.classes f.assocClass c = true → classAdmits T.classes f.assocClass c = true) :
    ∃ l', assocInstNames T y (swapRoles f) = .ok l' ∧ ∃ x' ∈ l', x'.eqv x = true :=
  C13_symmetric_across_namespaces (C13_write_history_keeps_discipline_partial ops sv hinv hok)
    hS hT h hy hyns hycls hacT hadm

/-- the creation loop of `createAssoc` (a fold over the namespace list) is one pass over the repository
    that appends the copy to every store whose name is in the list — the representation used for
    Modify and Delete (discharges "loop over namespaces = map over the NocaseDict of namespaces") -/
theorem C13_create_loop_is_one_pass (sv : Server) (ns : Name) (a : Inst) :
    (otherNamespaces a ns ++ [ns]).foldl (fun r n => addInst r n a) sv.repo =
      mapInsts sv.repo (createF (otherNamespaces a ns ++ [ns]) a) :=
  foldl_addInst_eq a _ _ (nodup_other_target a ns)

/-- the executable checks the K driver reports for every write history (`disciplineB`, `histOkB` of
    `Model/AssocWrite.lean`) decide exactly the discipline and the request conditions of the theorems -/
theorem C13_discipline_checks_decide (sv : Server) (ops : List WOp) :
    (disciplineB sv.repo = true ↔ WInv sv.repo) ∧ (histOkB sv ops = true ↔ HistOk sv ops) :=
  ⟨disciplineB_iff, histOkB_iff ops sv⟩

/-! ## 12. discharged modelling conventions: Python set, fuel, host, class-level results -/

/-- **Python set = list modulo equality** (discharged): the duplicate-free list that the client sees
    (`dedupPaths`: first inserted representative of each class of equal paths) has no two equal paths,
    contains only computed values, and represents every computed value. -/
theorem C13_set_semantics (l : List Path) :
    (dedupPaths l).Pairwise (fun a b => b.eqv a = false) ∧
    (∀ y ∈ dedupPaths l, y ∈ l) ∧
    (∀ y ∈ l, ∃ y' ∈ dedupPaths l, y'.eqv y = true) :=
  ⟨dedupPaths_nodup l, fun _ h => dedupPaths_subset h, fun _ h => dedupPaths_covers h⟩

/-- the operation with set semantics (what `FakedWBEMConnection.AssociatorNames` returns, one entry per
    distinct stored path) and the list-valued operation of sections 1-5 fail alike, and succeed with
    the same paths up to multiplicity: all theorems about membership carry over. -/
theorem C13_set_semantics_operation {sv : Server} {ns : Name} {x : Path} {f : AFilter} :
    (∀ e, associatorNamesSetI sv ns x f = .error e ↔ associatorNamesI sv ns x f = .error e) ∧
    (∀ l', associatorNamesSetI sv ns x f = .ok l' → ∃ l, associatorNamesI sv ns x f = .ok l ∧
      (∀ z ∈ l', z ∈ l) ∧ (∀ z ∈ l, ∃ z' ∈ l', z'.eqv z = true)) := by
  unfold associatorNamesSetI associatorNamesI withNs
  cases hS : findNs sv.repo ns with
  | none => simp
  | some S =>
    simp only
    cases hn : assocInstNames S (srcPath ns x) f with
    | error e => simp
    | ok l0 =>
      simp only
      refine ⟨by simp, ?_⟩
      intro l' hl'
      cases hl'
      refine ⟨_, rfl, ?_, ?_⟩
      · intro z hz
        obtain ⟨y, hy, rfl⟩ := List.mem_map.mp hz
        exact List.mem_map.mpr ⟨y, dedupPaths_subset hy, rfl⟩
      · intro z hz
        obtain ⟨y, hy, rfl⟩ := List.mem_map.mp hz
        obtain ⟨y', hy', he⟩ := dedupPaths_covers hy
        exact ⟨fillHost sv.host y', List.mem_map.mpr ⟨y', hy', rfl⟩, fillHost_eqv he⟩

/-- **host filling** (finding C13-KF4 as a theorem about the code): every path AssociatorNames returns
    carries a host (the stored one or the server's), every instance Associators returns has a path
    without host. -/
theorem C13_host_filling_exact {sv : Server} {ns : Name} {x : Path} {f : AFilter} :
    (∀ l, associatorNamesI sv ns x f = .ok l → ∀ z ∈ l, z.host.isSome = true) ∧
    (∀ is, associatorsI sv ns x f = .ok is → ∀ i ∈ is, i.path.host = none) := by
  constructor
  · intro l hl z hz
    unfold associatorNamesI withNs at hl
    cases hS : findNs sv.repo ns with
    | none => simp [hS] at hl
    | some S =>
      simp only [hS] at hl
      cases hn : assocInstNames S (srcPath ns x) f with
      | error e => simp [hn] at hl
      | ok l0 =>
        simp only [hn] at hl
        cases hl
        obtain ⟨y, _, rfl⟩ := List.mem_map.mp hz
        unfold fillHost
        cases hh : y.host <;> simp [hh]
  · intro is his i hi
    unfold associatorsI withNs at his
    cases hS : findNs sv.repo ns with
    | none => simp [hS] at his
    | some S =>
      simp only [hS] at his
      cases hn : assocInstNames S (srcPath ns x) f with
      | error e => simp [hn] at his
      | ok l0 =>
        simp only [hn] at his
        have hmap := mapE_ok_iff.mp his
        -- every fetched instance went through `getInstance`, which clears the host
        have : ∀ (l : List Path) (is : List Inst), l.map (fetchEnd sv) = is.map Except.ok → ∀ i ∈ is, i.path.host = none := by
          intro l
          induction l with
          | nil => intro is h i hi; cases is <;> simp_all
          | cons y ys ih =>
            intro is h i hi
            cases is with
            | nil => cases hi
            | cons j js =>
              simp only [List.map_cons, List.cons.injEq] at h
              rcases List.mem_cons.mp hi with rfl | hi
              · have hj := h.1
                unfold fetchEnd at hj
                cases hE : endStore sv y with
                | error e => simp [hE] at hj
                | ok T =>
                  simp only [hE] at hj
                  unfold getInstance at hj
                  cases hF : findInst T.insts y with
                  | none => simp [hF] at hj
                  | some b => simp [hF] at hj; rw [← hj]
              · exact ih js h.2 i hi
        exact this l0 is hmap i hi

/-- **fuel discharged**: in a class store that admits a rank (strictly increasing from superclass to
    subclass, below the number of classes — e.g. the position in creation order; such a rank exists iff
    the superclass links have no cycle), the recursion depth `|classes| + 1` that the model gives
    `_get_subclass_names` reaches every stored descendant. -/
theorem C13_fuel_suffices {cs : List Cls} {rank : Name → Nat} (hr : Ranked cs rank) {x a : Name}
    (h : Desc cs x a) : x ∈ subNamesDeep (cs.length + 1) cs a :=
  subNamesDeep_complete (desc_fuel hr h)

/-- hence, in a ranked class store, an active class filter admits EXACTLY the class itself and its
    stored descendants (soundness + completeness without a bound on the chain length). -/
theorem C13_class_filter_exact {cs : List Cls} {rank : Name → Nat} (hr : Ranked cs rank) {fn c : Name}
    (hne : fn.isEmpty = false) :
    classAdmits cs (some fn) c = true ↔ (lower c = lower fn ∨ ∃ d, Desc cs d fn ∧ lower c = lower d) := by
  constructor
  · exact C13_class_filter_sound hne
  · intro h
    apply C13_class_filter_complete hne
    rcases h with h | ⟨d, hd, hdc⟩
    · exact Or.inl h
    · exact Or.inr ⟨d, desc_fuel hr hd, hdc⟩

/-- **class-level ReferenceNames, characterised**: a class name is returned iff it is the name of a stored
    class with the Association qualifier that has a reference property whose declared class is the source
    class or one of its superclasses (names modulo case), admitted by Role, the class itself admitted by
    ResultClass (incl. subclasses). -/
theorem C13_class_reference_characterisation {S : NsStore} {cn : Name} {rc role : Option Name} {l sup : List Name}
    (hsup : superNames S.classes cn = .ok sup) (h : refClassNames S cn rc role = .ok l) (n : Name) :
    n ∈ l ↔ ∃ c ∈ S.classes, c.name = n ∧ c.isAssoc = true ∧ ∃ p ∈ c.props, p.isRef = true ∧
      lower p.refCls ∈ (sup ++ [cn]).map lower ∧
      (subclassesLc S.classes rc = [] ∨ lower c.name ∈ subclassesLc S.classes rc) ∧
      (∀ r, lcOpt role = some r → lower p.name = r) := by
  unfold refClassNames at h
  cases hr : refClasses S cn rc role with
  | error e => simp [hr] at h
  | ok rl =>
    simp only [hr] at h
    cases h
    obtain ⟨_, _, sup', hsup', hrl⟩ := refClasses_ok hr
    rw [hsup] at hsup'; cases hsup'
    subst hrl
    constructor
    · intro hn
      obtain ⟨c, hc, rfl⟩ := List.mem_map.mp hn
      obtain ⟨hcS, hcond⟩ := List.mem_filter.mp hc
      simp only [Bool.and_eq_true, List.any_eq_true] at hcond
      obtain ⟨hassoc, p, hp, hpr, hm⟩ := hcond
      exact ⟨c, hcS, rfl, hassoc, p, hp, hpr, refPropMatches_iff.mp hm⟩
    · rintro ⟨c, hc, rfl, hassoc, p, hp, hpr, hm⟩
      refine List.mem_map.mpr ⟨c, List.mem_filter.mpr ⟨hc, ?_⟩, rfl⟩
      simp only [Bool.and_eq_true, List.any_eq_true]
      exact ⟨hassoc, p, hp, hpr, refPropMatches_iff.mpr hm⟩

/-- **class-level AssociatorNames, characterised**: a class name `n` is returned iff some class that
    class-level ReferenceNames(ResultClass := AssocClass, Role) returns declares a reference property of
    class `n` that is admitted by ResultRole, whose class is admitted by ResultClass, and that is not the
    single use of the source class itself (the source end). -/
theorem C13_class_associator_characterisation {S : NsStore} {cn : Name} {f : AFilter} {l : List Name}
    (h : assocClassNames S cn f = .ok l) (n : Name) :
    n ∈ l ↔ ∃ rl, refClasses S cn f.assocClass f.role = .ok rl ∧ ∃ c ∈ rl, ∃ q ∈ c.props, q.refCls = n ∧
      q.isRef = true ∧
      (subclassesLc S.classes f.assocClass = [] ∨ lower c.name ∈ subclassesLc S.classes f.assocClass) ∧
      (subclassesLc S.classes f.resultClass = [] ∨ lower q.refCls ∈ subclassesLc S.classes f.resultClass) ∧
      (∀ r, lcOpt f.resultRole = some r → lower q.name = r) ∧
      ¬ (lower q.refCls = lower cn ∧ singleUse c (lower q.refCls) = true) := by
  obtain ⟨_, _, rl, hrl, hl⟩ := assocClassNames_ok h
  subst hl
  simp only [List.mem_flatMap, mem_assocClassEnds]
  constructor
  · rintro ⟨c, hc, q, hq, hqn, hqr, hm, hskip⟩
    obtain ⟨h1, h2, h3⟩ := assocPropMatches_iff.mp hm
    exact ⟨rl, hrl, c, hc, q, hq, hqn, hqr, h1, h2, h3, hskip⟩
  · rintro ⟨rl', hrl', c, hc, q, hq, hqn, hqr, h1, h2, h3, hskip⟩
    rw [hrl] at hrl'; cases hrl'
    exact ⟨c, hc, q, hq, hqn, hqr, assocPropMatches_iff.mpr ⟨h1, h2, h3⟩, hskip⟩

/-- **Names = full, converse, with the dangling-end hypothesis as a checkable repository predicate**: in a
    repository where every stored end can be fetched, Associators succeeds whenever AssociatorNames does. -/
theorem C13_names_full_converse_of_ends_exist {sv : Server} {ns : Name} {x : Path} {f : AFilter} {l : List Path}
    (hends : EndsExist sv) (h : associatorNamesI sv ns x f = .ok l) :
    ∃ is, associatorsI sv ns x f = .ok is := by
  apply C13_names_are_paths_of_full_associators_converse_partial h
  intro S hS l0 hl0 y hy
  obtain ⟨a, ha, _, q, hq, hoe⟩ := (mem_assocInstNames hl0 y).mp hy
  obtain ⟨hqr, hqv, _⟩ := otherEnd_iff.mp hoe
  have hmem : y ∈ ends a := by
    simp only [ends, List.mem_filterMap]
    exact ⟨q, hq, by simp [hqr, hqv]⟩
  exact fetchEnd_of_endOk (hends S (findNs_mem hS).1 a ha y hmem)

/-! ## 12b. fetchable ends along the write path -/

/-- **CreateInstance keeps every stored end fetchable**: if every stored reference end can be fetched
    before, it can after a successful CreateInstance of an association instance (whose own ends were
    checked by the request), for all copies in all namespaces. -/
theorem C13_create_keeps_ends_fetchable {sv sv' : Server} {ns : Name} {a : Inst}
    (hends : EndsExist sv) (h : createAssoc sv ns a = .ok sv') : EndsExist sv' := by
  have hnew := createAssoc_ends_ok h
  obtain ⟨_, _, hrepo⟩ := createAssoc_ok h
  have hsv' : sv' = { sv with repo := mapInsts sv.repo (createF (otherNamespaces a ns ++ [ns]) a) } := by
    unfold createAssoc at h
    cases hS : findNs sv.repo ns with
    | none => simp [hS] at h
    | some S =>
      simp only [hS] at h
      split at h
      · cases h
      · split at h
        · cases h
        · split at h
          · cases h
          · split at h
            · cases h
            · split at h
              · cases h
              · cases h
                rw [foldl_addInst_eq a _ _ (nodup_other_target a ns)]
  have htrans : ∀ v, endOk sv v = true → endOk sv' v = true := by
    intro v hv
    rw [hsv']
    exact endOk_mapInsts (fun T _ i hi he => ⟨i, createF_old hi, he⟩) hv
  intro S' hS' b hb v hv
  rw [hsv'] at hS'
  obtain ⟨S, hS, rfl⟩ := mem_mapInsts.mp hS'
  rcases createF_mem hb with hb | ⟨_, n, rfl, _⟩
  · exact htrans v (hends S hS b hb v hv)
  · exact htrans v (hnew v hv)

/-- **DeleteInstance of an association instance keeps every stored end fetchable** provided the deleted
    instance (and its copies) is not itself the end of a stored association (`_partial`: the excluded input
    class is the open finding C13-KF1 — DeleteInstance performs no referential check, so deleting a
    referenced instance leaves a dangling end). -/
theorem C13_delete_keeps_ends_fetchable_partial {sv sv' : Server} {ns : Name} {p : Path}
    (hends : EndsExist sv)
    (hnot : ∀ S ∈ sv.repo, ∀ a ∈ S.insts, ∀ v ∈ ends a, ∀ T ∈ sv.repo, ∀ i ∈ T.insts,
      i.path.eqv v = true → pkEq i.path p = false)
    (h : deleteAssoc sv ns p = .ok sv') : EndsExist sv' := by
  have hex : ∃ orig : Inst, pkEq orig.path p = true ∧
      sv'.repo = delInsts sv.repo (otherNamespaces orig ns ++ [ns]) orig.path := by
    unfold deleteAssoc at h
    cases hS0 : findNs sv.repo ns with
    | none => simp [hS0] at h
    | some S0 =>
      simp only [hS0] at h
      split at h
      · cases h
      · cases hf : findInst S0.insts (srcPath ns p) with
        | none => simp [hf] at h
        | some o =>
          simp only [hf] at h
          split at h
          · cases h
          · cases h
            have ho := findInst_mem hf
            have : pkEq o.path (srcPath ns p) = true := pkEq_of_eqv ho.2
            exact ⟨o, by simpa [pkEq, srcPath] using this, rfl⟩
  obtain ⟨orig, hop, hrepo⟩ := hex
  rw [delInsts_eq] at hrepo
  intro S' hS' b hb v hv
  rw [hrepo] at hS'
  obtain ⟨S, hS, rfl⟩ := mem_mapInsts.mp hS'
  have hbS : b ∈ S.insts := by
    by_cases hc : inNss (otherNamespaces orig ns ++ [ns]) S.name = true
    · simp only [hc, if_true] at hb; exact (List.mem_filter.mp hb).1
    · simp only [hc] at hb; exact hb
  have hold := hends S hS b hbS v hv
  rw [endOk_congr_repo (sv2 := { sv with repo := mapInsts sv.repo _ }) hrepo]
  apply endOk_mapInsts _ hold
  intro T hT i hi he
  refine ⟨i, ?_, he⟩
  have hnp : pkEq i.path orig.path = false := by
    have h1 := hnot S hS b hbS v hv T hT i hi he
    rw [pkEq_congr_right hop]; exact h1
  by_cases hc : inNss (otherNamespaces orig ns ++ [ns]) T.name = true
  · simp only [hc, if_true]; exact List.mem_filter.mpr ⟨hi, by simp [hnp]⟩
  · simp only [hc]; exact hi

/-! ## 13. the Open… / Iter… variants deliver the result of the traditional traversal

Composition with C14's pull model (`Pywbem.Model.Pull`, `Proofs/Lemmas/Pull.lean`; imported, not edited):
`openAssociatorPaths` etc. (`Model/AssocPull.lean`) compute the traditional result list and open an
enumeration session on it; objects travel as positions in that list (`sessionObjs`, `decodeObjs`). -/

open Pywbem.Model

/-- an Open… variant fails exactly when the traditional operation fails, with the same error, and
    otherwise starts its session on the traditional result -/
theorem C13_open_variant_starts_on_traditional {sv : Server} {ns : Name} {x : Path} {f : AFilter}
    {p : Pull.OpenParams} {nsId : Nat} {max : Option Int} :
    (∀ e, openAssociatorPaths sv ns x f p nsId max = .error e ↔ associatorNamesSetI sv ns x f = .error e) ∧
    (∀ op, openAssociatorPaths sv ns x f p nsId max = .ok op ↔
      ∃ l, associatorNamesSetI sv ns x f = .ok l ∧ op = .open p .paths nsId (sessionObjs l) max) := by
  unfold openAssociatorPaths openOn
  cases associatorNamesSetI sv ns x f with
  | error e => simp
  | ok l => simp [eq_comm]

/-- the answer to the Open request itself: either the whole traditional result at once (end of
    sequence, no context), or a first batch that is a prefix of it together with a fresh context whose
    recorded result set is the traditional result (or a refusal of the session parameters) -/
theorem C13_open_response_on_traditional {α : Type} (l : List α) (s : Pull.State) (h : Proofs.Pull.Hist)
    (p : Pull.OpenParams) (kind : Pull.Kind) (nsId : Nat) (max : Option Int) :
    let op : Pull.Op := .open p kind nsId (sessionObjs l) max
    (∃ e, (Pull.step s op).2 = .err e) ∨
    (∃ b, (Pull.step s op).2 = .batch b true none ∧ decodeObjs l b = l.map some) ∨
    (∃ b i, (Pull.step s op).2 = .batch b false (some i) ∧
      (Proofs.Pull.histStep h op (Pull.step s op).2).orig i = sessionObjs l ∧
      ∃ k, decodeObjs l b = (l.take k).map some) := by
  intro op
  rcases Proofs.Pull.stepOpen_cases s p kind nsId (sessionObjs l) max with ⟨e, he⟩ | ⟨_, hall⟩ | ⟨_, hpart⟩
  · left; exact ⟨e, by simp [op, Pull.step, he]⟩
  · right; left
    exact ⟨sessionObjs l, by simp [op, Pull.step, hall], decode_sessionObjs l⟩
  · right; right
    refine ⟨(sessionObjs l).take (Pull.effMax max), s.nextId, by simp [op, Pull.step, hpart], ?_, Pull.effMax max, ?_⟩
    · simp [op, Pull.step, hpart, Proofs.Pull.histStep]
    · unfold decodeObjs sessionObjs
      rw [List.take_range]
      apply List.ext_getElem
      · simp [List.length_take]
      · intro i h1 h2
        simp at h1
        simp [List.getElem_take]

/-- **every session delivers the traditional traversal result** (C14's exactly-once invariant applied to
    the result list): in ANY history of Open / Pull / Close requests of any sessions, a session whose
    recorded result set is the traditional result `l` has, once it reported end of sequence, delivered
    exactly `l` — every object once, in order; a session still open or closed early has delivered a
    prefix of `l`.  This is what IterAssociatorInstancePaths etc. hand to the caller when the server
    supports pull operations. -/
theorem C13_open_variants_deliver_traditional {α : Type} (l : List α) (nss : List Nat) (ops : List Pull.Op) :
    let r := Proofs.Pull.runH { nss := nss } Proofs.Pull.Hist.empty ops
    ∀ i, r.2.orig i = sessionObjs l →
      (r.2.st i = .eos → decodeObjs l (r.2.del i) = l.map some) ∧
      (r.2.st i = .closed → ∃ k, decodeObjs l (r.2.del i) = (l.take k).map some) := by
  intro r i horig
  have hrel := (Proofs.Pull.rel_run ops (Proofs.Pull.inv_init nss) (Proofs.Pull.rel_init nss)).2
  constructor
  · intro hst
    have : r.2.del i = r.2.orig i := hrel.eos i hst
    rw [this, horig]; exact decode_sessionObjs l
  · intro hst
    have hpre : r.2.del i <+: r.2.orig i := hrel.closed i hst
    rw [horig] at hpre
    obtain ⟨t, ht⟩ := hpre
    refine ⟨(r.2.del i).length, ?_⟩
    have hd : r.2.del i = (sessionObjs l).take (r.2.del i).length := by
      rw [← ht]; simp
    rw [hd]
    unfold decodeObjs sessionObjs
    rw [List.take_range]
    apply List.ext_getElem
    · simp [List.length_take]
    · intro j h1 h2
      simp at h1
      simp [List.getElem_take]

/-! ## 10. non-vacuity and negation witnesses (closed instances, checked by evaluation) -/

section Witness

def nN : Name := ['N']
def nL : Name := ['L']
def nsA : Name := ['a']
def nsB : Name := ['b']
def hostH : Name := ['h']
def clsN : Cls := { name := nN, super := none, isAssoc := false, props := [] }
def clsM : Cls := { name := ['M'], super := some ['n'], isAssoc := false, props := [] }
def clsL : Cls := { name := nL, super := none, isAssoc := true,
                    props := [⟨['p'], true, nN⟩, ⟨['q'], true, nN⟩, ⟨['r'], true, ['M']⟩] }
def clsL2 : Cls := { name := ['L', '2'], super := some ['l'], isAssoc := true, props := clsL.props }
def pa (k : Nat) : Path := { cls := nN, ns := some nsA, host := none, key := k }
def pb (k : Nat) : Path := { cls := nN, ns := some nsB, host := none, key := k }
def node (p : Path) : Inst := { cls := p.cls, path := p, props := [] }
/-- a ternary association instance of class `c`; `z = none` is a NULL end -/
def link (c : Name) (ns : Name) (k : Nat) (x y : Path) (z : Option Path) : Inst :=
  { cls := c, path := { cls := c, ns := some ns, host := none, key := k },
    props := [⟨['p'], true, some x⟩, ⟨['Q'], true, some y⟩, ⟨['r'], true, z⟩] }
def classes : List Cls := [clsN, clsM, clsL, clsL2]

/-- a well-formed repository: 1 –L→ 2 (NULL third end), 1 –L2→ 3 with third end 4, self-association 5–5 -/
def svGood : Server := { host := hostH, repo := [
  { name := nsA, classes := classes,
    insts := [node (pa 1), node (pa 2), node (pa 3), node (pa 4), node (pa 5),
              link nL nsA 10 (pa 1) (pa 2) none, link ['L', '2'] nsA 11 (pa 1) (pa 3) (some (pa 4)),
              link nL nsA 12 (pa 5) (pa 5) none] }] }

/-- non-vacuity of the characterisation / NULL ends / self-association / subclass filter / recasing:
    AssociatorNames(1) = {2, 3, 4}; with AssocClass 'l2' (recased subclass) = {3, 4}; with ResultRole 'q'
    = {2, 3}; AssociatorNames(5) = {} -/
example : associatorNamesI svGood nsA (pa 1) {} =
    .ok [fillHost hostH (pa 2), fillHost hostH (pa 3), fillHost hostH (pa 4)] := by decide
example : associatorNamesI svGood ['A'] (pa 1) { assocClass := some ['l', '2'] } =
    .ok [fillHost hostH (pa 3), fillHost hostH (pa 4)] := by decide
example : associatorNamesI svGood nsA (pa 1) { assocClass := some ['L'], resultRole := some ['q'] } =
    .ok [fillHost hostH (pa 2), fillHost hostH (pa 3)] := by decide
example : associatorNamesI svGood nsA (pa 5) {} = .ok [] := by decide
example : (associatorsI svGood nsA (pa 1) {}).toOption.map (·.map (·.path)) = some [pa 2, pa 3, pa 4] := by decide
example : StoreOk (svGood.repo.head!).insts := by
  constructor
  · decide
  · decide
/-- symmetry instance: 1 ∈ AssociatorNames(3; Role q, ResultRole p) -/
example : associatorNamesI svGood nsA (pa 3) { role := some ['q'], resultRole := some ['P'] } =
    .ok [fillHost hostH (pa 1)] := by decide

/-- a dangling end: the association 1–2 is stored, instance 2 is not (deleted) -/
def svDangling : Server := { host := hostH, repo := [
  { name := nsA, classes := classes, insts := [node (pa 1), link nL nsA 10 (pa 1) (pa 2) none] }] }

/-- **negation witness** for the converse of names_are_paths_of_full (finding C13-KF1):
    AssociatorNames returns the dangling path, Associators fails with CIM_ERR_NOT_FOUND. -/
theorem C13_names_are_paths_of_full_associators_fails_at_dangling :
    ¬ (∀ (sv : Server) (ns : Name) (x : Path) (f : AFilter) (l : List Path),
        associatorNamesI sv ns x f = .ok l → ∃ is, associatorsI sv ns x f = .ok is) := by
  intro h
  obtain ⟨is, his⟩ := h svDangling nsA (pa 1) {} [fillHost hostH (pa 2)] (by decide)
  have : associatorsI svDangling nsA (pa 1) {} = .error errNotFound := by decide
  rw [this] at his
  cases his

/-- **negation witness** for the exact form of names_are_paths_of_full (finding C13-KF4): on a
    well-formed repository without any dangling end Associators succeeds, but its paths are not the
    paths AssociatorNames returns (host missing). -/
theorem C13_names_are_paths_of_full_associators_exact_fails_at_host :
    ¬ (∀ (sv : Server) (ns : Name) (x : Path) (f : AFilter) (is : List Inst),
        associatorsI sv ns x f = .ok is → associatorNamesI sv ns x f = .ok (is.map (·.path))) := by
  intro h
  have h1 := h svGood nsA (pa 1) {} [node (pa 2), node (pa 3), node (pa 4)] (by decide)
  revert h1
  decide

/-- ends stored without namespace / in an unknown namespace (only loadable with add_cimobjects) -/
def svNoNs : Server := { host := hostH, repo := [
  { name := nsA, classes := classes,
    insts := [node (pa 1), node (pa 2), link nL nsA 10 (pa 1) { pa 2 with ns := none } none] }] }
def svBadNs : Server := { host := hostH, repo := [
  { name := nsA, classes := classes,
    insts := [node (pa 1), link nL nsA 10 (pa 1) { pa 2 with ns := some ['z'] } none] }] }

/-- **negation witness** for "only documented errors escape Associators" (findings C13-KF1, C13-KF2):
    ValueError for an end without namespace, KeyError for an end in an unknown namespace. -/
theorem C13_associators_errors_documented_fails_at :
    ¬ (∀ (sv : Server) (ns : Name) (x : Path) (f : AFilter) (e : PyExc),
        associatorsI sv ns x f = .error e → ∃ c, e = .cimError c) := by
  intro h
  obtain ⟨c, hc⟩ := h svBadNs nsA (pa 1) {} .keyError (by decide)
  cases hc

example : associatorsI svNoNs nsA (pa 1) {} = .error .valueError := by decide
/-- the namespace-less end never matches its target (finding C13-KF2) -/
example : associatorNamesI svNoNs nsA (pa 2) {} = .ok [] := by decide

/-- a cross-namespace association stored in one namespace only (add_cimobjects) -/
def svOneSided : Server := { host := hostH, repo := [
  { name := nsA, classes := classes, insts := [node (pa 1), link nL nsA 10 (pa 1) (pb 2) none] },
  { name := nsB, classes := classes, insts := [node (pb 2)] }] }

/-- **negation witness**: without the shadow-instance hypothesis symmetry fails across namespaces. -/
theorem C13_assoc_symmetric_fails_without_shadow :
    ¬ (∀ (S T : NsStore) (x y : Path) (f : AFilter) (l : List Path),
        classExists T.classes y.cls = true → filterClassOk T.classes f.assocClass = true →
        assocInstNames S x f = .ok l → (∃ y' ∈ l, y'.eqv y = true) →
        ∃ l', assocInstNames T y (swapRoles f) = .ok l' ∧ ∃ x' ∈ l', x'.eqv x = true) := by
  intro h
  obtain ⟨l', hl', x', hx', _⟩ := h (svOneSided.repo[0]!) (svOneSided.repo[1]!) (pa 1) (pb 2) {} [pb 2]
    (by decide) (by decide) (by decide) ⟨pb 2, by decide, by decide⟩
  have : assocInstNames (svOneSided.repo[1]!) (pb 2) (swapRoles {}) = .ok [] := by decide
  rw [this] at hl'
  cases hl'
  cases hx'

/-- CreateInstance of the same cross-namespace association writes both copies, and symmetry holds -/
example : (createAssoc { svOneSided with repo := [{ name := nsA, classes := classes, insts := [node (pa 1)] },
              { name := nsB, classes := classes, insts := [node (pb 2)] }] } nsA
            (link nL nsA 10 (pa 1) (pb 2) none)).toOption.map
          (fun sv => (associatorNamesI sv nsA (pa 1) {}, associatorNamesI sv nsB (pb 2) {})) =
    some (.ok [fillHost hostH (pb 2)], .ok [fillHost hostH (pa 1)]) := by decide

/-- class level: Associators('N') = the reference classes of L and L2 that are not the single-use
    source end; recasing the source gives the same (fix C13-F2) -/
example : associatorNamesC svGood nsA nN {} = associatorNamesC svGood nsA ['n'] {} := by decide
example : associatorNamesC svGood nsA ['m'] {} = .ok [nN, nN, nN, nN] := by decide
example : RefClassesExist classes := by unfold RefClassesExist; decide
example : (associatorsC svGood nsA nN {}).toOption.map (·.map Prod.fst) = (associatorNamesC svGood nsA nN {}).toOption := by
  decide

/-- three namespaces with the same schema; nodes 1,2 in `a`, 3 in `b`, 4 in `c` -/
def nsC : Name := ['c']
def pc (k : Nat) : Path := { cls := nN, ns := some nsC, host := none, key := k }
def svW : Server := { host := hostH, repo := [
  { name := nsA, classes := classes, insts := [node (pa 1), node (pa 2)] },
  { name := nsB, classes := classes, insts := [node (pb 3)] },
  { name := nsC, classes := classes, insts := [node (pc 4)] }] }

/-- non-vacuity of the discipline and of the request conditions: a create across two namespaces, a
    modify that re-points the far end into the request namespace (the copy in `b` disappears, fix
    e0cdfd9), a delete -/
def histW : List WOp :=
  [.create nsA (link nL nsA 20 (pa 1) (pb 3) none),
   .modify nsA { cls := nL, ns := none, host := none, key := 20 } [⟨['Q'], true, some (pa 2)⟩],
   .create ['B'] (link nL nsB 21 (pb 3) (pa 2) none),
   .delete nsA { cls := nL, ns := none, host := none, key := 21 }]

example : WInv svW.repo := disciplineB_iff.mp (by decide)
example : WInv svGood.repo := disciplineB_iff.mp (by decide)
example : CreateOk svW.repo nsA (link nL nsA 20 (pa 1) (pb 3) none) := by constructor <;> decide
example : ((runW svW (histW.take 1)).repo.map (fun S => S.insts.length)) = [3, 2, 1] := by decide
example : ((runW svW (histW.take 2)).repo.map (fun S => S.insts.length)) = [3, 1, 1] := by decide
example : ((runW svW (histW.take 3)).repo.map (fun S => S.insts.length)) = [4, 2, 1] := by decide
example : ((runW svW histW).repo.map (fun S => S.insts.length)) = [3, 1, 1] := by decide
example : associatorNamesI (runW svW (histW.take 3)) nsA (pa 2) {} =
    .ok [fillHost hostH (pa 1), fillHost hostH (pb 3)] := by decide
example : associatorNamesI (runW svW (histW.take 3)) nsB (pb 3) {} = .ok [fillHost hostH (pa 2)] := by decide

/-- **negation witness** for the request condition of Create (`CreateOk`): CreateInstance through a
    namespace that none of the ends names leaves a copy there which no later request through another copy
    keeps in step (DeleteInstance through the copy in `a` leaves it behind: observed on the real code);
    the discipline (`loc`) does not hold after it. -/
theorem C13_write_discipline_fails_without_home :
    ¬ (∀ (sv sv' : Server) (ns : Name) (a : Inst), WInv sv.repo → createAssoc sv ns a = .ok sv' → WInv sv'.repo) := by
  intro h
  cases hc : createAssoc svW nsC (link nL nsC 30 (pa 1) (pb 3) none) with
  | error e =>
    have : (createAssoc svW nsC (link nL nsC 30 (pa 1) (pb 3) none)).toOption.isSome = true := by decide
    simp [hc, Except.toOption] at this
  | ok sv' =>
    have hw := h svW sv' nsC _ (disciplineB_iff.mp (by decide)) hc
    have hrepo : (createAssoc svW nsC (link nL nsC 30 (pa 1) (pb 3) none)).toOption.map (·.repo) =
        some (addInsts svW.repo [nsA, nsB, nsC] (link nL nsC 30 (pa 1) (pb 3) none)) := by decide
    simp only [hc, Except.toOption, Option.map_some, Option.some.injEq] at hrepo
    have hloc := hw.loc
    rw [hrepo] at hloc
    revert hloc
    decide

/-- non-vacuity of the rank hypothesis and of the set semantics -/
example : Ranked classes (fun n => if n = ['n'] then 0 else if n = ['m'] then 1 else if n = ['l'] then 2 else 3) := by
  constructor <;> decide
example : dedupPaths [pa 1, { pa 1 with cls := ['n'] }, pa 2, pa 1] = [pa 1, pa 2] := by decide

example : EndsExist svGood := by unfold EndsExist; decide

/-- non-vacuity: an Open session on the traversal result of node 1 (three associators), first batch of
    two, one pull: end of sequence, all three delivered in order -/
example :
    (openAssociatorPaths svGood nsA (pa 1) {} {} 0 (some 2)).toOption.map (fun op =>
      let r := Proofs.Pull.runH { nss := [0] } Proofs.Pull.Hist.empty [op, .pull .paths (some 0) (some 5)]
      (r.2.st 0, decodeObjs [fillHost hostH (pa 2), fillHost hostH (pa 3), fillHost hostH (pa 4)] (r.2.del 0))) =
    some (.eos, [some (fillHost hostH (pa 2)), some (fillHost hostH (pa 3)), some (fillHost hostH (pa 4))]) := by
  decide

end Witness

end C13
