/-
C02 — bad server responses surface only as documented pywbem errors.
Property theorems only (helper lemmas: Proofs/Lemmas/RespSafe.lean, RespSafe2.lean, EnvSafe.lean,
EnvSafe2.lean).  Models: Pywbem/Model/RespDec.lean (object decoder with constructor checks),
Pywbem/Model/Envelope.lean (HTTP layer, envelope, per-operation result handling) — the code AFTER the
C02 `fix:` commits.

Third-party behaviour is a hypothesis, never an axiom: `CodecOk C` says that CPython's `int(float)`
raises OverflowError or ValueError and nothing else; the other conversions (float(), CIMDateTime(),
from_wbem_uri(), the SAX parser) are total functions into Option in the codec record, so any behaviour
of theirs is covered.
-/
import Proofs.Lemmas.FuelStable
import Pywbem.Model.Transport
import Pywbem.Model.Wire

namespace C02
open Pywbem.Model Pywbem.Model.Resp Pywbem.Model.Envelope Pywbem.Model.Transport Pywbem.Proto Pywbem.Model.XmlText Proofs.C02

/-- the exception classes the WBEMConnection docstring allows an operation to raise for a response
    (ConnectionError / TimeoutError arise in the transport, before there is a response) -/
def Documented (e : PyExc) : Prop :=
  (∃ c, e = .cimError c) ∨ e = .cimXmlParseError ∨ e = .xmlParseError ∨ e = .headerParseError ∨
  e = .versionError ∨ e = .httpError ∨ e = .authError

/-- **HTTP layer**: whatever status and headers, the outcome is success or HTTPError / AuthError /
    HeaderParseError -/
theorem C02_http_no_leak (h : HttpResp) :
    httpLayer h = .ok () ∨ httpLayer h = .error .httpError ∨ httpLayer h = .error .authError ∨
    httpLayer h = .error .headerParseError := by
  unfold httpLayer
  by_cases h1 : h.status ≠ 200
  · by_cases h2 : h.status = 401 <;> simp [h1, h2]
  · cases hc : headerGet h.headers "Content-type" with
    | none => simp [h1, pure, Except.pure]
    | some ct =>
      by_cases h3 : (!startsWith ct "application/xml" && !startsWith ct "text/xml") = true <;>
        simp [h1, h3, pure, Except.pure]

/-- **decode_no_leak, paths and qualifier declarations (full strength)**: for EVERY tree, the path
    decoders (INSTANCENAME, CLASSNAME, the four *PATH elements, VALUE.REFERENCE with any nesting of
    references inside keybindings) and the QUALIFIER.DECLARATION decoder either succeed or raise
    CIMXMLParseError — in particular `int()` of ARRAYSIZE, numeric conversions incl. INF/NaN/huge
    literals, and the CIMInstanceName / CIMQualifierDeclaration constructors cannot leak -/
theorem C02_decode_paths_no_leak (C : DecCodec) (hC : CodecOk C) (t : Xml) (e : PyExc) :
    (Resp.decPathAny C t = .error e → e = .cimXmlParseError) ∧
    (Resp.decValueReference C t = .error e → e = .cimXmlParseError) ∧
    (Resp.decQualDecl C t = .error e → e = .cimXmlParseError) :=
  ⟨(decPathAny_safe (P := PE) C hC t).out e,
   (decValueReference_safe (P := PE) C hC t).out e,
   (decQualDecl_safe (P := PE) C hC t).out e⟩

/-- **decode_no_leak, instances and classes (partial)**: for EVERY tree and every embedded-nesting
    budget, INSTANCE and CLASS decoding (properties of all three kinds, qualifiers, methods,
    parameters, embedded objects to any depth, all constructor calls — also the three that are not
    inside a try block) raises only CIMXMLParseError, XMLParseError (ill-formed embedded object text)
    or RecursionError.
    Partial: RecursionError is not a documented class; in the model it arises exactly when the
    nesting budget `fuel` is exhausted (in the real code: the interpreter's recursion limit; known
    finding C02-KF1).  Full statement wanted: the same without the RecursionError disjunct. -/
theorem C02_decode_no_leak_partial (C : DecCodec) (hC : CodecOk C) (fuel : Nat) (t : Xml) (e : PyExc) :
    (Resp.decInstance C (Resp.embAt C fuel) t = .error e →
      e = .cimXmlParseError ∨ e = .xmlParseError ∨ e = .recursionError) ∧
    (Resp.decClass C (Resp.embAt C fuel) t = .error e →
      e = .cimXmlParseError ∨ e = .xmlParseError ∨ e = .recursionError) :=
  ⟨(decInstance_safe C hC _ (embAt_safe C hC fuel) t).out e, (decClass_safe C hC _ (embAt_safe C hC fuel) t).out e⟩

/-- a toy codec (non-vacuity of `CodecOk`, and the witness below): every conversion fails, the
    embedded-object parser returns an empty INSTANCE element -/
def toyCodec : DecCodec :=
  { fmtReal := fun _ _ => [], strFloat := fun _ => [], parseFloat := fun _ => none, parseDt := fun _ => none,
    par := fun _ => some (.elem "INSTANCE".toList [("CLASSNAME".toList, ['C'])] []),
    truncFloat := fun _ => .error .overflowError, floatOfInt := fun _ => none }

theorem toyCodec_ok : CodecOk toyCodec := by
  intro b e h; cases h; exact Or.inl rfl

/-- an INSTANCE with one embedded-object property -/
def embWitness : Xml :=
  .elem "INSTANCE".toList [("CLASSNAME".toList, ['C'])]
    [.elem "PROPERTY".toList [("NAME".toList, ['p']), ("TYPE".toList, "string".toList), ("EmbeddedObject".toList, "instance".toList)]
      [.elem "VALUE".toList [] [.text ['x']]]]

/-- the excluded class is necessary: with the nesting budget exhausted the decoder DOES raise
    RecursionError (real code: about 150 nested reference levels, reproduced by K) -/
theorem C02_decode_no_leak_fails_at_exhausted_nesting :
    Resp.decInstance toyCodec (Resp.embAt toyCodec 0) embWitness = .error .recursionError := by
  rfl

/-- non-vacuity: with budget 1 the same tree decodes -/
example : ∃ i, Resp.decInstance toyCodec (Resp.embAt toyCodec 1) embWitness = .ok i := ⟨_, rfl⟩

/-- **numeric conversion** (the OverflowError fix): for every text and every declared type name,
    `unpack_single_value` raises nothing but CIMXMLParseError — `<VALUE>INF</VALUE>` for uint8, a 400-digit
    integer for real32, `TYPE="uint8\n"`, … -/
theorem C02_unpack_single_value_no_leak (C : DecCodec) (hC : CodecOk C) (data : Str) (ty : Option Str) (e : PyExc)
    (h : Resp.unpackSingle C data ty = .error e) : e = .cimXmlParseError :=
  (unpackSingle_safe (P := PE) C hC data ty).out e h

/-- **ERROR CODE** (the CODE fix): once `parse_error` has accepted an ERROR element, the `int(CODE)` of
    `_imethodcall` / `_methodcall` / `_iexportcall` succeeds, for every tree -/
theorem C02_error_code_checked (C : EnvCodec) (fuel : Nat) (t : Xml) (code : Str) (d : Bool) (insts : List Inst)
    (h : decError C fuel t = .ok (.error code d insts)) : ∃ v, pyIntLim code = some v :=
  decError_ok C fuel t _ h

/-- **envelope_no_leak (partial)**: for EVERY operation signature and EVERY tree the SAX layer can
    deliver, what `tp.parse_cim(...)`, the envelope checks and the operation's result handling raise is
    CIMError, CIMXMLParseError, XMLParseError, a VersionError — or RecursionError (C02-KF1, see above). -/
theorem C02_envelope_no_leak_partial (C : EnvCodec) (hC : CodecOk C.toDecCodec) (fuel : Nat) (op : OpSpec) (t : Xml)
    (e : PyExc) (h : handleResponse C fuel op t = .error e) : Documented e ∨ e = .recursionError := by
  rcases (handleResponse_safe C hC fuel op t).out e h with ⟨c, h⟩ | h | h | h | h
  · exact Or.inl (Or.inl ⟨c, h⟩)
  · exact Or.inl (Or.inr (Or.inl h))
  · exact Or.inl (Or.inr (Or.inr (Or.inl h)))
  · exact Or.inl (Or.inr (Or.inr (Or.inr (Or.inr (Or.inl h)))))
  · exact Or.inr h

/-- **the nesting budget matters only through RecursionError**: with a larger budget the outcome is
    the same, unless the smaller budget ran out (monotonicity of the whole response path in the
    embedded-object parser, by induction on the budget) -/
theorem C02_budget_only_recursion (C : EnvCodec) (n m : Nat) (h : n ≤ m) (op : OpSpec) (t : Xml) :
    handleResponse C n op t = handleResponse C m op t ∨ handleResponse C n op t = .error .recursionError :=
  handleResponse_rel C n m h op t

/-- **envelope_no_leak, idealised interpreter (full strength)**: whenever some budget suffices (the
    outcome is not RecursionError), every larger budget gives the same outcome, and if that outcome is
    an exception it is a documented class.  So RecursionError is the only way C02 can fail on the
    response path, and it is purely an effect of the finite recursion limit. -/
theorem C02_envelope_no_leak_when_budget_suffices (C : EnvCodec) (hC : CodecOk C.toDecCodec) (n : Nat) (op : OpSpec)
    (t : Xml) (hn : handleResponse C n op t ≠ .error .recursionError) (m : Nat) (hm : n ≤ m) :
    handleResponse C m op t = handleResponse C n op t ∧
    ∀ e, handleResponse C m op t = .error e → Documented e := by
  have heq : handleResponse C n op t = handleResponse C m op t := by
    rcases C02_budget_only_recursion C n m hm op t with h | h
    · exact h
    · exact absurd h hn
  refine ⟨heq.symm, ?_⟩
  intro e he
  rcases C02_envelope_no_leak_partial C hC m op t e he with h | h
  · exact h
  · subst h; rw [← heq] at he; exact absurd he hn

/-- **C02, top level (partial)**: whatever status line, headers and body (as the tree the SAX layer
    delivers, or its rejection), every operation either returns or raises a documented error class
    (or RecursionError, C02-KF1), and every parse error (CIMXMLParseError, XMLParseError,
    HeaderParseError) carries request and response data.  Termination is the totality of `client`. -/
theorem C02_client_partial (C : EnvCodec) (hC : CodecOk C.toDecCodec) (fuel : Nat) (op : OpSpec) (h : HttpResp)
    (body : Option Xml) :
    (∀ e, (client C fuel op h body).res = .error e → Documented e ∨ e = .recursionError) ∧
    (∀ e, (client C fuel op h body).res = .error e → isParseError e = true →
      (client C fuel op h body).hasRequestData = true ∧ (client C fuel op h body).hasResponseData = true) := by
  unfold client
  rcases C02_http_no_leak h with hh | hh | hh | hh
  · simp only [hh]
    have hdoc : ∀ e, parseAndHandle C fuel op body = .error e → Doc e := by
      intro e he
      unfold parseAndHandle at he
      cases body with
      | none => cases he; exact Or.inr (Or.inr (Or.inl rfl))
      | some t => exact (handleResponse_safe C hC fuel op t).out e he
    have hdd : ∀ e, Doc e → Documented e ∨ e = .recursionError := by
      intro e hd
      rcases hd with ⟨c, h⟩ | h | h | h | h
      · exact Or.inl (Or.inl ⟨c, h⟩)
      · exact Or.inl (Or.inr (Or.inl h))
      · exact Or.inl (Or.inr (Or.inr (Or.inl h)))
      · exact Or.inl (Or.inr (Or.inr (Or.inr (Or.inr (Or.inl h)))))
      · exact Or.inr h
    cases hr : parseAndHandle C fuel op body with
    | ok r => simp [rspOutcome]
    | error e0 =>
      have hd := hdoc e0 hr
      unfold rspOutcome
      by_cases hp : e0 = .cimXmlParseError ∨ e0 = .xmlParseError
      · simp only [hp, if_true]
        exact ⟨fun e he => by cases he; exact hdd _ hd, fun e he _ => by simp⟩
      · simp only [hp, if_false]
        refine ⟨fun e he => by cases he; exact hdd _ hd, fun e he hpe => ?_⟩
        cases he
        exfalso
        simp only [isParseError, Bool.or_eq_true, decide_eq_true_eq] at hpe
        rcases hpe with (h1 | h1) | h1
        · exact hp (Or.inl h1)
        · exact hp (Or.inr h1)
        · subst h1
          rcases hd with ⟨c, h2⟩ | h2 | h2 | h2 | h2 <;> cases h2
  · simp only [hh]
    exact ⟨fun e he => by cases he; exact Or.inl (Or.inr (Or.inr (Or.inr (Or.inr (Or.inr (Or.inl rfl)))))),
           fun e he hpe => by cases he; simp [isParseError] at hpe⟩
  · simp only [hh]
    exact ⟨fun e he => by cases he; exact Or.inl (Or.inr (Or.inr (Or.inr (Or.inr (Or.inr (Or.inr rfl)))))),
           fun e he hpe => by cases he; simp [isParseError] at hpe⟩
  · simp only [hh]
    exact ⟨fun e he => by cases he; exact Or.inl (Or.inr (Or.inr (Or.inr (Or.inl rfl)))),
           fun e he hpe => by cases he; simp⟩

/-- the operation table is used consistently: InvokeMethod is the extrinsic call, ExportIndication the
    export call, and the InstanceName argument is an instance path -/
def OpWellFormed (op : OpSpec) : Prop :=
  (op.kind = .method → op.post = .invoke) ∧ (op.kind = .export → op.post = .void) ∧ isInstPath op.reqPath = true

/-- **op_result_shape**: for EVERY tree, whenever an operation returns, the returned value has the
    documented result type of that operation: the right Python class for every list element,
    instances with an instance path where the docstring promises one (EnumerateInstances,
    GetInstance, Associators/References, Open…/PullInstancesWithPath), class paths for class-level
    AssociatorNames/ReferenceNames, `eos` true exactly when the enumeration context is None, the query
    result class present exactly when requested. -/
theorem C02_op_result_shape (C : EnvCodec) (fuel : Nat) (op : OpSpec) (hwf : OpWellFormed op) (t : Xml) (r : Res)
    (h : handleResponse C fuel op t = .ok r) : HasDocumentedShape op.post r := by
  obtain ⟨hm, he, hreq⟩ := hwf
  unfold handleResponse at h
  obtain ⟨m, _, h⟩ := bind_eq_ok h
  split at h
  · obtain ⟨kids, _, h⟩ := bind_eq_ok h
    obtain ⟨k2, hk2, h⟩ := bind_eq_ok h
    exact postProcess_shape C op hreq _ r h
  · rename_i hk
    obtain ⟨kids, _, h⟩ := bind_eq_ok h
    rw [hm hk]
    exact methodResult_shape C kids r h
  · rename_i hk
    obtain ⟨kids, _, h⟩ := bind_eq_ok h
    rw [he hk]
    split at h
    · obtain ⟨_, _, h⟩ := bind_eq_ok h; cases h
    · cases h; rfl
    · cases h

/-- non-vacuity of the shape theorem: an empty EnumerateInstances response returns the empty list -/
example : handleResponse ⟨toyCodec, fun _ => none⟩ 0
    { kind := .imethod, meth := "EnumerateInstances".toList, post := .instList }
    (.elem "CIM".toList [("CIMVERSION".toList, "2.0".toList), ("DTDVERSION".toList, "2.0".toList)]
      [.elem "MESSAGE".toList [("ID".toList, ['1']), ("PROTOCOLVERSION".toList, "1.0".toList)]
        [.elem "SIMPLERSP".toList [] [.elem "IMETHODRESPONSE".toList [("NAME".toList, "EnumerateInstances".toList)] []]]])
    = .ok (.instances []) := rfl

/-- and a CIM error: `<ERROR CODE="6"/>` raises CIMError(6); `CODE="x"` raises CIMXMLParseError -/
example : handleResponse ⟨toyCodec, fun _ => none⟩ 0
    { kind := .imethod, meth := "GetInstance".toList, post := .oneInst }
    (.elem "CIM".toList [("CIMVERSION".toList, "2.0".toList), ("DTDVERSION".toList, "2.0".toList)]
      [.elem "MESSAGE".toList [("ID".toList, ['1']), ("PROTOCOLVERSION".toList, "1.0".toList)]
        [.elem "SIMPLERSP".toList [] [.elem "IMETHODRESPONSE".toList [("NAME".toList, "GetInstance".toList)]
          [.elem "ERROR".toList [("CODE".toList, ['6'])] []]]]])
    = .error (.cimError 6) := rfl

example : handleResponse ⟨toyCodec, fun _ => none⟩ 0
    { kind := .imethod, meth := "GetInstance".toList, post := .oneInst }
    (.elem "CIM".toList [("CIMVERSION".toList, "2.0".toList), ("DTDVERSION".toList, "2.0".toList)]
      [.elem "MESSAGE".toList [("ID".toList, ['1']), ("PROTOCOLVERSION".toList, "1.0".toList)]
        [.elem "SIMPLERSP".toList [] [.elem "IMETHODRESPONSE".toList [("NAME".toList, "GetInstance".toList)]
          [.elem "ERROR".toList [("CODE".toList, ['x'])] []]]]])
    = .error .cimXmlParseError := rfl

/-! ### no codec hypothesis

`int(float)` and the overflow of `float(int)` are computed by the model (`truncF64`, `floatOverflows`,
IEEE-754 binary64, compared with CPython on every float / integer of every K run); the remaining codec
functions (`float(str)`, `CIMDateTime(str)`, `from_wbem_uri`, the parser of embedded object text, the
bit pattern of a successful `float(int)`) are total functions into `Option`/`Bool`, so ANY behaviour of
theirs is covered.  The theorems below therefore hold for every codec, without hypothesis. -/

/-- every codec, made concrete in the two conversions that can raise more than one class -/
def conc (C : EnvCodec) : EnvCodec := { C with toDecCodec := Resp.concreteCodec C.toDecCodec }

/-- `CodecOk` is a theorem for the concrete conversions -/
theorem C02_codec_hypothesis_discharged (C : EnvCodec) : CodecOk (conc C).toDecCodec :=
  concreteCodec_ok C.toDecCodec

/-- **C02, top level, no hypothesis (partial: RecursionError, C02-KF1)**: for EVERY codec, operation
    signature, status line, header list and body (tree or SAX rejection): a documented error class or
    RecursionError, and parse errors carry request and response data.
    Full statement wanted: without the RecursionError disjunct (see the budget theorems). -/
theorem C02_client_no_hypothesis_partial (C : EnvCodec) (fuel : Nat) (op : OpSpec) (h : HttpResp) (body : Option Xml) :
    (∀ e, (client (conc C) fuel op h body).res = .error e → Documented e ∨ e = .recursionError) ∧
    (∀ e, (client (conc C) fuel op h body).res = .error e → isParseError e = true →
      (client (conc C) fuel op h body).hasRequestData = true ∧ (client (conc C) fuel op h body).hasResponseData = true) :=
  C02_client_partial (conc C) (C02_codec_hypothesis_discharged C) fuel op h body

/-- **envelope_no_leak, idealised interpreter, no hypothesis (full strength)**: for every codec, if some
    nesting budget suffices, every larger budget gives the same outcome and every exception is a
    documented class -/
theorem C02_envelope_no_leak_no_hypothesis (C : EnvCodec) (n : Nat) (op : OpSpec) (t : Xml)
    (hn : handleResponse (conc C) n op t ≠ .error .recursionError) (m : Nat) (hm : n ≤ m) :
    handleResponse (conc C) m op t = handleResponse (conc C) n op t ∧
    ∀ e, handleResponse (conc C) m op t = .error e → Documented e :=
  C02_envelope_no_leak_when_budget_suffices (conc C) (C02_codec_hypothesis_discharged C) n op t hn m hm

/-- non-vacuity: `<VALUE>INF</VALUE>` for a uint8 property is a CIMXMLParseError through the concrete
    `int(inf)` = OverflowError inside `except (ValueError, OverflowError)` -/
example : Resp.unpackSingle (Resp.concreteCodec { toyCodec with parseFloat := fun _ => some 0x7FF0000000000000 })
    "INF".toList (some "uint8".toList) = .error .cimXmlParseError := rfl

/-- and 3.7 truncates to 3 (the silent truncation of C06) -/
example : Resp.truncF64 0x400D99999999999A = .ok 3 := rfl

/-- **the RecursionError class, stated exactly for the model**: a response that can be handled with
    budget 0 — i.e. whose handling never has to parse an embedded object: no EmbeddedObject value is
    reached — gives the same outcome for EVERY budget, never RecursionError, and every exception is a
    documented class; for every codec, without hypothesis.  In the model RecursionError therefore arises only
    on responses that reach embedded-object text, and only through an exhausted nesting budget (the real
    interpreter additionally limits the element nesting: C02-KF1, about 150 levels, K only). -/
theorem C02_no_recursion_without_embedded_parsing (C : EnvCodec) (op : OpSpec) (t : Xml)
    (h0 : handleResponse (conc C) 0 op t ≠ .error .recursionError) (m : Nat) :
    handleResponse (conc C) m op t = handleResponse (conc C) 0 op t ∧
    handleResponse (conc C) m op t ≠ .error .recursionError ∧
    ∀ e, handleResponse (conc C) m op t = .error e → Documented e := by
  have h := C02_envelope_no_leak_no_hypothesis C 0 op t h0 m (Nat.zero_le m)
  refine ⟨h.1, ?_, h.2⟩
  rw [h.1]; exact h0

/-- non-vacuity: the CIM error response above needs no embedded parsing -/
example : handleResponse (conc ⟨toyCodec, fun _ => none⟩) 0
    { kind := .imethod, meth := "GetInstance".toList, post := .oneInst }
    (.elem "CIM".toList [("CIMVERSION".toList, "2.0".toList), ("DTDVERSION".toList, "2.0".toList)]
      [.elem "MESSAGE".toList [("ID".toList, ['1']), ("PROTOCOLVERSION".toList, "1.0".toList)]
        [.elem "SIMPLERSP".toList [] [.elem "IMETHODRESPONSE".toList [("NAME".toList, "GetInstance".toList)]
          [.elem "ERROR".toList [("CODE".toList, ['6'])] []]]]])
    ≠ .error .recursionError := by
  intro h
  have : handleResponse (conc ⟨toyCodec, fun _ => none⟩) 0
    { kind := .imethod, meth := "GetInstance".toList, post := .oneInst }
    (.elem "CIM".toList [("CIMVERSION".toList, "2.0".toList), ("DTDVERSION".toList, "2.0".toList)]
      [.elem "MESSAGE".toList [("ID".toList, ['1']), ("PROTOCOLVERSION".toList, "1.0".toList)]
        [.elem "SIMPLERSP".toList [] [.elem "IMETHODRESPONSE".toList [("NAME".toList, "GetInstance".toList)]
          [.elem "ERROR".toList [("CODE".toList, ['6'])] []]]]]) = .error (.cimError 6) := rfl
  rw [this] at h; cases h

/-- **HTTP layer, exact**: the response body is looked at iff the status is 200 and the Content-type
    header is absent or starts with application/xml or text/xml -/
theorem C02_http_accepts_iff (h : HttpResp) :
    httpLayer h = .ok () ↔
      (h.status = 200 ∧ ∀ ct, headerGet h.headers "Content-type" = some ct →
        (startsWith ct "application/xml" = true ∨ startsWith ct "text/xml" = true)) := by
  unfold httpLayer
  by_cases h1 : h.status ≠ 200
  · by_cases h2 : h.status = 401 <;> simp [h1, h2]
  · have h1' : h.status = 200 := by simpa using h1
    cases hc : headerGet h.headers "Content-type" with
    | none => simp [h1', pure, Except.pure]
    | some ct =>
      cases ha : startsWith ct "application/xml" <;> cases hb : startsWith ct "text/xml" <;>
        simp [h1', ha, hb, pure, Except.pure]

/-- **a CIM error surfaces with its status code**: if the parsed response is the expected
    IMETHODRESPONSE whose first child is an ERROR element, the operation raises CIMError with
    `int(CODE)` as status code — for every operation shape and whatever follows the ERROR element -/
theorem C02_cim_error_surfaces (C : EnvCodec) (fuel : Nat) (op : OpSpec) (hk : op.kind = .imethod) (t : Xml)
    (code : Str) (v : Int) (hv : pyIntLim code = some v) (d : Bool) (insts : List Inst) (rest : List RspKid)
    (h : decCim C fuel t = .ok (.simplersp ⟨"IMETHODRESPONSE".toList, op.meth, .error code d insts :: rest⟩)) :
    handleResponse C fuel op t = .error (.cimError v.toNat) := by
  have h1 : responseKids "IMETHODRESPONSE" "SIMPLERSP" op.meth
      (.simplersp ⟨"IMETHODRESPONSE".toList, op.meth, .error code d insts :: rest⟩) =
      .ok (.error code d insts :: rest) := by
    simp [responseKids, pure, Except.pure]
  have h2 : imethodResult op (.error code d insts :: rest) = .error (.cimError v.toNat) := by
    simp [imethodResult, raiseCimError, pyIntE, hv, bind, Except.bind]
  unfold handleResponse
  rw [h]
  simp only [hk, bind, Except.bind]
  rw [h1]
  simp only [h2]

/-- **HTTP status branches, exact**: AuthError exactly for status 401, HTTPError exactly for every other
    status but 200; the HTTPError carries the status and the CIMError header, and a PGErrorDetail entry
    only together with a CIMError header -/
theorem C02_http_status_branches (h : HttpResp) :
    (httpLayer h = .error .authError ↔ h.status = 401) ∧
    (httpLayer h = .error .httpError ↔ (h.status ≠ 200 ∧ h.status ≠ 401)) ∧
    (httpErrorInfo h).status = h.status ∧
    ((httpErrorInfo h).hasPGErrorDetail = true → (httpErrorInfo h).cimerror.isSome = true) := by
  refine ⟨?_, ?_, rfl, ?_⟩
  · unfold httpLayer
    by_cases h1 : h.status ≠ 200
    · by_cases h2 : h.status = 401 <;> simp [h1, h2]
    · have h1' : h.status = 200 := by simpa using h1
      cases hc : headerGet h.headers "Content-type" with
      | none => simp [h1', pure, Except.pure]
      | some ct =>
        by_cases h3 : (!startsWith ct "application/xml" && !startsWith ct "text/xml") = true <;>
          simp [h1', h3, pure, Except.pure]
  · unfold httpLayer
    by_cases h1 : h.status ≠ 200
    · by_cases h2 : h.status = 401 <;> simp [h1, h2]
    · have h1' : h.status = 200 := by simpa using h1
      cases hc : headerGet h.headers "Content-type" with
      | none => simp [h1', pure, Except.pure]
      | some ct =>
        by_cases h3 : (!startsWith ct "application/xml" && !startsWith ct "text/xml") = true <;>
          simp [h1', h3, pure, Except.pure]
  · unfold httpErrorInfo
    simp only [Bool.and_eq_true]
    intro h; exact h.1

/-- non-vacuity: a 500 with CIMError and PGErrorDetail headers -/
example : httpLayer ⟨500, [("CIMError".toList, ['x']), ("PGErrorDetail".toList, ['y'])]⟩ = .error .httpError ∧
    (httpErrorInfo ⟨500, [("cimerror".toList, ['x']), ("PGErrorDetail".toList, ['y'])]⟩).hasPGErrorDetail = true :=
  ⟨rfl, rfl⟩

/-- **WBEMServerResponseTime**: `last_server_response_time` is set only by a request that got through the
    HTTP layer, and only from a header value `float()` accepts — a non-numeric value is never handed on
    (it used to reach the statistics as a string in a seeded change: TypeError in stop_timer) -/
theorem C02_server_response_time_spec (C : EnvCodec) (h : HttpResp) (b : UInt64)
    (hs : serverResponseTime C h = some b) :
    httpLayer h = .ok () ∧ ∃ v, headerGet h.headers "WBEMServerResponseTime" = some v ∧ C.parseFloat (strip v) = some b := by
  unfold serverResponseTime at hs
  split at hs
  · cases hs
  · rename_i hok
    split at hs
    · cases hs
    · rename_i v hv
      exact ⟨hok, v, hv, hs⟩

/-- non-vacuity -/
example : serverResponseTime ⟨{ toyCodec with parseFloat := fun _ => some 7 }, fun _ => none⟩
    ⟨200, [("wbemserverresponsetime".toList, "12".toList)]⟩ = some 7 := rfl

/-! ### transport: exceptions of requests / urllib3 -/

/-- the full list of the WBEMConnection docstring: the response classes plus ConnectionError and
    TimeoutError -/
def DocumentedAll (e : PyExc) : Prop := Documented e ∨ e = .connectionError ∨ e = .timeoutError

/-- **exception mapping (full strength)**: whatever urllib3 exception (MaxRetryError or not, any class
    name, any message or none, any `float()` behaviour on the 'read timeout=' field) — the mapped
    exception is ConnectionError or TimeoutError -/
theorem C02_urllib3_mapping_no_leak (C : EnvCodec) (e : U3Exc) :
    mapU3 C e = .connectionError ∨ mapU3 C e = .timeoutError := by
  unfold mapU3
  dsimp only
  split
  · split
    · split
      · split
        · exact Or.inr rfl
        · split
          · exact Or.inl rfl
          · exact Or.inr rfl
      · exact Or.inr rfl
    · exact Or.inl rfl
  · exact Or.inl rfl

/-- **wbem_request (full strength)**: whatever `session.post()` did — a response with any status and
    headers, a requests exception of any of the tested classes with any `args`, a urllib3 exception —
    `wbem_request` returns the body or raises HTTPError, AuthError, HeaderParseError, ConnectionError or
    TimeoutError -/
theorem C02_wbem_request_no_leak (C : EnvCodec) (p : PostOutcome) :
    wbemRequest C p = .ok () ∨ wbemRequest C p = .error .httpError ∨ wbemRequest C p = .error .authError ∨
    wbemRequest C p = .error .headerParseError ∨ wbemRequest C p = .error .connectionError ∨
    wbemRequest C p = .error .timeoutError := by
  cases p with
  | response h =>
    rcases C02_http_no_leak h with h1 | h1 | h1 | h1 <;> simp [wbemRequest, h1]
  | requestsExc k a =>
    have hm : mapReq C k a = .connectionError ∨ mapReq C k a = .timeoutError := by
      cases a with
      | u3 e => exact C02_urllib3_mapping_no_leak C e
      | missing => cases k <;> simp [mapReq]
      | str s => cases k <;> simp [mapReq]
    rcases hm with h1 | h1 <;> simp [wbemRequest, h1]
  | urllib3Exc e =>
    rcases C02_urllib3_mapping_no_leak C e with h1 | h1 <;> simp [wbemRequest, h1]

/-- the classification the code documents: SSLError → ConnectionError, ReadTimeout / RetryError →
    TimeoutError, any other requests exception → ConnectionError (message a string or missing) -/
theorem C02_requests_mapping_spec (C : EnvCodec) (s : Str) :
    mapReq C .ssl (.str s) = .connectionError ∧ mapReq C .readTimeout (.str s) = .timeoutError ∧
    mapReq C .retry (.str s) = .timeoutError ∧ mapReq C .other (.str s) = .connectionError ∧
    mapReq C .other .missing = .connectionError := ⟨rfl, rfl, rfl, rfl, rfl⟩

/-- requests exceptions map to ConnectionError or TimeoutError, whatever class and arguments -/
theorem C02_requests_mapping_no_leak (C : EnvCodec) (k : ReqKind) (a : ReqArg) :
    mapReq C k a = .connectionError ∨ mapReq C k a = .timeoutError := by
  cases a with
  | u3 e => exact C02_urllib3_mapping_no_leak C e
  | missing => cases k <;> simp [mapReq]
  | str s => cases k <;> simp [mapReq]

/-- **C02 for a whole operation incl. transport failures (partial: RecursionError, C02-KF1)**: whatever
    `session.post()` did and whatever body came back, for every codec: a class of the documented list
    (now with ConnectionError / TimeoutError) or RecursionError; parse errors carry request and
    response data.  Full statement wanted: without the RecursionError disjunct. -/
theorem C02_operation_partial (C : EnvCodec) (fuel : Nat) (op : OpSpec) (p : PostOutcome) (body : Option Xml) :
    (∀ e, (operation (conc C) fuel op p body).res = .error e → DocumentedAll e ∨ e = .recursionError) ∧
    (∀ e, (operation (conc C) fuel op p body).res = .error e → isParseError e = true →
      (operation (conc C) fuel op p body).hasRequestData = true ∧ (operation (conc C) fuel op p body).hasResponseData = true) := by
  cases p with
  | response h =>
    have := C02_client_no_hypothesis_partial C fuel op h body
    refine ⟨fun e he => ?_, this.2⟩
    rcases this.1 e he with h1 | h1
    · exact Or.inl (Or.inl h1)
    · exact Or.inr h1
  | requestsExc k a =>
    unfold operation wbemRequest
    rcases C02_requests_mapping_no_leak (conc C) k a with h1 | h1 <;> simp only [h1]
    · exact ⟨fun e he => by cases he; exact Or.inl (Or.inr (Or.inl rfl)), fun e he hp => by cases he; simp [isParseError] at hp⟩
    · exact ⟨fun e he => by cases he; exact Or.inl (Or.inr (Or.inr rfl)), fun e he hp => by cases he; simp [isParseError] at hp⟩
  | urllib3Exc e =>
    unfold operation wbemRequest
    rcases C02_urllib3_mapping_no_leak (conc C) e with h1 | h1 <;> simp only [h1]
    · exact ⟨fun e he => by cases he; exact Or.inl (Or.inr (Or.inl rfl)), fun e he hp => by cases he; simp [isParseError] at hp⟩
    · exact ⟨fun e he => by cases he; exact Or.inl (Or.inr (Or.inr rfl)), fun e he hp => by cases he; simp [isParseError] at hp⟩

/-- non-vacuity: a MaxRetryError caused by a read timeout of the connect phase (9.99 s) maps to
    ConnectionError, any other read timeout to TimeoutError, another cause to ConnectionError -/
example : mapU3 ⟨{ toyCodec with parseFloat := fun s => if s = "9.99".toList then some 4621813488089437307 else some 0 }, fun _ => none⟩
    ⟨true, "MaxRetryError".toList, some "P (Caused by ReadTimeoutError(\"P(host=h, port=1): x (read timeout=9.99)\"))".toList⟩
    = .connectionError := by decide
example : mapU3 ⟨{ toyCodec with parseFloat := fun _ => some 0 }, fun _ => none⟩
    ⟨true, "MaxRetryError".toList, some "P (Caused by ReadTimeoutError('x (read timeout=30)'))".toList⟩
    = .timeoutError := by decide
example : mapU3 ⟨toyCodec, fun _ => none⟩
    ⟨true, "MaxRetryError".toList, some "P (Caused by NewConnectionError('<x>: refused'))".toList⟩
    = .connectionError := by decide

/-! ### InvokeMethod values -/

theorem intTy_ofName_name (ty : Str) (t : IntTy) (h : IntTy.ofName ty = some t) : ty = t.name := by
  unfold IntTy.ofName at h
  have h2 : t.name = ty := by simpa using List.find?_some h
  exact h2.symm

/-- **typed InvokeMethod values**: when a return value / output parameter is declared with an integer
    PARAMTYPE and its VALUE text converts, the Python value handed to the caller is of exactly that CIM
    integer type and lies in its range (for every text) -/
theorem C02_invoke_integer_typed (C : EnvCodec) (s ty : Str) (t : IntTy) (ht : IntTy.ofName ty = some t) (a : Atom)
    (h : cimvalue1 C ty (.str s) = .ok a) : ∃ i, a = .int t i ∧ t.lo ≤ i ∧ i ≤ t.hi := by
  have hn := intTy_ofName_name ty t ht
  have h1 : ty ≠ "boolean".toList := by subst hn; cases t <;> decide
  have h2 : ty ≠ "string".toList := by subst hn; cases t <;> decide
  have h3 : ty ≠ "char16".toList := by subst hn; cases t <;> decide
  have h4 : ty ≠ "reference".toList := by subst hn; cases t <;> decide
  unfold cimvalue1 at h
  simp only [h1, h2, h3, h4, if_false, false_or] at h
  unfold convScalar at h
  simp only [ht] at h
  obtain ⟨i, _, h⟩ := bind_eq_ok h
  split at h
  · cases h; rename_i hr; exact ⟨i, rfl, hr.1, hr.2⟩
  · cases h

/-- a boolean VALUE text is converted with the CIM-XML rules, never with Python truth testing:
    `FALSE` is False (the defect of the first version of `_methodcall`, fixed by 2438956) -/
example : xmlCimvalue ⟨toyCodec, fun _ => none⟩ (.str "FALSE".toList) (some "boolean".toList) = .ok (.scalar (.bool false)) := rfl

/-! ### from the characters of the body -/

/-- **C02 over response texts (partial: RecursionError, C02-KF1)**: for EVERY character string as response
    body — parsed by the concrete XML parser `XmlParse.par` —, every `session.post()` outcome, operation
    and codec: a class of the documented list or RecursionError; parse errors carry the data.
    Full statement wanted: without the RecursionError disjunct, and with expat itself instead of `par`
    (which under-approximates it: PI, DOCTYPE, non-UTF-8 declarations are rejected by `par` only). -/
theorem C02_operation_text_partial (C : EnvCodec) (fuel : Nat) (op : OpSpec) (p : PostOutcome) (text : Str) :
    (∀ e, (Wire.operationText (conc C) fuel op p text).res = .error e → DocumentedAll e ∨ e = .recursionError) ∧
    (∀ e, (Wire.operationText (conc C) fuel op p text).res = .error e → isParseError e = true →
      (Wire.operationText (conc C) fuel op p text).hasRequestData = true ∧
      (Wire.operationText (conc C) fuel op p text).hasResponseData = true) :=
  C02_operation_partial C fuel op p (XmlParse.par text)

/-- a body the XML parser rejects (status 200, acceptable Content-type) surfaces as XMLParseError with
    request and response data, for every operation -/
theorem C02_rejected_text_is_xmlparseerror (C : EnvCodec) (fuel : Nat) (op : OpSpec) (h : HttpResp) (text : Str)
    (hh : httpLayer h = .ok ()) (hp : XmlParse.par text = none) :
    (Wire.operationText C fuel op (.response h) text).res = .error .xmlParseError ∧
    (Wire.operationText C fuel op (.response h) text).hasRequestData = true ∧
    (Wire.operationText C fuel op (.response h) text).hasResponseData = true := by
  simp [Wire.operationText, operation, client, hh, hp, parseAndHandle, rspOutcome]

/-- non-vacuity: a truncated document is rejected; an empty DeleteInstance response is accepted and the
    operation returns None -/
example : XmlParse.par "<CIM CIMVERSION=\"2.0\"><MESSAGE".toList = none := by decide

example : (match (Wire.operationText ⟨toyCodec, fun _ => none⟩ 0
    { kind := .imethod, meth := "DeleteInstance".toList, hasRet := false, post := .void } (.response ⟨200, []⟩)
    "<CIM CIMVERSION=\"2.0\" DTDVERSION=\"2.0\"><MESSAGE ID=\"1\" PROTOCOLVERSION=\"1.0\"><SIMPLERSP><IMETHODRESPONSE NAME=\"DeleteInstance\"/></SIMPLERSP></MESSAGE></CIM>".toList).res with
    | .ok .void => true | _ => false) = true := by decide +kernel

/-! ### constant tables

`Model/RespDec.lean` and `Model/Envelope.lean` take the `check_node` argument lists, the acceptable-child
lists and the CIM type sets from `Generated/RspTables.lean`, which tools/extractors/rsp.py regenerates
from the source text on every run.  The helper functions shared with the C01 decoder model and the path
block carry their lists inline; they are pinned here. -/

abbrev specOf (fn : String) : Option (String × String × List String × List String × Option (List String) × Bool) := Pywbem.Generated.Rsp.checkNodes.find? (fun r => r.1 == fn)

/-- the inline `check_node` specifications of the shared helper functions and of the path decoders are
    the ones in the source (a changed attribute / child list in pywbem/_tupleparse.py breaks this pin) -/
theorem C02_tables_pinned :
    ((Pywbem.Generated.Rsp.extractionFailed == false) &&
     (specOf "parse_namespace" == some ("parse_namespace", "NAMESPACE", ["NAME"], [], some [], false)) &&
     (specOf "parse_localnamespacepath" == some ("parse_localnamespacepath", "LOCALNAMESPACEPATH", [], [], some ["NAMESPACE"], false)) &&
     (specOf "parse_host" == some ("parse_host", "HOST", [], [], some [], true)) &&
     (specOf "parse_namespacepath" == some ("parse_namespacepath", "NAMESPACEPATH", [], [], none, false)) &&
     (specOf "parse_classname" == some ("parse_classname", "CLASSNAME", ["NAME"], [], some [], false)) &&
     (specOf "parse_value" == some ("parse_value", "VALUE", [], [], some [], true)) &&
     (specOf "parse_value_null" == some ("parse_value_null", "VALUE.NULL", [], [], some [], false)) &&
     (specOf "parse_value_reference" == some ("parse_value_reference", "VALUE.REFERENCE", [], [], none, false)) &&
     (specOf "parse_keybinding" == some ("parse_keybinding", "KEYBINDING", ["NAME"], [], none, false)) &&
     (specOf "parse_instancename" == some ("parse_instancename", "INSTANCENAME", ["CLASSNAME"], [], none, false)) &&
     (specOf "parse_instancepath" == some ("parse_instancepath", "INSTANCEPATH", [], [], none, false)) &&
     (specOf "parse_localinstancepath" == some ("parse_localinstancepath", "LOCALINSTANCEPATH", [], [], none, false)) &&
     (specOf "parse_classpath" == some ("parse_classpath", "CLASSPATH", [], [], none, false)) &&
     (specOf "parse_localclasspath" == some ("parse_localclasspath", "LOCALCLASSPATH", [], [], none, false)) &&
     (kidsG "parse_value_reference" "one_child" == ["CLASSPATH", "LOCALCLASSPATH", "CLASSNAME", "INSTANCEPATH", "LOCALINSTANCEPATH", "INSTANCENAME"]) &&
     (kidsG "parse_keybinding" "one_child" == ["KEYVALUE", "VALUE.REFERENCE"]) &&
     (kidsG "parse_value_array" "list_of_various" == ["VALUE", "VALUE.NULL"]) &&
     (kidsG "parse_value_refarray" "list_of_various" == ["VALUE.REFERENCE", "VALUE.NULL"]) &&
     (kidsG "parse_error" "list_of_various" == ["INSTANCE"])) = true := by
  decide

/-- the operation signatures the harness and the driver use are the ones in the source: exactly the
    Open…/Pull… operations have output parameters; exactly the modify/create-class/delete/set/close
    operations are void -/
theorem C02_op_flags_pinned :
    (Pywbem.Generated.Rsp.opFlags.filter (fun r => r.2.2.2.2)).map (·.1) =
      ["OpenEnumerateInstances", "OpenEnumerateInstancePaths", "OpenAssociatorInstances", "OpenAssociatorInstancePaths",
       "OpenReferenceInstances", "OpenReferenceInstancePaths", "OpenQueryInstances", "PullInstancesWithPath",
       "PullInstancePaths", "PullInstances"] ∧
    (Pywbem.Generated.Rsp.opFlags.filter (fun r => !r.2.2.2.1)).map (·.1) =
      ["ModifyInstance", "DeleteInstance", "CloseEnumeration", "ModifyClass", "CreateClass", "DeleteClass",
       "SetQualifier", "DeleteQualifier"] ∧
    Pywbem.Generated.Rsp.opFlags.length = 34 := by
  decide

end C02
