/-
C02 — bad server responses surface only as documented pywbem errors.
Property theorems only (helper lemmas: Proofs/Lemmas/RespSafe.lean, RespSafe2.lean, EnvSafe.lean,
EnvSafe2.lean).  Models: Pywbem/Model/RespDec.lean (object decoder with constructor checks),
Pywbem/Model/Envelope.lean (HTTP layer, envelope, per-operation result handling) — the code AFTER the
C02 `fix:` commits.

Third-party behaviour is a hypothesis, never an axiom: `CodecOk C` says that CPython's `int(float)`
raises OverflowError or ValueError and nothing else; the other conversions (float(), CIMDateTime(),
from_wbem_uri(), the SAX parser) are total functions into Option in the codec record, so any behaviour
of theirs is covered.
-/
import Proofs.Lemmas.FuelStable

namespace C02
open Pywbem.Model Pywbem.Model.Resp Pywbem.Model.Envelope Pywbem.Proto Pywbem.Model.XmlText Proofs.C02

/-- the exception classes the WBEMConnection docstring allows an operation to raise for a response
    (ConnectionError / TimeoutError arise in the transport, before there is a response) -/
def Documented (e : PyExc) : Prop :=
  (∃ c, e = .cimError c) ∨ e = .cimXmlParseError ∨ e = .xmlParseError ∨ e = .headerParseError ∨
  e = .versionError ∨ e = .httpError ∨ e = .authError

/-- **HTTP layer**: whatever status and headers, the outcome is success or HTTPError / AuthError /
    HeaderParseError -/
theorem C02_http_no_leak (h : HttpResp) :
    httpLayer h = .ok () ∨ httpLayer h = .error .httpError ∨ httpLayer h = .error .authError ∨
    httpLayer h = .error .headerParseError := by
  unfold httpLayer
  by_cases h1 : h.status ≠ 200
  · by_cases h2 : h.status = 401 <;> simp [h1, h2]
  · cases hc : headerGet h.headers "Content-type" with
    | none => simp [h1, pure, Except.pure]
    | some ct =>
      by_cases h3 : (!startsWith ct "application/xml" && !startsWith ct "text/xml") = true <;>
        simp [h1, h3, pure, Except.pure]

/-- **decode_no_leak, paths and qualifier declarations (full strength)**: for EVERY tree, the path
    decoders (INSTANCENAME, CLASSNAME, the four *PATH elements, VALUE.REFERENCE with any nesting of
    references inside keybindings) and the QUALIFIER.DECLARATION decoder either succeed or raise
    CIMXMLParseError — in particular `int()` of ARRAYSIZE, numeric conversions incl. INF/NaN/huge
    literals, and the CIMInstanceName / CIMQualifierDeclaration constructors cannot leak -/
theorem C02_decode_paths_no_leak (C : DecCodec) (hC : CodecOk C) (t : Xml) (e : PyExc) :
    (Resp.decPathAny C t = .error e → e = .cimXmlParseError) ∧
    (Resp.decValueReference C t = .error e → e = .cimXmlParseError) ∧
    (Resp.decQualDecl C t = .error e → e = .cimXmlParseError) :=
  ⟨(decPathAny_safe (P := PE) C hC t).out e,
   (decValueReference_safe (P := PE) C hC t).out e,
   (decQualDecl_safe (P := PE) C hC t).out e⟩

/-- **decode_no_leak, instances and classes (partial)**: for EVERY tree and every embedded-nesting
    budget, INSTANCE and CLASS decoding (properties of all three kinds, qualifiers, methods,
    parameters, embedded objects to any depth, all constructor calls — also the three that are not
    inside a try block) raises only CIMXMLParseError, XMLParseError (ill-formed embedded object text)
    or RecursionError.
    Partial: RecursionError is not a documented class; in the model it arises exactly when the
    nesting budget `fuel` is exhausted (in the real code: the interpreter's recursion limit; known
    finding C02-KF1).  Full statement wanted: the same without the RecursionError disjunct. -/
theorem C02_decode_no_leak_partial (C : DecCodec) (hC : CodecOk C) (fuel : Nat) (t : Xml) (e : PyExc) :
    (Resp.decInstance C (Resp.embAt C fuel) t = .error e →
      e = .cimXmlParseError ∨ e = .xmlParseError ∨ e = .recursionError) ∧
    (Resp.decClass C (Resp.embAt C fuel) t = .error e →
      e = .cimXmlParseError ∨ e = .xmlParseError ∨ e = .recursionError) :=
  ⟨(decInstance_safe C hC _ (embAt_safe C hC fuel) t).out e, (decClass_safe C hC _ (embAt_safe C hC fuel) t).out e⟩

/-- a toy codec (non-vacuity of `CodecOk`, and the witness below): every conversion fails, the
    embedded-object parser returns an empty INSTANCE element -/
def toyCodec : DecCodec :=
  { fmtReal := fun _ _ => [], strFloat := fun _ => [], parseFloat := fun _ => none, parseDt := fun _ => none,
    par := fun _ => some (.elem "INSTANCE".toList [("CLASSNAME".toList, ['C'])] []),
    truncFloat := fun _ => .error .overflowError, floatOfInt := fun _ => none }

theorem toyCodec_ok : CodecOk toyCodec := by
  intro b e h; cases h; exact Or.inl rfl

/-- an INSTANCE with one embedded-object property -/
def embWitness : Xml :=
  .elem "INSTANCE".toList [("CLASSNAME".toList, ['C'])]
    [.elem "PROPERTY".toList [("NAME".toList, ['p']), ("TYPE".toList, "string".toList), ("EmbeddedObject".toList, "instance".toList)]
      [.elem "VALUE".toList [] [.text ['x']]]]

/-- the excluded class is necessary: with the nesting budget exhausted the decoder DOES raise
    RecursionError (real code: about 150 nested reference levels, reproduced by K) -/
theorem C02_decode_no_leak_fails_at_exhausted_nesting :
    Resp.decInstance toyCodec (Resp.embAt toyCodec 0) embWitness = .error .recursionError := by
  rfl

/-- non-vacuity: with budget 1 the same tree decodes -/
example : ∃ i, Resp.decInstance toyCodec (Resp.embAt toyCodec 1) embWitness = .ok i := ⟨_, rfl⟩

/-- **numeric conversion** (the OverflowError fix): for every text and every declared type name,
    `unpack_single_value` raises nothing but CIMXMLParseError — `<VALUE>INF</VALUE>` for uint8, a 400-digit
    integer for real32, `TYPE="uint8\n"`, … -/
theorem C02_unpack_single_value_no_leak (C : DecCodec) (hC : CodecOk C) (data : Str) (ty : Option Str) (e : PyExc)
    (h : Resp.unpackSingle C data ty = .error e) : e = .cimXmlParseError :=
  (unpackSingle_safe (P := PE) C hC data ty).out e h

/-- **ERROR CODE** (the CODE fix): once `parse_error` has accepted an ERROR element, the `int(CODE)` of
    `_imethodcall` / `_methodcall` / `_iexportcall` succeeds, for every tree -/
theorem C02_error_code_checked (C : EnvCodec) (fuel : Nat) (t : Xml) (code : Str) (d : Bool) (insts : List Inst)
    (h : decError C fuel t = .ok (.error code d insts)) : ∃ v, pyIntLim code = some v :=
  decError_ok C fuel t _ h

/-- **envelope_no_leak (partial)**: for EVERY operation signature and EVERY tree the SAX layer can
    deliver, what `tp.parse_cim(...)`, the envelope checks and the operation's result handling raise is
    CIMError, CIMXMLParseError, XMLParseError, a VersionError — or RecursionError (C02-KF1, see above). -/
theorem C02_envelope_no_leak_partial (C : EnvCodec) (hC : CodecOk C.toDecCodec) (fuel : Nat) (op : OpSpec) (t : Xml)
    (e : PyExc) (h : handleResponse C fuel op t = .error e) : Documented e ∨ e = .recursionError := by
  rcases (handleResponse_safe C hC fuel op t).out e h with ⟨c, h⟩ | h | h | h | h
  · exact Or.inl (Or.inl ⟨c, h⟩)
  · exact Or.inl (Or.inr (Or.inl h))
  · exact Or.inl (Or.inr (Or.inr (Or.inl h)))
  · exact Or.inl (Or.inr (Or.inr (Or.inr (Or.inr (Or.inl h)))))
  · exact Or.inr h

/-- **the nesting budget matters only through RecursionError**: with a larger budget the outcome is
    the same, unless the smaller budget ran out (monotonicity of the whole response path in the
    embedded-object parser, by induction on the budget) -/
theorem C02_budget_only_recursion (C : EnvCodec) (n m : Nat) (h : n ≤ m) (op : OpSpec) (t : Xml) :
    handleResponse C n op t = handleResponse C m op t ∨ handleResponse C n op t = .error .recursionError :=
  handleResponse_rel C n m h op t

/-- **envelope_no_leak, idealised interpreter (full strength)**: whenever some budget suffices (the
    outcome is not RecursionError), every larger budget gives the same outcome, and if that outcome is
    an exception it is a documented class.  So RecursionError is the only way C02 can fail on the
    response path, and it is purely an effect of the finite recursion limit. -/
theorem C02_envelope_no_leak_when_budget_suffices (C : EnvCodec) (hC : CodecOk C.toDecCodec) (n : Nat) (op : OpSpec)
    (t : Xml) (hn : handleResponse C n op t ≠ .error .recursionError) (m : Nat) (hm : n ≤ m) :
    handleResponse C m op t = handleResponse C n op t ∧
    ∀ e, handleResponse C m op t = .error e → Documented e := by
  have heq : handleResponse C n op t = handleResponse C m op t := by
    rcases C02_budget_only_recursion C n m hm op t with h | h
    · exact h
    · exact absurd h hn
  refine ⟨heq.symm, ?_⟩
  intro e he
  rcases C02_envelope_no_leak_partial C hC m op t e he with h | h
  · exact h
  · subst h; rw [← heq] at he; exact absurd he hn

/-- **C02, top level (partial)**: whatever status line, headers and body (as the tree the SAX layer
    delivers, or its rejection), every operation either returns or raises a documented error class
    (or RecursionError, C02-KF1), and every parse error (CIMXMLParseError, XMLParseError,
    HeaderParseError) carries request and response data.  Termination is the totality of `client`. -/
theorem C02_client_partial (C : EnvCodec) (hC : CodecOk C.toDecCodec) (fuel : Nat) (op : OpSpec) (h : HttpResp)
    (body : Option Xml) :
    (∀ e, (client C fuel op h body).res = .error e → Documented e ∨ e = .recursionError) ∧
    (∀ e, (client C fuel op h body).res = .error e → isParseError e = true →
      (client C fuel op h body).hasRequestData = true ∧ (client C fuel op h body).hasResponseData = true) := by
  unfold client
  rcases C02_http_no_leak h with hh | hh | hh | hh
  · simp only [hh]
    have hdoc : ∀ e, parseAndHandle C fuel op body = .error e → Doc e := by
      intro e he
      unfold parseAndHandle at he
      cases body with
      | none => cases he; exact Or.inr (Or.inr (Or.inl rfl))
      | some t => exact (handleResponse_safe C hC fuel op t).out e he
    have hdd : ∀ e, Doc e → Documented e ∨ e = .recursionError := by
      intro e hd
      rcases hd with ⟨c, h⟩ | h | h | h | h
      · exact Or.inl (Or.inl ⟨c, h⟩)
      · exact Or.inl (Or.inr (Or.inl h))
      · exact Or.inl (Or.inr (Or.inr (Or.inl h)))
      · exact Or.inl (Or.inr (Or.inr (Or.inr (Or.inr (Or.inl h)))))
      · exact Or.inr h
    cases hr : parseAndHandle C fuel op body with
    | ok r => simp [rspOutcome]
    | error e0 =>
      have hd := hdoc e0 hr
      unfold rspOutcome
      by_cases hp : e0 = .cimXmlParseError ∨ e0 = .xmlParseError
      · simp only [hp, if_true]
        exact ⟨fun e he => by cases he; exact hdd _ hd, fun e he _ => by simp⟩
      · simp only [hp, if_false]
        refine ⟨fun e he => by cases he; exact hdd _ hd, fun e he hpe => ?_⟩
        cases he
        exfalso
        simp only [isParseError, Bool.or_eq_true, decide_eq_true_eq] at hpe
        rcases hpe with (h1 | h1) | h1
        · exact hp (Or.inl h1)
        · exact hp (Or.inr h1)
        · subst h1
          rcases hd with ⟨c, h2⟩ | h2 | h2 | h2 | h2 <;> cases h2
  · simp only [hh]
    exact ⟨fun e he => by cases he; exact Or.inl (Or.inr (Or.inr (Or.inr (Or.inr (Or.inr (Or.inl rfl)))))),
           fun e he hpe => by cases he; simp [isParseError] at hpe⟩
  · simp only [hh]
    exact ⟨fun e he => by cases he; exact Or.inl (Or.inr (Or.inr (Or.inr (Or.inr (Or.inr (Or.inr rfl)))))),
           fun e he hpe => by cases he; simp [isParseError] at hpe⟩
  · simp only [hh]
    exact ⟨fun e he => by cases he; exact Or.inl (Or.inr (Or.inr (Or.inr (Or.inl rfl)))),
           fun e he hpe => by cases he; simp⟩

/-- the operation table is used consistently: InvokeMethod is the extrinsic call, ExportIndication the
    export call, and the InstanceName argument is an instance path -/
def OpWellFormed (op : OpSpec) : Prop :=
  (op.kind = .method → op.post = .invoke) ∧ (op.kind = .export → op.post = .void) ∧ isInstPath op.reqPath = true

/-- **op_result_shape**: for EVERY tree, whenever an operation returns, the returned value has the
    documented result type of that operation: the right Python class for every list element,
    instances with an instance path where the docstring promises one (EnumerateInstances,
    GetInstance, Associators/References, Open…/PullInstancesWithPath), class paths for class-level
    AssociatorNames/ReferenceNames, `eos` true exactly when the enumeration context is None, the query
    result class present exactly when requested. -/
theorem C02_op_result_shape (C : EnvCodec) (fuel : Nat) (op : OpSpec) (hwf : OpWellFormed op) (t : Xml) (r : Res)
    (h : handleResponse C fuel op t = .ok r) : HasDocumentedShape op.post r := by
  obtain ⟨hm, he, hreq⟩ := hwf
  unfold handleResponse at h
  obtain ⟨m, _, h⟩ := bind_eq_ok h
  split at h
  · obtain ⟨kids, _, h⟩ := bind_eq_ok h
    obtain ⟨k2, hk2, h⟩ := bind_eq_ok h
    exact postProcess_shape C op hreq _ r h
  · rename_i hk
    obtain ⟨kids, _, h⟩ := bind_eq_ok h
    rw [hm hk]
    exact methodResult_shape C kids r h
  · rename_i hk
    obtain ⟨kids, _, h⟩ := bind_eq_ok h
    rw [he hk]
    split at h
    · obtain ⟨_, _, h⟩ := bind_eq_ok h; cases h
    · cases h; rfl
    · cases h

/-- non-vacuity of the shape theorem: an empty EnumerateInstances response returns the empty list -/
example : handleResponse ⟨toyCodec, fun _ => false⟩ 0
    { kind := .imethod, meth := "EnumerateInstances".toList, post := .instList }
    (.elem "CIM".toList [("CIMVERSION".toList, "2.0".toList), ("DTDVERSION".toList, "2.0".toList)]
      [.elem "MESSAGE".toList [("ID".toList, ['1']), ("PROTOCOLVERSION".toList, "1.0".toList)]
        [.elem "SIMPLERSP".toList [] [.elem "IMETHODRESPONSE".toList [("NAME".toList, "EnumerateInstances".toList)] []]]])
    = .ok (.instances []) := rfl

/-- and a CIM error: `<ERROR CODE="6"/>` raises CIMError(6); `CODE="x"` raises CIMXMLParseError -/
example : handleResponse ⟨toyCodec, fun _ => false⟩ 0
    { kind := .imethod, meth := "GetInstance".toList, post := .oneInst }
    (.elem "CIM".toList [("CIMVERSION".toList, "2.0".toList), ("DTDVERSION".toList, "2.0".toList)]
      [.elem "MESSAGE".toList [("ID".toList, ['1']), ("PROTOCOLVERSION".toList, "1.0".toList)]
        [.elem "SIMPLERSP".toList [] [.elem "IMETHODRESPONSE".toList [("NAME".toList, "GetInstance".toList)]
          [.elem "ERROR".toList [("CODE".toList, ['6'])] []]]]])
    = .error (.cimError 6) := rfl

example : handleResponse ⟨toyCodec, fun _ => false⟩ 0
    { kind := .imethod, meth := "GetInstance".toList, post := .oneInst }
    (.elem "CIM".toList [("CIMVERSION".toList, "2.0".toList), ("DTDVERSION".toList, "2.0".toList)]
      [.elem "MESSAGE".toList [("ID".toList, ['1']), ("PROTOCOLVERSION".toList, "1.0".toList)]
        [.elem "SIMPLERSP".toList [] [.elem "IMETHODRESPONSE".toList [("NAME".toList, "GetInstance".toList)]
          [.elem "ERROR".toList [("CODE".toList, ['x'])] []]]]])
    = .error .cimXmlParseError := rfl

/-! ### no codec hypothesis

`int(float)` and the overflow of `float(int)` are computed by the model (`truncF64`, `floatOverflows`,
IEEE-754 binary64, compared with CPython on every float / integer of every K run); the remaining codec
functions (`float(str)`, `CIMDateTime(str)`, `from_wbem_uri`, the parser of embedded object text, the
bit pattern of a successful `float(int)`) are total functions into `Option`/`Bool`, so ANY behaviour of
theirs is covered.  The theorems below therefore hold for every codec, without hypothesis. -/

/-- every codec, made concrete in the two conversions that can raise more than one class -/
def conc (C : EnvCodec) : EnvCodec := { C with toDecCodec := Resp.concreteCodec C.toDecCodec }

/-- `CodecOk` is a theorem for the concrete conversions -/
theorem C02_codec_hypothesis_discharged (C : EnvCodec) : CodecOk (conc C).toDecCodec :=
  concreteCodec_ok C.toDecCodec

/-- **C02, top level, no hypothesis (partial: RecursionError, C02-KF1)**: for EVERY codec, operation
    signature, status line, header list and body (tree or SAX rejection): a documented error class or
    RecursionError, and parse errors carry request and response data.
    Full statement wanted: without the RecursionError disjunct (see the budget theorems). -/
theorem C02_client_no_hypothesis_partial (C : EnvCodec) (fuel : Nat) (op : OpSpec) (h : HttpResp) (body : Option Xml) :
    (∀ e, (client (conc C) fuel op h body).res = .error e → Documented e ∨ e = .recursionError) ∧
    (∀ e, (client (conc C) fuel op h body).res = .error e → isParseError e = true →
      (client (conc C) fuel op h body).hasRequestData = true ∧ (client (conc C) fuel op h body).hasResponseData = true) :=
  C02_client_partial (conc C) (C02_codec_hypothesis_discharged C) fuel op h body

/-- **envelope_no_leak, idealised interpreter, no hypothesis (full strength)**: for every codec, if some
    nesting budget suffices, every larger budget gives the same outcome and every exception is a
    documented class -/
theorem C02_envelope_no_leak_no_hypothesis (C : EnvCodec) (n : Nat) (op : OpSpec) (t : Xml)
    (hn : handleResponse (conc C) n op t ≠ .error .recursionError) (m : Nat) (hm : n ≤ m) :
    handleResponse (conc C) m op t = handleResponse (conc C) n op t ∧
    ∀ e, handleResponse (conc C) m op t = .error e → Documented e :=
  C02_envelope_no_leak_when_budget_suffices (conc C) (C02_codec_hypothesis_discharged C) n op t hn m hm

/-- non-vacuity: `<VALUE>INF</VALUE>` for a uint8 property is a CIMXMLParseError through the concrete
    `int(inf)` = OverflowError inside `except (ValueError, OverflowError)` -/
example : Resp.unpackSingle (Resp.concreteCodec { toyCodec with parseFloat := fun _ => some 0x7FF0000000000000 })
    "INF".toList (some "uint8".toList) = .error .cimXmlParseError := rfl

/-- and 3.7 truncates to 3 (the silent truncation of C06) -/
example : Resp.truncF64 0x400D99999999999A = .ok 3 := rfl

/-- **HTTP layer, exact**: the response body is looked at iff the status is 200 and the Content-type
    header is absent or starts with application/xml or text/xml -/
theorem C02_http_accepts_iff (h : HttpResp) :
    httpLayer h = .ok () ↔
      (h.status = 200 ∧ ∀ ct, headerGet h.headers "Content-type" = some ct →
        (startsWith ct "application/xml" = true ∨ startsWith ct "text/xml" = true)) := by
  unfold httpLayer
  by_cases h1 : h.status ≠ 200
  · by_cases h2 : h.status = 401 <;> simp [h1, h2]
  · have h1' : h.status = 200 := by simpa using h1
    cases hc : headerGet h.headers "Content-type" with
    | none => simp [h1', pure, Except.pure]
    | some ct =>
      cases ha : startsWith ct "application/xml" <;> cases hb : startsWith ct "text/xml" <;>
        simp [h1', ha, hb, pure, Except.pure]

/-- **a CIM error surfaces with its status code**: if the parsed response is the expected
    IMETHODRESPONSE whose first child is an ERROR element, the operation raises CIMError with
    `int(CODE)` as status code — for every operation shape and whatever follows the ERROR element -/
theorem C02_cim_error_surfaces (C : EnvCodec) (fuel : Nat) (op : OpSpec) (hk : op.kind = .imethod) (t : Xml)
    (code : Str) (v : Int) (hv : pyIntLim code = some v) (d : Bool) (insts : List Inst) (rest : List RspKid)
    (h : decCim C fuel t = .ok (.simplersp ⟨"IMETHODRESPONSE".toList, op.meth, .error code d insts :: rest⟩)) :
    handleResponse C fuel op t = .error (.cimError v.toNat) := by
  have h1 : responseKids "IMETHODRESPONSE" "SIMPLERSP" op.meth
      (.simplersp ⟨"IMETHODRESPONSE".toList, op.meth, .error code d insts :: rest⟩) =
      .ok (.error code d insts :: rest) := by
    simp [responseKids, pure, Except.pure]
  have h2 : imethodResult op (.error code d insts :: rest) = .error (.cimError v.toNat) := by
    simp [imethodResult, raiseCimError, pyIntE, hv, bind, Except.bind]
  unfold handleResponse
  rw [h]
  simp only [hk, bind, Except.bind]
  rw [h1]
  simp only [h2]

/-! ### constant tables

`Model/RespDec.lean` and `Model/Envelope.lean` take the `check_node` argument lists, the acceptable-child
lists and the CIM type sets from `Generated/RspTables.lean`, which tools/extractors/rsp.py regenerates
from the source text on every run.  The helper functions shared with the C01 decoder model and the path
block carry their lists inline; they are pinned here. -/

abbrev specOf (fn : String) : Option (String × String × List String × List String × Option (List String) × Bool) := Pywbem.Generated.Rsp.checkNodes.find? (fun r => r.1 == fn)

/-- the inline `check_node` specifications of the shared helper functions and of the path decoders are
    the ones in the source (a changed attribute / child list in pywbem/_tupleparse.py breaks this pin) -/
theorem C02_tables_pinned :
    ((Pywbem.Generated.Rsp.extractionFailed == false) &&
     (specOf "parse_namespace" == some ("parse_namespace", "NAMESPACE", ["NAME"], [], some [], false)) &&
     (specOf "parse_localnamespacepath" == some ("parse_localnamespacepath", "LOCALNAMESPACEPATH", [], [], some ["NAMESPACE"], false)) &&
     (specOf "parse_host" == some ("parse_host", "HOST", [], [], some [], true)) &&
     (specOf "parse_namespacepath" == some ("parse_namespacepath", "NAMESPACEPATH", [], [], none, false)) &&
     (specOf "parse_classname" == some ("parse_classname", "CLASSNAME", ["NAME"], [], some [], false)) &&
     (specOf "parse_value" == some ("parse_value", "VALUE", [], [], some [], true)) &&
     (specOf "parse_value_null" == some ("parse_value_null", "VALUE.NULL", [], [], some [], false)) &&
     (specOf "parse_value_reference" == some ("parse_value_reference", "VALUE.REFERENCE", [], [], none, false)) &&
     (specOf "parse_keybinding" == some ("parse_keybinding", "KEYBINDING", ["NAME"], [], none, false)) &&
     (specOf "parse_instancename" == some ("parse_instancename", "INSTANCENAME", ["CLASSNAME"], [], none, false)) &&
     (specOf "parse_instancepath" == some ("parse_instancepath", "INSTANCEPATH", [], [], none, false)) &&
     (specOf "parse_localinstancepath" == some ("parse_localinstancepath", "LOCALINSTANCEPATH", [], [], none, false)) &&
     (specOf "parse_classpath" == some ("parse_classpath", "CLASSPATH", [], [], none, false)) &&
     (specOf "parse_localclasspath" == some ("parse_localclasspath", "LOCALCLASSPATH", [], [], none, false)) &&
     (kidsG "parse_value_reference" "one_child" == ["CLASSPATH", "LOCALCLASSPATH", "CLASSNAME", "INSTANCEPATH", "LOCALINSTANCEPATH", "INSTANCENAME"]) &&
     (kidsG "parse_keybinding" "one_child" == ["KEYVALUE", "VALUE.REFERENCE"]) &&
     (kidsG "parse_value_array" "list_of_various" == ["VALUE", "VALUE.NULL"]) &&
     (kidsG "parse_value_refarray" "list_of_various" == ["VALUE.REFERENCE", "VALUE.NULL"]) &&
     (kidsG "parse_error" "list_of_various" == ["INSTANCE"])) = true := by
  decide

/-- the operation signatures the harness and the driver use are the ones in the source: exactly the
    Open…/Pull… operations have output parameters; exactly the modify/create-class/delete/set/close
    operations are void -/
theorem C02_op_flags_pinned :
    (Pywbem.Generated.Rsp.opFlags.filter (fun r => r.2.2.2.2)).map (·.1) =
      ["OpenEnumerateInstances", "OpenEnumerateInstancePaths", "OpenAssociatorInstances", "OpenAssociatorInstancePaths",
       "OpenReferenceInstances", "OpenReferenceInstancePaths", "OpenQueryInstances", "PullInstancesWithPath",
       "PullInstancePaths", "PullInstances"] ∧
    (Pywbem.Generated.Rsp.opFlags.filter (fun r => !r.2.2.2.1)).map (·.1) =
      ["ModifyInstance", "DeleteInstance", "CloseEnumeration", "ModifyClass", "CreateClass", "DeleteClass",
       "SetQualifier", "DeleteQualifier"] ∧
    Pywbem.Generated.Rsp.opFlags.length = 34 := by
  decide

end C02
