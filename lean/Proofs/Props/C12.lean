/-
C12 — Class inheritance is resolved correctly and class queries mirror the hierarchy.
ONLY property theorems, non-vacuity examples and witnesses live here; helper lemmas are in
Proofs/Lemmas/Resolve.lean.  The model (Pywbem/Model/Resolve.lean) mirrors the code including
its open defects; theorems that the defects falsify are stated `_partial` with the excluded
input class as an explicit hypothesis and a negation witness beside them.
-/
import Proofs.Lemmas.Resolve

set_option linter.unusedSimpArgs false
set_option linter.unusedVariables false

namespace C12
open Pywbem.Model.Resolve Pywbem.Proto Proofs.Resolve
open Pywbem.Generated.Resolve

/-! ### generated tables are the ones the model was written against -/

/-- status codes raised by the modelled functions, re-extracted from the source on every run -/
theorem C12_status_codes_pinned :
    raisesValidateQualifiers = [4, 4, 4] ∧ raisesResolveObjects = [4, 4, 4, 4, 4, 4] ∧
    raisesResolveQualifiers = [4, 4] ∧ raisesResolveClass = [10, 4, 4] ∧ raisesGetClass = [6] ∧
    raisesSubclassListForEnums = [5] ∧ raisesValidateDependencies = [4, 4] ∧
    raisesEnumerateClasses = [5] ∧ raisesEnumerateClassNames = [5] ∧ raisesCreateClass = [11] ∧
    raisesModifyClass = [6, 8, 9, 10, 10, 10] ∧ raisesDeleteClass = [6] ∧ raisesEnumerateInstances = [5] ∧
    CIM_ERR_INVALID_PARAMETER = 4 ∧ CIM_ERR_INVALID_CLASS = 5 ∧ CIM_ERR_NOT_FOUND = 6 ∧
    CIM_ERR_CLASS_HAS_CHILDREN = 8 ∧ CIM_ERR_CLASS_HAS_INSTANCES = 9 ∧ CIM_ERR_INVALID_SUPERCLASS = 10 ∧
    CIM_ERR_ALREADY_EXISTS = 11 ∧ defaultDeepInheritance = true ∧ instanceRetrieveLocalOnly = false := by
  decide

/-! ### GetClass: LocalOnly=False exposes the stored (resolved) class; flags only remove -/

/-- GetClass(LocalOnly=False, IncludeQualifiers=True, IncludeClassOrigin=True, PropertyList=None)
    returns the stored resolved class unchanged. -/
theorem C12_getClass_localonly_false_exact (cs : List Cls) (n : Name) (c : Cls)
    (h : findClass cs n = some c) : getClass cs n fullFlags = .ok c := by
  simp [getClass, h, applyFlags, stageQuals, stageLocal, fullFlags, filterProps]

/-- "a carries no more information than b": an element is kept as it is, or with its class origin
    removed, or with all its (and its parameters') qualifiers removed, or both -/
def ElemLe (a b : Elem) : Prop :=
  a = b ∨ a = stripOrigin b ∨ a = stripElemQuals b ∨ a = stripOrigin (stripElemQuals b)

/-- the elements of `a` are a sub-list of those of `b` (order kept), each below its original -/
def ElemsLe (a b : List Elem) : Prop :=
  ∃ (g : Elem → Elem) (l : List Elem), (∀ e, ElemLe (g e) e) ∧ l.Sublist b ∧ a = l.map g

def ClsLe (a b : Cls) : Prop :=
  a.name = b.name ∧ a.super = b.super ∧ (a.quals = b.quals ∨ a.quals = []) ∧
  ElemsLe a.props b.props ∧ ElemsLe a.meths b.meths

/-- **Flags only remove information**: for every combination of LocalOnly, IncludeQualifiers,
    IncludeClassOrigin and PropertyList the answer is below the fully expanded stored class. -/
theorem C12_flags_only_remove (c : Cls) (f : Flags) : ClsLe (applyFlags c f) c := by
  have hle : ∀ e, ElemLe (keepE f e) e := by
    intro e
    by_cases hiq : f.iq = some false <;> by_cases hico : f.ico = some true <;>
      simp [ElemLe, keepE, hiq, hico]
  obtain ⟨h1, h2, h3⟩ := stageLocal_header c f
  rw [applyFlags_eq]
  refine ⟨h1, h2, ?_, ⟨keepE f, _, hle, stageLocal_props_sublist c f, rfl⟩,
    ⟨keepE f, _, hle, stageLocal_meths_sublist c f, rfl⟩⟩
  by_cases hiq : f.iq = some false <;> simp [hiq, h3]

/-- the same statement at the level of the operation: whatever GetClass answers with some flags is
    below what it answers with LocalOnly=False, IncludeQualifiers, IncludeClassOrigin -/
theorem C12_getClass_flags_below_full (cs : List Cls) (n : Name) (f : Flags) (a : Cls)
    (h : getClass cs n f = .ok a) : ∃ b, getClass cs n fullFlags = .ok b ∧ ClsLe a b := by
  unfold getClass at h
  cases hc : findClass cs n with
  | none => simp [hc] at h
  | some c =>
    simp [hc] at h; subst h
    exact ⟨c, C12_getClass_localonly_false_exact cs n c hc, C12_flags_only_remove c f⟩

/-- LocalOnly=False with no PropertyList keeps every element (only qualifiers / origins may go) -/
theorem C12_localonly_false_keeps_all_elements (c : Cls) (f : Flags) (hlo : f.lo = some false)
    (hpl : f.pl = none) :
    (applyFlags c f).props.map (·.name) = c.props.map (·.name) ∧
    (applyFlags c f).meths.map (·.name) = c.meths.map (·.name) := by
  have hk : ∀ e, (keepE f e).name = e.name := by
    intro e
    by_cases hiq : f.iq = some false <;> by_cases hico : f.ico = some true <;>
      simp [keepE, hiq, hico, stripOrigin, stripElemQuals]
  rw [applyFlags_eq]
  simp [stageLocal, hlo, hpl, filterProps, List.map_map, Function.comp_def, hk]

/-- LocalOnly=True (or absent) keeps exactly the elements not marked propagated -/
theorem C12_localonly_true_drops_exactly_propagated (c : Cls) (f : Flags) (hlo : f.lo ≠ some false)
    (hpl : f.pl = none) :
    (applyFlags c f).props.map (·.name) = (c.props.filter (fun p => !(p.propagated == some true))).map (·.name) := by
  have hk : ∀ e, (keepE f e).name = e.name := by
    intro e
    by_cases hiq : f.iq = some false <;> by_cases hico : f.ico = some true <;>
      simp [keepE, hiq, hico, stripOrigin, stripElemQuals]
  rw [applyFlags_eq]
  simp [stageLocal, hlo, hpl, filterProps, localOnly, truthy, List.map_map, Function.comp_def, hk]

/-- **PropertyList selects properties by name, case-insensitively, and nothing else**: the
    properties kept are those LocalOnly keeps whose name is in the list; methods are not affected. -/
theorem C12_property_list_exact (c : Cls) (f : Flags) (l : List Name) (hpl : f.pl = some l) :
    (applyFlags c f).props.map (·.name) =
      (((if f.lo == some false then c else localOnly c).props).filter
        (fun p => (l.map lower).contains (lower p.name))).map (·.name) ∧
    (applyFlags c f).meths.map (·.name) = ((if f.lo == some false then c else localOnly c).meths).map (·.name) := by
  rw [applyFlags_eq]
  simp only [stageLocal, hpl, filterProps, List.map_map]
  constructor <;> (apply List.map_congr_left; intro a _; simp [keepE_name])

/-! ### the hierarchy: forest invariant, enumerations, DeleteClass, EnumerateInstances -/

/-- **Forest invariant** (also the termination argument of the code's recursion over subclasses and
    of its loop over superclasses): after ANY history of CreateClass / add_cimobjects / ModifyClass /
    DeleteClass / queries — accepted or refused — starting from an empty repository, the class store
    is a forest: names pairwise different up to case and every class's superclass stored before it.
    In particular no inheritance cycle can be built. -/
theorem C12_forest_invariant (decls : List QDecl) (ops : List Op) :
    Forest (run { decls := decls } ops).1.classes :=
  forest_run ops .nil

/-- no class is its own (direct or indirect) subclass in any reachable store -/
theorem C12_acyclic (decls : List QDecl) (ops : List Op) (c : Cls)
    (hc : c ∈ (run { decls := decls } ops).1.classes) :
    ¬ Spec.Desc (run { decls := decls } ops).1.classes c.name c.name := by
  intro hd
  have hf := C12_forest_invariant decls ops
  generalize (run { decls := decls } ops).1.classes = cs at hc hd hf
  -- a cycle would make the enumeration of c's subtree contain c; remove c's subtree: c is removed,
  -- which contradicts ... (direct argument: induction on the forest)
  induction hf with
  | nil => simp at hc
  | @snoc cs d hf hfr hp ih =>
    have hF : Forest (cs ++ [d]) := .snoc hf hfr hp
    rcases desc_snoc hF hd with hold | ⟨hname, hch⟩
    · obtain ⟨q, hq, hqn⟩ := desc_is_stored hold
      simp at hc
      rcases hc with hc | rfl
      · exact ih hc hold
      · have := hasClass_false_iff.mp hfr q hq
        simp [hqn, ieq_refl] at this
    · -- c is the newest class d and a child of (a descendant of) itself: impossible, d is a leaf
      have leaf := forest_last_leaf hF
      rcases hch with hch | ⟨m, hm, hch⟩
      · exact leaf d (by simp) (by rw [← hname]; exact hch)
      · obtain ⟨q, hq, hqn⟩ := desc_is_stored hm
        -- m is an old class that descends from c.name = d.name: its chain starts with a child of d
        have : ∀ {x a}, Spec.Desc cs x a → a = d.name → False := by
          intro x a hxa
          induction hxa with
          | child hmem hic => intro ha; subst ha; exact leaf _ (by simp [hmem]) hic
          | trans _ _ _ ih2 => exact ih2
        exact this hm hname

/-- **EnumerateClassNames(C, DeepInheritance=False) = exactly the children of C** (any store) -/
theorem C12_enumerate_children_exact (cs : List Cls) (a x : Name) :
    x ∈ subNames cs (some a) false ↔ ∃ c ∈ cs, c.name = x ∧ Spec.IsChild c a := by
  simp only [subNames]
  exact mem_children

/-- **EnumerateClassNames(C, DeepInheritance=True) = exactly the subtree below C**, on every
    reachable store: nothing but descendants (soundness needs no hypothesis), and every descendant
    (the recursion depth `classes.length` is enough because the store is a forest). -/
theorem C12_enumerate_subtree_exact (decls : List QDecl) (ops : List Op) (a x : Name) :
    x ∈ subNames (run { decls := decls } ops).1.classes (some a) true ↔
      Spec.Desc (run { decls := decls } ops).1.classes x a :=
  mem_subNames_deep (C12_forest_invariant decls ops)

/-- soundness of the subtree enumeration for an arbitrary store and recursion depth -/
theorem C12_enumerate_subtree_sound (cs : List Cls) (f : Nat) (a x : Name)
    (h : x ∈ subNamesDeep f cs (some a)) : Spec.Desc cs x a :=
  subNamesDeep_sound h

/-- EnumerateClasses returns, for exactly the names EnumerateClassNames returns, what GetClass
    returns with the same flags -/
theorem C12_enumClasses_is_map_getClass (s : State) (cn : Option Name) (deep : Option Bool) (f : Flags)
    (l : List Cls) (h : enumClasses s cn deep f = .ok l) :
    ∃ names, enumClassNames s cn deep = .ok names ∧
      mapE (fun n => getClass s.classes n { f with pl := none }) names = .ok l := by
  unfold enumClasses at h
  cases hn : enumClassNames s cn deep with
  | error e => simp [hn] at h
  | ok names => simp [hn] at h; exact ⟨names, rfl, h⟩

/-- **DeleteClass removes exactly the subtree and its instances** (on every reachable store):
    the remaining classes are the old ones, in the old order, minus the class and its descendants;
    the remaining instances are those whose class is neither the class nor a descendant;
    qualifier declarations are untouched. -/
theorem C12_deleteClass_removes_exactly_subtree (s : State) (hr : Reachable s) (n : Name)
    (s' : State) (h : deleteClass s n = .ok s') :
    (∀ c, c ∈ s'.classes ↔ c ∈ s.classes ∧ ¬ (ieq c.name n = true ∨ Spec.Desc s.classes c.name n)) ∧
    s'.classes.Sublist s.classes ∧
    (∀ i, i ∈ s'.insts ↔ i ∈ s.insts ∧
      ¬ (ieq n i.cls = true ∨ ∃ t, Spec.Desc s.classes t n ∧ ieq t i.cls = true)) ∧
    s'.insts.Sublist s.insts ∧ s'.decls = s.decls ∧ Forest s'.classes := by
  have hf : Forest s.classes := reachable_forest hr
  obtain ⟨_, hc, hi, hd⟩ := deleteClass_ok h
  refine ⟨?_, by rw [hc]; exact List.filter_sublist, ?_, by rw [hi]; exact List.filter_sublist, hd,
    by rw [hc]; exact forest_delete hf n⟩
  · intro c
    rw [hc, List.mem_filter]
    constructor
    · rintro ⟨hm, hk⟩
      refine ⟨hm, fun hx => ?_⟩
      have := (inNames_subtree_class hf hm).mpr hx
      simp [this] at hk
    · rintro ⟨hm, hk⟩
      refine ⟨hm, ?_⟩
      cases hin : inNames (subtreeList s.classes n) c.name with
      | false => rfl
      | true => exact absurd ((inNames_subtree_class hf hm).mp hin) hk
  · intro i
    rw [hi, List.mem_filter]
    constructor
    · rintro ⟨hm, hk⟩
      refine ⟨hm, fun hx => ?_⟩
      have := (inNames_subtree hf).mpr hx
      simp [this] at hk
    · rintro ⟨hm, hk⟩
      refine ⟨hm, ?_⟩
      cases hin : inNames (subtreeList s.classes n) i.cls with
      | false => rfl
      | true => exact absurd ((inNames_subtree hf).mp hin) hk

/-- **EnumerateInstances / EnumerateInstanceNames (C) = exactly the instances of C's subtree** (on
    every reachable store), in store order -/
theorem C12_enumInstances_subtree_exact (s : State) (hr : Reachable s) (n : Name) (l : List Inst)
    (h : enumInsts s n = .ok l) :
    l.Sublist s.insts ∧
    ∀ i, i ∈ l ↔ i ∈ s.insts ∧ (ieq n i.cls = true ∨ ∃ t, Spec.Desc s.classes t n ∧ ieq t i.cls = true) := by
  have hf : Forest s.classes := reachable_forest hr
  unfold enumInsts at h
  by_cases h0 : hasClass s.classes n = true
  · simp only [h0] at h
    simp at h
    subst h
    refine ⟨List.filter_sublist, fun i => ?_⟩
    rw [List.mem_filter, inNames_subtree hf]
  · simp [h0] at h

/-- **`_get_superclass_names` terminates and returns only ancestors** on every reachable store:
    for an existing class the loop ends (no endless loop, no KeyError) and every collected name is a
    class the start class descends from. -/
theorem C12_superclass_names_terminate_sound (decls : List QDecl) (ops : List Op) (n : Name)
    (hn : hasClass (run { decls := decls } ops).1.classes n = true) :
    ∃ l, superNames (run { decls := decls } ops).1.classes n = .ok l ∧
      ∀ a ∈ l, ∃ x, findClass (run { decls := decls } ops).1.classes n = some x ∧
        Spec.Desc (run { decls := decls } ops).1.classes x.name a := by
  have hf := C12_forest_invariant decls ops
  generalize (run { decls := decls } ops).1.classes = cs at hn hf
  obtain ⟨l, hl⟩ := superChain_terminates hf n hn
  have hl' := superChain_mono_fuel _ _ _ hl
  refine ⟨l.reverse, by simp [superNames, hl'], ?_⟩
  intro a ha
  exact superChain_sound _ _ _ hl' a (by simpa using ha)

/-- **`_get_superclass_names` is complete** on every reachable store: every class the start class
    descends from appears in the returned list (up to case).  With the previous theorem: the list is
    exactly the ancestor line. -/
theorem C12_superclass_names_complete (s : State) (hr : Reachable s) (x : Cls) (hx : x ∈ s.classes)
    (a : Name) (hd : Spec.Desc s.classes x.name a) (l : List Name)
    (hl : superNames s.classes x.name = .ok l) : ∃ n ∈ l, ieq n a = true := by
  unfold superNames at hl
  cases hc : superChain (s.classes.length + 1) s.classes x.name with
  | error e => simp [hc] at hl
  | ok l' =>
    simp [hc] at hl; subst hl
    obtain ⟨n, hn, hi⟩ := superChain_complete (reachable_forest hr) hd _ _ hc
    exact ⟨n, by simpa using hn, hi⟩

/-! ### failed operations and queries change nothing -/

/-- an operation answered with an error leaves classes, instances and declarations untouched -/
theorem C12_failed_op_changes_nothing (s : State) (op : Op) (e : PyExc)
    (h : (step s op).2 = .err e) : (step s op).1 = s := by
  cases op with
  | addInst i => simp only [step] at h ⊢; split <;> simp_all
  | create c => simp only [step] at h ⊢; split <;> simp_all
  | add c => simp only [step] at h ⊢; split <;> simp_all
  | modify c => simp only [step] at h ⊢; split <;> simp_all
  | delete n => simp only [step] at h ⊢; split <;> simp_all
  | get n f => simp only [step]; split <;> rfl
  | enumNames cn d => simp only [step]; split <;> rfl
  | enumClasses cn d f => simp only [step]; split <;> rfl
  | supers n => simp only [step]; split <;> rfl
  | enumInsts n => simp only [step]; split <;> rfl
  | addDecl d => simp only [step] at h ⊢; split <;> simp_all
  | mofCreate c => simp only [step] at h ⊢; split <;> simp_all
  | isSub k sup => simp only [step]; split <;> rfl

/-- GetClass, the enumerations and `_get_superclass_names` never change the repository -/
theorem C12_queries_change_nothing (s : State) :
    (∀ n f, (step s (.get n f)).1 = s) ∧ (∀ cn d, (step s (.enumNames cn d)).1 = s) ∧
    (∀ cn d f, (step s (.enumClasses cn d f)).1 = s) ∧ (∀ n, (step s (.supers n)).1 = s) ∧
    (∀ n, (step s (.enumInsts n)).1 = s) := by
  refine ⟨?_, ?_, ?_, ?_, ?_⟩ <;> intros <;> simp only [step] <;> split <;> rfl

/-! ### resolution of one class against its (resolved) superclass

`resolveElems decls n own (some inherited)` is `_resolve_objects` for the properties (or methods) of a
new class named `n` whose superclass exposes `inherited`; the stored classes are built by it
(`resolveParts`), for CreateClass, add_cimobjects, ModifyClass and MOF compilation alike. -/

/-- concrete objects for the non-vacuity examples and the negation witnesses -/
def wOverride : QDecl :=
  { name := ['O','v','e','r','r','i','d','e'], ty := 1, scopes := [.prop, .ref, .meth], anyScope := false,
    tosub := some false, overr := some true, transl := none }
def wDesc : QDecl :=
  { name := ['D','e','s','c'], ty := 1, scopes := [], anyScope := true, tosub := some true,
    overr := some true, transl := none }
def wBaseP : Elem :=
  { name := ['p'], isMeth := false, ty := 2, origin := some ['B','a','s','e'], propagated := some false }
def wBaseQ : Elem :=
  { name := ['q'], isMeth := false, ty := 1, origin := some ['B','a','s','e'], propagated := some false }
/-- `[Override("p")] uint32 P;` -/
def wSubP : Elem :=
  { name := ['P'], isMeth := false, ty := 2,
    quals := [{ name := ['o','v','e','r','r','i','d','e'], ty := 1, val := .str ['p'] }] }
def wSubR : Elem := { name := ['r'], isMeth := false, ty := 0 }
def wBase : Cls :=
  { name := ['B','a','s','e'], super := none,
    quals := [{ name := ['D','e','s','c'], ty := 1, val := .str ['b'], propagated := some false,
                tosub := some true, overr := some true }],
    props := [wBaseP, wBaseQ], meths := [] }
def wSub : Cls := { name := ['S','u','b'], super := some ['b','A','S','E'], quals := [], props := [wSubP, wSubR], meths := [] }

/-- **Exposed elements = own ∪ (inherited \ redeclared)**, in that order, names compared
    case-insensitively (`Spec.exposedNames`). -/
theorem C12_exposed_names_exact (decls : List QDecl) (n : Name) (own inherited r : List Elem)
    (h : resolveElems decls n own (some inherited) = .ok r) :
    r.map (·.name) = Spec.exposedNames (own.map (·.name)) (inherited.map (·.name)) :=
  resolveElems_names h

example : ∃ r, resolveElems [wOverride, wDesc] wSub.name [wSubP, wSubR] (some [wBaseP, wBaseQ]) = .ok r ∧
    r.map (·.name) = [['P'], ['r'], ['q']] :=
  ⟨okOr (resolveElems [wOverride, wDesc] wSub.name [wSubP, wSubR] (some [wBaseP, wBaseQ])) [], by decide, by decide⟩

/-- a class without superclass exposes exactly its own elements -/
theorem C12_exposed_names_root (decls : List QDecl) (n : Name) (own r : List Elem)
    (h : resolveElems decls n own none = .ok r) : r.map (·.name) = own.map (·.name) :=
  resolveElems_names_root h

/-- **class_origin and propagated of every resolved element.**  Each element of the resolved class is
    (1) newly introduced: class_origin = the class itself, propagated = False; or
    (2) an own element overriding the superclass element named by its Override qualifier: class_origin =
        that element's class_origin (so, by induction over the creation history, the class that first
        introduced it); propagated = True — this is the open defect C12-override-marked-propagated,
        the property demands False; or
    (3) inherited and not redeclared: a copy of the superclass element with propagated = True, the same
        class_origin, and its qualifiers filtered by flavor (`copyElem`). -/
theorem C12_origin_and_propagated (decls : List QDecl) (n : Name) (own inherited r : List Elem)
    (h : resolveElems decls n own (some inherited) = .ok r) :
    ∀ e ∈ r,
      (∃ d ∈ own, e.name = d.name ∧ hasElem inherited d.name = false ∧ e.origin = some n ∧
          e.propagated = some false) ∨
      (∃ d ∈ own, e.name = d.name ∧ hasElem inherited d.name = true ∧
          ∃ oname s, keyOfVal (overrideVal d.quals) = .ok oname ∧ findElem inherited oname = some s ∧
            e.origin = s.origin ∧ e.propagated = some true) ∨
      (∃ p ∈ inherited, hasElem own p.name = false ∧ e = copyElem p) := by
  unfold resolveElems at h
  simp only at h
  cases hm : mapE (resolveElem decls n inherited) own with
  | error err => simp [hm] at h
  | ok es =>
    simp [hm] at h; subst h
    intro e he
    rcases List.mem_append.mp he with he | he
    · obtain ⟨d, hd, hde⟩ := mapE_ok_mem hm e he
      obtain ⟨hn, hcase⟩ := resolveElem_ok hde
      rcases hcase with ⟨h1, h2, h3⟩ | ⟨h1, _, oname, s0, hk, hf, ho, hp⟩
      · exact Or.inl ⟨d, hd, hn, h1, h2, h3⟩
      · exact Or.inr (Or.inl ⟨d, hd, hn, h1, oname, s0, hk, hf, ho, hp⟩)
    · obtain ⟨p, hp, rfl⟩ := List.mem_map.mp he
      obtain ⟨hp1, hp2⟩ := List.mem_filter.mp hp
      exact Or.inr (Or.inr ⟨p, hp1, by simpa using hp2, rfl⟩)


/-- **Whatever class_origin / propagated the client left on a submitted element is ignored**: the
    resolved element does not depend on them (a stale class_origin from a GetClass of another class
    cannot survive CreateClass / ModifyClass / add_cimobjects). -/
theorem C12_client_origin_propagated_ignored (decls : List QDecl) (n : Name) (e : Elem)
    (o : Option Name) (p : Option Bool) :
    (∀ supE, resolveElem decls n supE { e with origin := o, propagated := p } = resolveElem decls n supE e) ∧
    setNewElem decls n { e with origin := o, propagated := p } none = setNewElem decls n e none := by
  have h : ∀ inh, setNewElem decls n { e with origin := o, propagated := p } inh = setNewElem decls n e inh := by
    intro inh; cases inh <;> rfl
  exact ⟨fun supE => by unfold resolveElem; simp only [h, overrideMismatch]; rfl, h none⟩

/-- the cloning scenario: an element submitted with a stale class_origin (`Base`, from a GetClass of
    another class) and propagated=True resolves exactly like the clean declaration; a new element of
    `Sub` gets class_origin `Sub` -/
example : resolveElems [wOverride, wDesc] wSub.name
      [{ wSubR with origin := some ['B','a','s','e'], propagated := some true }] (some [wBaseP]) =
    resolveElems [wOverride, wDesc] wSub.name [wSubR] (some [wBaseP]) ∧
    (okOr (resolveElems [wOverride, wDesc] wSub.name
      [{ wSubR with origin := some ['B','a','s','e'], propagated := some true }] (some [wBaseP])) []).map
        (fun e => (e.name, e.origin, e.propagated)) =
      [(['r'], some ['S','u','b'], some false), (['p'], some ['B','a','s','e'], some true)] := by decide

/- Full statement demanded by the property:
     ∀ e ∈ r, e.propagated = some true ↔ (the class does not declare e)
   It fails on the code (and on the model mirroring it) for overriding elements; proved for classes
   without overriding elements, negation witness below. -/
/-- **propagated ⇔ not redeclared — partial**: holds when the class overrides nothing. -/
theorem C12_propagated_iff_not_redeclared_partial (decls : List QDecl) (n : Name)
    (own inherited r : List Elem) (h : resolveElems decls n own (some inherited) = .ok r)
    (hno : ∀ d ∈ own, hasElem inherited d.name = false) :
    ∀ e ∈ r, (e.propagated = some true ↔ hasElem own e.name = false) := by
  intro e he
  rcases C12_origin_and_propagated decls n own inherited r h e he with
    ⟨d, hd, hn, _, _, hp⟩ | ⟨d, hd, _, h1, _⟩ | ⟨p, _, hp2, rfl⟩
  · have : hasElem own e.name = true := by
      simp only [hasElem, List.any_eq_true]; exact ⟨d, hd, by rw [hn]; exact ieq_refl _⟩
    simp [hp, this]
  · have := hno d hd; simp [h1] at this
  · simp [copyElem, hp2]

example : ∃ r, resolveElems [wOverride, wDesc] wSub.name [wSubR] (some [wBaseP, wBaseQ]) = .ok r ∧
    (∀ d ∈ [wSubR], hasElem [wBaseP, wBaseQ] d.name = false) :=
  ⟨okOr (resolveElems [wOverride, wDesc] wSub.name [wSubR] (some [wBaseP, wBaseQ])) [], by decide, by decide⟩

/-- negation witness (known finding C12-override-marked-propagated): `Sub` declares `P` overriding
    `Base.p`, yet the resolved `P` is marked propagated -/
theorem C12_propagated_iff_not_redeclared_fails_at :
    ¬ (∀ r, resolveElems [wOverride, wDesc] wSub.name [wSubP, wSubR] (some [wBaseP, wBaseQ]) = .ok r →
        ∀ e ∈ r, (e.propagated = some true ↔ hasElem [wSubP, wSubR] e.name = false)) := by
  intro h
  have := h (okOr (resolveElems [wOverride, wDesc] wSub.name [wSubP, wSubR] (some [wBaseP, wBaseQ])) [])
    (by decide)
  revert this
  decide

/-- **Inherited, not redeclared elements carry exactly the ToSubclass qualifiers of the superclass
    element, all marked propagated** (Restricted ones stay behind). -/
theorem C12_inherited_quals_per_flavor (p : Elem) (q : Qual) :
    q ∈ (copyElem p).quals ↔ ∃ q0 ∈ p.quals, q0.tosub ≠ some false ∧ q = { q0 with propagated := some true } := by
  simp only [copyElem, copyQuals, List.mem_map, List.mem_filter]
  constructor
  · rintro ⟨q0, ⟨h1, h2⟩, rfl⟩; exact ⟨q0, h1, by simpa using h2, rfl⟩
  · rintro ⟨q0, h1, h2, rfl⟩; exact ⟨q0, ⟨h1, by simpa using h2⟩, rfl⟩

/-- own qualifiers of a newly introduced element: same names and values, propagated = False, flavors
    completed from the qualifier declaration (own value, else declaration, else True) -/
theorem C12_new_element_quals_initialised (decls : List QDecl) (q q' : Qual) (h : initQual decls q = .ok q') :
    q'.name = q.name ∧ q'.val = q.val ∧ q'.ty = q.ty ∧ q'.propagated = some false ∧
    ∃ d, findDecl decls q.name = some d ∧ q'.tosub = fillFlavor q.tosub d.tosub ∧
      q'.overr = fillFlavor q.overr d.overr ∧ (fillFlavor q.tosub d.tosub).isSome := by
  unfold initQual at h
  cases hd : findDecl decls q.name with
  | none => simp [hd] at h
  | some d =>
    simp [hd] at h; subst h
    refine ⟨rfl, rfl, rfl, rfl, d, rfl, rfl, rfl, ?_⟩
    cases q.tosub <;> simp [fillFlavor]

/-- **Qualifiers of an overriding element propagate per their flavors**: its qualifier dictionary has
    the keys of its own qualifiers followed by the keys of the overridden element's ToSubclass
    qualifiers that it does not declare itself (`Spec.inheritedQuals`); Restricted ones are not
    inherited.  (`inh` is a NocaseDict: pairwise different keys.) -/
theorem C12_overriding_element_quals_per_flavor (decls : List QDecl) (own inh r : List Qual)
    (hpw : List.Pairwise (fun a b => ieq a.name b.name = false) inh)
    (h : resolveQuals decls own inh true = .ok r) :
    r.map lname = own.map lname ++ (Spec.inheritedQuals own inh).map lname :=
  resolveQuals_override_lnames hpw h

example : ∃ r, resolveQuals [wOverride, wDesc] wSubP.quals wBase.quals true = .ok r ∧
    r.map (·.name) = [['o','v','e','r','r','i','d','e'], ['D','e','s','c']] ∧
    List.Pairwise (fun a b => ieq a.name b.name = false) wBase.quals :=
  ⟨okOr (resolveQuals [wOverride, wDesc] wSubP.quals wBase.quals true) [], by decide, by decide, by decide⟩

/-- **The nearest declaration wins** (qualifiers): every qualifier an overriding element declares
    itself is in the resolved dictionary with its own value and type, whatever the overridden element
    carries (`Holds`; keys of the own dictionary pairwise different). -/
theorem C12_own_qualifier_value_wins (decls : List QDecl) (own inh r : List Qual)
    (hpw : List.Pairwise (fun a b => ieq a.name b.name = false) own)
    (h : resolveQuals decls own inh true = .ok r) : ∀ q ∈ own, Holds r q :=
  resolveQuals_own_wins hpw h

/- Full statement demanded by the property (qualifiers propagate per their flavors, also at class
   level):   names of (resolved class).quals = names of own quals ++ names of Spec.inheritedQuals own sup.quals
   It fails on the code: `_resolve_class` resolves class-level qualifiers with propagate=False. -/
/-- **class-level qualifiers — partial**: exact when the superclass has no ToSubclass class qualifier
    that the class leaves out (then nothing is to be inherited). -/
theorem C12_class_qualifiers_per_flavor_partial (decls : List QDecl) (c r : Cls) (sup : Cls)
    (h : resolveParts decls c (some sup) = .ok r)
    (hnone : Spec.inheritedQuals c.quals sup.quals = []) :
    r.quals.map (·.name) = c.quals.map (·.name) ++ (Spec.inheritedQuals c.quals sup.quals).map (·.name) := by
  obtain ⟨cq, ps, ms, hq, _, _, rfl⟩ := resolveParts_ok h
  simp only [hnone, List.map_nil, List.append_nil]
  simp only [resolveQuals] at hq
  exact mapE_ok_map (·.name) (·.name) (fun a b hab => by
    unfold initQual at hab
    cases hd : findDecl decls a.name with
    | none => simp [hd] at hab
    | some d => simp [hd] at hab; subst hab; rfl) hq

example : ∃ r, resolveParts [wOverride, wDesc] { wSub with quals := wBase.quals } (some wBase) = .ok r ∧
    Spec.inheritedQuals wBase.quals wBase.quals = [] :=
  ⟨okOr (resolveParts [wOverride, wDesc] { wSub with quals := wBase.quals } (some wBase)) wSub, by decide, by decide⟩

/-- negation witness (known finding C12-classqual-not-inherited): `Base` carries the ToSubclass
    qualifier `Desc`, `Sub : Base` does not repeat it, and the resolved `Sub` has no class qualifier -/
theorem C12_class_qualifiers_per_flavor_fails_at :
    ¬ (∀ r, resolveParts [wOverride, wDesc] wSub (some wBase) = .ok r →
        r.quals.map (·.name) = wSub.quals.map (·.name) ++
          (Spec.inheritedQuals wSub.quals wBase.quals).map (·.name)) := by
  intro h
  have := h (okOr (resolveParts [wOverride, wDesc] wSub (some wBase)) wSub) (by decide)
  revert this
  decide

/-! ### class_origin over whole histories -/

/-- **class_origin names the ancestor that first introduced the element** — for ALL histories of
    CreateClass / add_cimobjects / ModifyClass / DeleteClass / queries from the empty repository
    (accepted or refused operations alike) whose submitted declarations use Override only to name the
    element that carries it (`OpWF`; an Override naming a *different* superclass element is outside
    the property):  for every stored class `c` and every property (method) `e` it exposes there is a
    stored class `a` with  `e.class_origin = a.name`,  `a` is `c` itself or an ancestor of `c`
    (`Spec.Desc`),  `a` exposes an element of that name, and `a`'s own superclass does not — i.e. `a`
    is the highest class of `c`'s ancestor line that has the element (`OriginOK`/`Introduced`). -/
theorem C12_class_origin_names_introducer (decls : List QDecl) (ops : List Op)
    (hwf : ∀ op ∈ ops, OpWF op) :
    OriginOK (·.props) (run { decls := decls } ops).1.classes ∧
    OriginOK (·.meths) (run { decls := decls } ops).1.classes :=
  ⟨originOK_run hsel_props (fun _ h => h.1) ops .nil (originOK_empty _) hwf,
   originOK_run hsel_meths (fun _ h => h.2) ops .nil (originOK_empty _) hwf⟩

/-- the statement unfolded for properties, as a reader would expect it -/
theorem C12_class_origin_unfolded (decls : List QDecl) (ops : List Op) (hwf : ∀ op ∈ ops, OpWF op)
    (c : Cls) (hc : c ∈ (run { decls := decls } ops).1.classes) (e : Elem) (he : e ∈ c.props) :
    ∃ a, e.origin = some a.name ∧ a ∈ (run { decls := decls } ops).1.classes ∧
      (a = c ∨ Spec.Desc (run { decls := decls } ops).1.classes c.name a.name) ∧
      hasElem a.props e.name = true ∧
      ∀ p ∈ (run { decls := decls } ops).1.classes, Spec.IsChild a p.name → hasElem p.props e.name = false :=
  (C12_class_origin_names_introducer decls ops hwf).1 c hc e he

/-! ### non-vacuity of the history theorems: a concrete accepted history -/

/-- CreateClass(Base); CreateClass(Sub : bASE, overriding p); an instance of `SUB`; a second root -/
def wHistory : List Op :=
  [.create { wBase with quals := [{ name := ['D','e','s','c'], ty := 1, val := .str ['b'] }] },
   .create wSub, .addInst { cls := ['S','U','B'], key := 1 },
   .create { name := ['O','t','h','e','r'], super := none, quals := [], props := [], meths := [] },
   .addInst { cls := ['o','t','h','e','r'], key := 2 }]

def wState : State := (run { decls := [wOverride, wDesc] } wHistory).1

example : Reachable wState := ⟨_, _, rfl⟩
example : ∀ op ∈ wHistory, OpWF op := by decide
example : wState.classes.map (·.name) = [['B','a','s','e'], ['S','u','b'], ['O','t','h','e','r']] := by decide
example : subNames wState.classes (some ['b','a','s','e']) true = [['S','u','b']] := by decide
example : superNames wState.classes ['s','u','b'] = .ok [['b','A','S','E']] := by decide
example : enumInsts wState ['B','A','S','E'] = .ok [{ cls := ['S','U','B'], key := 1 }] := by decide
/-- DeleteClass(BASE) is accepted and removes Base, Sub and Sub's instance, nothing else -/
example : ∃ s', deleteClass wState ['B','A','S','E'] = .ok s' ∧
    s'.classes.map (·.name) = [['O','t','h','e','r']] ∧ s'.insts = [{ cls := ['o','t','h','e','r'], key := 2 }] :=
  ⟨okOr (deleteClass wState ['B','A','S','E']) wState, by decide, by decide, by decide⟩
/-- a refused operation (duplicate CreateClass in another case) is an error and changes nothing -/
example : (step wState (.create { wSub with name := ['s','U','B'] })).2 = .err (.cimError 11) := by decide

/-! ### several namespaces (`Repo`, `rstep`, `rrun`) -/

/-- status codes of the namespace functions and of the MOF connection, re-extracted on every run -/
theorem C12_namespace_status_codes_pinned :
    raisesValidateNamespace = [3] ∧ raisesAddNamespace = [11, 11] ∧ raisesRemoveNamespace = [6, 3, 20] ∧
    raisesMofCreateClass = [10, 4, 4, 4, 4] ∧ CIM_ERR_INVALID_NAMESPACE = 3 ∧
    CIM_ERR_NAMESPACE_NOT_EMPTY = 20 := by
  decide

/-- **Every namespace is a repository of its own**: after ANY repository history (operations in any
    namespaces and spellings, add_namespace / remove_namespace, accepted or refused) from the initial
    repository of a faked connection, the content of every namespace is a state that a
    single-namespace history reaches — so every `Reachable` theorem of this file (forest invariant,
    exact enumerations, DeleteClass, EnumerateInstances, superclass chain, …) holds in every
    namespace.  This discharges the one-namespace restriction of the model. -/
theorem C12_namespace_states_reachable (d : Name) (ops : List ROp) :
    ∀ e ∈ (rrun (initRepo d) ops).1.nss, Reachable e.2 :=
  rrun_inv (P := AllReachable) (fun r op h => allReachable_rstep h op) ops _ (initRepo_inv d).2

/-- … in particular the class store of every namespace is a forest -/
theorem C12_namespace_forest (d : Name) (ops : List ROp) :
    ∀ e ∈ (rrun (initRepo d) ops).1.nss, Forest e.2.classes :=
  fun e he => reachable_forest (C12_namespace_states_reachable d ops e he)

/-- namespace names stay pairwise different up to case (slashes are stripped on entry) -/
theorem C12_namespace_names_unique (d : Name) (ops : List ROp) : NsUnique (rrun (initRepo d) ops).1 :=
  rrun_inv (P := NsUnique) (fun r op h => nsUnique_rstep h op) ops _ (initRepo_inv d).1

/-- **Frame property**: an operation addressed to namespace `ns` (any spelling) changes at most the
    namespace it names: the namespace stored under key `k` afterwards holds `step s op` if `ns`
    spells `k`, and exactly what it held before otherwise. -/
theorem C12_namespace_frame (d : Name) (ops : List ROp) (k : Name) (s : State)
    (hk : (k, s) ∈ (rrun (initRepo d) ops).1.nss) (ns : Name) (op : Op) :
    (k, if ieq k (stripSlash ns) then (step s op).1 else s) ∈
      (rstep (rrun (initRepo d) ops).1 (.inNs ns op)).1.nss :=
  rstep_inNs_entry (C12_namespace_names_unique d ops) hk ns op

/-- **Independence of namespaces**: between namespace creations/removals, the final content of a
    namespace is the single-namespace run of exactly the operations addressed to it — operations on
    other namespaces are invisible. -/
theorem C12_namespace_independence (r : Repo) (hu : NsUnique r) (ops : List ROp)
    (hall : ∀ o ∈ ops, ∃ ns op, o = .inNs ns op) (k : Name) (s : State) (hk : (k, s) ∈ r.nss) :
    (k, (run s (projectOps k ops)).1) ∈ (rrun r ops).1.nss :=
  rrun_projection ops r hu hall k s hk

/-- an operation on a namespace that does not exist is refused (CIM_ERR_INVALID_NAMESPACE for the
    provider operations and add_cimobjects) and changes nothing -/
theorem C12_missing_namespace_refused (r : Repo) (ns : Name) (op : Op) (h : findNs r ns = none) :
    rstep r (.inNs ns op) = (r, .err (missingNsError op)) := by
  simp [rstep, h]

/-- add_namespace: refused with ALREADY_EXISTS iff a namespace of that name (up to case and
    slashes) exists, otherwise appends one empty namespace and touches nothing else -/
theorem C12_add_namespace_exact (r : Repo) (ns : Name) :
    (hasNs r ns = true → rstep r (.addNs ns) = (r, .err (.cimError CIM_ERR_ALREADY_EXISTS))) ∧
    (hasNs r ns = false → rstep r (.addNs ns) = ({ nss := r.nss ++ [(stripSlash ns, {})] }, .done)) := by
  constructor <;> intro h <;> simp [rstep, h]

/-- remove_namespace succeeds only for an existing, completely empty namespace and removes exactly
    it; NOT_FOUND / NAMESPACE_NOT_EMPTY otherwise, with the repository unchanged -/
theorem C12_remove_namespace_exact (r : Repo) (ns : Name) :
    (findNs r ns = none → rstep r (.removeNs ns) = (r, .err (.cimError CIM_ERR_NOT_FOUND))) ∧
    (∀ s, findNs r ns = some s → isEmptyState s = false →
        rstep r (.removeNs ns) = (r, .err (.cimError CIM_ERR_NAMESPACE_NOT_EMPTY))) ∧
    (∀ s, findNs r ns = some s → isEmptyState s = true →
        rstep r (.removeNs ns) =
          ({ nss := r.nss.filter (fun e => !(ieq e.1 (stripSlash ns))) }, .done)) := by
  refine ⟨fun h => by simp [rstep, h], fun s h he => by simp [rstep, h, he],
    fun s h he => by simp [rstep, h, he]⟩

/-- a concrete repository history: a second namespace (spelled three ways), the same class name in
    both, a duplicate namespace, a missing namespace, MOF-style creation, `is_subclass`, an empty
    namespace added and removed, removal of a non-empty one refused -/
def wPlain : Cls :=
  { name := ['B','a','s','e'], super := none, quals := [], props := [wBaseQ], meths := [] }
def wRepoHistory : List ROp :=
  [.addNs ['/','N','2','/'], .inNs ['n','2'] (.create wPlain), .addNs ['N','2'],
   .inNs ['a'] (.mofCreate wPlain), .inNs ['n','o'] (.create wPlain),
   .inNs ['A','/'] (.mofCreate { wPlain with name := ['S'], super := some ['B','A','S','E'], props := [] }),
   .inNs ['/','a'] (.isSub ['s'] ['b','a','s','e']), .inNs ['N','2','/'] (.isSub ['s'] ['b','a','s','e']),
   .addNs ['t'], .removeNs ['T'], .removeNs ['n','2']]

example : (rrun (initRepo ['a']) wRepoHistory).2 =
    [.done, .done, .err (.cimError 11), .done, .err (.cimError 3), .done, .flag true, .err .keyError,
     .done, .done, .err (.cimError 20)] := by decide
example : (rrun (initRepo ['a']) wRepoHistory).1.nss.map (fun e => (e.1, e.2.classes.map (·.name))) =
    [(['a'], [['B','a','s','e'], ['S']]), (['N','2'], [['B','a','s','e']])] := by decide
example : ∀ o ∈ [ROp.inNs ['n','2'] (.create wPlain), .inNs ['a'] (.mofCreate wPlain)],
    ∃ ns op, o = ROp.inNs ns op := by
  intro o ho; simp at ho; rcases ho with rfl | rfl <;> exact ⟨_, _, rfl⟩

/-! ### the MOF compiler's connection and `is_subclass` -/

/-- **Classes built through the MOF compiler's connection are the classes CreateClass builds**:
    `_MockMOFWBEMConnection.CreateClass` accepts exactly the declarations CreateClass accepts and
    leaves exactly the same repository (its own superclass / dependency pre-checks only change which
    error is reported first). -/
theorem C12_mof_create_agrees (s s' : State) (c : Cls) :
    mofCreateClass s c = .ok s' ↔ createClass s c = .ok s' :=
  ⟨mofCreateClass_ok, createClass_mof⟩

example : ∃ s', mofCreateClass wState { wPlain with name := ['N','e','w'] } = .ok s' ∧
    createClass wState { wPlain with name := ['N','e','w'] } = .ok s' :=
  ⟨okOr (createClass wState { wPlain with name := ['N','e','w'] }) wState, by decide, by decide⟩

/-- **`is_subclass` is exact** on every reachable store: for a stored class it terminates, answers
    True iff the class is named like `sup` or descends from it, False iff not and `sup` exists,
    KeyError iff not and `sup` does not exist. -/
theorem C12_is_subclass_exact (s : State) (hr : Reachable s) (x : Cls) (hx : x ∈ s.classes) (sup : Name) :
    ((ieq x.name sup = true ∨ Spec.Desc s.classes x.name sup) →
        isSubclass (s.classes.length + 1) s.classes x.name sup = .ok true) ∧
    (¬ (ieq x.name sup = true ∨ Spec.Desc s.classes x.name sup) → hasClass s.classes sup = true →
        isSubclass (s.classes.length + 1) s.classes x.name sup = .ok false) ∧
    (¬ (ieq x.name sup = true ∨ Spec.Desc s.classes x.name sup) → hasClass s.classes sup = false →
        isSubclass (s.classes.length + 1) s.classes x.name sup = .error .keyError) :=
  isSubclass_exact (reachable_forest hr) (reachable_norm hr) hx sup

example : isSubclass 4 wState.classes ['S','U','B'] ['b','a','s','e'] = .ok true ∧
    isSubclass 4 wState.classes ['b','a','s','e'] ['S','u','b'] = .ok false ∧
    isSubclass 4 wState.classes ['S','u','b'] ['n','o'] = .error .keyError := by decide

/-- **EnumerateClassNames() without ClassName**: DeepInheritance=False returns exactly the classes
    without superclass, DeepInheritance=True exactly all stored classes (every reachable store) -/
theorem C12_enumerate_all_exact (s : State) (hr : Reachable s) (x : Name) :
    (x ∈ subNames s.classes none false ↔ ∃ c ∈ s.classes, c.name = x ∧ c.super = none) ∧
    (x ∈ subNames s.classes none true ↔ ∃ c ∈ s.classes, c.name = x) :=
  ⟨by simp only [subNames]; exact mem_children_none,
   mem_subNames_all (reachable_forest hr) (reachable_norm hr)⟩

example : subNames wState.classes none true = [['B','a','s','e'], ['O','t','h','e','r'], ['S','u','b']] ∧
    subNames wState.classes none false = [['B','a','s','e'], ['O','t','h','e','r']] := by decide


/-! ### extension round, theorem-only part -/

/-- **A class exposes the properties and methods of ALL its ancestors** — for every history: in every
    reachable store, if `c` descends from `a` then every property (method) `a` exposes is exposed by
    `c` under the same name up to case (history invariant `ChildExposes`, lifted along `Spec.Desc`). -/
theorem C12_exposes_all_ancestor_elements (s : State) (hr : Reachable s) (c a : Cls)
    (hc : c ∈ s.classes) (ha : a ∈ s.classes) (hd : Spec.Desc s.classes c.name a.name) :
    (∀ p ∈ a.props, hasElem c.props p.name = true) ∧ (∀ m ∈ a.meths, hasElem c.meths m.name = true) :=
  ⟨exposes_ancestors (reachable_forest hr) (reachable_childExposes hr).1 hd c hc rfl a ha rfl,
   exposes_ancestors (reachable_forest hr) (reachable_childExposes hr).2 hd c hc rfl a ha rfl⟩

example : Spec.Desc wState.classes ['S','u','b'] ['B','a','s','e'] ∧
    (wState.classes.map (fun c => (c.name, c.props.map (·.name)))) =
      [(['B','a','s','e'], [['p'], ['q']]), (['S','u','b'], [['P'], ['r'], ['q']]), (['O','t','h','e','r'], [])] :=
  ⟨(mem_subNames_deep (reachable_forest ⟨_, _, rfl⟩)).mp (by decide), by decide⟩

/-- **Every qualifier of an overriding element is accounted for** (values and propagated flags of the
    inherited ones included): each entry of the resolved dictionary either stems from the element's
    own declaration (same key, value, type: `FromOwn`) or IS the overridden element's qualifier with
    `propagated := True`, for a ToSubclass qualifier the element does not declare (`CopyOf`); nothing
    else appears.  With `C12_overriding_element_quals_per_flavor` (keys) and
    `C12_own_qualifier_value_wins` this fixes the dictionary up to the flavors of own entries. -/
theorem C12_overriding_element_quals_accounted (decls : List QDecl) (own inh r : List Qual)
    (hpo : List.Pairwise (fun a b => ieq a.name b.name = false) own)
    (hpi : List.Pairwise (fun a b => ieq a.name b.name = false) inh)
    (h : resolveQuals decls own inh true = .ok r) :
    ∀ x ∈ r, FromOwn own x ∨ CopyOf own inh x :=
  resolveQuals_form hpo hpi h

example : okOr (resolveQuals [wOverride, wDesc] wSubP.quals wBase.quals true) [] =
    [{ name := ['o','v','e','r','r','i','d','e'], ty := 1, val := .str ['p'], propagated := some false,
       tosub := some false, overr := some true },
     { name := ['D','e','s','c'], ty := 1, val := .str ['b'], propagated := some true,
       tosub := some true, overr := some true }] := by decide

/-- **The enumerations list every class once**: on every reachable store
    EnumerateClassNames(C, DeepInheritance=True/False) has no duplicates (with
    `C12_enumerate_subtree_exact` / `C12_enumerate_children_exact`: the returned list IS the set of
    descendants / children). -/
theorem C12_enumerate_no_duplicates (s : State) (hr : Reachable s) (a : Name) (deep : Bool) :
    (subNames s.classes (some a) deep).Nodup := by
  have hf := reachable_forest hr
  cases deep with
  | true => simp only [subNames, if_true]; exact subNamesDeep_nodup hf _ a
  | false =>
    simp only [subNames, Bool.false_eq_true, if_false]
    have := subNamesDeep_nodup hf 1 a
    simp only [subNamesDeep] at this
    exact (List.nodup_append.mp this).1

example : subNames wState.classes (some ['b','A','s','e']) true = [['S','u','b']] := by decide

/-! ### creation order, ModifyClass, dictionaries -/

/-- **Creation order**: whichever of CreateClass / add_cimobjects / the MOF connection accepts a class,
    its name was new (up to case), its superclass — if it names one — was already stored, and the
    store grows by exactly one class carrying the submitted name and the (normalised) superclass;
    instances and declarations are untouched. -/
theorem C12_creation_requires_superclass (s s' : State) (c : Cls)
    (h : createClass s c = .ok s' ∨ addClass s c = .ok s' ∨ mofCreateClass s c = .ok s') :
    hasClass s.classes c.name = false ∧
    (∀ sn, c.super = some sn → sn ≠ [] → hasClass s.classes sn = true) ∧
    ∃ r, s'.classes = s.classes ++ [r] ∧ r.name = c.name ∧ r.super = normSuper c.super ∧
      s'.insts = s.insts ∧ s'.decls = s.decls := by
  have key : ∀ r, resolveClass s.decls s.classes c = .ok r → s' = { s with classes := s.classes ++ [r] } →
      hasClass s.classes c.name = false → _ := fun r hr hs hfresh => by
    obtain ⟨hn, hsup, hp⟩ := resolveClass_ok hr
    exact (⟨hfresh, hp, r, by rw [hs], hn, hsup, by rw [hs], by rw [hs]⟩ :
      hasClass s.classes c.name = false ∧
      (∀ sn, c.super = some sn → sn ≠ [] → hasClass s.classes sn = true) ∧
      ∃ r, s'.classes = s.classes ++ [r] ∧ r.name = c.name ∧ r.super = normSuper c.super ∧
        s'.insts = s.insts ∧ s'.decls = s.decls)
  rcases h with h | h | h
  · obtain ⟨r, hr, hs, hf⟩ := createClass_ok h; exact key r hr hs hf
  · obtain ⟨r, hr, hs, hf⟩ := addClass_ok h; exact key r hr hs hf
  · obtain ⟨r, hr, hs, hf⟩ := createClass_ok (mofCreateClass_ok h); exact key r hr hs hf

example : ∃ s', addClass wState { wPlain with name := ['N','e','w'], super := some ['o','T','H','E','R'], props := [] } = .ok s' :=
  ⟨okOr (addClass wState { wPlain with name := ['N','e','w'], super := some ['o','T','H','E','R'], props := [] }) wState,
   by decide⟩

/-- a class whose name (in any case) is already stored is refused by CreateClass with ALREADY_EXISTS -/
theorem C12_duplicate_class_refused (s : State) (c : Cls) (h : hasClass s.classes c.name = true) :
    createClass s c = .error (.cimError CIM_ERR_ALREADY_EXISTS) := by
  simp [createClass, h]

/-- **ModifyClass keeps the hierarchy**: it is accepted only for an existing class without
    subclasses and without instances, whose submitted superclass is the stored one up to case; the
    store keeps its length and order, every other class is untouched, the class itself is replaced by
    the newly resolved one (same name up to case), instances and declarations are untouched. -/
theorem C12_modifyClass_keeps_hierarchy (s s' : State) (c : Cls) (h : modifyClass s c = .ok s') :
    ∃ orig r, findClass s.classes c.name = some orig ∧ resolveClass s.decls s.classes c = .ok r ∧
      r.name = c.name ∧ r.super = normSuper c.super ∧ SuperCompat orig.super r.super ∧
      children s.classes (some c.name) = [] ∧ (∀ i ∈ s.insts, ieq i.cls c.name = false) ∧
      s'.classes = s.classes.map (fun x => if ieq x.name c.name then r else x) ∧
      s'.insts = s.insts ∧ s'.decls = s.decls := by
  obtain ⟨orig, r, hfind, hr, hs, hleaf, hinst, hcompat⟩ := modifyClass_ok h
  obtain ⟨hn, hsup, _⟩ := resolveClass_ok hr
  refine ⟨orig, r, hfind, hr, hn, hsup, by rw [hsup]; exact hcompat, hleaf, hinst, ?_, by rw [hs], by rw [hs]⟩
  rw [hs]; simp only [replaceClass, hn]

def wS1 : State := (run { decls := [] } [.create wPlain]).1
example : ∃ s', modifyClass wS1 { wPlain with name := ['b','A','S','E'], props := [wSubR] } = .ok s' ∧
    s'.classes.map (fun c => (c.name, c.props.map (·.name))) = [(['b','A','S','E'], [['r']])] :=
  ⟨okOr (modifyClass wS1 { wPlain with name := ['b','A','S','E'], props := [wSubR] }) wS1, by decide, by decide⟩

/-- **The stores hold dictionaries** (the justification for modelling NocaseDicts as lists): for every
    history whose submitted classes are proper dictionary structures (`OpKeys`: what CIMClass objects
    are), every stored class has pairwise different (up to case) class-qualifier names, property
    names, method names, and qualifier names on each property and method. -/
theorem C12_store_keys_unique (decls : List QDecl) (ops : List Op) (hall : ∀ op ∈ ops, OpKeys op) :
    ∀ c ∈ (run { decls := decls } ops).1.classes, ClsKeys c :=
  storeKeys_run ops (by intro x hx; simp at hx) hall

example : ∀ op ∈ wHistory, OpKeys op := by
  intro op hop
  simp only [wHistory, List.mem_cons, List.mem_nil_iff, or_false] at hop
  rcases hop with rfl | rfl | rfl | rfl | rfl <;> simp only [OpKeys, ClsKeys, KeysQ, KeysE] <;> decide

/-- **The qualifier dictionary of an overriding element, exactly** — the three qualifier theorems
    with their key-uniqueness hypotheses discharged by `C12_store_keys_unique`: whenever a class `c`
    (a proper dictionary structure) is resolved against ANY store reached by a history of proper
    submissions, for every own element `d` overriding the stored element `sE` of a stored class `P`:
    keys = own ++ not-redeclared ToSubclass ones; every own qualifier keeps its value and type; every
    entry is own or the propagated copy of such an inherited qualifier. -/
theorem C12_overriding_element_quals_exact (decls : List QDecl) (ops : List Op)
    (hall : ∀ op ∈ ops, OpKeys op) (c : Cls) (hc : ClsKeys c) (d : Elem) (hd : d ∈ c.props ∨ d ∈ c.meths)
    (P : Cls) (hP : P ∈ (run { decls := decls } ops).1.classes) (sE : Elem)
    (hsE : sE ∈ P.props ∨ sE ∈ P.meths) (r : List Qual)
    (h : resolveQuals (run { decls := decls } ops).1.decls d.quals sE.quals true = .ok r) :
    r.map lname = d.quals.map lname ++ (Spec.inheritedQuals d.quals sE.quals).map lname ∧
    (∀ q ∈ d.quals, Holds r q) ∧ (∀ x ∈ r, FromOwn d.quals x ∨ CopyOf d.quals sE.quals x) := by
  have hPk := C12_store_keys_unique decls ops hall P hP
  have hinh : KeysQ sE.quals := by
    rcases hsE with h1 | h1
    · exact hPk.2.1.2 sE h1
    · exact hPk.2.2.2 sE h1
  have hown : KeysQ d.quals := by
    rcases hd with h1 | h1
    · exact hc.2.1.2 d h1
    · exact hc.2.2.2 d h1
  exact ⟨resolveQuals_override_lnames hinh h, resolveQuals_own_wins hown h, resolveQuals_form hown hinh h⟩

/-- **EnumerateClassNames() without class name lists every class once** (every reachable store,
    DeepInheritance or not); with `C12_enumerate_all_exact`: the returned list IS the class set. -/
theorem C12_enumerate_all_no_duplicates (s : State) (hr : Reachable s) (deep : Bool) :
    (subNames s.classes none deep).Nodup := by
  have hf := reachable_forest hr
  cases deep with
  | true => simp only [subNames, if_true]; exact all_nodup hf _
  | false =>
    simp only [subNames, Bool.false_eq_true, if_false]
    have := all_nodup hf 0
    simp only [subNamesDeep] at this
    exact (List.nodup_append.mp this).1

example : (subNames wState.classes none true).Nodup := by decide

/-- **Stored instances are pairwise different, and EnumerateInstances lists none twice**: a second
    instance with the same path (class name up to case, key) is refused by add_cimobjects; on every
    reachable store the instance store and every EnumerateInstance(Name)s result have no two entries
    with the same path. -/
theorem C12_enumInstances_no_duplicates (s : State) (hr : Reachable s) (n : Name) (l : List Inst)
    (h : enumInsts s n = .ok l) : InstsUnique s.insts ∧ InstsUnique l := by
  have hu := reachable_instsUnique hr
  refine ⟨hu, ?_⟩
  unfold enumInsts at h
  split at h
  · simp at h
  · injection h with h; subst h
    exact List.Pairwise.sublist List.filter_sublist hu

example : (step wState (.addInst { cls := ['s','u','B'], key := 1 })).2 = .err .valueError := by decide

/-- **The own entries of an overriding element's qualifier dictionary, exactly** (flavors and
    propagated flag included): for every own qualifier `q` the resolved dictionary holds
    `_init_qualifier(q)` — flavors: own value, else declaration, else True; propagated = False — and
    with propagated = True instead exactly when the overridden element carries a ToSubclass,
    non-overridable qualifier of that name (`MarkedBy`; `q` can then only repeat its value).  Together
    with `C12_overriding_element_quals_per_flavor` (keys) and `C12_overriding_element_quals_accounted`
    (inherited entries are exact copies) the resolved dictionary is determined completely. -/
theorem C12_overriding_element_own_entries_exact (decls : List QDecl) (own inh r : List Qual)
    (hpo : List.Pairwise (fun a b => ieq a.name b.name = false) own)
    (hpi : List.Pairwise (fun a b => ieq a.name b.name = false) inh)
    (h : resolveQuals decls own inh true = .ok r) : ∀ q ∈ own, OwnEntry decls inh r q :=
  resolveQuals_own_exact hpo hpi h

/-- `[Key] string k` in Base (DisableOverride, ToSubclass), `[Key, Override("k")] string K` in Sub:
    the repeated Key is marked propagated, the new Override entry is not -/
example :
    let dKey : QDecl := { name := ['K','e','y'], ty := 0, scopes := [.prop], anyScope := false,
                          tosub := some true, overr := some false, transl := none }
    let inh : List Qual := [{ name := ['K','e','y'], ty := 0, val := .tok 1, propagated := some false,
                              tosub := some true, overr := some false }]
    let own : List Qual := [{ name := ['k','e','y'], ty := 0, val := .tok 1 },
                            { name := ['O','v','e','r','r','i','d','e'], ty := 1, val := .str ['k'] }]
    (okOr (resolveQuals [dKey, wOverride] own inh true) []).map (fun q => (q.name, q.propagated, q.tosub, q.overr)) =
      [(['k','e','y'], some true, some true, some false),
       (['O','v','e','r','r','i','d','e'], some false, some false, some true)] := by decide

/-! ### parameters of an overriding method (`resolveParam`, `resolveParams`, `copyParam`) -/

/-- concrete parameters for the examples: Base.m(a [IN], b [IN]) and the override Sub.m(A, c) -/
def wIN : QDecl :=
  { name := ['I','N'], ty := 0, scopes := [.param], anyScope := false, tosub := some true,
    overr := some false, transl := none }
def wPa : Param := { name := ['a'], ty := 2, isArr := false, arrSize := none, emb := none, refcls := none,
                     quals := [{ name := ['I','N'], ty := 0, val := .tok 1, tosub := some true }] }
def wPb : Param := { wPa with name := ['b'] }
def wPA : Param := { wPa with name := ['A'], quals := [] }
def wPc : Param := { wPa with name := ['c'], quals := [{ name := ['i','n'], ty := 0, val := .tok 0 }] }

/-- **An overriding method exposes own ∪ (overridden minus redeclared) parameters**, own ones first,
    names compared case-insensitively (`Spec.exposedNames`) — "parameters of the class and of all its
    ancestors, the nearest declaration wins". -/
theorem C12_overriding_method_parameters_exposed (decls : List QDecl) (own overridden r : List Param)
    (h : resolveParams decls own overridden = .ok r) :
    r.map (·.name) = Spec.exposedNames (own.map (·.name)) (overridden.map (·.name)) :=
  resolveParams_names h

example : ∃ r, resolveParams [wIN] [wPA, wPc] [wPa, wPb] = .ok r ∧ r.map (·.name) = [['A'], ['c'], ['b']] :=
  ⟨okOr (resolveParams [wIN] [wPA, wPc] [wPa, wPb]) [], by decide, by decide⟩

/-- **Every parameter of an overriding method is accounted for**: it is
    (1) a declared parameter the overridden method does not have: unchanged but for its qualifiers,
        which are initialised like those of any new element (`resolveQuals … [] false`); or
    (2) a declared parameter the overridden method has, without Override qualifier: exactly as declared; or
    (3) a declared parameter with an Override qualifier naming a parameter of the overridden method of the
        same type, array-ness, array size and embedded-object kind: its qualifiers resolved against that
        parameter's (`resolveQuals … true`, so the qualifier theorems above apply); or
    (4) a parameter of the overridden method that is not redeclared: copied with exactly its
        non-Restricted qualifiers, marked propagated (`copyParam`).
    Type, array-ness, array size, embedded-object kind and reference class of declared parameters are
    never changed. -/
theorem C12_overriding_method_parameters_accounted (decls : List QDecl) (own overridden r : List Param)
    (h : resolveParams decls own overridden = .ok r) :
    ∀ x ∈ r,
      (∃ p ∈ own, x.name = p.name ∧ x.ty = p.ty ∧ x.isArr = p.isArr ∧ x.arrSize = p.arrSize ∧
          x.emb = p.emb ∧ x.refcls = p.refcls ∧
          ((hasParam overridden p.name = false ∧ resolveQuals decls p.quals [] false = .ok x.quals) ∨
           (hasParam overridden p.name = true ∧ hasQual p.quals nOverride = false ∧ x = p) ∨
           (hasParam overridden p.name = true ∧ hasQual p.quals nOverride = true ∧
              ∃ oname sp, keyOfVal (overrideVal p.quals) = .ok oname ∧ findParam overridden oname = some sp ∧
                sp.ty = p.ty ∧ sp.isArr = p.isArr ∧ sp.arrSize = p.arrSize ∧ sp.emb = p.emb ∧
                resolveQuals decls p.quals sp.quals true = .ok x.quals))) ∨
      (∃ sp ∈ overridden, hasParam own sp.name = false ∧ x = copyParam sp) := by
  intro x hx
  rcases resolveParams_members h x hx with ⟨p, hp, hpx⟩ | hcopy
  · obtain ⟨a, b, c, d, e, f, g⟩ := resolveParam_ok hpx
    exact Or.inl ⟨p, hp, a, b, c, d, e, f, g⟩
  · exact Or.inr hcopy

/-- inherited (not redeclared) parameters carry exactly the non-Restricted qualifiers of the overridden
    method's parameter, marked propagated -/
theorem C12_inherited_parameter_quals_per_flavor (p : Param) (q : Qual) :
    q ∈ (copyParam p).quals ↔ ∃ q0 ∈ p.quals, q0.tosub ≠ some false ∧ q = { q0 with propagated := some true } := by
  simp only [copyParam, copyQuals, List.mem_map, List.mem_filter]
  constructor
  · rintro ⟨q0, ⟨h1, h2⟩, rfl⟩; exact ⟨q0, h1, by simpa using h2, rfl⟩
  · rintro ⟨q0, h1, h2, rfl⟩; exact ⟨q0, ⟨h1, by simpa using h2⟩, rfl⟩

example : (okOr (resolveParams [wIN] [wPA, wPc] [wPa, wPb]) []).map (fun x => (x.name, x.quals.map (fun q => (q.name, q.propagated, q.tosub)))) =
    [(['A'], []), (['c'], [(['i','n'], some false, some true)]), (['b'], [(['I','N'], some true, some true)])] := by
  decide

/-- **Where the parameters of a resolved method come from**: a method the superclass does not have
    keeps its declared parameters untouched (open finding C12-param-qualifiers-unresolved: their
    qualifiers are NOT resolved); a property has none; an overriding method gets
    `resolveParams` of its declared parameters against the parameters of the superclass method of the
    same name. -/
theorem C12_method_parameters_source (decls : List QDecl) (n : Name) (inherited : List Elem) (e e' : Elem)
    (h : resolveElem decls n inherited e = .ok e') :
    (hasElem inherited e.name = false ∧ e'.params = e.params) ∨
    (hasElem inherited e.name = true ∧ e.isMeth = false ∧ e'.params = e.params) ∨
    (hasElem inherited e.name = true ∧ e.isMeth = true ∧ ∃ s, findElem inherited e.name = some s ∧
        resolveParams decls e.params s.params = .ok e'.params) :=
  resolveElem_params h

end C12
