/-
C12 — Class inheritance is resolved correctly and class queries mirror the hierarchy.
ONLY property theorems, non-vacuity examples and witnesses live here; helper lemmas are in
Proofs/Lemmas/Resolve.lean.  The model (Pywbem/Model/Resolve.lean) mirrors the code including
its open defects; theorems that the defects falsify are stated `_partial` with the excluded
input class as an explicit hypothesis and a negation witness beside them.
-/
import Proofs.Lemmas.Resolve

set_option linter.unusedSimpArgs false
set_option linter.unusedVariables false

namespace C12
open Pywbem.Model.Resolve Pywbem.Proto Proofs.Resolve
open Pywbem.Generated.Resolve

/-! ### generated tables are the ones the model was written against -/

/-- status codes raised by the modelled functions, re-extracted from the source on every run -/
theorem C12_status_codes_pinned :
    raisesValidateQualifiers = [4, 4, 4] ∧ raisesResolveObjects = [4, 4, 4, 4, 4, 4] ∧
    raisesResolveQualifiers = [4, 4] ∧ raisesResolveClass = [10, 4, 4] ∧ raisesGetClass = [6] ∧
    raisesSubclassListForEnums = [5] ∧ raisesValidateDependencies = [4, 4] ∧
    raisesEnumerateClasses = [5] ∧ raisesEnumerateClassNames = [5] ∧ raisesCreateClass = [11] ∧
    raisesModifyClass = [6, 8, 9, 10, 10, 10] ∧ raisesDeleteClass = [6] ∧ raisesEnumerateInstances = [5] ∧
    CIM_ERR_INVALID_PARAMETER = 4 ∧ CIM_ERR_INVALID_CLASS = 5 ∧ CIM_ERR_NOT_FOUND = 6 ∧
    CIM_ERR_CLASS_HAS_CHILDREN = 8 ∧ CIM_ERR_CLASS_HAS_INSTANCES = 9 ∧ CIM_ERR_INVALID_SUPERCLASS = 10 ∧
    CIM_ERR_ALREADY_EXISTS = 11 ∧ defaultDeepInheritance = true ∧ instanceRetrieveLocalOnly = false := by
  decide

/-! ### GetClass: LocalOnly=False exposes the stored (resolved) class; flags only remove -/

/-- GetClass(LocalOnly=False, IncludeQualifiers=True, IncludeClassOrigin=True, PropertyList=None)
    returns the stored resolved class unchanged. -/
theorem C12_getClass_localonly_false_exact (cs : List Cls) (n : Name) (c : Cls)
    (h : findClass cs n = some c) : getClass cs n fullFlags = .ok c := by
  simp [getClass, h, applyFlags, stageQuals, stageLocal, fullFlags, filterProps]

/-- "a carries no more information than b": an element is kept as it is, or with its class origin
    removed, or with all its (and its parameters') qualifiers removed, or both -/
def ElemLe (a b : Elem) : Prop :=
  a = b ∨ a = stripOrigin b ∨ a = stripElemQuals b ∨ a = stripOrigin (stripElemQuals b)

/-- the elements of `a` are a sub-list of those of `b` (order kept), each below its original -/
def ElemsLe (a b : List Elem) : Prop :=
  ∃ (g : Elem → Elem) (l : List Elem), (∀ e, ElemLe (g e) e) ∧ l.Sublist b ∧ a = l.map g

def ClsLe (a b : Cls) : Prop :=
  a.name = b.name ∧ a.super = b.super ∧ (a.quals = b.quals ∨ a.quals = []) ∧
  ElemsLe a.props b.props ∧ ElemsLe a.meths b.meths

/-- **Flags only remove information**: for every combination of LocalOnly, IncludeQualifiers,
    IncludeClassOrigin and PropertyList the answer is below the fully expanded stored class. -/
theorem C12_flags_only_remove (c : Cls) (f : Flags) : ClsLe (applyFlags c f) c := by
  have hle : ∀ e, ElemLe (keepE f e) e := by
    intro e
    by_cases hiq : f.iq = some false <;> by_cases hico : f.ico = some true <;>
      simp [ElemLe, keepE, hiq, hico]
  obtain ⟨h1, h2, h3⟩ := stageLocal_header c f
  rw [applyFlags_eq]
  refine ⟨h1, h2, ?_, ⟨keepE f, _, hle, stageLocal_props_sublist c f, rfl⟩,
    ⟨keepE f, _, hle, stageLocal_meths_sublist c f, rfl⟩⟩
  by_cases hiq : f.iq = some false <;> simp [hiq, h3]

/-- the same statement at the level of the operation: whatever GetClass answers with some flags is
    below what it answers with LocalOnly=False, IncludeQualifiers, IncludeClassOrigin -/
theorem C12_getClass_flags_below_full (cs : List Cls) (n : Name) (f : Flags) (a : Cls)
    (h : getClass cs n f = .ok a) : ∃ b, getClass cs n fullFlags = .ok b ∧ ClsLe a b := by
  unfold getClass at h
  cases hc : findClass cs n with
  | none => simp [hc] at h
  | some c =>
    simp [hc] at h; subst h
    exact ⟨c, C12_getClass_localonly_false_exact cs n c hc, C12_flags_only_remove c f⟩

/-- LocalOnly=False with no PropertyList keeps every element (only qualifiers / origins may go) -/
theorem C12_localonly_false_keeps_all_elements (c : Cls) (f : Flags) (hlo : f.lo = some false)
    (hpl : f.pl = none) :
    (applyFlags c f).props.map (·.name) = c.props.map (·.name) ∧
    (applyFlags c f).meths.map (·.name) = c.meths.map (·.name) := by
  have hk : ∀ e, (keepE f e).name = e.name := by
    intro e
    by_cases hiq : f.iq = some false <;> by_cases hico : f.ico = some true <;>
      simp [keepE, hiq, hico, stripOrigin, stripElemQuals]
  rw [applyFlags_eq]
  simp [stageLocal, hlo, hpl, filterProps, List.map_map, Function.comp_def, hk]

/-- LocalOnly=True (or absent) keeps exactly the elements not marked propagated -/
theorem C12_localonly_true_drops_exactly_propagated (c : Cls) (f : Flags) (hlo : f.lo ≠ some false)
    (hpl : f.pl = none) :
    (applyFlags c f).props.map (·.name) = (c.props.filter (fun p => !(p.propagated == some true))).map (·.name) := by
  have hk : ∀ e, (keepE f e).name = e.name := by
    intro e
    by_cases hiq : f.iq = some false <;> by_cases hico : f.ico = some true <;>
      simp [keepE, hiq, hico, stripOrigin, stripElemQuals]
  rw [applyFlags_eq]
  simp [stageLocal, hlo, hpl, filterProps, localOnly, truthy, List.map_map, Function.comp_def, hk]

end C12
