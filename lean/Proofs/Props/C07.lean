/-
C07 — WBEM URIs round-trip and canonical URIs respect path equality.
ONLY property theorems, non-vacuity examples and negation witnesses live here; helper lemmas are
in Proofs/Lemmas/Uri.lean.  The model is Pywbem/Model/Uri.lean.
-/
import Proofs.Lemmas.Uri

namespace C07
open Pywbem.Model.Uri Pywbem.Proto Proofs.Uri

/-- the escape chains extracted from the source of to_wbem_uri() (string values and reference values) are
    backslash first, then double quote; every theorem below is about these chains -/
theorem C07_escape_chain_pinned :
    Pywbem.Generated.uriEscapeChain = [('\\', ['\\', '\\']), (dq, ['\\', dq])] ∧
    Pywbem.Generated.uriRefEscapeChain = Pywbem.Generated.uriEscapeChain ∧
    Pywbem.Generated.uriFormats = ["standard", "canonical", "cimobject", "historical"] := by
  refine ⟨?_, ?_, ?_⟩ <;> decide

/-- **String values survive.** for every string (quotes, backslashes, commas, newlines, anything):
    the printed form `"` + escaped + `"` is consumed by the keybinding regex as exactly one
    double-quoted value (whatever follows), and un-escaping the body gives the string back. -/
theorem C07_string_value_roundtrip (s rest : Str) :
    scanVal (quote (escape s) ++ rest) = some (quote (escape s), rest) ∧
    unescape (stripQuotes (quote (escape s))) = s := by
  constructor
  · simp [scanVal, quote, scanQuoted_escape]
  · simp [stripQuotes, quote, unescape_escape]

/-- **Integers survive.** `str(i)` of every integer is recognised by `_integerValue_to_int` as `i`
    (never as binary / octal / hex, never rejected). -/
theorem C07_int_value_roundtrip (i : Int) : intLit (pyInt i) = some i := intLit_pyInt i

/-- **Canonical URIs respect path equality.**  Two instance paths that differ only in the lexical case of
    host, namespace, class name and key names and in the order of keybindings — also inside nested
    reference keys, to any depth (induction over the derivation of `PathEquiv`) — have the identical
    canonical URI.  `PathWF` is the NocaseDict invariant (key names pairwise different after casefold);
    `hfl` is the only fact about Python's case mappings that is used. -/
theorem C07_canonical_respects_eq (T : Tab) (hfl : ∀ s, T.foldS (T.lowerS s) = T.foldS s)
    (p q : Path) (h : PathEquiv T p q) (hw : PathWF T p) :
    toUri T .canonical p = toUri T .canonical q :=
  (path_canon hfl h hw).1

/-- the same for class paths -/
theorem C07_canonical_respects_eq_class (T : Tab) (p q : ClassPath)
    (hh : OptLowerEq T p.host q.host) (hn : OptLowerEq T p.ns q.ns) (hc : T.lowerS p.cls = T.lowerS q.cls) :
    toUriClass T .canonical p = toUriClass T .canonical q :=
  headStr_canon_eq hh hn hc

/- non-vacuity: a concrete pair (case of every name changed, keys swapped, also inside the reference key) -/
def demoP : Path := .mk (some "ACME.com".toList) (some "Root/CimV2".toList) "CIM_Foo".toList
  (.cons "Name".toList (.str "a\"b".toList) (.cons "Ref".toList
    (.ref (.mk none (some "root".toList) "CIM_Bar".toList (.cons "X".toList (.int 1) (.cons "y".toList (.bool true) .nil)))) .nil))
def demoQ : Path := .mk (some "acme.COM".toList) (some "root/cimv2".toList) "cim_FOO".toList
  (.cons "REF".toList
    (.ref (.mk none (some "ROOT".toList) "cim_bar".toList (.cons "Y".toList (.bool true) (.cons "x".toList (.int 1) .nil))))
    (.cons "NAME".toList (.str "a\"b".toList) .nil))

example : PathEquiv asciiTab demoP demoQ :=
  .mk (by simp only [OptLowerEq]; decide) (by simp only [OptLowerEq]; decide) (by decide)
    (.trans .swap (.cons (by decide)
      (.ref (.mk trivial (by simp only [OptLowerEq]; decide) (by decide) (.trans .swap (.cons (by decide) .refl (.cons (by decide) .refl .nil)))))
      (.cons (by decide) .refl .nil)))
example : toUri asciiTab .canonical demoP = toUri asciiTab .canonical demoQ := by decide +kernel
example : toUri asciiTab .canonical demoP =
    "//acme.com/root/cimv2:cim_foo.name=\"a\\\"b\",ref=\"/root:cim_bar.x=1,y=TRUE\"".toList := by decide
/-- without the NocaseDict invariant the statement is false: two keys that differ only in case -/
theorem C07_canonical_needs_wf :
    ¬ (∀ p q : Path, PathEquiv asciiTab p q → toUri asciiTab .canonical p = toUri asciiTab .canonical q) := by
  intro h
  have := h (.mk none none ['C'] (.cons ['k'] (.int 1) (.cons ['K'] (.int 2) .nil)))
            (.mk none none ['C'] (.cons ['K'] (.int 2) (.cons ['k'] (.int 1) .nil)))
            (.mk trivial trivial rfl .swap)
  revert this; decide

/-- **Only ValueError.**  `CIMInstanceName.from_wbem_uri` on arbitrary text returns a path or raises
    ValueError — in particular the out-of-fuel answer of the model (`recursionError`) is never given:
    the nesting of quoted reference values is bounded by the length of the text.  Same for class paths. -/
theorem C07_fromUri_total (T : Tab) (s : Str) :
    (∀ e, fromUri T s = .error e → e = .valueError) ∧ (∀ e, fromUriClass T s = .error e → e = .valueError) := by
  constructor
  · intro e he
    have := fromUriF_total T (s.length + 1) s (by omega)
    unfold fromUri at he
    rw [he] at this; exact this
  · intro e he
    unfold fromUriClass at he
    split at he
    · cases he; rfl
    · simp only at he; split at he <;> cases he; rfl

/-- **Reals survive.**  For every text of one of the shapes `repr(float)` produces (`inf`, `-inf`, `nan`, `[-]d+.d+`,
    `[-]d+[.d+]e[+-]d+`, any number of digits): the printed literal — with `.0` inserted before a bare exponent —
    is one unquoted keybinding token and `_kbstr_to_cimval` reads it back as a real with that literal
    (REAL_VALUE matches it; BINARY/OCTAL/DECIMAL/HEX_VALUE, the booleans and the quote tests do not). -/
theorem C07_real_printed_accepted (T : Tab) (hT : TabOk T) (r : Str) (h : isFloatRepr r = true) (rest : Str)
    (hr : rest = [] ∨ ∃ t, rest = ',' :: t) (rec : Str → Except PyExc Path) :
    scanVal (fixExp r ++ rest) = some (fixExp r, rest) ∧ kbVal T rec (fixExp r) = .ok (.real (fixExp r)) ∧
    realLit (fixExp r) = true :=
  ⟨(real_printed_ok hT h).1.scan rest hr, (real_printed_ok hT h).2 rec, by
    have := (real_printed_ok hT h).2 (fun _ => .error .valueError)
    rcases fixExp_form1 h with h1 | h1 | h1 | hf
    · subst h1; decide
    · subst h1; decide
    · subst h1; decide
    · exact (form1_lits hf).2⟩

example : isFloatRepr "1e+16".toList = true ∧ isFloatRepr "-1.5e-05".toList = true ∧ isFloatRepr "0.1".toList = true ∧
    isFloatRepr "1e16".toList = false ∧ isFloatRepr "1.".toList = false := by decide

/-- **Round trip** (partial: the three open findings C07-F1/F2/F3 are excluded by `PathSafe`, see the
    witnesses below; `cimobject` is excluded because it drops the host by design).
    Full statement: for every instance path `p` within the documented limits of untyped WBEM URIs and
    `fmt ∈ {standard, historical, canonical}`: `from_wbem_uri(p.to_wbem_uri(fmt))` succeeds and gives `normPath fmt p`,
    i.e. `p` itself up to: names in the lexical case of the format, keybindings in printing order, reals as
    the printed literal — at every nesting depth of reference keys (induction on the path).
    `PathSafe` spells the limits out: string values that do not read as a URI or datetime and contain no
    newline (F1); datetime texts accepted by CIMDateTime; real texts of the shape `repr(float)` gives
    (`C07_real_printed_accepted`); host of authority characters, non-empty; namespace `\w+(/\w+)*` (F2);
    historical format: no host without namespace (F3); class and key names non-empty `\w+`; at least one
    keybinding; key names pairwise different after casefold. -/
theorem C07_uri_roundtrip_partial (T : Tab) (hT : TabOk T) (fmt : Fmt) (p : Path) (hs : PathSafe T fmt p) :
    fromUri T (toUri T fmt p) = .ok (normPath T fmt p) :=
  (path_rt hT fmt p hs).2 _ (by omega)

/-- **The re-parsed path is `==` the original** (partial, same exclusions; NaN keys excluded because `nan != nan`).
    `PathEq` mirrors `CIMInstanceName.__eq__` (names by `lower()`, keybindings by NocaseDict lookup, reference keys
    recursively); `R` is the hypothesis record for CPython's float(): inserting `.0` does not change the value. -/
theorem C07_roundtrip_equal_partial (T : Tab) (hT : TabOk T) (R : RealSem) (fmt : Fmt) (p : Path)
    (hs : PathSafe T fmt p) (hn : NoNaN p) :
    ∃ q, fromUri T (toUri T fmt p) = .ok q ∧ PathEq T R q p :=
  ⟨_, C07_uri_roundtrip_partial T hT fmt p hs, path_eq hT R fmt p hs hn⟩

/-- **… and the executable `==` says so.**  `pathEqB` is the executable model of `CIMInstanceName.__eq__`
    (`_eq_name` on host / namespace / class name, `NocaseDict.__eq__` on the keybindings incl. `True == 1`, references
    recursively) that the correspondence run compares with the real `==` on every generated pair; `E` carries
    `float(a) == float(b)` and `CIMDateTime(a) == CIMDateTime(b)`.  For every safe path the re-parsed path `==` the
    original, provided only that `E` is reflexive on datetimes and knows that the `.0` of the exponent fix keeps the value. -/
theorem C07_roundtrip_eqB_partial (T : Tab) (hT : TabOk T) (E : EqTab) (fmt : Fmt) (p : Path)
    (hs : PathSafe T fmt p) (hn : NoNaN p)
    (hfix : ∀ r, isFloatRepr r = true → r ≠ "nan".toList → E.realSame (fixExp r) r = true)
    (hd : ∀ s, E.dtSame s s = true) :
    ∃ q, fromUri T (toUri T fmt p) = .ok q ∧ pathEqB T E q p = true := by
  let R : RealSem := ⟨fun a b => E.realSame a b = true, hfix⟩
  exact ⟨_, C07_uri_roundtrip_partial T hT fmt p hs,
    pathEqB_of_pathEq (R := R) (fun _ _ h => h) hd (path_eq hT R fmt p hs hn)⟩

/-- non-vacuity: with text equality for reals and datetimes the executable `==` holds on the demo round trip,
    and it is not constantly true -/
example : pathEqB asciiTab ⟨fun a b => a == b || b == "1e+16".toList, fun a b => a == b⟩
    (normPath asciiTab .canonical demoP) demoQ = true := by decide +kernel
example : pathEqB asciiTab ⟨fun a b => a == b, fun a b => a == b⟩ demoP
    (.mk (some "ACME.com".toList) (some "Root/CimV2".toList) "CIM_Foo".toList (.cons "Name".toList (.str "a\"b".toList) .nil)) = false := by
  decide +kernel

/-- the hypothesis record is satisfiable -/
example : RealSem := ⟨fun _ _ => True, fun _ _ _ => trivial⟩

/-- **Every printed URI is accepted** (partial, same exclusions): corollary of the round trip -/
theorem C07_printed_is_accepted_partial (T : Tab) (hT : TabOk T) (fmt : Fmt) (p : Path) (hs : PathSafe T fmt p) :
    ∃ q, fromUri T (toUri T fmt p) = .ok q :=
  ⟨_, C07_uri_roundtrip_partial T hT fmt p hs⟩

/-- a printed URI of a safe path never contains a newline (so it can be nested in a reference key) -/
theorem C07_printed_has_no_newline (T : Tab) (hT : TabOk T) (fmt : Fmt) (p : Path) (hs : PathSafe T fmt p) :
    ∀ c ∈ toUri T fmt p, c ≠ '\n' :=
  (path_rt hT fmt p hs).1

/-- **Class paths round-trip** (partial: F2, F3 excluded by `HeadSafe`) -/
theorem C07_class_roundtrip_partial (T : Tab) (hT : TabOk T) (fmt : Fmt) (p : ClassPath)
    (hs : HeadSafe T fmt p.host p.ns p.cls) :
    fromUriClass T (toUriClass T fmt p) =
      .ok { host := p.host.map (caseOf T fmt), ns := p.ns.map (caseOf T fmt), cls := caseOf T fmt p.cls } := by
  have h := parseHead_printed hT hs (tail := []) (Or.inl rfl)
  simp only [List.append_nil] at h
  unfold fromUriClass toUriClass
  rw [h]
  simp [takeWhile_end hs.cls.2, dropWhile_end hs.cls.2, hs.cls.1, atEnd]

/-- **Round trip / acceptance for all four formats** (partial: F1, F2, F3 still excluded by `PathOk`).
    `PathOk` is `PathSafe` without the restriction to standard/historical/canonical: in the `cimobject` format
    (the CIMObject HTTP header, `get_cimobject_header`) the host is not printed, so nothing is required of it — at any
    nesting level of reference keys — and the parser finds no host (`parsedHost`); everything else comes back as in
    the other formats.  This is the clause "every URI pywbem prints is accepted by its own parser" for the 4th format. -/
theorem C07_uri_roundtrip_all_formats_partial (T : Tab) (hT : TabOk T) (fmt : Fmt) (p : Path) (hs : PathOk T fmt p) :
    fromUri T (toUri T fmt p) = .ok (normPath T fmt p) :=
  (path_rt_ok hT fmt p hs).2 _ (by omega)

theorem C07_printed_is_accepted_all_formats_partial (T : Tab) (hT : TabOk T) (fmt : Fmt) (p : Path)
    (hs : PathOk T fmt p) : ∃ q, fromUri T (toUri T fmt p) = .ok q :=
  ⟨_, C07_uri_roundtrip_all_formats_partial T hT fmt p hs⟩

/-- `PathSafe` (the hypothesis of the older theorems) is the special case -/
theorem C07_pathSafe_is_pathOk (T : Tab) (fmt : Fmt) (p : Path) (hs : PathSafe T fmt p) : PathOk T fmt p :=
  pathSafe_ok p hs

/-- in the `cimobject` format the re-parsed path has no host; in the other formats it has the (cased) host -/
theorem C07_cimobject_drops_host (T : Tab) (fmt : Fmt) (h n : Option Str) (c : Str) (ks : Keys) :
    (normPath T fmt (.mk h n c ks)).host = if fmt = .cimobject then none else h.map (caseOf T fmt) := by
  simp [normPath, Path.host, parsedHost]

/-- class paths, all four formats -/
theorem C07_class_roundtrip_all_formats_partial (T : Tab) (hT : TabOk T) (fmt : Fmt) (p : ClassPath)
    (hs : HeadOk T fmt p.host p.ns p.cls) :
    fromUriClass T (toUriClass T fmt p) =
      .ok { host := parsedHost T fmt p.host, ns := p.ns.map (caseOf T fmt), cls := caseOf T fmt p.cls } := by
  have h := parseHead_printed_all hT hs (tail := []) (Or.inl rfl)
  simp only [List.append_nil] at h
  unfold fromUriClass toUriClass
  rw [h]
  simp [takeWhile_end hs.cls.2, dropWhile_end hs.cls.2, hs.cls.1, atEnd]

/-- non-vacuity for `cimobject`: a host that no other format could print (blank, `!`) and a nested reference with host -/
def demoCim : Path := .mk (some "bad host!".toList) (some "root/cimv2".toList) "CIM_Foo".toList
  (.cons "Name".toList (.str "a\"b".toList)
    (.cons "Ref".toList (.ref (.mk (some "x y".toList) none "CIM_Bar".toList (.cons "X".toList (.bool true) .nil))) .nil))

example : PathOk asciiTab .cimobject demoCim := by
  have head1 : HeadOk asciiTab .cimobject (some "bad host!".toList) (some "root/cimv2".toList) "CIM_Foo".toList :=
    ⟨(by intro h; exact absurd rfl h), (by intro x hx; cases hx; decide +kernel), (by decide +kernel), (by intro h; cases h)⟩
  have head2 : HeadOk asciiTab .cimobject (some "x y".toList) none "CIM_Bar".toList :=
    ⟨(by intro h; exact absurd rfl h), (by intro x hx; cases hx), (by decide +kernel), (by intro h; cases h)⟩
  have str1 : (∀ c ∈ "a\"b".toList, c ≠ '\n') ∧ NotUri asciiTab "a\"b".toList ∧ dtAccepts "a\"b".toList = false :=
    ⟨(by decide +kernel), isValueError_eq (by decide +kernel), (by decide +kernel)⟩
  simp only [demoCim, PathOk, KeysOk, ValOk]
  exact ⟨head1, (by intro h; cases h), (by decide +kernel), (by decide +kernel), str1,
    ⟨head2, (by intro h; cases h), (by decide +kernel), (by decide +kernel), trivial, trivial⟩, trivial⟩
example : toUri asciiTab .cimobject demoCim = "/root/cimv2:CIM_Foo.Name=\"a\\\"b\",Ref=\"/:CIM_Bar.X=TRUE\"".toList := by decide +kernel
example : okIs (fromUri asciiTab (toUri asciiTab .cimobject demoCim)) (normPath asciiTab .cimobject demoCim) = true := by decide +kernel

/-- **Every instance-path URI contains `=`**: a text without it is rejected with ValueError — for every character
    table, no hypothesis.  (So a string key value without `=` needs no "does not read as a URI" side condition.) -/
theorem C07_text_without_equals_is_no_uri (T : Tab) (s : Str) (h : '=' ∉ s) : fromUri T s = .error .valueError :=
  notUri_of_no_eq T h

/-- **Datetime keys need no side condition.**  Whenever `CIMDateTime(s)` accepts the text (`dtAccepts`, the model of
    the constructor's acceptance test), the text consists of digits and `* . + - :`, hence contains no quote, backslash,
    newline or `=`, is not itself a URI, and the `.dt s` clause of `PathSafe` / `PathOk` holds: the earlier hypotheses
    "no quote/backslash/newline" and "not a URI" of that clause are discharged. -/
theorem C07_datetime_value_safe (T : Tab) (fmt : Fmt) (s : Str) (h : dtAccepts s = true) :
    (∀ c ∈ s, c ≠ dq ∧ c ≠ '\\' ∧ c ≠ '\n' ∧ c ≠ '=') ∧ NotUri T s ∧ ValSafe T fmt (.dt s) ∧ ValOk T fmt (.dt s) :=
  ⟨fun c hc => dtChar_props (dtAccepts_chars h c hc),
   notUri_of_no_eq T (fun hm => (dtChar_props (dtAccepts_chars h _ hm)).2.2.2 rfl),
   (dt_safe_of_accepts T fmt h).1, (dt_safe_of_accepts T fmt h).2⟩

example : dtAccepts "20140924193040.654321+120".toList = true ∧ dtAccepts "00000183132542.234***:000".toList = true ∧
    dtAccepts "20140924193040.654321+120x".toList = false ∧ dtAccepts "20140231193040.654321+120".toList = false := by decide +kernel

/-- **What the parser returns is a well-formed path.**  For every text: if `from_wbem_uri` returns a path, then at
    every nesting level its key names are pairwise different after casefold (the NocaseDict invariant `PathWF`) —
    duplicate and case-duplicate keys in the text (`k=1,K=2,k=3`) are merged by the `dict` / NocaseDict steps.
    Hence the hypothesis `PathWF` of `C07_canonical_respects_eq` is automatic for parsed paths. -/
theorem C07_parsed_path_wf (T : Tab) (s : Str) (p : Path) (h : fromUri T s = .ok p) : PathWF T p :=
  fromUriF_wf T _ s p h

theorem C07_canonical_respects_eq_of_parsed (T : Tab) (hfl : ∀ s, T.foldS (T.lowerS s) = T.foldS s)
    (s : Str) (p q : Path) (hp : fromUri T s = .ok p) (h : PathEquiv T p q) :
    toUri T .canonical p = toUri T .canonical q :=
  C07_canonical_respects_eq T hfl p q h (C07_parsed_path_wf T s p hp)

/-- non-vacuity: duplicate keys are merged (last value, first position, last spelling) -/
example : okIs (fromUri asciiTab "C.k=1,j=TRUE,K=2".toList)
    (.mk none none ['C'] (.cons ['K'] (.int 2) (.cons ['j'] (.bool true) .nil))) = true := by decide +kernel
example : okIs (fromUri asciiTab "C.k=1,k=3".toList) (.mk none none ['C'] (.cons ['k'] (.int 3) .nil)) = true := by decide +kernel

/-- **Printing is a normal form (second trip byte-identical).**  For standard / historical / canonical and every path
    that satisfies the NocaseDict invariant (no other hypothesis): printing the path that comes back from the parser
    gives exactly the same text again — `to(from(to(p))) = to(p)`; names are already cased, keys already sorted, the real
    literal already has its `.0`, nested references likewise (induction over nesting). -/
theorem C07_second_print_identical (T : Tab) (hT : TabOk T) (fmt : Fmt) (hf : fmt ≠ .cimobject) (p : Path) (hw : PathWF T p) :
    toUri T fmt (normPath T fmt p) = toUri T fmt p :=
  path_second hT hf p hw

/-- … combined with the round trip: the second trip returns the same text and the same path -/
theorem C07_second_trip_partial (T : Tab) (hT : TabOk T) (fmt : Fmt) (p : Path) (hs : PathSafe T fmt p) (hw : PathWF T p) :
    ∃ q, fromUri T (toUri T fmt p) = .ok q ∧ toUri T fmt q = toUri T fmt p ∧ fromUri T (toUri T fmt q) = .ok q := by
  have hf : fmt ≠ .cimobject := by cases p; exact (by simpa [PathSafe] using hs : HeadSafe T fmt _ _ _ ∧ _).1.fmt_ok
  have h1 := C07_uri_roundtrip_partial T hT fmt p hs
  have h2 := C07_second_print_identical T hT fmt hf p hw
  exact ⟨_, h1, h2, by rw [h2]; exact h1⟩

example : toUri asciiTab .canonical (normPath asciiTab .canonical demoP) = toUri asciiTab .canonical demoP := by decide +kernel

/-- class paths: the re-parsed class path `==` the original (`classEqB` mirrors CIMClassName.__eq__) -/
theorem C07_class_roundtrip_eq_partial (T : Tab) (hT : TabOk T) (fmt : Fmt) (p : ClassPath)
    (hs : HeadSafe T fmt p.host p.ns p.cls) :
    ∃ q, fromUriClass T (toUriClass T fmt p) = .ok q ∧ classEqB T q p = true := by
  refine ⟨_, C07_class_roundtrip_partial T hT fmt p hs, ?_⟩
  have hc : T.lowerS (caseOf T fmt p.cls) = T.lowerS p.cls := by
    unfold caseOf; split
    · exact hT.lower_idem _
    · rfl
  simp [classEqB, eqName_of_optLower (optLower_case_self hT fmt p.host), eqName_of_optLower (optLower_case_self hT fmt p.ns), hc]

/-- **The documented limits of string keys are exact.**  For every string `s` (any characters) printed as a key value and
    read back by `_kbstr_to_cimval` (with the nested parser given enough fuel): it comes back as a reference exactly when
    `s` itself is an instance URI, as a datetime exactly when it is not but `CIMDateTime` accepts it, and as the string `s`
    otherwise — the three cases are exhaustive (`C07_fromUri_total`) and exclusive. -/
theorem C07_string_value_classification (T : Tab) (s : Str) (m : Nat) (hm : s.length < m) :
    (∀ q, fromUri T s = .ok q → kbVal T (fromUriF T m) (quote (escape s)) = .ok (.ref q)) ∧
    (NotUri T s → dtAccepts s = true → kbVal T (fromUriF T m) (quote (escape s)) = .ok (.dt s)) ∧
    (NotUri T s → dtAccepts s = false → kbVal T (fromUriF T m) (quote (escape s)) = .ok (.str s)) ∧
    ((∃ q, fromUri T s = .ok q) ∨ NotUri T s) := by
  have hf := fromUri_eq_fuel T s hm
  refine ⟨?_, ?_, ?_, ?_⟩
  · intro q hq
    exact kbVal_quoted_ok (by rw [unescape_escape, hf, hq])
  · intro hn hd
    rw [kbVal_quoted_ve (by rw [unescape_escape, hf]; exact hn), unescape_escape, hd]; rfl
  · intro hn hd
    rw [kbVal_quoted_ve (by rw [unescape_escape, hf]; exact hn), unescape_escape, hd]; rfl
  · cases h : fromUri T s with
    | ok q => exact Or.inl ⟨q, rfl⟩
    | error e =>
      right
      have := fromUriF_total T (s.length + 1) s (by omega)
      unfold fromUri at h
      rw [h] at this
      unfold NotUri fromUri
      rw [h]; simp [OnlyValueError] at this; rw [this]

/-- **Integer literals are exclusive.**  A text that `_integerValue_to_int` accepts (binary, octal, decimal or hex) is
    never accepted by `_realValue_to_float` nor by `CIMDateTime`; so, for unquoted key values, the position of the integer
    test relative to the real and datetime tests in `_kbstr_to_cimval` cannot change a result. (Real vs. datetime: K only.) -/
theorem C07_integer_literal_is_exclusive (s : Str) (i : Int) (h : intLit s = some i) :
    realLit s = false ∧ dtAccepts s = false :=
  intLit_exclusive h

example : intLit "-0x1F".toList = some (-31) ∧ intLit "101b".toList = some 5 ∧ intLit "017".toList = some 15 := by decide +kernel

/-- **The unquoted value classes are pairwise disjoint.**  Integer literals, real literals and datetime texts (as
    `_integerValue_to_int`, `_realValue_to_float`, `CIMDateTime` accept them) never overlap: the order of the three tests at
    the end of `_kbstr_to_cimval` is immaterial for every input. -/
theorem C07_unquoted_literals_are_exclusive (s : Str) :
    (∀ i, intLit s = some i → realLit s = false ∧ dtAccepts s = false) ∧
    (dtAccepts s = true → realLit s = false ∧ intLit s = none) ∧
    (realLit s = true → intLit s = none ∧ dtAccepts s = false) := by
  refine ⟨fun i h => intLit_exclusive h, fun h => ⟨dt_not_real h, ?_⟩, fun h => ⟨?_, ?_⟩⟩
  · cases e : intLit s with
    | none => rfl
    | some i => have := (intLit_exclusive e).2; rw [h] at this; cases this
  · cases e : intLit s with
    | none => rfl
    | some i => have := (intLit_exclusive e).1; rw [h] at this; cases this
  · apply Bool.eq_false_iff.mpr; intro hd; have := dt_not_real hd; rw [h] at this; cases this

/-! ### spellings of a URI that pywbem never prints but its parser accepts -/

/-- **The namespace type (URI scheme) is ignored.**  For every non-empty scheme of `[\w-]` characters (`https`,
    `cimxml-wbem`, anything) and every text that starts with `/`: `scheme:` in front of the text does not change what
    either parser returns — result or ValueError.  (DSP0207 restricts the scheme; pywbem only warns.) -/
theorem C07_scheme_is_ignored (T : Tab) (hT : TabOk T) (sch : Str) (hne : sch ≠ []) (hall : ∀ c ∈ sch, schemeChar T c = true)
    (r : Str) :
    fromUri T (sch ++ ':' :: '/' :: r) = fromUri T ('/' :: r) ∧
    fromUriClass T (sch ++ ':' :: '/' :: r) = fromUriClass T ('/' :: r) :=
  ⟨fromUri_congr (parseHead_scheme hT hne hall r), fromUriClass_congr (parseHead_scheme hT hne hall r)⟩

/-- **Optional leading slash and colon of a local URI.**  With a well-formed namespace part `N` (or none) and class
    name `C`: `/N:C…` and `N:C…` parse identically, and without namespace so do `/:C…`, `:C…` and `C…`
    (`rest` = keybindings after the dot, or nothing for class paths). -/
theorem C07_local_spellings_agree (T : Tab) (hT : TabOk T) (N : Option Str) (C rest : Str)
    (hN : NsPart T N) (hc : ClsTail T C rest) :
    fromUri T ('/' :: (optStr N ++ ':' :: (C ++ rest))) = fromUri T (optStr N ++ ':' :: (C ++ rest)) ∧
    fromUriClass T ('/' :: (optStr N ++ ':' :: (C ++ rest))) = fromUriClass T (optStr N ++ ':' :: (C ++ rest)) ∧
    (N = none → fromUri T (C ++ rest) = fromUri T (':' :: (C ++ rest)) ∧
                fromUriClass T (C ++ rest) = fromUriClass T (':' :: (C ++ rest))) :=
  ⟨fromUri_congr (parseHead_local_spellings hT hN hc).1, fromUriClass_congr (parseHead_local_spellings hT hN hc).1,
   fun h => ⟨fromUri_congr ((parseHead_local_spellings hT hN hc).2 h), fromUriClass_congr ((parseHead_local_spellings hT hN hc).2 h)⟩⟩

example : okIs (fromUri asciiTab "cimxml-wbems://acme.com:5989/root/cimv2:CIM_Foo.k=1".toList)
    (.mk (some "acme.com:5989".toList) (some "root/cimv2".toList) "CIM_Foo".toList (.cons ['k'] (.int 1) .nil)) = true := by decide +kernel
example : okIs (fromUri asciiTab "root/cimv2:CIM_Foo.k=1".toList)
    (.mk none (some "root/cimv2".toList) "CIM_Foo".toList (.cons ['k'] (.int 1) .nil)) = true ∧
  okIs (fromUri asciiTab "CIM_Foo.k=1".toList) (.mk none none "CIM_Foo".toList (.cons ['k'] (.int 1) .nil)) = true := by decide +kernel

/-! ### glue around the URI functions -/

/-- **Format argument.**  `to_wbem_uri(format=name)` accepts exactly the four names extracted from the source
    (each selecting its format) and raises ValueError — nothing else — for every other string. -/
theorem C07_format_argument_validated (T : Tab) (p : Path) :
    toWbemUri T "standard" p = .ok (toUri T .standard p) ∧ toWbemUri T "canonical" p = .ok (toUri T .canonical p) ∧
    toWbemUri T "cimobject" p = .ok (toUri T .cimobject p) ∧ toWbemUri T "historical" p = .ok (toUri T .historical p) ∧
    (∀ name, name ∉ Pywbem.Generated.uriFormats → toWbemUri T name p = .error .valueError) ∧
    (∀ name e, toWbemUri T name p = .error e → e = .valueError) := by
  refine ⟨rfl, rfl, rfl, rfl, ?_, ?_⟩
  · intro name h; simp [toWbemUri, fmtOfName_unknown name h]
  · intro name e h
    unfold toWbemUri at h
    cases hf : fmtOfName name with
    | ok f => simp [hf] at h
    | error e' => simp [hf] at h; subst h; exact fmtOfName_only_valueError name e' hf

/-- **`str(p)` is the historical format** and therefore round-trips under the same conditions -/
theorem C07_str_roundtrip_partial (T : Tab) (hT : TabOk T) (p : Path) (hs : PathSafe T .historical p) :
    pathStr T p = toUri T .historical p ∧ fromUri T (pathStr T p) = .ok (normPath T .historical p) :=
  ⟨rfl, C07_uri_roundtrip_partial T hT .historical p hs⟩

/-- **CIMObject header** (`get_cimobject_header`): a string is passed through, an instance path / class path is printed in
    the `cimobject` format — which the parser accepts, finding no host (partial: F1, F2 excluded by `PathOk`) — and
    any other argument is a TypeError. -/
theorem C07_cimobject_header_partial (T : Tab) (hT : TabOk T) :
    (∀ s, cimObjectHeader T (.text s) = .ok s) ∧
    (∀ p, PathOk T .cimobject p → ∃ u, cimObjectHeader T (.inst p) = .ok u ∧
        fromUri T u = .ok (normPath T .cimobject p) ∧ (normPath T .cimobject p).host = none) ∧
    (∀ p : ClassPath, HeadOk T .cimobject p.host p.ns p.cls → ∃ u, cimObjectHeader T (.cls p) = .ok u ∧
        fromUriClass T u = .ok { host := none, ns := p.ns, cls := p.cls }) ∧
    cimObjectHeader T .other = .error .typeError := by
  refine ⟨fun _ => rfl, ?_, ?_, rfl⟩
  · intro p hs
    refine ⟨_, rfl, C07_uri_roundtrip_all_formats_partial T hT .cimobject p hs, ?_⟩
    cases p; simp [normPath, Path.host, parsedHost]
  · intro p hs
    refine ⟨_, rfl, ?_⟩
    have := C07_class_roundtrip_all_formats_partial T hT .cimobject p hs
    have hmap : p.ns.map (caseOf T .cimobject) = p.ns := by cases p.ns <;> simp [caseOf]
    simpa [parsedHost, caseOf, hmap] using this

/-- **Namespace setter** (`namespace.strip('/')` in both classes): the stored namespace never starts or ends with a
    slash, the setter is idempotent, and a namespace without outer slashes is stored unchanged. -/
theorem C07_namespace_setter (ns : Option Str) :
    (∀ n, nsSetter ns = some n → n.head? ≠ some '/' ∧ n.getLast? ≠ some '/') ∧
    nsSetter (nsSetter ns) = nsSetter ns ∧
    (∀ n, ns = some n → n.head? ≠ some '/' → n.getLast? ≠ some '/' → nsSetter ns = ns) := by
  refine ⟨?_, ?_, ?_⟩
  · intro n h
    cases ns with
    | none => simp [nsSetter] at h
    | some m => simp [nsSetter] at h; subst h; exact stripSlashes_ends m
  · cases ns with
    | none => rfl
    | some m =>
      simp only [nsSetter, Option.map_some]
      rw [stripSlashes_id (stripSlashes_ends m).1 (stripSlashes_ends m).2]
  · intro n h h1 h2; subst h; simp [nsSetter, stripSlashes_id h1 h2]

/-- **Constructor**: whatever key list is passed (names equal up to case included), the constructed path satisfies
    the NocaseDict invariant on its keybindings and its namespace has no outer slashes. -/
theorem C07_constructor_invariants (T : Tab) (cls : Str) (kbs : List (Str × KeyVal)) (host ns : Option Str) :
    (foldNames T (mkPath T cls kbs host ns).keys).Nodup ∧
    (∀ n, (mkPath T cls kbs host ns).ns = some n → n.head? ≠ some '/' ∧ n.getLast? ≠ some '/') := by
  constructor
  · simp only [mkPath, Path.keys, foldNames]
    rw [names_ofList, List.map_map]
    exact nc_foldl_nodup kbs [] (by simp)
  · intro n h; exact (C07_namespace_setter ns).1 n h

example : nsSetter (some "//root/cimv2/".toList) = some "root/cimv2".toList ∧ nsSetter (some "/".toList) = some [] ∧
    nsSetter none = none := by decide
example : pathBeq (mkPath asciiTab ['C'] [(['k'], .int 1), (['j'], .bool true), (['K'], .int 2)] none (some "/n/".toList))
    (.mk none (some ['n']) ['C'] (.cons ['K'] (.int 2) (.cons ['j'] (.bool true) .nil))) = true := by decide +kernel

/-- **The character-table hypotheses are per-character facts.**  `TabOk` (used by every round-trip theorem) follows from
    five statements about single characters; the harness checks exactly these five for all 1 112 064 code points of the
    running Python on every run (`tabok_exhaustive` in the evidence), so `TabOk` is no longer an assumption about the
    generator's alphabet only. -/
theorem C07_tabOk_of_char_facts (T : Tab) (h : TabOkChar T) : TabOk T := TabOk.of_char h

example : TabOkChar asciiTab :=
  ⟨fun c => by simp [asciiTab, lowerAscii_idem], fun c => by simp [asciiTab, lowerAscii_idem],
   asciiTabOk.not_word, asciiTabOk.digit_word, asciiTabOk.lower_ascii⟩

/-! non-vacuity: a path with every value type, a nested reference, host with port and hyphen, two-level namespace -/
def demoSafe : Path := .mk (some "my-host.acme.com:5989".toList) (some "root/cimv2".toList) "CIM_Foo".toList
  (.cons "Name".toList (.str "a\"b\\c, d=e".toList) (.cons "B".toList (.bool true) (.cons "I".toList (.int (-42))
    (.cons "Ref".toList (.ref (.mk none (some "root".toList) "CIM_Bar".toList (.cons "X".toList (.int 1) .nil))) .nil))))

example : okIs (fromUri asciiTab (toUri asciiTab .standard demoSafe)) (normPath asciiTab .standard demoSafe) = true := by decide +kernel
example : okIs (fromUri asciiTab (toUri asciiTab .historical demoSafe)) (normPath asciiTab .historical demoSafe) = true := by decide +kernel
example : okIs (fromUri asciiTab (toUri asciiTab .canonical demoSafe)) (normPath asciiTab .canonical demoSafe) = true := by decide +kernel

/-- non-vacuity of the hypotheses: `TabOk` holds for the ASCII table and `PathSafe` for a path with host, two-level
    namespace, a string with quote / backslash / comma / `=`, an integer and a nested reference with a boolean -/
def demoSmall : Path := .mk (some "my-host:5989".toList) (some "root/cimv2".toList) "CIM_Foo".toList
  (.cons "Name".toList (.str "a\"b\\,=".toList) (.cons "I".toList (.int (-42))
    (.cons "Ref".toList (.ref (.mk none (some "root".toList) "CIM_Bar".toList (.cons "X".toList (.bool true) .nil))) .nil)))

example : TabOk asciiTab := asciiTabOk
example : PathSafe asciiTab .standard demoSmall := by
  have head1 : HeadSafe asciiTab .standard (some "my-host:5989".toList) (some "root/cimv2".toList) "CIM_Foo".toList :=
    ⟨(by decide), (by intro x hx; cases hx; decide +kernel), (by intro x hx; cases hx; decide +kernel), (by decide +kernel),
     (by intro h; cases h)⟩
  have head2 : HeadSafe asciiTab .standard none (some "root".toList) "CIM_Bar".toList :=
    ⟨(by decide), (by intro x hx; cases hx), (by intro x hx; cases hx; decide +kernel), (by decide +kernel), (by intro h; cases h)⟩
  have str1 : (∀ c ∈ "a\"b\\,=".toList, c ≠ '\n') ∧ NotUri asciiTab "a\"b\\,=".toList ∧ dtAccepts "a\"b\\,=".toList = false :=
    ⟨(by decide +kernel), isValueError_eq (by decide +kernel), (by decide +kernel)⟩
  simp only [demoSmall, PathSafe, KeysSafe, ValSafe]
  exact ⟨head1, (by intro h; cases h), (by decide +kernel), (by decide +kernel), str1, trivial,
    ⟨head2, (by intro h; cases h), (by decide +kernel), (by decide +kernel), trivial, trivial⟩, trivial⟩

/-! ### negation witnesses: each exclusion of `PathSafe` is needed (model = code incl. the open findings) -/

/-- F1: a newline in a string key — printed, not accepted -/
theorem C07_roundtrip_fails_at_newline :
    isValueError (fromUri asciiTab (toUri asciiTab .standard
      (.mk none none ['C'] (.cons ['k'] (.str ['a', '\n', 'b']) .nil)))) = true := by decide +kernel

/-- F2: a namespace with a hyphen — printed, not accepted -/
theorem C07_roundtrip_fails_at_namespace_chars :
    isValueError (fromUri asciiTab (toUri asciiTab .standard
      (.mk none (some "root/my-ns".toList) ['C'] (.cons ['k'] (.int 1) .nil)))) = true := by decide +kernel

/-- F3: historical format (`str()`), host without namespace — printed `//h/C.k=1`, not accepted -/
theorem C07_roundtrip_fails_at_historical_host_without_namespace :
    toUri asciiTab .historical (.mk (some ['h']) none ['C'] (.cons ['k'] (.int 1) .nil)) = "//h/C.k=1".toList ∧
    isValueError (fromUri asciiTab "//h/C.k=1".toList) = true := by decide +kernel

/-- F4: canonical format, a class name with U+0130: `lower()` gives `i` + U+0307 (not `\w`) — printed, not accepted
    (the table is what Python says about these two characters) -/
def dotITab : Tab :=
  { word := fun c => asciiWord c || c == Char.ofNat 0x130,
    lower := fun c => if c == Char.ofNat 0x130 then ['i', Char.ofNat 0x307] else [lowerAscii c],
    fold := fun c => if c == Char.ofNat 0x130 then ['i', Char.ofNat 0x307] else [lowerAscii c] }

theorem C07_roundtrip_fails_at_dotted_capital_I :
    isValueError (fromUri dotITab (toUri dotITab .canonical
      (.mk none none ['C', Char.ofNat 0x130] (.cons ['k'] (.int 1) .nil)))) = true ∧
    okIs (fromUri dotITab (toUri dotITab .standard (.mk none none ['C', Char.ofNat 0x130] (.cons ['k'] (.int 1) .nil))))
      (.mk none none ['C', Char.ofNat 0x130] (.cons ['k'] (.int 1) .nil)) = true := by decide +kernel

/-- documented limit: a string that reads as a URI comes back as a reference -/
theorem C07_roundtrip_limit_string_reads_as_uri :
    okIs (fromUri asciiTab (toUri asciiTab .standard (.mk none none ['C'] (.cons ['k'] (.str "D.j=1".toList) .nil))))
      (.mk none none ['C'] (.cons ['k'] (.ref (.mk none none ['D'] (.cons ['j'] (.int 1) .nil))) .nil)) = true := by decide +kernel

/-- documented limit: a string that reads as a datetime comes back as a datetime -/
theorem C07_roundtrip_limit_string_reads_as_datetime :
    okIs (fromUri asciiTab (toUri asciiTab .standard
        (.mk none none ['C'] (.cons ['k'] (.str "20140924193040.654321+120".toList) .nil))))
      (.mk none none ['C'] (.cons ['k'] (.dt "20140924193040.654321+120".toList) .nil)) = true := by decide +kernel

/-- an instance path without keybindings is printed as a class path and not accepted -/
theorem C07_roundtrip_fails_without_keybindings :
    isValueError (fromUri asciiTab (toUri asciiTab .standard (.mk none (some ['n']) ['C'] .nil))) = true := by decide +kernel

/-- an empty host string comes back as no host -/
theorem C07_roundtrip_fails_at_empty_host :
    okIs (fromUri asciiTab (toUri asciiTab .standard (.mk (some []) (some ['n']) ['C'] (.cons ['k'] (.int 1) .nil))))
      (.mk none (some ['n']) ['C'] (.cons ['k'] (.int 1) .nil)) = true := by decide +kernel

/-- a key name that is not `\w+` is printed and not accepted -/
theorem C07_roundtrip_fails_at_key_name_chars :
    isValueError (fromUri asciiTab (toUri asciiTab .standard
      (.mk none none ['C'] (.cons "my-key".toList (.int 1) .nil)))) = true := by decide +kernel

/-- a real whose text is not of `repr(float)` shape is not read back as a real -/
theorem C07_roundtrip_fails_at_non_repr_real :
    isValueError (fromUri asciiTab (toUri asciiTab .standard
      (.mk none none ['C'] (.cons ['k'] (.real "1e+".toList) .nil)))) = true := by decide +kernel

/-- before the fix (no `.0` inserted) the literal `1e+16` that `repr(1e16)` gives is rejected by REAL_VALUE -/
theorem C07_exponent_fix_needed : realLit "1e+16".toList = false ∧ realLit (fixExp "1e+16".toList) = true ∧
    fixExp "1e+16".toList = "1.0e+16".toList := by decide +kernel

end C07
