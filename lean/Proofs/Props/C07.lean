/-
C07 — WBEM URIs round-trip and canonical URIs respect path equality.
ONLY property theorems, non-vacuity examples and negation witnesses live here; helper lemmas are
in Proofs/Lemmas/Uri.lean.  The model is Pywbem/Model/Uri.lean.
-/
import Proofs.Lemmas.Uri

namespace C07
open Pywbem.Model.Uri Pywbem.Proto Proofs.Uri

/-- the escape chains extracted from the source of to_wbem_uri() (string values and reference values) are
    backslash first, then double quote; every theorem below is about these chains -/
theorem C07_escape_chain_pinned :
    Pywbem.Generated.uriEscapeChain = [('\\', ['\\', '\\']), ('"', ['\\', '"'])] ∧
    Pywbem.Generated.uriRefEscapeChain = Pywbem.Generated.uriEscapeChain := by
  constructor <;> decide

/-- **String values survive.** for every string (quotes, backslashes, commas, newlines, anything):
    the printed form `"` + escaped + `"` is consumed by the keybinding regex as exactly one
    double-quoted value (whatever follows), and un-escaping the body gives the string back. -/
theorem C07_string_value_roundtrip (s rest : Str) :
    scanVal (quote (escape s) ++ rest) = some (quote (escape s), rest) ∧
    unescape (stripQuotes (quote (escape s))) = s := by
  constructor
  · simp [scanVal, quote, scanQuoted_escape]
  · simp [stripQuotes, quote, unescape_escape]

/-- **Integers survive.** `str(i)` of every integer is recognised by `_integerValue_to_int` as `i`
    (never as binary / octal / hex, never rejected). -/
theorem C07_int_value_roundtrip (i : Int) : intLit (pyInt i) = some i := intLit_pyInt i

/-- **Canonical URIs respect path equality.**  Two instance paths that differ only in the lexical case of
    host, namespace, class name and key names and in the order of keybindings — also inside nested
    reference keys, to any depth (induction over the derivation of `PathEquiv`) — have the identical
    canonical URI.  `PathWF` is the NocaseDict invariant (key names pairwise different after casefold);
    `hfl` is the only fact about Python's case mappings that is used. -/
theorem C07_canonical_respects_eq (T : Tab) (hfl : ∀ s, T.foldS (T.lowerS s) = T.foldS s)
    (p q : Path) (h : PathEquiv T p q) (hw : PathWF T p) :
    toUri T .canonical p = toUri T .canonical q :=
  (path_canon hfl h hw).1

/-- the same for class paths -/
theorem C07_canonical_respects_eq_class (T : Tab) (p q : ClassPath)
    (hh : OptLowerEq T p.host q.host) (hn : OptLowerEq T p.ns q.ns) (hc : T.lowerS p.cls = T.lowerS q.cls) :
    toUriClass T .canonical p = toUriClass T .canonical q :=
  headStr_canon_eq hh hn hc

/- non-vacuity: a concrete pair (case of every name changed, keys swapped, also inside the reference key) -/
def demoP : Path := .mk (some "ACME.com".toList) (some "Root/CimV2".toList) "CIM_Foo".toList
  (.cons "Name".toList (.str "a\"b".toList) (.cons "Ref".toList
    (.ref (.mk none (some "root".toList) "CIM_Bar".toList (.cons "X".toList (.int 1) (.cons "y".toList (.bool true) .nil)))) .nil))
def demoQ : Path := .mk (some "acme.COM".toList) (some "root/cimv2".toList) "cim_FOO".toList
  (.cons "REF".toList
    (.ref (.mk none (some "ROOT".toList) "cim_bar".toList (.cons "Y".toList (.bool true) (.cons "x".toList (.int 1) .nil))))
    (.cons "NAME".toList (.str "a\"b".toList) .nil))

example : PathEquiv asciiTab demoP demoQ :=
  .mk (by simp only [OptLowerEq]; decide) (by simp only [OptLowerEq]; decide) (by decide)
    (.trans .swap (.cons (by decide)
      (.ref (.mk trivial (by simp only [OptLowerEq]; decide) (by decide) (.trans .swap (.cons (by decide) .refl (.cons (by decide) .refl .nil)))))
      (.cons (by decide) .refl .nil)))
example : toUri asciiTab .canonical demoP = toUri asciiTab .canonical demoQ := by decide
example : toUri asciiTab .canonical demoP =
    "//acme.com/root/cimv2:cim_foo.name=\"a\\\"b\",ref=\"/root:cim_bar.x=1,y=TRUE\"".toList := by decide
/-- without the NocaseDict invariant the statement is false: two keys that differ only in case -/
theorem C07_canonical_needs_wf :
    ¬ (∀ p q : Path, PathEquiv asciiTab p q → toUri asciiTab .canonical p = toUri asciiTab .canonical q) := by
  intro h
  have := h (.mk none none ['C'] (.cons ['k'] (.int 1) (.cons ['K'] (.int 2) .nil)))
            (.mk none none ['C'] (.cons ['K'] (.int 2) (.cons ['k'] (.int 1) .nil)))
            (.mk trivial trivial rfl .swap)
  revert this; decide

/-- **Only ValueError.**  `CIMInstanceName.from_wbem_uri` on arbitrary text returns a path or raises
    ValueError — in particular the out-of-fuel answer of the model (`recursionError`) is never given:
    the nesting of quoted reference values is bounded by the length of the text.  Same for class paths. -/
theorem C07_fromUri_total (T : Tab) (s : Str) :
    (∀ e, fromUri T s = .error e → e = .valueError) ∧ (∀ e, fromUriClass T s = .error e → e = .valueError) := by
  constructor
  · intro e he
    have := fromUriF_total T (s.length + 1) s (by omega)
    unfold fromUri at he
    rw [he] at this; exact this
  · intro e he
    unfold fromUriClass at he
    split at he
    · cases he; rfl
    · simp only at he; split at he <;> cases he; rfl

end C07
