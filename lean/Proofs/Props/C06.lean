/-
C06 — CIM data types hold only representable values and print/parse losslessly.
ONLY property theorems, non-vacuity examples and negation witnesses live here; helper lemmas are in
Proofs/Lemmas/CimTypes.lean and Proofs/Lemmas/DateTime.lean.

Models: Pywbem/Model/CimTypes.lean (CIMInt.__new__ incl. CPython int(), real text fixup),
        Pywbem/Model/DateTime.lean (CIMDateTime), Pywbem/Model/CimValue.lean (cimvalue() = the value setters).
Tables extracted from the repo on every run: Pywbem/Generated/CimTypes.lean, Pywbem/Generated/Config.lean.
-/
import Proofs.Lemmas.CimTypes
import Proofs.Lemmas.CimUnpack
import Proofs.Lemmas.TypedElems
import Proofs.Lemmas.AtomicXml
import Proofs.Lemmas.FloatText
import Pywbem.Model.Utf8Decode
import Pywbem.Model.FloatText
import Proofs.Lemmas.DateTime
import Proofs.Lemmas.DateTimeWF

namespace C06
open Pywbem.Proto Pywbem.Model.CimTypes Pywbem.Model.DateTime Pywbem.Model.CimValue Pywbem.Model.TypedElems Pywbem.Model.AtomicXml
open Proofs.CimTypes Proofs.DateTime

/-! ## (1) integer types -/

/-- the limits found in the source (minvalue/maxvalue of the 8 classes, re-extracted on every run) are the
    DSP0004 ones: 0 … 2^n−1 and −2^(n−1) … 2^(n−1)−1 -/
theorem C06_int_limits_are_dsp0004 : Pywbem.Generated.intTypes = specIntTypes := by decide

/-- range checking is on in the repo's configuration (pywbem/config.py: ENFORCE_INTEGER_RANGE) -/
theorem C06_int_range_enforced_by_default : Pywbem.Generated.enforceIntegerRange = true := by decide

/-- **A CIM integer object never holds a value outside the range of its CIM type** — for every one of the 8
    types and EVERY call of the constructor the model covers: any number of positional arguments, the `x=` and
    `base=` keywords, ints, bools, floats (all bit patterns), str / bytes in every base 0, 2..36 with prefixes,
    underscores, signs, white space, Unicode digits; None and other objects.  The bounds are the DSP0004 ones. -/
theorem C06_int_in_range (t : IntTy) (c : Call) (x : CimInt) (h : mkIntCfg t c = .ok x) :
    x.ty = t ∧ t.specLo ≤ x.val ∧ x.val ≤ t.specHi := by
  have := mkInt_range t c x (by simpa [mkIntCfg, C06_int_range_enforced_by_default] using h)
  rw [(limits_spec t).1, (limits_spec t).2] at this
  exact this

/-- the object holds exactly the value `int(*args, **kwargs)` computes from the constructor's arguments
    (the range check and the object creation see the same value) -/
theorem C06_int_holds_int_of_args (t : IntTy) (c : Call) (x : CimInt) (h : mkIntCfg t c = .ok x) :
    ∃ args, effArgs c = .ok args ∧ pyInt args c.kwBase = .ok x.val :=
  mkInt_value _ t c x h

/-- a plain Python int is accepted iff it is in range, and then held unchanged -/
theorem C06_int_plain_int (t : IntTy) (v : Int) :
    mkIntCfg t { pos := [.int v] } =
      if t.specLo ≤ v ∧ v ≤ t.specHi then .ok ⟨t, v⟩ else .error .valueError := by
  have hl := limits_spec t
  simp only [mkIntCfg, C06_int_range_enforced_by_default, mkInt, effArgs, pyInt, intOf1, bind, Except.bind,
    Bool.true_and, hl.1, hl.2]
  by_cases h : t.specLo ≤ v ∧ v ≤ t.specHi
  · have : ¬ (v > t.specHi ∨ v < t.specLo) := by omega
    simp [h, this]
  · have : (v > t.specHi ∨ v < t.specLo) := by omega
    simp [h, this]

/-- the constructor raises nothing but TypeError, ValueError or (float ±inf) OverflowError -/
theorem C06_int_constructor_errors (t : IntTy) (c : Call) (e : PyExc) (h : mkIntCfg t c = .error e) :
    e = .typeError ∨ e = .valueError ∨ e = .overflowError :=
  mkInt_err _ t c e h

/-- a *text* with a decimal point is never accepted by an integer constructor (int() raises ValueError in every
    base) — unlike a float, which is truncated (finding C06-KF3) -/
theorem C06_int_rejects_text_with_point (t : IntTy) (s : List Char) (hs : '.' ∈ s) :
    mkIntCfg t { pos := [.str s] } = .error .valueError := by
  simp [mkIntCfg, mkInt, effArgs, pyInt, intOf1, intOfStr_dot s 10 (by omega) hs, bind, Except.bind]

/-- the range check is what keeps the invariant: with the switch off an out-of-range object exists -/
theorem C06_int_unchecked_fails_at :
    ¬ (∀ t c x, mkInt false t c = .ok x → t.specLo ≤ x.val ∧ x.val ≤ t.specHi) := by
  intro h
  have := h .uint8 { pos := [.int 256] } ⟨.uint8, 256⟩ (by decide)
  revert this; decide

-- non-vacuity: every kind of argument form is accepted for some value
example : mkIntCfg .uint8 { pos := [.str "2A".toList], kwBase := some (.int 16) } = .ok ⟨.uint8, 42⟩ := by decide
example : mkIntCfg .uint8 { kwX := some (.str "0x2a".toList), kwBase := some (.int 0) } = .ok ⟨.uint8, 42⟩ := by decide
example : mkIntCfg .sint8 { pos := [.str " -1_2_8 ".toList] } = .ok ⟨.sint8, -128⟩ := by decide
example : mkIntCfg .uint8 { pos := [.str "7".toList], kwX := some (.int 8) } = .ok ⟨.uint8, 7⟩ := by decide
example : mkIntCfg .uint8 { pos := [.float 0x406FFFFFFFFFFFFF] } = .ok ⟨.uint8, 255⟩ := by decide   -- 255.99999999999997
example : mkIntCfg .uint8 { pos := [.float 0x4070000000000000] } = .error .valueError := by decide    -- 256.0
example : mkIntCfg .uint8 { pos := [.float 0x7FF0000000000000] } = .error .overflowError := by decide -- inf
example : mkIntCfg .uint64 { pos := [.int 18446744073709551615] } = .ok ⟨.uint64, 18446744073709551615⟩ := by decide
example : mkIntCfg .uint64 { pos := [.int 18446744073709551616] } = .error .valueError := by decide

/-! ## (2) CIMDateTime -/

/-- `minutes_from_utc` returns the offset the object was built with, for every offset Python's datetime accepts
    (the `seconds / 60`, `days == -1` arithmetic is right) -/
theorem C06_dt_offset (y mo d h mi s us : Nat) (off : Int) (p : Option Nat) (ho : -1440 < off ∧ off < 1440) :
    minutesFromUtc (.ts y mo d h mi s us off p) = .ok off :=
  minutesFromUtc_ts y mo d h mi s us off p ho

/-- **For every CIMDateTime x whose value DSP0004 can express, str(x) is a 25-character string and
    CIMDateTime(str(x)) is x again — same kind, same fields, same UTC offset, same precision.**
    Quantified over ALL well-formed states (any year 1..9999 incl. leap days, any time of day, any microsecond,
    every offset −999…+999, every interval 0…99999999 days, each of the 12 + 11 precisions), not over samples. -/
theorem C06_dt_roundtrip (x : DT) (hw : WF x = true) (he : Expressible x = true) :
    ∃ s, toStr x = .ok s ∧ s.length = 25 ∧ parse s = .ok x := by
  cases x with
  | ts y mo d h mi s us off p => exact rt_ts y mo d h mi s us off p hw he
  | iv days secs us p =>
    simp [Expressible] at he
    obtain ⟨dd, rfl⟩ : ∃ dd : Nat, days = (dd : Int) := ⟨days.toNat, by omega⟩
    exact rt_iv dd secs us p hw (by omega)

/-- str(x) of an expressible value has exactly 25 characters -/
theorem C06_dt_str_len (x : DT) (hw : WF x = true) (he : Expressible x = true) :
    ∃ s, toStr x = .ok s ∧ s.length = 25 := by
  obtain ⟨s, h1, h2, _⟩ := C06_dt_roundtrip x hw he
  exact ⟨s, h1, h2⟩

/-- kind, offset and precision survive the round trip (the three observations the property names) -/
theorem C06_dt_roundtrip_observables (x : DT) (hw : WF x = true) (he : Expressible x = true) :
    ∃ s y, toStr x = .ok s ∧ parse s = .ok y ∧ y.isInterval = x.isInterval ∧ y.prec = x.prec ∧
      minutesFromUtc y = minutesFromUtc x := by
  obtain ⟨s, h1, _, h3⟩ := C06_dt_roundtrip x hw he
  exact ⟨s, x, h1, h3, rfl, rfl, rfl⟩

/-- the copy constructor CIMDateTime(x) keeps the whole state, precision included (after the fix) -/
theorem C06_dt_copy (x : DT) : construct (.cimdt x) = .ok x := rfl

/-- only 25-character strings are accepted -/
theorem C06_dt_parse_len (s : List Char) (x : DT) (h : parse s = .ok x) : s.length = 25 := by
  unfold parse at h
  split at h
  · rename_i hm; simp [matchTs] at hm; omega
  · split at h
    · rename_i hm; simp [matchIv] at hm; omega
    · simp at h

/-- the constructor raises nothing but ValueError (bad string) or TypeError (bad argument type) -/
theorem C06_dt_constructor_errors (a : DtArg) (e : PyExc) (h : construct a = .error e) :
    e = .valueError ∨ e = .typeError :=
  construct_err a e h

/-- states built from datetime / timedelta objects are well-formed whenever Python could build the argument -/
theorem C06_dt_from_python_objects_wf :
    (∀ y mo d h mi s us off, validDateTime y mo d h mi s us = true →
        ∃ x, construct (.datetime y mo d h mi s us off) = .ok x ∧ WF x = true) ∧
    (∀ days secs us, secs < 86400 → us < 1000000 →
        ∃ x, construct (.timedelta days secs us) = .ok x ∧ WF x = true) := by
  constructor
  · intro y mo d h mi s us off hv
    exact ⟨_, rfl, by simpa [WF] using hv⟩
  · intro days secs us h1 h2
    refine ⟨_, rfl, ?_⟩
    simp [WF, h1, h2]; omega

/-- **every state the string constructor can produce is well-formed** — for ALL input strings (arbitrary length and
    characters): the precision is one of the 11 (timestamp) / 10 (interval) reachable indices and every field behind
    it holds the value the constructor substitutes for asterisks.  This discharges the `WF` hypothesis of the
    round-trip theorem for every object that can exist. -/
theorem C06_dt_parse_wf (s : List Char) (x : DT) (h : parse s = .ok x) : WF x = true :=
  parse_wf s x h

/-- every constructor path (str, datetime, timedelta, copy of a well-formed CIMDateTime) yields a well-formed state -/
theorem C06_dt_construct_wf (a : DtArg) (x : DT) (hv : a.valid = true) (h : construct a = .ok x) : WF x = true := by
  cases a with
  | str s => exact parse_wf s x (by simpa [construct] using h)
  | datetime y mo d hh mi s us off =>
    simp [construct] at h; subst h; simpa [WF, DtArg.valid] using hv
  | timedelta days secs us =>
    simp [construct] at h; subst h
    simp [DtArg.valid] at hv
    simp [WF, hv]; omega
  | cimdt x0 => simp [construct] at h; subst h; simpa [DtArg.valid] using hv
  | other => simp [construct] at h

/-- **the property for every CIMDateTime object that can be constructed**: if its value is expressible in DSP0004,
    str() gives 25 characters and the string constructor gives the same object back (kind, fields, offset, precision) -/
theorem C06_dt_roundtrip_of_constructed (a : DtArg) (x : DT) (hv : a.valid = true) (h : construct a = .ok x)
    (he : Expressible x = true) : ∃ s, toStr x = .ok s ∧ s.length = 25 ∧ construct (.str s) = .ok x :=
  C06_dt_roundtrip x (C06_dt_construct_wf a x hv h) he

/-- outside "expressible" the 25-character claim fails (not a violation, recorded as an observation):
    100 000 000 days print with 26 characters, −1 day prints a sign -/
theorem C06_dt_not_expressible_fails_at :
    ¬ (∀ x, WF x = true → ∃ s, toStr x = .ok s ∧ s.length = 25) := by
  intro h
  obtain ⟨s, h1, h2⟩ := h (.iv 100000000 0 0 none) (by decide)
  have : toStr (.iv 100000000 0 0 none) = .ok "100000000000000.000000:000".toList := by decide
  rw [this] at h1
  cases h1
  revert h2; decide

-- non-vacuity of the round-trip theorem: a leap day at offset −999 with precision 18, offset +999, an interval
example : WF (.ts 2024 2 29 23 59 59 128000 (-999) (some 18)) = true ∧
          Expressible (.ts 2024 2 29 23 59 59 128000 (-999) (some 18)) = true := by decide
example : toStr (.ts 2024 2 29 23 59 59 128000 (-999) (some 18)) = .ok "20240229235959.128***-999".toList := by decide
example : parse "20240229235959.128***-999".toList = .ok (.ts 2024 2 29 23 59 59 128000 (-999) (some 18)) := by decide
example : WF (.ts 1 1 1 0 0 0 0 999 none) = true ∧ Expressible (.ts 1 1 1 0 0 0 0 999 none) = true := by decide
example : WF (.iv 99999999 86399 999999 none) = true ∧ Expressible (.iv 99999999 86399 999999 none) = true := by decide
example : parse "2018**********.******+000".toList = .ok (.ts 2018 1 1 0 0 0 0 0 (some 4)) := by decide
example : parse "********************.***:000".toList = .error .valueError := by decide
example : parse "20180911124613.128456|060".toList = .error .valueError := by decide
example : parse "20180911124613.128456+000x".toList = .error .valueError := by decide
example : parse "20230229000000.000000+000".toList = .error .valueError := by decide   -- not a leap year

/-! ## (3) reals -/

/-- DSP0201 spelling of the special values -/
theorem C06_real_specials :
    fixup "NAN".toList = "NaN".toList ∧ fixup "INF".toList = "INF".toList ∧ fixup "-INF".toList = "-INF".toList := by
  decide

/-- the format specs in the source print 17 significant digits for real64 / float and 11 for real32 -/
theorem C06_real_format_digits :
    specDigits Pywbem.Generated.real64FormatSpec = some 17 ∧ specDigits Pywbem.Generated.floatFormatSpec = some 17 ∧
    specDigits Pywbem.Generated.real32FormatSpec = some 11 := by decide

/-- on EVERY text of the shape '%.<n>G' produces for a finite value, the fix-up yields a DSP0201 realValue
    (digits "." digits [E sign digits]) and changes nothing except inserting ".0" after an integer mantissa -/
theorem C06_real_fixup_shape (g : GText) (h : g.ok = true) :
    fixup g.render = g.withFraction.render ∧ g.withFraction.isRealValue = true :=
  ⟨fixup_render g h, withFraction_isRealValue g h⟩

/-- **Real values written to CIM-XML parse back to the same floating point value**, for every codec satisfying
    the RealCodec hypotheses (CPython's '%.17G' / float(), or '%.11G' over binary32 values): a hypothesis record,
    not an axiom; K feeds CPython's own answers and the oracle checks the round trip on the real code. -/
theorem C06_real_roundtrip (R : RealCodec) (x : Nat) (hx : R.finite x = true) :
    R.parse (fixup (R.fmt x)) = some x :=
  real_roundtrip R x hx

/-- the parse side (pywbem/_tupleparse.py unpack_numeric): every DSP0201 realValue text is read through float() —
    never through the hexadecimal or int() branch — and comes back as Real64 / Real32 -/
theorem C06_real_text_parsed_by_float (g : GText) (h : g.isRealValue = true) (b : Nat) :
    unpackNumeric (some b) g.render .real64 = .ok (.real64 b) ∧
    unpackNumeric (some b) g.render .real32 = .ok (.real32 b) := by
  have := unpackNumeric_realValue g h (some b)
  simpa using this

/-- unpack_numeric never lets an OverflowError escape (text 'INF' for an integer type, an integer beyond the float
    range for a real type): after /repo fix 9123e9a the constructor's ValueError *and* OverflowError become
    CIMXMLParseError.  (ValueError / TypeError remain in the statement only because the hexadecimal branch and the
    constructor are not shown here to be unable to raise them for int / float arguments.) -/
theorem C06_unpack_numeric_no_overflow_leak (pf : Option Nat) (data : List Char) (t : NumTy) (e : PyExc)
    (h : unpackNumeric pf data t = .error e) : e = .cimXmlParseError ∨ e = .valueError ∨ e = .typeError :=
  unp_no_ovf pf data t e h

example : unpackNumeric (some 0x7FF0000000000000) "inf".toList (.int .uint8) = .error .cimXmlParseError := by decide
example : unpackNumeric (some 0x400D99999999999A) "3.7".toList (.int .uint8) = .ok (.cimInt .uint8 3) := by decide

/-- **written and read back**: the text atomic_to_cim_xml produces for a finite real, given to unpack_numeric with
    the codec's own float(), yields a Real64 object with the same bits (same RealCodec hypotheses) -/
theorem C06_real_xml_roundtrip (R : RealCodec) (x : Nat) (hx : R.finite x = true) :
    unpackNumeric (R.parse (fixup (R.fmt x))) (fixup (R.fmt x)) .real64 = .ok (.real64 x) := by
  obtain ⟨g, hg, hfmt⟩ := R.shape x hx
  have hrt := C06_real_roundtrip R x hx
  rw [hrt, hfmt, (C06_real_fixup_shape g hg).1]
  exact (C06_real_text_parsed_by_float g.withFraction (C06_real_fixup_shape g hg).2 x).1

/-- **real32**: a binary32 value written with '%.11G' is read back by unpack_numeric as a Real32 whose value rounds to
    the same binary32 value (hypothesis record RealCodec32; the double itself may differ — 11 digits do not pin down a
    double, and pywbem's Real32 holds a double) -/
theorem C06_real32_xml_roundtrip (R : RealCodec32) (x : Nat) (hx : R.finite32 x = true) :
    ∃ y, unpackNumeric (R.parse (fixup (R.fmt x))) (fixup (R.fmt x)) .real32 = .ok (.real32 y) ∧ R.toF32 y = R.toF32 x := by
  obtain ⟨g, hg, hfmt⟩ := R.shape x hx
  obtain ⟨y, hy, hyx⟩ := R.rt32 x hx
  have hfix := (C06_real_fixup_shape g hg)
  have hparse : R.parse (fixup (R.fmt x)) = some y := by
    rw [hfmt, hfix.1]
    unfold GText.withFraction
    split
    · rename_i hf; rw [R.dot0 g hg (by simpa using hf), ← hfmt]; exact hy
    · rw [← hfmt]; exact hy
  refine ⟨y, ?_, hyx⟩
  rw [hparse, hfmt, hfix.1]
  exact (C06_real_text_parsed_by_float g.withFraction hfix.2 y).2

/-- the RealCodec32 hypotheses are satisfiable -/
example : RealCodec32 :=
  { fmt := fun _ => ['0'], parse := fun _ => some 0, toF32 := fun _ => 0, finite32 := fun _ => true,
    shape := fun _ _ => ⟨⟨false, ['0'], [], none⟩, by decide, by decide⟩,
    rt32 := fun _ _ => ⟨0, rfl, rfl⟩,
    dot0 := fun _ _ _ => rfl }

/-- the RealCodec hypotheses are satisfiable (a one-value toy codec) -/
example : RealCodec :=
  { fmt := fun _ => ['0'], parse := fun _ => some 0, finite := fun x => x == 0,
    shape := fun _ _ => ⟨⟨false, ['0'], [], none⟩, by decide, by decide⟩,
    rt := fun x hx => by simp at hx; simp [hx],
    dot0 := fun _ _ _ => rfl }

example : fixup "1E+22".toList = "1.0E+22".toList ∧ fixup "-0".toList = "-0.0".toList ∧
          fixup "1.5".toList = "1.5".toList ∧ fixup "10000000000000000".toList = "10000000000000000.0".toList := by decide

/-! ## (4) cimvalue() and the value setters -/

/-- **cimvalue(), hence every value setter, rejects with TypeError or ValueError only** (after the fix that turns
    the OverflowError of the numeric constructors into ValueError) — all value kinds × all type names, arrays,
    inferred type -/
theorem C06_cimvalue_only_type_value_errors (env : Env) (v : Val) (t : Option Ty) (e : PyExc)
    (h : cimvalue env v t = .error e) : e = .typeError ∨ e = .valueError :=
  cimvalue_err env v t e h

/-- **stored as exactly that CIM type** — partial: everywhere except the pass-through of non-string objects for
    type string/char16 (known finding C06-KF1, predicate `passesUntyped`).  `scInv` = input CIMInt objects came
    out of the constructor.
    Full statement (fails, see the witness below): ∀ v t r, cimvalueSc env v t = .ok r → hasTypeSc r t. -/
theorem C06_cimvalue_typed_partial (env : Env) (v : Sc) (t : Ty) (r : Sc) (h : cimvalueSc env v t = .ok r)
    (hx : passesUntyped v t = false) (hi : scInv v = true) : hasTypeSc r t = true :=
  cimvalueSc_typed env v t r h hx hi

theorem C06_cimvalue_typed_fails_at :
    ¬ (∀ (env : Env) (v : Sc) (t : Ty) (r : Sc), cimvalueSc env v t = .ok r → hasTypeSc r t = true) := by
  intro h
  have := h ⟨fun _ _ => none, fun _ => none, fun _ => none⟩ (.int 42) .string (.int 42) (by decide)
  revert this; decide

/-- arrays: every item is stored typed (same exclusion, item by item) -/
theorem C06_cimvalue_array_typed_partial (env : Env) (l : List Sc) (t : Ty) (r : Val)
    (h : cimvalue env (.list l) (some t) = .ok r)
    (hx : ∀ s ∈ l, passesUntyped s t = false) (hi : ∀ s ∈ l, scInv s = true) : hasType r t = true := by
  simp only [cimvalue, bind, Except.bind, pure, Except.pure] at h
  cases hm : l.mapM (fun s => cimvalueSc env s t) with
  | error e => simp [hm] at h
  | ok rs =>
    simp [hm] at h; subst h
    simp only [hasType]
    exact mapM_all _ _ l rs (fun a b ha hab => cimvalueSc_typed env a t b hab (hx a ha) (hi a ha)) hm

/-- with `type=None` the type is inferred by cimtype(): whatever is accepted is stored typed as that inferred type
    (no exclusion needed: the pass-through class cannot arise, ints/floats are rejected by the inference) -/
theorem C06_cimvalue_inferred_type_typed (env : Env) (s r : Sc) (hs : s ≠ .none)
    (h : cimvalue env (.sc s) none = .ok (.sc r)) (hi : scInv s = true) :
    ∃ ty, cimtypeSc s = .ok ty ∧ hasTypeSc r ty = true := by
  unfold cimvalue at h
  split at h
  · rename_i heq; simp at heq; exact absurd heq hs
  · simp only [cimtypeVal, bind, Except.bind] at h
    cases hc : cimtypeSc s with
    | error e => simp [hc] at h
    | ok ty =>
      simp only [hc] at h
      cases hv : cimvalueSc env s ty with
      | error e => simp [hv] at h
      | ok r' =>
        simp [hv, pure, Except.pure] at h
        subst h
        refine ⟨ty, rfl, cimvalueSc_typed env s ty r' hv ?_ hi⟩
        cases s <;> simp [cimtypeSc] at hc <;> subst hc <;> simp [passesUntyped]

/-- an integer given for an integer type is stored as exactly that integer of exactly that type -/
theorem C06_cimvalue_int_exact (env : Env) (v : Int) (ty : IntTy) (r : Sc)
    (h : cimvalueSc env (.int v) (.int ty) = .ok r) : r = .cimInt ty v := by
  simp only [cimvalueSc, cimvalueSc.conv, toArg] at h
  have h2 := ovf_ok _ _ h
  rw [C06_int_plain_int] at h2
  split at h2 <;> simp [Except.map] at h2
  exact h2.symm

/-- type boolean stores the Python truth value of whatever is given (documented behaviour; known finding
    C06-KF2 for non-boolean inputs): full statement "a non-boolean is rejected" fails -/
theorem C06_cimvalue_boolean_is_truth_value (env : Env) (v : Sc) (hv : v ≠ .none) :
    cimvalueSc env v .boolean = .ok (.bool (truthy v)) := by
  cases v <;> simp [cimvalueSc] at hv ⊢

theorem C06_cimvalue_boolean_rejects_non_boolean_fails_at :
    ¬ (∀ (env : Env) (s : List Char), ∃ e, cimvalueSc env (.str s) .boolean = .error e) := by
  intro h
  obtain ⟨e, he⟩ := h ⟨fun _ _ => none, fun _ => none, fun _ => none⟩ "false".toList
  have : cimvalueSc ⟨fun _ _ => none, fun _ => none, fun _ => none⟩ (.str "false".toList) .boolean =
      .ok (.bool true) := by decide
  rw [this] at he; cases he

/-- a float given for an integer type is truncated toward zero (known finding C06-KF3): 1.5 → Uint8(1) -/
theorem C06_cimvalue_float_exact_fails_at :
    cimvalueSc ⟨fun _ _ => none, fun _ => none, fun _ => none⟩ (.float 0x3FF8000000000000) (.int .uint8) =
      .ok (.cimInt .uint8 1) := by decide

/-- the Python classes `type_from_name` maps the CIM type names to (table extracted from the source) -/
theorem C06_type_from_name_table :
    ∀ t : Ty, t.className.isSome = true → Pywbem.Generated.typeFromName.lookup t.name = t.className := by
  intro t ht
  cases t with
  | int ty => cases ty <;> decide
  | _ => first | decide | simp [Ty.className] at ht

/-! ## (5) the typed element classes and every public way of giving them a value
    (Model/TypedElems.lean: CIMProperty / CIMParameter / CIMQualifier / CIMQualifierDeclaration, CIMInstance) -/

/-- the output of cimvalue() keeps the class invariant of CIMInt objects (`scInv`), so values read back from a typed
    element can be given to another one: the `scInv` hypotheses below are about user-supplied objects only -/
theorem C06_cimvalue_keeps_class_invariant (env : Env) (v r : Sc) (t : Ty) (h : cimvalueSc env v t = .ok r)
    (hi : scInv v = true) : scInv r = true :=
  cimvalueSc_scInv env v r t h hi

/-- `__init__` of the four typed element classes raises only TypeError / ValueError — for every combination of
    value (scalar, array, None), `type` (given, None = inferred, unknown name), `is_array`, `embedded_object`,
    `reference_class` -/
theorem C06_elem_constructor_errors (env : Env) (k : ElemKind) (a : Args) (x : PyExc) (h : mkElem env k a = .error x) :
    x = .typeError ∨ x = .valueError :=
  mkElem_err env k a x h

/-- a constructed element has a type from ALL_CIMTYPES / QUALIFIER_CIMTYPES (tables extracted from the source; never an
    unknown name, never `reference` for the qualifier classes) and its value is what cimvalue() made of the argument -/
theorem C06_elem_constructor_stores_cimvalue (env : Env) (k : ElemKind) (a : Args) (e : Elem) (h : mkElem env k a = .ok e) :
    e.kind = k ∧ typeAllowed k e.type = true ∧ e.type ≠ .unknown ∧ cimvalue env a.value (some e.type) = .ok e.value := by
  obtain ⟨h1, h2, h3⟩ := mkElem_ok env k a e h
  refine ⟨h1, h2, ?_, h3⟩
  intro hu; rw [hu] at h2; revert h2; cases k <;> decide

/-- **a value given to the constructor of a typed element is stored as exactly that CIM type** (each array item),
    for every CIM type except string / char16 (known finding C06-KF1, see `Typed`) — partial in exactly that sense.
    Full statement (fails for string/char16, witness `C06_cimvalue_typed_fails_at`):
    mkElem env k a = .ok e → hasType e.value e.type. -/
theorem C06_elem_constructor_typed_partial (env : Env) (k : ElemKind) (a : Args) (e : Elem) (h : mkElem env k a = .ok e)
    (hi : valInv a.value = true) : Typed e = true :=
  mkElem_typed env k a e h hi

/-- the `value` setter of all four classes: keeps kind / type / is_array / embedded_object, stores cimvalue(v, type),
    raises only TypeError / ValueError, and what it stores is typed (same exclusion) -/
theorem C06_value_setter (env : Env) (e : Elem) (v : Val) :
    (∀ e', setValue env e v = .ok e' →
        e'.kind = e.kind ∧ e'.type = e.type ∧ cimvalue env v (some e.type) = .ok e'.value ∧
        (valInv v = true → Typed e' = true)) ∧
    (∀ x, setValue env e v = .error x → x = .typeError ∨ x = .valueError) := by
  constructor
  · intro e' h
    obtain ⟨h1, h2, _, _, h5⟩ := setValue_ok env e e' v h
    exact ⟨h1, h2, h5, fun hi => setValue_typed env e e' v h hi⟩
  · intro x h; exact setValue_err env e v x h

/-- **every public way of giving a value to a typed property**: after ANY history of `CIMInstance.update()`,
    `update_existing()` (all argument forms are item lists), `inst[name] = value | CIMProperty(…)` and
    `inst.properties[name].value = v` steps — any length, any interleaving, steps that raise in the middle of an item
    list included — every property of the instance holds a value of exactly its CIM type (up to C06-KF1), and every
    exception a step raised is TypeError / ValueError (or KeyError for `properties[unknown name]`). -/
theorem C06_instance_history_typed (env : Env) (i : Inst) (ops : List Op) (hi : i.typed = true)
    (ho : ∀ o ∈ ops, opInv o = true) :
    (run env i ops).1.typed = true ∧
    ∀ x, some x ∈ (run env i ops).2 → (x = .typeError ∨ x = .valueError ∨ x = .keyError) := by
  obtain ⟨h1, h2⟩ := run_inv env i ops hi ho
  refine ⟨h1, fun x hx => ?_⟩
  rcases h2 x hx with (h | h) | h
  · exact Or.inl h
  · exact Or.inr (Or.inl h)
  · exact Or.inr (Or.inr h)

/-- in particular from the empty instance -/
theorem C06_instance_history_typed_from_empty (env : Env) (ops : List Op) (ho : ∀ o ∈ ops, opInv o = true) :
    (run env {} ops).1.typed = true :=
  (C06_instance_history_typed env {} ops (by decide) ho).1

/-- `update_existing()` on an existing name IS the value setter of that property (it cannot bypass cimvalue());
    unknown names are skipped -/
theorem C06_update_existing_is_value_setter (env : Env) (i : Inst) (k : Nat) (v : Val) :
    setExisting env i k v =
      match i.get? k with
      | none => .ok i
      | some e => (setValue env e v).map (fun e' => { props := putProp i.props k e' }) := by
  unfold setExisting
  cases i.get? k with
  | none => rfl
  | some e => cases h : setValue env e v <;> simp [h, bind, Except.bind, pure, Except.pure, Except.map]

-- non-vacuity: a history with a rejected step in the middle of an item list
example :
    (run ⟨fun _ _ => none, fun _ => none, fun _ => none⟩ {}
      [.setItem 0 (.value (.sc (.cimInt .uint8 5))), .setItem 1 (.prop 1 { value := .sc .none, type := some (.int .sint8) }),
       .updateExisting [(1, .sc (.int (-128))), (0, .sc (.int 300)), (1, .sc (.int 7))],
       .propValue 7 (.sc (.int 1))]).2 = [none, none, some .valueError, some .keyError] := by decide
example :
    ((run ⟨fun _ _ => none, fun _ => none, fun _ => none⟩ {}
      [.setItem 0 (.value (.sc (.cimInt .uint8 5))), .setItem 1 (.prop 1 { value := .sc .none, type := some (.int .sint8) }),
       .updateExisting [(1, .sc (.int (-128))), (0, .sc (.int 300)), (1, .sc (.int 7))],
       .propValue 7 (.sc (.int 1))]).1.props.map (fun p => (p.1, p.2.value))) =
      [(0, .sc (.cimInt .uint8 5)), (1, .sc (.cimInt .sint8 (-128)))] := by decide

/-! ## (6) atomic values on the CIM-XML wire: atomic_to_cim_xml and unpack_single_value (Model/AtomicXml.lean) -/

/-- int(str(v)) == v in the model of CPython int(): the decimal text of any integer (up to the 4300-digit limit) is
    read back as that integer -/
theorem C06_int_decimal_text_roundtrip (v : Int) (hlen : (natDigits v.natAbs).length ≤ 4300) :
    intOfStr (intStr v) 10 = .ok v :=
  intOfStr_intStr v hlen

/-- the constructor given the decimal text of an integer behaves exactly as given the integer itself:
    `Uint8(str(v)) == Uint8(v)` for every type and every v (of up to 4300 digits) — accepted iff in range, same value -/
theorem C06_int_from_decimal_string (t : IntTy) (v : Int) (hlen : (natDigits v.natAbs).length ≤ 4300) :
    mkIntCfg t { pos := [.str (intStr v)] } = mkIntCfg t { pos := [.int v] } := by
  simp [mkIntCfg, mkInt, effArgs, pyInt, intOf1, intOfStr_intStr v hlen, bind, Except.bind]

example : mkIntCfg .uint16 { pos := [.str ['6', '5', '5', '3', '5']] } = .ok ⟨.uint16, 65535⟩ := by decide

/-- **CIM integers print/parse losslessly**: for every integer type and every value in its range, the text
    atomic_to_cim_xml writes (CIMInt.__str__) is read back by unpack_single_value as the same value of the same type —
    independently of the float codec (`pf` arbitrary). -/
theorem C06_atomic_roundtrip_int (fmt17 fmt11 : Nat → List Char) (utf8 : List Nat → Option (List Char)) (pf : Option Nat)
    (t : IntTy) (v : Int) (h1 : t.specLo ≤ v) (h2 : v ≤ t.specHi) :
    ∃ txt, atomicToCimXml fmt17 fmt11 utf8 (.cimInt t v) = .ok (some txt) ∧
      unpackSingleValue pf (some txt) (.num (.int t)) = .ok (.cimInt t v) := by
  refine ⟨intStr v, rfl, ?_⟩
  rw [← (limits_spec t).1] at h1; rw [← (limits_spec t).2] at h2
  exact unpackNumeric_intStr pf t v h1 h2

example : atomicToCimXml (fun _ => []) (fun _ => []) (fun _ => none) (.cimInt .sint8 (-128)) =
    .ok (some ['-', '1', '2', '8']) := by
  simp [atomicToCimXml, intStr, natDigits_eq, digitChar]

/-- booleans: TRUE / FALSE and back -/
theorem C06_atomic_roundtrip_boolean (fmt17 fmt11 : Nat → List Char) (utf8 : List Nat → Option (List Char)) (pf : Option Nat)
    (b : Bool) :
    ∃ txt, atomicToCimXml fmt17 fmt11 utf8 (.bool b) = .ok (some txt) ∧
      unpackSingleValue pf (some txt) .boolean = .ok (.bool b) := by
  have hf : unpackBoolean "FALSE".toList = .ok (.bool false) := by decide
  have ht : unpackBoolean "TRUE".toList = .ok (.bool true) := by decide
  cases b
  · exact ⟨"FALSE".toList, rfl, hf⟩
  · exact ⟨"TRUE".toList, rfl, ht⟩

/-- strings and (single UCS-2 character) char16 values are written and read unchanged -/
theorem C06_atomic_roundtrip_string (fmt17 fmt11 : Nat → List Char) (utf8 : List Nat → Option (List Char)) (pf : Option Nat)
    (s : List Char) (c : Char) (hc : c.toNat ≤ 0xFFFF) :
    (atomicToCimXml fmt17 fmt11 utf8 (.str s) = .ok (some s) ∧ unpackSingleValue pf (some s) .string = .ok (.str s)) ∧
    (atomicToCimXml fmt17 fmt11 utf8 (.char16 [c]) = .ok (some [c]) ∧
      unpackSingleValue pf (some [c]) .char16 = .ok (.char16 [c])) := by
  refine ⟨⟨rfl, rfl⟩, rfl, ?_⟩
  have : ¬ c.toNat > 0xFFFF := by omega
  simp [unpackSingleValue, unpackChar16, this]

/-- **CIMDateTime values print/parse losslessly on the wire**: for every constructible, expressible object the text
    atomic_to_cim_xml writes is read back by unpack_single_value as the identical object state -/
theorem C06_atomic_roundtrip_datetime (fmt17 fmt11 : Nat → List Char) (utf8 : List Nat → Option (List Char)) (pf : Option Nat)
    (x : DT) (hw : WF x = true) (he : Expressible x = true) :
    ∃ txt, atomicToCimXml fmt17 fmt11 utf8 (.cimDT x) = .ok (some txt) ∧ txt.length = 25 ∧
      unpackSingleValue pf (some txt) .datetime = .ok (.cimDT x) := by
  obtain ⟨s, h1, h2, h3⟩ := C06_dt_roundtrip x hw he
  refine ⟨s, by simp [atomicToCimXml, h1, Except.map], h2, ?_⟩
  simp [unpackSingleValue, unpackDatetime, construct, h3]

/-- reals on the wire through atomic_to_cim_xml / unpack_single_value, under the RealCodec hypotheses (fmt17 := R.fmt,
    pf := what R.parse says about the text) -/
theorem C06_atomic_roundtrip_real64 (R : RealCodec) (fmt11 : Nat → List Char) (utf8 : List Nat → Option (List Char))
    (x : Nat) (hx : R.finite x = true) :
    ∃ txt, atomicToCimXml R.fmt fmt11 utf8 (.real64 x) = .ok (some txt) ∧
      unpackSingleValue (R.parse txt) (some txt) (.num .real64) = .ok (.real64 x) :=
  ⟨fixup (R.fmt x), rfl, C06_real_xml_roundtrip R x hx⟩

/-- atomic_to_cim_xml raises only TypeError (not an atomic value: timedelta, CIM objects, …) or ValueError (undecodable
    bytes, a datetime whose offset Python cannot print) -/
theorem C06_atomic_to_cim_xml_errors (fmt17 fmt11 : Nat → List Char) (utf8 : List Nat → Option (List Char)) (v : Sc)
    (x : PyExc) (h : atomicToCimXml fmt17 fmt11 utf8 v = .error x) : x = .typeError ∨ x = .valueError := by
  cases v <;> simp only [atomicToCimXml] at h
  all_goals first
    | (simp at h; done)
    | (simp at h; simp [← h]; done)
    | (split at h <;> simp at h; simp [← h]; done)
    | skip
  · -- CIMDateTime: only str() can fail
    rename_i d
    cases hs : toStr d with
    | ok s => simp [hs, Except.map] at h
    | error e =>
      simp [hs, Except.map] at h; subst h
      cases d <;> simp [toStr] at hs
      rename_i y mo dd hh mi ss us off p
      cases hm : minutesFromUtc (.ts y mo dd hh mi ss us off p) with
      | ok o => simp [hm, bind, Except.bind] at hs
      | error e2 =>
        simp [hm, bind, Except.bind] at hs; subst hs
        simp [minutesFromUtc] at hm
        split at hm <;> simp at hm
        exact Or.inr hm.symm
  · rename_i y mo dd hh mi ss us off
    simp only [construct, bind, Except.bind] at h
    cases hm : minutesFromUtc (.ts y mo dd hh mi ss us (off.getD 0) none) with
    | ok o => simp [toStr, hm, bind, Except.bind, Except.map] at h
    | error e2 =>
      simp [toStr, hm, bind, Except.bind, Except.map] at h; subst h
      simp [minutesFromUtc] at hm
      split at hm <;> simp at hm
      exact Or.inr hm.symm

/-! ## (7) CIMDateTime.__eq__ (Model/DateTime.lean: dtEq, instants via days-from-civil) -/

/-- **"CIMDateTime(str(x)) equals x" with Python's own `==`**: for every well-formed expressible x the re-parsed object
    compares equal under the model of CIMDateTime.__eq__ (aware datetimes compare as instants) — in addition to being
    the identical state (`C06_dt_roundtrip`) -/
theorem C06_dt_roundtrip_python_eq (x : DT) (hw : WF x = true) (he : Expressible x = true) :
    ∃ s y, toStr x = .ok s ∧ parse s = .ok y ∧ dtEq y x = .ok true := by
  obtain ⟨s, h1, _, h3⟩ := C06_dt_roundtrip x hw he
  refine ⟨s, x, h1, h3, ?_⟩
  cases x with
  | ts y mo d h mi sec us off p =>
    simp [Expressible] at he
    have : utcoffsetOk off = true := by simp [utcoffsetOk]; omega
    simp [dtEq, this]
  | iv days secs us p => simp [dtEq]

/-- `==` is decided by the instant alone: equal instants of two timestamps compare equal whatever their offsets and
    precisions are (so `==` alone would not notice a lost offset or precision — which is why the property and
    `C06_dt_roundtrip` name kind, offset and precision separately) -/
theorem C06_dt_eq_is_instant_equality (a b : DT) (ha : a.isInterval = false) (hb : b.isInterval = false)
    (r : Bool) (h : dtEq a b = .ok r) : r = (instantUs a == instantUs b) := by
  cases a <;> cases b <;> simp [DT.isInterval] at ha hb
  simp only [dtEq] at h
  split at h <;> simp at h
  exact h.symm

example : dtEq (.ts 2020 2 29 12 0 0 0 60 none) (.ts 2020 2 29 11 0 0 0 0 (some 15)) = .ok true := by decide
example : dtEq (.ts 2020 2 29 12 0 0 0 0 none) (.iv 0 0 0 none) = .ok false := by decide
example : daysFromCivil 1970 1 1 = 0 ∧ daysFromCivil 2000 3 1 = 11017 ∧ daysFromCivil 1 1 1 = -719162 := by decide

/-! ## (8) bytes given for string-typed values: the concrete model of `bytes.decode('utf-8')` (Model/Utf8.lean) -/

/-- ASCII byte strings decode to the same characters (so `cimvalue(b'abc', 'string') == 'abc'` in the model without any
    parameter) -/
theorem C06_utf8_ascii (l : List Nat) (h : ∀ b ∈ l, b < 128) :
    Pywbem.Model.Utf8Decode.utf8Decode l = some (l.map Char.ofNat) := by
  induction l with
  | nil => simp [Pywbem.Model.Utf8Decode.utf8Decode]
  | cons b r ih =>
    have hb := h b (by simp)
    have := ih (fun b' hb' => h b' (by simp [hb']))
    unfold Pywbem.Model.Utf8Decode.utf8Decode; simp [hb, this]

example : Pywbem.Model.Utf8Decode.utf8Decode [0xE2, 0x82, 0xAC] = some ['€'] ∧ Pywbem.Model.Utf8Decode.utf8Decode [0xC0, 0x80] = none ∧
    Pywbem.Model.Utf8Decode.utf8Decode [0xED, 0xA0, 0x80] = none := by decide

/-! ## (9) the concrete model of '%.<p>G' (Model/FloatText.lean; agrees with CPython on every value K generates) -/

/-- **INF, -INF and NaN spelled as DSP0201 requires — for every special bit pattern** (all 2^53−2 NaN payloads, both
    infinities), any precision: the fix-up applied to the concrete formatter's text -/
theorem C06_real_specials_all_bit_patterns (p bits : Nat) (he : bits / 2 ^ 52 % 2048 = 2047) :
    fixup (Pywbem.Model.FloatText.fmtG p bits) =
      if bits % 2 ^ 52 ≠ 0 then "NaN".toList else if bits / 2 ^ 63 % 2 = 1 then "-INF".toList else "INF".toList := by
  unfold Pywbem.Model.FloatText.fmtG
  simp only [he]
  by_cases hm : bits % 2 ^ 52 = 0
  · by_cases hs : bits / 2 ^ 63 % 2 = 1
    · simp [hm, hs]; decide
    · simp [hm, hs]; decide
  · simp [hm]; decide

/-- **`RealCodec.shape` discharged for the concrete formatter**: for every finite double (every bit pattern whose exponent
    field is not 2047) and every precision, `fmtG` (the exact-arithmetic model of CPython's '%.<p>G' that K compares with
    CPython on every generated value) produces a G text -/
theorem C06_fmtG_shape (p bits : Nat) (hfin : bits / 2 ^ 52 % 2048 ≠ 2047) :
    ∃ g : GText, g.ok = true ∧ Pywbem.Model.FloatText.fmtG p bits = g.render :=
  fmtG_shape p bits hfin

/-- hence **every finite real64 / real32 / float value is written as a DSP0201 realValue** (digits "." digits
    [E sign digits]) and that text is read by unpack_numeric through float() — unconditionally, for all 2^64 − 2^53
    finite bit patterns -/
theorem C06_real_text_is_realvalue_for_all_doubles (p bits : Nat) (hfin : bits / 2 ^ 52 % 2048 ≠ 2047) (b : Nat) :
    ∃ g : GText, g.isRealValue = true ∧ fixup (Pywbem.Model.FloatText.fmtG p bits) = g.render ∧
      unpackNumeric (some b) (fixup (Pywbem.Model.FloatText.fmtG p bits)) .real64 = .ok (.real64 b) ∧
      unpackNumeric (some b) (fixup (Pywbem.Model.FloatText.fmtG p bits)) .real32 = .ok (.real32 b) := by
  obtain ⟨g, hg, hfmt⟩ := fmtG_shape p bits hfin
  have hfix := C06_real_fixup_shape g hg
  refine ⟨g.withFraction, hfix.2, by rw [hfmt, hfix.1], ?_, ?_⟩
  · rw [hfmt, hfix.1]; exact (C06_real_text_parsed_by_float g.withFraction hfix.2 b).1
  · rw [hfmt, hfix.1]; exact (C06_real_text_parsed_by_float g.withFraction hfix.2 b).2

/-- **the real64 round trip on the concrete codec, with ONE remaining hypothesis**: if the concrete `floatOfText` reads
    the written text of x back as x (`hrt`: the 17-significant-digits fact about two concrete, exact-arithmetic Lean
    functions, tested by K on every generated value), then unpack_numeric returns Real64(x); the `shape` and `dot0`
    hypotheses of `RealCodec` are not needed here -/
theorem C06_real64_roundtrip_concrete_partial (x : Nat) (hfin : x / 2 ^ 52 % 2048 ≠ 2047)
    (hrt : Pywbem.Model.FloatText.floatOfText (fixup (Pywbem.Model.FloatText.fmtG 17 x)) = some x) :
    unpackNumeric (Pywbem.Model.FloatText.floatOfText (fixup (Pywbem.Model.FloatText.fmtG 17 x)))
      (fixup (Pywbem.Model.FloatText.fmtG 17 x)) .real64 = .ok (.real64 x) := by
  rw [hrt]
  obtain ⟨_, _, _, h, _⟩ := C06_real_text_is_realvalue_for_all_doubles 17 x hfin x
  exact h

-- non-vacuity of `hrt`: it holds by evaluation for +0.0 and -0.0 (K reports the count for which it holds: all non-NaN values)
example : Pywbem.Model.FloatText.floatOfText (fixup (Pywbem.Model.FloatText.fmtG 17 0)) = some 0 ∧
    Pywbem.Model.FloatText.floatOfText (fixup (Pywbem.Model.FloatText.fmtG 17 (2 ^ 63))) = some (2 ^ 63) := by
  decide

/-- both zeros are written as `0.0` / `-0.0` (a DSP0201 realValue that keeps the sign) -/
theorem C06_real_zeros (p bits : Nat) (he : bits / 2 ^ 52 % 2048 = 0) (hm : bits % 2 ^ 52 = 0) :
    fixup (Pywbem.Model.FloatText.fmtG p bits) = if bits / 2 ^ 63 % 2 = 1 then "-0.0".toList else "0.0".toList := by
  unfold Pywbem.Model.FloatText.fmtG
  simp only [he, hm]
  by_cases hs : bits / 2 ^ 63 % 2 = 1
  · simp [hs]; decide
  · simp [hs]; decide

example : Pywbem.Model.FloatText.floatOfText "-0.0".toList = some (2 ^ 63) ∧
    Pywbem.Model.FloatText.floatOfText "NaN".toList = some 0x7FF8000000000000 := by decide

/-! ## (10) the module-level tocimxml(value) for arrays (Model/AtomicXml.lean: tocimxmlFn, unpackItem) -/

/-- **arrays of CIM integers print/parse losslessly, falsy and NULL items included**: for every integer type and every
    list (or tuple) whose items are None or in-range values of that type — 0 included — the module-level tocimxml()
    writes a VALUE.ARRAY whose items are read back, one by one, as exactly the items that were written: only None
    becomes VALUE.NULL (SEND_VALUE_NULL as configured in the repo), and a zero is not NULL. -/
theorem C06_tocimxml_array_roundtrip_int (f17 f11 : Nat → List Char) (utf8 : List Nat → Option (List Char))
    (pf : List Char → Option Nat) (t : IntTy) (l : List Sc)
    (h : ∀ s ∈ l, s = .none ∨ ∃ v, s = .cimInt t v ∧ t.specLo ≤ v ∧ v ≤ t.specHi) :
    ∃ xs, tocimxmlCfg f17 f11 utf8 (.list l) = .ok (.valueArray xs) ∧
      xs.mapM (unpackItem pf (.num (.int t))) = .ok l := by
  have h' : ∀ s ∈ l, s = .none ∨ ∃ v, s = .cimInt t v ∧ t.lo ≤ v ∧ v ≤ t.hi := by
    intro s hs
    rcases h s hs with h1 | ⟨v, h1, h2, h3⟩
    · exact Or.inl h1
    · exact Or.inr ⟨v, h1, by rw [(limits_spec t).1]; exact h2, by rw [(limits_spec t).2]; exact h3⟩
  obtain ⟨xs, h1, h2⟩ := array_rt_int f17 f11 utf8 pf t l h'
  refine ⟨xs, ?_, h2⟩
  have hs : Pywbem.Generated.sendValueNull = true := by decide
  simp [tocimxmlCfg, tocimxmlFn, hs, h1, Except.map]

/-- a falsy item is a value, not NULL; None is VALUE.NULL; None as the whole value is rejected with ValueError -/
theorem C06_tocimxml_falsy_items_are_values (f17 f11 : Nat → List Char) (utf8 : List Nat → Option (List Char)) (t : IntTy) :
    tocimxmlItem f17 f11 utf8 true (.cimInt t 0) = .ok (.value (some ['0'])) ∧
    tocimxmlItem f17 f11 utf8 true (.bool false) = .ok (.value (some "FALSE".toList)) ∧
    tocimxmlItem f17 f11 utf8 true (.str []) = .ok (.value (some [])) ∧
    tocimxmlItem f17 f11 utf8 true .none = .ok .valueNull ∧
    tocimxmlCfg f17 f11 utf8 (.sc .none) = .error .valueError := by
  refine ⟨?_, rfl, rfl, rfl, rfl⟩
  simp [tocimxmlItem, atomicToCimXml, intStr, natDigits_eq, digitChar, Except.map]

end C06
