/-
C01 — CIM objects survive the CIM-XML wire format unchanged.
Property theorems only (helper lemmas: Proofs/Lemmas/XmlText.lean, Proofs/Lemmas/CimXml.lean).
-/
import Proofs.Lemmas.XmlText
import Proofs.Lemmas.CimXml21
import Proofs.Props.XmlSyntax

namespace C01
open Pywbem.Model Pywbem.Model.XmlText Proofs.XmlText Proofs.CimXml Pywbem.Proto

/-- **Text level, every string.** What the receiving SAX handler gets for character data written by
    minidom is the end-of-line-normalised string — for every string of XML characters, of any
    length, with any mixture of markup characters, CR, LF, TAB, `]]>`, astral characters. -/
theorem C01_text_wire (s : Str) (h : ∀ c ∈ s, isXmlChar c = true) :
    wireText s = some (normEOL false s) := recvText_esc s false h

/-- exact string content survives whenever the string holds no CR -/
theorem C01_text_roundtrip_partial (s : Str) (h : ∀ c ∈ s, isXmlChar c = true) (hcr : '\r' ∉ s) :
    wireText s = some s := wireText_id s h hcr

/-- the excluded class is necessary: a CR does NOT survive (known finding C01-KF1; the unit test
    `VALUE with some control characters as input` pins the raw CR on the sending side) -/
theorem C01_text_roundtrip_fails_at_CR : wireText ['a', '\r', 'b'] ≠ some ['a', '\r', 'b'] := by decide

theorem C01_text_CR_becomes_LF : wireText ['a', '\r', 'b'] = some ['a', '\n', 'b'] := by decide

/-- **Attribute level**: names/class names/namespaces written as attribute values arrive as their
    attribute-value-normalised form; unchanged when free of TAB/LF/CR -/
theorem C01_attr_wire (s : Str) (h : ∀ c ∈ s, isXmlChar c = true) :
    wireAttr s = some (normAttr false s) := recvAttr_esc s false h

theorem C01_attr_roundtrip (s : Str) (h : ∀ c ∈ s, isXmlChar c = true)
    (hp : ∀ c ∈ s, c ≠ '\r' ∧ c ≠ '\n' ∧ c ≠ '\t') : wireAttr s = some s := wireAttr_id s h hp

/-- non-vacuity: a string with markup, blanks at both ends, `]]>`, LF, TAB and an astral character -/
example : wireText " a&b<c>\"]]>\n\t😀 ".toList = some " a&b<c>\"]]>\n\t😀 ".toList := by decide

/-! ## Object level

Specification (visible in Proofs/Lemmas/CimXml.lean): `Spec` (abstract predicates `validDt`, `embInstOk`,
`embClsOk`), `CodecOk C S` (hypotheses about Python's float formatting/parsing, CIMDateTime and expat on
embedded-object text — a hypothesis record, not an axiom), `Sendable S o` (which objects), `wdObj`
(the object with DSP0201 defaults filled in), `embDepth`.  All theorems below hold for EVERY codec `C`
satisfying `CodecOk`, every object, every nesting depth. -/

/-- the hypothesis record is satisfiable -/
example : CodecOk toyCodec toySpec := toyCodecOk

/-- **`int(str(v)) == v`** for every integer (the text of every integer-typed value and keybinding) -/
theorem C01_int_text_roundtrip (v : Int) : pyInt (intToStr v) = some v := pyInt_intToStr v

/-- **scalar round trip**: the text `atomic_to_cim_xml` writes for a typed scalar (string, char16,
    boolean, the eight integer types, real32/real64, datetime), converted back under its CIM type -/
theorem C01_atom_roundtrip (C : DecCodec) (S : Spec) (hC : CodecOk C S) (a : Atom) (ty : Str)
    (hty : typeName a = some ty) (hok : AtomOk S a) :
    unpackSingle C (atomText C.toCodec a) (some ty) = .ok (wdAtom C.toCodec a) :=
  unpackSingle_atom C S hC a ty ⟨hty, hok⟩

/-- untyped Python numbers (keybindings without TYPE) -/
theorem C01_atom_untyped_roundtrip (C : DecCodec) (S : Spec) (hC : CodecOk C S) :
    (∀ v : Int, unpackSingle C (atomText C.toCodec (.pyint v)) none = .ok (wdAtom C.toCodec (.pyint v))) ∧
    (∀ b : UInt64, unpackSingle C (atomText C.toCodec (.pyfloat b)) none = .ok (wdAtom C.toCodec (.pyfloat b))) := by
  constructor
  · intro v; simp only [atomText, wdAtom, unpackSingle_none]; exact unpackNumeric_pyint C v
  · intro b; simp only [atomText, wdAtom, unpackSingle_none]; exact unpackNumeric_pyfloat C S hC b

/-- **typed value round trip**: NULL, scalars, arrays — including NULL entries and the empty array -/
theorem C01_value_roundtrip (C : DecCodec) (S : Spec) (hC : CodecOk C S) (ty : Str) (v : Val)
    (h : PlainVal S ty v) : unpackValue C ty (encVal C.toCodec v) = .ok (wdVal C.toCodec v) := by
  have := unpackValue_plain C S hC ty v h [] [] (allNames_nil _) (by simp) (by simp)
  rwa [List.nil_append] at this

/-- non-vacuity: an array with a NULL entry and a boundary number -/
example : PlainVal toySpec "sint8".toList (.array [.int .s8 (-128), .null, .int .s8 127]) := by
  intro a ha
  simp at ha
  rcases ha with rfl | rfl | rfl
  · exact Or.inr ⟨rfl, by simp [AtomOk, IntTy.lo, IntTy.hi]⟩
  · exact Or.inl rfl
  · exact Or.inr ⟨rfl, by simp [AtomOk, IntTy.lo, IntTy.hi]⟩

/-- **path round trip**: all six element forms (INSTANCENAME, LOCALINSTANCEPATH, INSTANCEPATH, CLASSNAME,
    LOCALCLASSPATH, CLASSPATH), keybindings of every kind, reference keys nested to ANY depth
    (mutual structural induction over Path / Key / List Key) -/
theorem C01_path_roundtrip (C : DecCodec) (S : Spec) (hC : CodecOk C S) (p : Path) (h : SendablePath S p) :
    decPathAny C (encPath C.toCodec p) = .ok (wdPath C.toCodec p) := rt_path C S hC p h

/-- the options `ignore_host` / `ignore_namespace` of `tocimxml()` act on the path they are called on only:
    the element written is that of the same path with host / namespace removed at the top level -
    reference keybindings inside it keep their own host and namespace, at every depth -/
theorem C01_path_options_top_level_only (C : Codec) (ih ins : Bool) (p : Path) :
    encPathOpt C ih ins p = encPath C (p.stripTop ih ins) := by
  cases p with
  | inst cls host ns keys =>
    cases ns <;> cases host <;> cases ih <;> cases ins <;> simp [encPathOpt, encPath, Path.stripTop]
  | cls cls host ns =>
    cases ns <;> cases host <;> cases ih <;> cases ins <;> simp [encPathOpt, encPath, Path.stripTop]

theorem C01_path_options_default (C : Codec) (p : Path) : encPathOpt C false false p = encPath C p := by
  rw [C01_path_options_top_level_only]
  cases p <;> simp [Path.stripTop]

/-- … and what the receiver decodes is exactly that stripped path (reference keys intact) -/
theorem C01_path_options_roundtrip (C : DecCodec) (S : Spec) (hC : CodecOk C S) (ih ins : Bool) (p : Path)
    (h : SendablePath S p) :
    decPathAny C (encPathOpt C.toCodec ih ins p) = .ok (wdPath C.toCodec (p.stripTop ih ins)) := by
  rw [C01_path_options_top_level_only]
  apply C01_path_roundtrip C S hC
  cases p with
  | inst cls host ns keys =>
    obtain ⟨h1, h2, h3⟩ := h
    refine ⟨h1, h2, ?_⟩
    cases ins <;> simp [NsOk] <;> exact h3
  | cls cls host ns =>
    cases ins <;> simp [Path.stripTop, SendablePath, NsOk] <;> exact h

theorem C01_qualifier_roundtrip (C : DecCodec) (S : Spec) (hC : CodecOk C S) (q : Qual) (h : SendableQual S q) :
    decQualifier C (encQual C.toCodec q) = .ok (wdQual C.toCodec q) := rt_qual C S hC q h

/-- three element forms (PROPERTY, PROPERTY.ARRAY, PROPERTY.REFERENCE), embedded objects to depth `d` -/
theorem C01_property_roundtrip (C : DecCodec) (S : Spec) (hC : CodecOk C S) (p : Prop_) (h : SendableProp S p)
    (d : Nat) (hd : depthProp p ≤ d) :
    decode C d (encProp C.toCodec p) = .ok (.prop (wdProp C.toCodec p)) := rt_prop_top C S hC p d h hd

/-- four forms (INSTANCE, VALUE.NAMEDINSTANCE, VALUE.OBJECTWITHLOCALPATH, VALUE.INSTANCEWITHPATH) -/
theorem C01_instance_roundtrip (C : DecCodec) (S : Spec) (hC : CodecOk C S) (i : Inst) (h : SendableInst S i)
    (d : Nat) (hd : depthInst i ≤ d) :
    decode C d (encInst C.toCodec i) = .ok (.inst (wdInst C.toCodec i)) := rt_inst_top C S hC i d h hd

/-- four forms (PARAMETER, PARAMETER.REFERENCE, PARAMETER.ARRAY, PARAMETER.REFARRAY) -/
theorem C01_parameter_roundtrip (C : DecCodec) (S : Spec) (hC : CodecOk C S) (p : Param) (h : SendableParam S p) :
    decParameter C (encParam C.toCodec p) = .ok (wdParam C.toCodec p) := rt_param C S hC p h

theorem C01_method_roundtrip (C : DecCodec) (S : Spec) (hC : CodecOk C S) (m : Meth) (h : SendableMeth S m) :
    decMethod C (encMeth C.toCodec m) = .ok (wdMeth C.toCodec m) := rt_meth C S hC m h

theorem C01_class_roundtrip (C : DecCodec) (S : Spec) (hC : CodecOk C S) (c : Cls) (h : SendableCls S c)
    (d : Nat) (hd : depthCls c ≤ d) :
    decClass C (embAt C d) (encCls C.toCodec c) = .ok (wdCls C.toCodec c) := rt_cls C S hC c d h hd

theorem C01_qualdecl_roundtrip (C : DecCodec) (S : Spec) (hC : CodecOk C S) (q : QualDecl)
    (h : SendableQualDecl S q) : decQualDecl C (encQualDecl C.toCodec q) = .ok (wdQualDecl C.toCodec q) :=
  rt_qualdecl C S hC q h

/-- **C01, first trip.**  Every sendable CIM object (path, instance, class, property, method, parameter,
    qualifier, qualifier declaration; embedded instances/classes nested to any depth), encoded by
    `tocimxml()` and parsed by `TupleParser` with at least `embDepth o` levels of embedded-object
    parsing allowed, is the same object with the DSP0201 defaults filled in. -/
theorem C01_roundtrip (C : DecCodec) (S : Spec) (hC : CodecOk C S) (o : Obj) (h : Sendable S o)
    (d : Nat) (hd : embDepth o ≤ d) :
    decode C d (encObj C.toCodec o) = .ok (wdObj C.toCodec o) := rt_obj C S hC o h d hd

/-- non-vacuity: an instance with a path whose keybindings hold a nested reference and an untyped
    number, an embedded instance, and an array property with a NULL entry -/
def exampleInst : Inst :=
  .mk "CIM_Foo".toList
    (some (.inst "CIM_Foo".toList (some "host".toList) (some "root/cimv2".toList)
      [.mk (some "Ref".toList) (.ref (.inst "CIM_Bar".toList none (some "root".toList)
          [.mk (some "Id".toList) (.int .u8 7), .mk (some "Inner".toList) (.ref (.inst "CIM_Baz".toList none none [.mk (some "k".toList) (.str "v".toList)]))])),
       .mk (some "n".toList) (.pyint 3)]))
    [.mk "Emb".toList "string".toList (.scalar (.einst toyInst)) false none none none none (some "instance".toList) [],
     .mk "Arr".toList "uint8".toList (.array [.int .u8 1, .null, .int .u8 255]) true (some 3) none none none none
       [.mk "Description".toList "string".toList (.scalar (.str " a<b&c ".toList)) none none none none none]]
    []

theorem exampleInst_sendable : Sendable toySpec (.inst exampleInst) := by
  simp [Sendable, SendableInst, SendableInstBody, SendablePropList, SendableProp, SendablePropVal, SendableEmbAtom,
    SendableQuals, SendableQual, SendablePath, SendableKeys, SendableKey, exampleInst, toyInst, toySpec, PlainVal,
    PlainAtom, AtomOk, typeName, IntTy.name, IntTy.lo, IntTy.hi, NoDupNames, NoDupKeyNames, Key.name, lowerAscii,
    Prop_.name, Qual.name, NsOk, keyValueOk]
  decide

example : embDepth (.inst exampleInst) = 1 := by decide

example : decode toyCodec 1 (encObj toyCodec.toCodec (.inst exampleInst)) =
    .ok (wdObj toyCodec.toCodec (.inst exampleInst)) :=
  C01_roundtrip toyCodec toySpec toyCodecOk _ exampleInst_sendable 1 (by decide)

/-- **C01, second trip.**  The object that came back, sent once more, yields byte-identical XML and the
    same object: "with defaults" is idempotent (for every object, sendable or not). -/
theorem C01_second_trip (C : DecCodec) (S : Spec) (hC : CodecOk C S) (o : Obj) :
    encObj C.toCodec (wdObj C.toCodec (wdObj C.toCodec o)) = encObj C.toCodec (wdObj C.toCodec o) ∧
    wdObj C.toCodec (wdObj C.toCodec o) = wdObj C.toCodec o := by
  have h := idem_obj C S hC o
  exact ⟨by rw [h], h⟩

/-- both trips in one statement: whatever the first trip returned, re-encoding it gives the XML of
    `wdObj o`, and a second "with defaults" does not change it -/
theorem C01_second_trip_xml (C : DecCodec) (S : Spec) (hC : CodecOk C S) (o : Obj) (h : Sendable S o)
    (d : Nat) (hd : embDepth o ≤ d) (o' : Obj) (h1 : decode C d (encObj C.toCodec o) = .ok o') :
    Xml.ser (encObj C.toCodec (wdObj C.toCodec o')) = Xml.ser (encObj C.toCodec o') ∧ wdObj C.toCodec o' = o' := by
  rw [C01_roundtrip C S hC o h d hd] at h1
  cases h1
  have h2 := idem_obj C S hC o
  exact ⟨by rw [h2], h2⟩

/-- **C01, child order.**  The names of the properties, methods, parameters, qualifiers and keybindings
    of the decoded object, in order, are those of the original (`childNames` lists them kind by kind). -/
theorem C01_order_preserved (C : DecCodec) (S : Spec) (hC : CodecOk C S) (o : Obj) (h : Sendable S o)
    (d : Nat) (hd : embDepth o ≤ d) (o' : Obj) (h1 : decode C d (encObj C.toCodec o) = .ok o') :
    childNames o' = childNames o := by
  rw [C01_roundtrip C S hC o h d hd] at h1
  cases h1
  exact childNames_wdObj C o

/-- what came back is itself sendable, with the same embedded depth (`EmbClosed`: the embedded objects
    the XML parser re-reads faithfully stay so after one trip) -/
theorem C01_sendable_preserved (C : DecCodec) (S : Spec) (hE : EmbClosed C.toCodec S) (o : Obj)
    (h : Sendable S o) : Sendable S (wdObj C.toCodec o) ∧ embDepth (wdObj C.toCodec o) = embDepth o :=
  ⟨pres_obj C S hE o h, depth_obj C o⟩

/-- **C01, second trip, decoded.**  Sending the object that came back and parsing it once more returns
    that very object: `decode (encode (decode (encode o))) = decode (encode o)`. -/
theorem C01_second_trip_decode (C : DecCodec) (S : Spec) (hC : CodecOk C S) (hE : EmbClosed C.toCodec S)
    (o : Obj) (h : Sendable S o) (d : Nat) (hd : embDepth o ≤ d) (o' : Obj)
    (h1 : decode C d (encObj C.toCodec o) = .ok o') :
    decode C d (encObj C.toCodec o') = .ok o' := by
  rw [C01_roundtrip C S hC o h d hd] at h1
  cases h1
  have h2 := C01_roundtrip C S hC _ (pres_obj C S hE o h) d (by rw [depth_obj]; exact hd)
  rw [idem_obj C S hC o] at h2
  exact h2

example : EmbClosed toyCodec.toCodec toySpec := toyEmbClosed

/-! ### the Sendable clauses are needed (witnesses, for every codec) -/

/-- "a method has a return type" is needed: without it the own output is rejected -/
theorem C01_method_roundtrip_fails_without_type (C : DecCodec) (S : Spec) (hC : CodecOk C S) (name : Str) :
    decMethod C (encMeth C.toCodec (.mk name none [] none none [])) ≠
      .ok (wdMeth C.toCodec (.mk name none [] none none [])) := by
  rw [meth_without_type_rejected C S hC]
  intro h; cases h

/-- "a keybinding has a name" is needed: an unnamed key comes back named '' -/
theorem C01_key_roundtrip_fails_unnamed (C : DecCodec) (v : Int) :
    decKeybinding C (encKey C.toCodec (.mk none (.pyint v))) ≠ .ok (wdKey C.toCodec (.mk none (.pyint v))) :=
  unnamed_key_differs C v

end C01

/-! ### element-syntax layer discharged: the concrete parser `XmlParse.par` in place of the XmlSyntax hypothesis -/

namespace C01
open Pywbem.Model Pywbem.Model.XmlText Pywbem.Model.XmlParse

theorem C01_encObj_isElem (C : DecCodec) (o : Obj) : (encObj C.toCodec o).isElem = true := by
  cases o with
  | path p => obtain ⟨n, as, ks, h⟩ := Proofs.CimXml.encPath_shape C.toCodec p; simp only [encObj, h, Xml.isElem]
  | inst i =>
    obtain ⟨c, p, ps, qs⟩ := i
    simp only [encObj, encInst]
    split <;> rfl
  | cls c => obtain ⟨n, sup, p, ps, ms, qs⟩ := c; simp only [encObj, encCls]; rfl
  | prop p => obtain ⟨n, as, ks, h, _⟩ := Proofs.CimXml.encProp_shape C p; simp only [encObj, h, Xml.isElem]
  | meth m => obtain ⟨as, ks, h⟩ := Proofs.CimXml.encMeth_shape C m; simp only [encObj, h, Xml.isElem]
  | param p => obtain ⟨n, as, ks, h, _⟩ := Proofs.CimXml.encParam_shape C p; simp only [encObj, h, Xml.isElem]
  | qual q => obtain ⟨as, ks, h⟩ := Proofs.CimXml.encQual_shape C q; simp only [encObj, h, Xml.isElem]
  | qdecl q => simp only [encObj, encQualDecl]; rfl

/-- **The decoder is blind to text chunking.**  For EVERY received tree (not only encoder output) merging
    adjacent text children and dropping empty ones (`normTree`, what the SAX handler delivers) does not
    change the decoding result — in particular `<VALUE></VALUE>` without a text child is the empty string. -/
theorem C01_decode_blind_to_chunking (C : DecCodec) (d : Nat) (t : Xml) :
    decode C d (Proofs.CimXml.normTree t) = decode C d t :=
  Proofs.CimXml.decodeTop_norm C (embAt C d) t

/-- **Element level of the wire.**  For a well-formed element whose texts hold no CR and whose attribute
    values hold no TAB/LF/CR (`SoftStable`: empty and adjacent text children are allowed) the concrete
    parser returns the sender's tree up to text chunking. -/
theorem C01_wire_tree (t : Xml) (hw : WfTree t) (hel : t.isElem = true) (hs : Proofs.CimXml.SoftStable t) :
    par (Xml.ser t) = some (Proofs.CimXml.normTree t) := by
  rw [XmlSyntax.XmlSyntax_par_ser t hw hel]
  exact Proofs.CimXml.wireTree_norm t hw hs

/-- the earlier `StableTree` is the special case without empty / adjacent texts -/
theorem C01_stable_is_soft (t : Xml) (h : StableTree t) : Proofs.CimXml.SoftStable t :=
  Proofs.CimXml.soft_of_stable t h

/-- **C01 end to end (serialise → parse → decode), partial.**  The bytes written for a sendable object,
    parsed by the concrete XML parser (proved against the serializer in Proofs/Props/XmlSyntax.lean) and
    decoded, give the object with the DSP0201 defaults — INCLUDING empty string values.
    *Partial*, exclusions stated on the tree the sender builds (both decidable):
    * `SoftStable`: a text (string value, host, key value) containing CR — finding C01-KF1, it arrives as
      LF — and an attribute value (name, class name, namespace, type, class origin, reference class …)
      containing TAB / LF / CR — attribute-value normalisation turns them into blanks;
    * `WfTree`: a character outside the XML 1.0 `Char` production (not representable), and two SCOPE
      attributes with the same upper-cased name (element and attribute names are otherwise literals). -/
theorem C01_end_to_end_partial (C : DecCodec) (S : Proofs.CimXml.Spec) (hC : Proofs.CimXml.CodecOk C S) (o : Obj)
    (h : Proofs.CimXml.Sendable S o) (d : Nat) (hd : Proofs.CimXml.embDepth o ≤ d)
    (hw : WfTree (encObj C.toCodec o)) (hs : Proofs.CimXml.SoftStable (encObj C.toCodec o)) :
    (par (Xml.ser (encObj C.toCodec o))).map (decode C d) = some (.ok (Proofs.CimXml.wdObj C.toCodec o)) := by
  rw [C01_wire_tree _ hw (C01_encObj_isElem _ o) hs, Option.map_some, C01_decode_blind_to_chunking,
    C01_roundtrip C S hC o h d hd]

/-- the text-chunking exclusion is gone: an instance with an EMPTY string property value goes end to end -/
example : (par (Xml.ser (encObj Proofs.CimXml.toyCodec.toCodec (.prop
      (.mk "P".toList "string".toList (.scalar (.str [])) false none none none none none []))))).map
        (decode Proofs.CimXml.toyCodec 0) =
    some (.ok (Proofs.CimXml.wdObj Proofs.CimXml.toyCodec.toCodec (.prop
      (.mk "P".toList "string".toList (.scalar (.str [])) false none none none none none [])))) := by
  apply C01_end_to_end_partial _ Proofs.CimXml.toySpec Proofs.CimXml.toyCodecOk
  · simp [Proofs.CimXml.Sendable, Proofs.CimXml.SendableProp, Proofs.CimXml.SendablePropVal,
      Proofs.CimXml.SendableQuals, Proofs.CimXml.NoDupNames, Proofs.CimXml.PlainAtom, Proofs.CimXml.typeName,
      Proofs.CimXml.AtomOk]
    decide
  · decide
  · simp only [encObj, encProp, encQuals, encVal, atomText]; decide
  · simp only [encObj, encProp, encQuals, encVal, atomText]; decide

/-- the `par_inst` / `par_cls` fields of `CodecOk` hold for every codec that uses the concrete parser, for
    all embedded objects whose tree is well formed and `SoftStable` (empty strings inside embedded
    objects included) -/
theorem C01_par_fields_discharged (C : DecCodec) (hpar : C.par = par) :
    (∀ i, WfTree (encInstElem C.toCodec i) → Proofs.CimXml.SoftStable (encInstElem C.toCodec i) →
        ∃ t', C.par (Xml.ser (encInstElem C.toCodec i)) = some t' ∧
          Proofs.CimXml.normTree t' = Proofs.CimXml.normTree (encInstElem C.toCodec i)) ∧
    (∀ c, WfTree (encCls C.toCodec c) → Proofs.CimXml.SoftStable (encCls C.toCodec c) →
        ∃ t', C.par (Xml.ser (encCls C.toCodec c)) = some t' ∧
          Proofs.CimXml.normTree t' = Proofs.CimXml.normTree (encCls C.toCodec c)) := by
  constructor
  · intro i hw hs
    refine ⟨_, ?_, Proofs.CimXml.normTree_idem _⟩
    rw [hpar]
    exact C01_wire_tree _ hw (by obtain ⟨c, p, ps, qs⟩ := i; simp only [encInstElem]; rfl) hs
  · intro c hw hs
    refine ⟨_, ?_, Proofs.CimXml.normTree_idem _⟩
    rw [hpar]
    exact C01_wire_tree _ hw (by obtain ⟨n, sup, p, ps, ms, qs⟩ := c; simp only [encCls]; rfl) hs

/-- … so `CodecOk` for a codec using the concrete parser needs only the float / datetime hypotheses;
    "re-read faithfully" becomes the decidable tree condition `WfTree ∧ SoftStable` -/
theorem C01_codecOk_of_par (C : DecCodec) (hpar : C.par = par) (validDt : Str → Prop)
    (real_parses : ∀ w b, cimxmlHex (strip (C.fmtReal w b)) = none ∧ pyInt (strip (C.fmtReal w b)) = none ∧
                        (C.parseFloat (strip (C.fmtReal w b))).isSome = true)
    (key_parses : ∀ b, cimxmlHex (strip (C.strFloat b)) = none ∧ pyInt (strip (C.strFloat b)) = none ∧
                     (C.parseFloat (strip (C.strFloat b))).isSome = true)
    (real_idem : ∀ w b, C.fmtReal w (C.reparse w b) = C.fmtReal w b)
    (key_idem : ∀ b, C.strFloat (C.reparseKey b) = C.strFloat b)
    (dt_ok : ∀ s, validDt s → C.parseDt s = some s) :
    Proofs.CimXml.CodecOk C
      { validDt := validDt,
        embInstOk := fun i => WfTree (encInstElem C.toCodec i) ∧ Proofs.CimXml.SoftStable (encInstElem C.toCodec i),
        embClsOk := fun c => WfTree (encCls C.toCodec c) ∧ Proofs.CimXml.SoftStable (encCls C.toCodec c) } where
  real_parses := real_parses
  key_parses := key_parses
  real_idem := real_idem
  key_idem := key_idem
  dt_ok := dt_ok
  par_inst := fun i h => (C01_par_fields_discharged C hpar).1 i h.1 h.2
  par_cls := fun c h => (C01_par_fields_discharged C hpar).2 c h.1 h.2

/-! ### end to end, hypotheses on the OBJECT only

`CleanObj o` (Proofs/Lemmas/CimXml17.lean; a Bool function of the object, hence decidable): every string of the
object consists of XML 1.0 Chars; strings that travel as character data (string / char16 / datetime values and key
values, host) hold no CR (finding C01-KF1); strings that travel as attribute values (names, class names, namespaces
— one NAME attribute per `/`-separated component —, type names, class origin, reference class, superclass,
EmbeddedObject) hold no TAB / LF / CR; upper-cased SCOPE names are distinct.
`CodecClean C`: Python's float formatting (`format(x,'.11G'/'.17G')` after fix-up, `str(float)`) yields printable ASCII. -/

open Proofs.CimXml in
/-- the hypotheses about float formatting are satisfiable -/
example : CodecClean toyCodec.toCodec := toyCodecClean

open Proofs.CimXml in
/-- **embedded objects**: `toxml()` of a well-formed tree whose texts hold no CR and whose attribute values hold
    no TAB / LF / CR is a string of XML Chars without CR — so the text of an embedded clean object is a clean text -/
theorem C01_ser_clean (t : Xml) (hw : WfTree t) (hs : SoftStable t) :
    (Xml.ser t).all isXmlChar = true ∧ '\r' ∉ Xml.ser t := by
  have h := ser_textOk t hw hs
  refine ⟨textOk_xml h, ?_⟩
  have := textOk_noCR h
  simpa only [Bool.not_eq_true', List.contains_eq_mem, decide_eq_false_iff_not] using this

open Proofs.CimXml in
/-- the tree the sender builds for a clean sendable object is well formed: element and attribute names are XML
    Names, attribute names of one element pairwise distinct, all characters XML Chars (`Sendable` is needed only
    for qualifier declarations: SCOPE attribute names are among the seven DSP0201 scopes) -/
theorem C01_wfTree_of_clean (C : DecCodec) (S : Spec) (hK : CodecClean C.toCodec) (o : Obj)
    (hc : CleanObj o) (hs : Sendable S o) : WfTree (encObj C.toCodec o) :=
  (good_encObj C S hK o hs hc).1

open Proofs.CimXml in
/-- … and wire-stable: no CR in any text, no TAB / LF / CR in any attribute value -/
theorem C01_softStable_of_clean (C : DecCodec) (S : Spec) (hK : CodecClean C.toCodec) (o : Obj)
    (hc : CleanObj o) (hs : Sendable S o) : SoftStable (encObj C.toCodec o) :=
  (good_encObj C S hK o hs hc).2

open Proofs.CimXml in
/-- **C01 end to end.**  For every sendable clean object — all nine kinds, keybindings of every kind, reference
    keys nested to any depth, arrays with NULL entries, empty strings, embedded instances / classes to any
    depth `≤ d` — the bytes `tocimxml().toxml()` writes, parsed by the concrete XML parser and decoded by the
    tupleparser model, are the object with the DSP0201 defaults.  No hypothesis on trees remains. -/
theorem C01_end_to_end (C : DecCodec) (S : Spec) (hC : CodecOk C S) (hK : CodecClean C.toCodec) (o : Obj)
    (h : Sendable S o) (hc : CleanObj o) (d : Nat) (hd : embDepth o ≤ d) :
    (par (Xml.ser (encObj C.toCodec o))).map (decode C d) = some (.ok (wdObj C.toCodec o)) :=
  C01_end_to_end_partial C S hC o h d hd (C01_wfTree_of_clean C S hK o hc h) (C01_softStable_of_clean C S hK o hc h)

open Proofs.CimXml in
/-- the same with the XML declaration pywbem puts in front of a document -/
theorem C01_end_to_end_decl (C : DecCodec) (S : Spec) (hC : CodecOk C S) (hK : CodecClean C.toCodec) (o : Obj)
    (h : Sendable S o) (hc : CleanObj o) (d : Nat) (hd : embDepth o ≤ d) :
    (par ("<?xml version=\"1.0\" encoding=\"utf-8\" ?>\n".toList ++ Xml.ser (encObj C.toCodec o))).map (decode C d) =
      some (.ok (wdObj C.toCodec o)) := by
  rw [XmlSyntax.XmlSyntax_decl _ (C01_wfTree_of_clean C S hK o hc h) (C01_encObj_isElem _ o)]
  exact C01_end_to_end C S hC hK o h hc d hd

open Proofs.CimXml Pywbem.Model.XmlCdata in
/-- **CDATA mode** (`_CDATA_ESCAPING = True`): the same for the outer document written with CDATA sections
    (`Xml.serWith true`); a clean tree has no CR, hence is `CdSafe`.  (The text of an embedded object is, in
    the frozen encoder model, always the entity-escaped `Xml.ser` of the inner tree.) -/
theorem C01_end_to_end_serWith (m : Bool) (C : DecCodec) (S : Spec) (hC : CodecOk C S) (hK : CodecClean C.toCodec)
    (o : Obj) (h : Sendable S o) (hc : CleanObj o) (d : Nat) (hd : embDepth o ≤ d) :
    (par (Xml.serWith m (encObj C.toCodec o))).map (decode C d) = some (.ok (wdObj C.toCodec o)) := by
  have hw := C01_wfTree_of_clean C S hK o hc h
  have hs := C01_softStable_of_clean C S hK o hc h
  rw [XmlSyntax.XmlSyntax_par_serWith m _ hw (C01_encObj_isElem _ o) (fun _ => cdSafe_of_soft _ hs),
    wireTree_norm _ hw hs, Option.map_some, C01_decode_blind_to_chunking, C01_roundtrip C S hC o h d hd]

/-- non-vacuity: an instance with a path (nested reference key, untyped numeric key), an embedded instance, an
    array with a NULL entry, an EMPTY string value, and a string holding `<&>"]]>`, LF and TAB -/
def exampleInst2 : Inst :=
  .mk "CIM_Foo".toList
    (some (.inst "CIM_Foo".toList (some "host".toList) (some "root/cimv2".toList)
      [.mk (some "Ref".toList) (.ref (.inst "CIM_Bar".toList none (some "root".toList)
          [.mk (some "Id".toList) (.int .u8 7), .mk (some "Inner".toList) (.ref (.inst "CIM_Baz".toList none none [.mk (some "k".toList) (.str "v".toList)]))])),
       .mk (some "n".toList) (.pyint 3)]))
    [.mk "Emb".toList "string".toList (.scalar (.einst Proofs.CimXml.toyInst)) false none none none none
       (some "instance".toList) [],
     .mk "Arr".toList "uint8".toList (.array [.int .u8 1, .null, .int .u8 255]) true (some 3) none none none none [],
     .mk "Empty".toList "string".toList (.scalar (.str [])) false none none none none none [],
     .mk "Markup".toList "string".toList (.scalar (.str " <&>\"]]>\n\t ".toList)) false none none none none none []]
    []

open Proofs.CimXml in
theorem exampleInst2_sendable : Sendable toySpec (.inst exampleInst2) := by
  simp [Sendable, SendableInst, SendableInstBody, SendablePropList, SendableProp, SendablePropVal, SendableEmbAtom,
    SendableQuals, SendableQual, SendablePath, SendableKeys, SendableKey, exampleInst2, toyInst, toySpec, PlainVal,
    PlainAtom, AtomOk, typeName, IntTy.name, IntTy.lo, IntTy.hi, NoDupNames, NoDupKeyNames, Key.name, lowerAscii,
    Prop_.name, NsOk, keyValueOk]
  decide

open Proofs.CimXml in
theorem exampleInst2_clean : CleanObj (.inst exampleInst2) := by
  simp only [CleanObj, cleanObj, exampleInst2, toyInst, cleanInst, cleanInstBody, cleanProps, cleanProp, cleanVal,
    cleanAtom, cleanAtoms, cleanQuals, cleanPath, cleanKeys, cleanKey, optOk, hostOk, Option.getD]
  decide

open Proofs.CimXml in
example : (par (Xml.ser (encObj toyCodec.toCodec (.inst exampleInst2)))).map (decode toyCodec 1) =
    some (.ok (wdObj toyCodec.toCodec (.inst exampleInst2))) :=
  C01_end_to_end toyCodec toySpec toyCodecOk toyCodecClean _ exampleInst2_sendable exampleInst2_clean 1
    (by simp [embDepth, depthInst, depthProps, depthProp, depthVal, depthAtom, depthAtoms, exampleInst2, toyInst])

/-! ### the error side of the decoder (model-level statement of "no other exception class") -/

/-- **Only documented errors.**  For EVERY tree (well formed or not, encoder output or not), every codec and
    every depth, the decoder answers an object or one of exactly three exception classes: CIMXMLParseError,
    XMLParseError (the text of an embedded object is not XML) or RecursionError (embedded nesting beyond the
    depth allowed — Python's recursion limit stands behind the real code). -/
theorem C01_decode_only_documented_errors (C : DecCodec) (d : Nat) (t : Xml) :
    (∃ o, decode C d t = .ok o) ∨ decode C d t = .error .cimXmlParseError ∨
    decode C d t = .error .xmlParseError ∨ decode C d t = .error .recursionError := by
  have h := Proofs.CimXml.decode_docSafe C d t
  cases hd : decode C d t with
  | ok o => exact Or.inl ⟨o, rfl⟩
  | error e =>
    right
    rcases h.out e hd with h1 | h1 | h1 <;> subst h1
    · exact Or.inl rfl
    · exact Or.inr (Or.inl rfl)
    · exact Or.inr (Or.inr rfl)

/-- without embedded-object parsing (depth reached) the class is RecursionError, not a crash -/
example (C : DecCodec) : embAt C 0 "<INSTANCE/>".toList = .error .recursionError := rfl

open Proofs.CimXml in
/-- **Invalid TYPE is rejected.**  Whatever the other attributes and the children are: a PROPERTY /
    PROPERTY.ARRAY / PARAMETER / PARAMETER.ARRAY whose TYPE is not one of ALL_CIMTYPES, a QUALIFIER /
    QUALIFIER.DECLARATION whose TYPE is not one of QUALIFIER_CIMTYPES, and a METHOD whose TYPE is missing, not a CIM
    type or 'reference' never decode to an object (the constructors' type setters; tables extracted from
    pywbem/_cim_obj.py into Pywbem/Generated/CimTypes.lean). -/
theorem C01_invalid_type_rejected (C : DecCodec) (d : Nat) (as : List (Str × Str)) (ks : List Xml) :
    (cimTypeOk (getAttrD as "TYPE" "") = false → ∀ o,
      decode C d (.elem "PROPERTY".toList as ks) ≠ .ok o ∧ decode C d (.elem "PROPERTY.ARRAY".toList as ks) ≠ .ok o ∧
      decode C d (.elem "PARAMETER".toList as ks) ≠ .ok o ∧ decode C d (.elem "PARAMETER.ARRAY".toList as ks) ≠ .ok o) ∧
    (qualTypeOk (getAttrD as "TYPE" "") = false → ∀ o,
      decode C d (.elem "QUALIFIER".toList as ks) ≠ .ok o ∧
      decode C d (.elem "QUALIFIER.DECLARATION".toList as ks) ≠ .ok o) ∧
    ((∀ rt, Xml.attr as "TYPE".toList = some rt → cimTypeOk rt = false ∨ rt = "reference".toList) → ∀ o,
      decode C d (.elem "METHOD".toList as ks) ≠ .ok o) := by
  unfold decode
  refine ⟨fun h o => ⟨?_, ?_, ?_, ?_⟩, fun h o => ⟨?_, ?_⟩, fun h o => ?_⟩
  · rw [decodeTop_PROPERTY]; exact neverOk_bind_l (decProperty_needs_type C _ _ as ks h) o
  · rw [decodeTop_PROPERTY_ARRAY]; exact neverOk_bind_l (decPropertyArray_needs_type C _ _ as ks h) o
  · rw [decodeTop_PARAMETER]; exact neverOk_bind_l (decParameter_needs_type C _ as ks (Or.inl rfl) h) o
  · rw [decodeTop_PARAMETER_ARRAY]; exact neverOk_bind_l (decParameter_needs_type C _ as ks (Or.inr rfl) h) o
  · rw [decodeTop_QUALIFIER]; exact neverOk_bind_l (decQualifier_needs_type C _ as ks h) o
  · rw [decodeTop_QUALIFIER_DECLARATION]; exact neverOk_bind_l (decQualDecl_needs_type C _ as ks h) o
  · rw [decodeTop_METHOD]; exact neverOk_bind_l (decMethod_needs_type C _ as ks h) o

/-- non-vacuity: `String`, `uint128`, `` are not CIM types; `reference` is a CIM type but not a qualifier type -/
example : cimTypeOk "String".toList = false ∧ cimTypeOk "uint128".toList = false ∧ cimTypeOk [] = false ∧
    cimTypeOk "reference".toList = true ∧ qualTypeOk "reference".toList = false ∧ qualTypeOk "uint8".toList = true := by
  decide

end C01
