/-
C01 — CIM objects survive the CIM-XML wire format unchanged.
Property theorems only (helper lemmas: Proofs/Lemmas/XmlText.lean, Proofs/Lemmas/CimXml.lean).
-/
import Proofs.Lemmas.XmlText

namespace C01
open Pywbem.Model Pywbem.Model.XmlText Proofs.XmlText

/-- **Text level, every string.** What the receiving SAX handler gets for character data written by
    minidom is the end-of-line-normalised string — for every string of XML characters, of any
    length, with any mixture of markup characters, CR, LF, TAB, `]]>`, astral characters. -/
theorem C01_text_wire (s : Str) (h : ∀ c ∈ s, isXmlChar c = true) :
    wireText s = some (normEOL false s) := recvText_esc s false h

/-- exact string content survives whenever the string holds no CR -/
theorem C01_text_roundtrip_partial (s : Str) (h : ∀ c ∈ s, isXmlChar c = true) (hcr : '\r' ∉ s) :
    wireText s = some s := wireText_id s h hcr

/-- the excluded class is necessary: a CR does NOT survive (known finding C01-KF1; the unit test
    `VALUE with some control characters as input` pins the raw CR on the sending side) -/
theorem C01_text_roundtrip_fails_at_CR : wireText ['a', '\r', 'b'] ≠ some ['a', '\r', 'b'] := by decide

theorem C01_text_CR_becomes_LF : wireText ['a', '\r', 'b'] = some ['a', '\n', 'b'] := by decide

/-- **Attribute level**: names/class names/namespaces written as attribute values arrive as their
    attribute-value-normalised form; unchanged when free of TAB/LF/CR -/
theorem C01_attr_wire (s : Str) (h : ∀ c ∈ s, isXmlChar c = true) :
    wireAttr s = some (normAttr false s) := recvAttr_esc s false h

theorem C01_attr_roundtrip (s : Str) (h : ∀ c ∈ s, isXmlChar c = true)
    (hp : ∀ c ∈ s, c ≠ '\r' ∧ c ≠ '\n' ∧ c ≠ '\t') : wireAttr s = some s := wireAttr_id s h hp

/-- non-vacuity: a string with markup, blanks at both ends, `]]>`, LF, TAB and an astral character -/
example : wireText " a&b<c>\"]]>\n\t😀 ".toList = some " a&b<c>\"]]>\n\t😀 ".toList := by decide

end C01
