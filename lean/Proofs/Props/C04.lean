/-
C04 — operations over HTTP/CIM-XML equal the same operations done directly.
Property theorems only (helper lemmas: Proofs/Lemmas/Ops.lean; contract table: Proofs/Lemmas/OpsSpec.lean).

Reading guide.  `exchange C depth sig dflt host S row call` (Model/Ops.lean) is one operation through the
wire against an ARBITRARY server behaviour `S : Seen → Result`:
  prepare (the operation method up to _imethodcall) → requestXml → wireTree (minidom + expat) →
  serverSees (parse_cim … parse_iparamvalue + signature typing) → S → responseXml (DSP0200 forms) →
  wireTree → clientReceive (parse_imethodresponse …, _imethodcall checks, result post-processing).
`ParamRT` says that one parameter reaches the server as a given value; it is PROVED here for every scalar
parameter kind (booleans, integers, strings, string lists, class names) and follows for object-valued
parameters from the C01 object round trip, which enters as the hypothesis record `ObjRT`.
-/
import Proofs.Lemmas.Ops
import Proofs.Lemmas.OpsSpec
import Pywbem.Model.OpsMeth

set_option linter.unusedSimpArgs false

namespace C04
open Pywbem.Model Pywbem.Model.XmlText Pywbem.Model.Ops Pywbem.Proto Pywbem.Generated.OpsSig
open Proofs.Ops Proofs.OpsSpec

/-! ### the extracted marshalling table is the contract -/

/-- every operation method marshals exactly the parameters of its DSP0200 signature, in order, computes
    the namespace by the documented rule and post-processes its result as documented: the table
    extracted from the current source equals the contract table -/
theorem C04_signature_table_is_spec : rows = specRows := by decide

/-- `parse_iparamvalue` coerces exactly four names; `_imethodcall` drops exactly the `None` values -/
theorem C04_coercion_and_filter_are_spec : coercedNames = specCoerced ∧ dropsOnlyNone = true := by decide

/-! ### None-valued parameters are omitted, nothing else is -/

/-- the IPARAMVALUE list of a request holds one element per non-None parameter, in call order -/
theorem C04_none_params_omitted (C : Codec) (ps : Params) :
    iparamsXml C ps = (dropNone ps).map (paramTree C) ∧
    (dropNone ps).map (·.1) = (ps.filter (fun p => p.2.isSome)).map (·.1) ∧
    (∀ n v, (n, v) ∈ dropNone ps ↔ (n, some v) ∈ ps) :=
  ⟨iparamsXml_dropNone C ps, dropNone_names ps, fun _ _ => mem_dropNone⟩

/-! ### the target namespace -/

/-- no namespace given anywhere: the connection default; a connection created without default
    namespace uses root/cimv2 -/
theorem C04_default_namespace_applied (dflt : Str) :
    nsFromNamespace dflt .none = .ok dflt ∧ nsFromObjectName dflt .none = .ok dflt ∧
    (∀ s, nsFromObjectName dflt (.str s) = .ok dflt) ∧
    (∀ c h, nsFromObjectName dflt (.path (.cls c h none)) = .ok dflt) ∧
    (∀ c h ks, nsFromObjectName dflt (.path (.inst c h none ks)) = .ok dflt) ∧
    effDefault none = "root/cimv2".toList := by
  refine ⟨rfl, rfl, fun _ => rfl, fun _ _ => rfl, fun _ _ _ => rfl, rfl⟩

/-- a namespace given as argument wins (slashes at both ends stripped); a namespace carried by the
    object name is used as it is -/
theorem C04_given_namespace_used (dflt s : Str) :
    nsFromNamespace dflt (.str s) = .ok (stripSlash s) ∧
    (∀ c h ks, nsFromObjectName dflt (.path (.inst c h (some s) ks)) = .ok s) ∧
    (∀ c h, nsFromObjectName dflt (.path (.cls c h (some s))) = .ok s) :=
  ⟨rfl, fun _ _ _ => rfl, fun _ _ => rfl⟩

/-- Enumerate…/GetClass/…: the namespace argument wins over the namespace of a CIMClassName argument,
    which wins over the default -/
theorem C04_namespace_or_classname (dflt : Str) (row : Row) (a : String) (hr : row.nsRule = .nsOrClass a)
    (c : Call) (cn : Str) (h : Option Str) (ns : Option Str) (hc : c.arg a = .path (.cls cn h ns)) :
    (∀ s, c.arg "namespace" = .str s → effNs dflt row c = .ok (stripSlash s)) ∧
    (c.arg "namespace" = .none → effNs dflt row c = .ok (match ns with | some n => stripSlash n | none => dflt)) := by
  constructor
  · intro s hs; simp [effNs, hr, hs, hc, nsFromNamespace, pure, Except.pure]
  · intro hn; cases ns <;> simp [effNs, hr, hn, hc, nsFromNamespace, optStrArg, pure, Except.pure]

/-! ### the server sees what the caller said -/

/-- **server_sees_what_client_said.**  For every operation name and namespace (strings that pass the
    attribute wire) and every parameter list: if each non-None parameter reaches the server as the
    value `seen` lists for it (`ParamRT`, discharged below for every parameter kind), then the server-side
    parser applied to the request document as it arrives reads exactly: the message id, the operation
    name, the namespace, and the list `seen` — no parameter for a None value, none added, order kept. -/
theorem C04_server_sees_what_client_said (C : DecCodec) (depth : Nat) (sig : List Row) (op ns : Str) (ps : Params)
    (seen : List (Str × PVal)) (hop : StableAttr op) (hns : StableAttr ns)
    (h : Zip (fun p q => ParamRT C (embAt C depth) (kindOf sig op q.1) p q) (dropNone ps) seen) :
    ∃ t, wireTree (requestXml C.toCodec op ns ps) = some t ∧
      serverSees C depth sig t = .ok ("1001".toList, { op := op, ns := ns, params := seen }) :=
  serverSees_request C depth sig op ns ps seen hop hns h

/-- a parameter of one of the kinds that need no hypothesis about CIM objects -/
inductive ScalarParam (sig : List Row) (op : Str) : Str × PVal → Prop
  | bool (n : Str) (b : Bool) : StableAttr n → kindOf sig op n = some .bool → ScalarParam sig op (n, .bool b)
  | int (n : Str) (v : Int) (k : Kind) : StableAttr n → kindOf sig op n = some k → (k = .uint ∨ k = .maxobj) →
      ScalarParam sig op (n, .int v)
  | str (n s : Str) : StableAttr n → StableText s → Coerced n = false →
      (kindOf sig op n ≠ some .bool ∧ kindOf sig op n ≠ some .uint ∧ kindOf sig op n ≠ some .maxobj) →
      ScalarParam sig op (n, .str s)
  | strs (n : Str) (l : List (Option Str)) : StableAttr n → StableItems l → ScalarParam sig op (n, .strs l)
  | classname (n c : Str) : StableAttr n → StableAttr c → ScalarParam sig op (n, .obj (.path (.cls c none none)))

/-- every scalar parameter kind round-trips (`ParamRT`), no hypothesis about objects -/
theorem C04_scalar_param_roundtrip {sig : List Row} {op : Str} {p : Str × PVal} (C : DecCodec) (emb : Str → R Atom)
    (h : ScalarParam sig op p) : ParamRT C emb (kindOf sig op p.1) p p := by
  cases h with
  | bool n b hn hk => rw [hk]; exact ParamRT.bool C emb b hn
  | int n v k hn hk hk' => rw [hk]; exact ParamRT.int C emb v k hk' hn
  | str n s hn hs hc hk => exact ParamRT.str C emb _ hn hs hc hk
  | strs n l hn hl => exact ParamRT.strs C emb _ hn hl
  | classname n c hn hc => exact ParamRT.classname C emb _ hn hc

/-- **scalar parameters, no hypothesis about objects.**  Partial only in this respect: string values must
    be `StableText` (XML characters, no CR) — the CR class is the open finding C04-KF3 / C01-KF1, see the
    witness `C04_string_param_roundtrip_fails_at_CR` below; the full statement (every Python string) is false.
    Booleans (whatever the parameter is called: the four names
    `parse_iparamvalue` coerces and the two it does not), integers, strings, string lists with NULL
    entries and class names arrive with equal values; None-valued parameters are omitted. -/
theorem C04_server_sees_scalars_partial (C : DecCodec) (depth : Nat) (sig : List Row) (op ns : Str) (ps : Params)
    (hop : StableAttr op) (hns : StableAttr ns) (h : ∀ p ∈ dropNone ps, ScalarParam sig op p) :
    ∃ t, wireTree (requestXml C.toCodec op ns ps) = some t ∧
      serverSees C depth sig t = .ok ("1001".toList, { op := op, ns := ns, params := dropNone ps }) :=
  serverSees_request C depth sig op ns ps (dropNone ps) hop hns
    (Zip.refl _ (fun p hp => C04_scalar_param_roundtrip C (embAt C depth) (h p hp)))

/-- booleans survive whether or not `parse_iparamvalue` special-cases the parameter name -/
theorem C04_boolean_param_any_name (n : Str) (b : Bool) :
    typeRaw (some .bool) (coerceRaw n (.text (if b then "TRUE".toList else "FALSE".toList))) = .ok (some (.bool b)) :=
  typeRaw_bool n b

/-- every string-kinded parameter of the contract has a name `parse_iparamvalue` leaves alone, so a string
    value "true"/"false" (e.g. a Role) is not turned into a boolean -/
theorem C04_string_params_not_coerced :
    ∀ r ∈ specRows, ∀ p ∈ r.params, (p.kind = .str ∨ p.kind = .ctx) → Coerced p.name.toList = false := by decide

/-- the excluded input class of `StableText` is necessary: a CR in a string parameter does not survive
    (known finding C04-KF3, same root as C01-KF1) -/
theorem C04_string_param_roundtrip_fails_at_CR :
    wireTree (valueElem ['a', '\r', 'b']) = some (valueElem ['a', '\n', 'b']) ∧
    wireText ['a', '\r', 'b'] ≠ some ['a', '\r', 'b'] := by
  have h : wireText ['a', '\r', 'b'] = some ['a', '\n', 'b'] := by decide
  refine ⟨?_, by decide⟩
  simp [valueElem, E, wireTree_elem, wireKids, wireAttrs, h, joinText]

/-- object-valued parameters: from the C01 object round trip (hypothesis record `ObjRT`) -/
theorem C04_server_sees_object_param {C : DecCodec} {depth : Nat} {Ok : Obj → Prop} {rt : Obj → Obj}
    (R : ObjRT C depth Ok rt) {n : Str} {o : Obj} (k : Option Kind) (hn : StableAttr n) (ho : Ok o)
    (hp : IsParamObj o) : ParamRT C (embAt C depth) k (n, .obj o) (n, .obj (rt o)) :=
  ParamRT.obj R k hn ho hp

/-- `ObjRT` is satisfiable, and not only vacuously: class paths without namespace round-trip unchanged -/
theorem C04_objrt_classpaths (C : DecCodec) (depth : Nat) :
    ObjRT C depth (fun o => ∃ c, StableAttr c ∧ o = .path (.cls c none none)) id := by
  constructor
  rintro o ⟨c, hc, rfl⟩
  refine ⟨E "CLASSNAME" [("NAME".toList, c)] [], ?_, ?_⟩
  · simp [encObj, encPath, E, wireTree_elem, wireKids, wireAttrs, hc.wire]
  · simp [decode, decodeTop, nameIn, E, Xml.name, decPathAny, decClassName, checkNode, attrKeysOk, Xml.attr, kidsOk,
      Xml.elemKids, noText, getAttrD, pure, Except.pure, bind, Except.bind]

/-! ### the whole exchange commutes with the server behaviour -/

section
variable (C : DecCodec) (depth : Nat) (sig : List Row) (dflt host : Str) (S : Seen → Result) (row : Row) (c : Call)

/-- **C04_commutes.**  For ANY server behaviour `S`, any operation and call: when the call is accepted
    (`prepare`), every parameter reaches the server (`ParamRT`: proved for scalars, C01 for objects) and
    every item of the server's answer reaches the client's parser (`ChildRT`: proved for the output
    parameters EnumerationContext / EndOfSequence, for class-name lists and empty lists; the C01 round trip
    of the result elements otherwise), the result of the whole exchange — marshal, wire, unmarshal, `S`,
    marshal, wire, unmarshal — is the client's view (`_imethodcall` checks + the operation's
    post-processing) of what `S` answered to exactly the operation, namespace and parameters the caller
    supplied. -/
theorem C04_commutes (ns : Str) (ps : Params) (seen : List (Str × PVal)) (items : List RChild) (kids : List RspChild)
    (hprep : prepare dflt row c = .ok (ns, ps)) (hop : StableAttr row.op.toList) (hns : StableAttr ns)
    (hps : Zip (fun p q => ParamRT C (embAt C depth) (kindOf sig row.op.toList q.1) p q) (dropNone ps) seen)
    (hS : S { op := row.op.toList, ns := ns, params := seen } = .ok items)
    (hI : Zip (ChildRT C (embAt C depth) host row.op.toList) items kids) :
    exchange C depth sig dflt host S row c =
      (match imethodResult row kids with
       | .ok res => clientPost row ns host ps res
       | .error e => .error e) := by
  obtain ⟨t, hw, hs⟩ := serverSees_request C depth sig row.op.toList ns ps seen hop hns hps
  obtain ⟨r, hr, hd⟩ := response_roundtrip C depth host row "1001".toList items kids hop stable_1001 hI
  simp only [exchange, hprep, bind, Except.bind, hw, hs, hS, hr, clientReceive, hd]
  cases imethodResult row kids <;> rfl

/-- the IRETURNVALUE hypothesis of `C04_commutes` holds for the empty result list … -/
theorem C04_childrt_empty (host op : Str) : ChildRT C (embAt C depth) host op (.iret []) (.iret []) :=
  .iret [] [] ⟨[], by simp [ritemsXml, wireKids], by simp [AllElem], by
    simp [decIReturnValue, checkNode, attrKeysOk, noText, firstElem, pure, Except.pure, bind, Except.bind]⟩

/-- … and for lists of class paths (what EnumerateClassNames returns) -/
theorem C04_childrt_classpaths (host op : Str) (l : List (Str × Option Str × Option Str)) (hl : ∀ x ∈ l, StableAttr x.1) :
    ChildRT C (embAt C depth) host op (.iret (classPaths l))
      (.iret ((l.map (·.1)).map (fun c => CItem.plain (.path (.cls c none none))))) := by
  refine .iret _ _ ⟨l.map (fun x => classNameW x.1), wireKids_classPaths C.toCodec host op l hl, ?_, ?_⟩
  · intro k hk
    simp only [List.mem_map] at hk
    obtain ⟨x, _, rfl⟩ := hk
    rfl
  · have hdec := decRetItems_classNames C (embAt C depth) (l.map (·.1))
    have hnt : noText (l.map (fun x => classNameW x.1)) = true := by simp [noText, classNameW, E]
    simp only [List.map_map] at hdec
    cases l with
    | nil => simp [decIReturnValue, checkNode, attrKeysOk, noText, firstElem, pure, Except.pure, bind, Except.bind]
    | cons x rest =>
      simp only [List.map_cons, Function.comp] at hdec hnt ⊢
      simp [classNameW, E] at hdec hnt
      simp [decIReturnValue, checkNode, attrKeysOk, hnt, firstElem, classNameW, E, Xml.name, pure, Except.pure,
        bind, Except.bind]
      exact hdec

/-- **errors.**  Whatever the operation: if the server behaviour answers the call it sees with CIM status
    `code`, the caller gets `CIMError(code)` -/
theorem C04_commutes_error (ns : Str) (ps : Params) (seen : List (Str × PVal)) (code : Nat) (desc : Str)
    (hprep : prepare dflt row c = .ok (ns, ps)) (hop : StableAttr row.op.toList) (hns : StableAttr ns)
    (hps : Zip (fun p q => ParamRT C (embAt C depth) (kindOf sig row.op.toList q.1) p q) (dropNone ps) seen)
    (hS : S { op := row.op.toList, ns := ns, params := seen } = .err code desc)
    (hdesc : ∀ ch ∈ desc, isXmlChar ch = true) :
    exchange C depth sig dflt host S row c = .error (.cimError code) := by
  obtain ⟨t, hw, hs⟩ := serverSees_request C depth sig row.op.toList ns ps seen hop hns hps
  have hr := wire_errorResponse C.toCodec host code hop stable_1001 hdesc
  simp only [exchange, hprep, bind, Except.bind, hw, hs, hS, hr]
  exact clientReceive_error C depth row ns host ps _ code desc

/-- **nothing returned.**  If the server behaviour answers with no item (void operations, empty
    association results), the caller gets what the operation method makes of "no child element":
    None for the operations without return value -/
theorem C04_commutes_void (ns : Str) (ps : Params) (seen : List (Str × PVal))
    (hprep : prepare dflt row c = .ok (ns, ps)) (hop : StableAttr row.op.toList) (hns : StableAttr ns)
    (hps : Zip (fun p q => ParamRT C (embAt C depth) (kindOf sig row.op.toList q.1) p q) (dropNone ps) seen)
    (hS : S { op := row.op.toList, ns := ns, params := seen } = .ok []) :
    exchange C depth sig dflt host S row c = clientPost row ns host ps none ∧
    (row.post = .none → exchange C depth sig dflt host S row c = .ok .none) := by
  obtain ⟨t, hw, hs⟩ := serverSees_request C depth sig row.op.toList ns ps seen hop hns hps
  have hr := wire_emptyResponse C.toCodec host hop stable_1001
  have h1 : exchange C depth sig dflt host S row c = clientPost row ns host ps none := by
    simp only [exchange, hprep, bind, Except.bind, hw, hs, hS, hr]
    exact clientReceive_empty C depth row ns host ps _
  refine ⟨h1, fun hp => ?_⟩
  rw [h1]; simp [clientPost, hp, pure, Except.pure]

/-- **class name lists** (EnumerateClassNames): the caller gets exactly the class names of the paths
    the server behaviour returned, in order (host and namespace of the paths are not transmitted) -/
theorem C04_commutes_classnames (ns : Str) (ps : Params) (seen : List (Str × PVal))
    (l : List (Str × Option Str × Option Str))
    (hprep : prepare dflt row c = .ok (ns, ps)) (hop : StableAttr row.op.toList) (hns : StableAttr ns)
    (hps : Zip (fun p q => ParamRT C (embAt C depth) (kindOf sig row.op.toList q.1) p q) (dropNone ps) seen)
    (hpost : row.post = .classNames) (hret : row.hasReturn = true)
    (hS : S { op := row.op.toList, ns := ns, params := seen } = .ok [.iret (classPaths l)])
    (hl : ∀ x ∈ l, StableAttr x.1) :
    exchange C depth sig dflt host S row c = .ok (.names (l.map (·.1))) := by
  obtain ⟨t, hw, hs⟩ := serverSees_request C depth sig row.op.toList ns ps seen hop hns hps
  have hr := wire_classNamesResponse C.toCodec host l hop stable_1001 hl
  simp only [exchange, hprep, bind, Except.bind, hw, hs, hS, hr]
  exact clientReceive_classNames C depth row hpost hret ns host ps _ _

end

/-! ### what the client makes of the unmarshalled result (clientView) -/

/-- GetInstance: the returned instance gets the InstanceName of the request as its path, with the
    effective namespace; whatever path the reply carried is replaced -/
theorem C04_getinstance_path_completion (row : Row) (hpost : row.post = .getInstance) (ns host n cls : Str)
    (p : Path) (rest : Params) (any : Option Path) (pr : List Prop_) (q : List Qual) (more : List CItem)
    (others : List RspChild) :
    clientPost row ns host ((n, some (.obj (.path p))) :: rest)
        (some (.iret (.plain (.inst (.mk cls any pr q)) :: more) :: others)) =
      .ok (.one (.obj (.inst (.mk cls (some (Path.setNs ns p)) pr q)))) := by
  simp [clientPost, hpost, firstIret, pure, Except.pure, bind, Except.bind]

/-- EnumerateInstances / EnumerateInstanceNames: every returned path gets the effective namespace -/
theorem C04_enumerate_namespace_completion (ns cls : Str) (p : Path) (pr : List Prop_) (q : List Qual)
    (h : Option Str) (old : Option Str) (ks : List Key) :
    fixInstNs ns (.inst (.mk cls (some p) pr q)) = .ok (.obj (.inst (.mk cls (some (Path.setNs ns p)) pr q))) ∧
    fixNameNs ns (.path (.inst cls h old ks)) = .ok (.obj (.path (.inst cls h (some ns) ks))) :=
  ⟨rfl, rfl⟩

/-- GetClass / EnumerateClasses: the class gets the path (class name, connection host, effective
    namespace) -/
theorem C04_class_path_completion (host ns n : Str) (s : Option Str) (old : Option Path) (pr : List Prop_)
    (m : List Meth) (q : List Qual) :
    fixClassPath host ns (.cls (.mk n s old pr m q)) =
      .ok (.obj (.cls (.mk n s (some (.cls n (some host) (some ns))) pr m q))) := rfl

/-- open/pull results: when every returned object has the kind the operation expects (CIMInstance, with
    path where required, or CIMInstanceName), the enumeration context is wrapped with the effective
    namespace while the sequence continues, and dropped at its end -/
theorem C04_context_tuple (kind : PullKind) (ns ctx : Str) (items : List CItem) (t1 t2 : Option Str)
    (hk : items.all (pullItemOk kind) = true) :
    rsltParams kind ns [.iret items, .param "EnumerationContext".toList t1 (some ctx) false,
        .param "EndOfSequence".toList t2 (some "FALSE".toList) false] = .ok (items, false, some (some ctx, ns)) ∧
    rsltParams kind ns [.iret items, .param "EnumerationContext".toList t1 (some ctx) false,
        .param "EndOfSequence".toList t2 (some "TRUE".toList) false] = .ok (items, true, none) := by
  have e1 : ("EnumerationContext".toList = "EndOfSequence".toList) = False := by decide
  have e2 : lowerAscii "FALSE".toList = "false".toList := by decide
  have e3 : lowerAscii "TRUE".toList = "true".toList := by decide
  have e4 : ("false".toList = "true".toList) = False := by decide
  constructor <;>
    simp only [rsltParams, rsltStep, List.foldl, e1, e2, e3, e4, hk, if_true, if_false, Bool.not_true, Bool.not_false,
      Bool.and_false, Bool.false_and, Option.isNone, Bool.and_true, Bool.true_and, pure, Except.pure] <;> rfl

/-- an open/pull answer holding an object of another kind (e.g. an instance without path where a path is
    required, or a path where instances are expected) is rejected as CIMXMLParseError -/
theorem C04_pull_wrong_kind_rejected (kind : PullKind) (ns : Str) (items : List CItem) (more : List RspChild)
    (hk : items.all (pullItemOk kind) = false)
    (hok : ∃ r, more.foldl rsltStep (.ok (items, false, none, false, false)) = .ok r ∧ r.1 = items) :
    rsltParams kind ns (.iret items :: more) = .error .cimXmlParseError := by
  obtain ⟨⟨o, e, c, f1, f2⟩, hr, ho⟩ := hok
  simp only at ho
  subst ho
  simp [rsltParams, List.foldl, rsltStep, hr, hk, perr]

/-! ### InvokeMethod: the request (Model/OpsMeth.lean) -/

open Pywbem.Model.OpsMeth in
/-- an array parameter always yields exactly one value element, whatever items it holds; a NULL item is
    written as VALUE.NULL (this is the repaired defect C04-F1: the code raised AttributeError here) -/
theorem C04_method_array_null_items (C : Codec) (l : List Atom) :
    (paramValueXml C (.array l)).length = 1 ∧ paramItemXml C .null = E "VALUE.NULL" [] [] := by
  constructor
  · cases l with
    | nil => rfl
    | cons a rest => simp [paramValueXml]; split <;> rfl
  · rfl

open Pywbem.Model.OpsMeth in
/-- the target of a method call carries the connection default namespace when the caller gave none, the
    caller's namespace otherwise, and never a host -/
theorem C04_method_target_namespace (dflt : Str) (c : Str) (h : Option Str) (ks : List Key) :
    localObject dflt (.path (.inst c h none ks)) = .ok (.inst c none (some dflt) ks) ∧
    (∀ ns, localObject dflt (.path (.inst c h (some ns) ks)) = .ok (.inst c none (some ns) ks)) ∧
    localObject dflt (.str c) = .ok (.cls c none (some dflt)) ∧
    (∀ ns, localObject dflt (.path (.cls c h (some ns))) = .ok (.cls c none (some ns))) :=
  ⟨rfl, fun _ => rfl, rfl, fun _ => rfl⟩

/-! ### non-vacuity -/

example : StableAttr "EnumerateClassNames".toList ∧ StableAttr "root/cimv2".toList ∧ StableText " a&b<c> \n".toList := by
  refine ⟨⟨?_, ?_⟩, ⟨?_, ?_⟩, ⟨?_, ?_⟩⟩ <;> decide

/-- a concrete request through `C04_server_sees_scalars_partial`: one parameter of every scalar kind -/
example (C : DecCodec) : ∃ t, wireTree (requestXml C.toCodec "EnumerateInstances".toList "root/a".toList
      [("ClassName".toList, some (.obj (.path (.cls "C".toList none none)))), ("LocalOnly".toList, none),
       ("DeepInheritance".toList, some (.bool false)), ("PropertyList".toList, some (.strs [some "p".toList, none]))]) = some t ∧
    serverSees C 1 rows t = .ok ("1001".toList, Seen.mk "EnumerateInstances".toList "root/a".toList
      [("ClassName".toList, .obj (.path (.cls "C".toList none none))),
       ("DeepInheritance".toList, .bool false), ("PropertyList".toList, .strs [some "p".toList, none])]) := by
  apply C04_server_sees_scalars_partial C 1 rows
  · constructor <;> decide
  · constructor <;> decide
  · intro p hp
    simp [dropNone] at hp
    rcases hp with rfl | rfl | rfl
    · exact .classname _ _ (by constructor <;> decide) (by constructor <;> decide)
    · exact .bool _ _ (by constructor <;> decide) (by decide)
    · exact .strs _ _ (by constructor <;> decide) (by
        intro s hs; simp at hs; subst hs; constructor <;> decide)

/-- the EnumerateClassNames row of the extracted table (used by the examples below) -/
def ecnRow : Row :=
  { op := "EnumerateClassNames", pyName := "EnumerateClassNames", nsRule := .nsOrClass "ClassName",
    params := [⟨"ClassName", .cls, false⟩, ⟨"DeepInheritance", .bool, false⟩],
    hasReturn := true, hasOut := false, post := .classNames, clears := [] }

example : ecnRow ∈ rows := by decide

def ecnCall : Call := { args := [("ClassName".toList, .str "C".toList), ("DeepInheritance".toList, .bool true)] }

example : prepare "root/a".toList ecnRow ecnCall =
    .ok ("root/a".toList, [("ClassName".toList, some (.obj (.path (.cls "C".toList none none)))),
                            ("DeepInheritance".toList, some (.bool true))]) := by
  rfl

/-- non-vacuity of `C04_commutes_classnames`: EnumerateClassNames(ClassName='C', DeepInheritance=True) on a
    connection with default namespace root/a, against any server that answers with two class paths -/
example (C : DecCodec) (S : Seen → Result)
    (hS : S { op := "EnumerateClassNames".toList, ns := "root/a".toList,
              params := [("ClassName".toList, .obj (.path (.cls "C".toList none none))),
                         ("DeepInheritance".toList, .bool true)] } =
          .ok [.iret (classPaths [("C_Sub".toList, some "h".toList, some "root/a".toList), ("D".toList, none, none)])]) :
    exchange C 1 rows "root/a".toList "srv".toList S ecnRow ecnCall = .ok (.names ["C_Sub".toList, "D".toList]) := by
  have h := C04_commutes_classnames C 1 rows "root/a".toList "srv".toList S ecnRow ecnCall "root/a".toList
    [("ClassName".toList, some (.obj (.path (.cls "C".toList none none)))), ("DeepInheritance".toList, some (.bool true))]
    [("ClassName".toList, .obj (.path (.cls "C".toList none none))), ("DeepInheritance".toList, .bool true)]
    [("C_Sub".toList, some "h".toList, some "root/a".toList), ("D".toList, none, none)]
    rfl (by constructor <;> decide) (by constructor <;> decide)
    (.cons (ParamRT.classname C _ _ (by constructor <;> decide) (by constructor <;> decide))
      (.cons (by
        have : kindOf rows ecnRow.op.toList "DeepInheritance".toList = some .bool := by decide
        rw [this]; exact ParamRT.bool C _ true (by constructor <;> decide)) .nil))
    rfl rfl hS
    (by intro x hx; simp at hx; rcases hx with rfl | rfl <;> (constructor <;> decide))
  simpa using h

end C04
