/-
C04 — operations over HTTP/CIM-XML equal the same operations done directly.
Property theorems only (helper lemmas: Proofs/Lemmas/Ops.lean; contract table: Proofs/Lemmas/OpsSpec.lean).

Reading guide.  `exchange C depth sig dflt host S row call` (Model/Ops.lean) is one operation through the
wire against an ARBITRARY server behaviour `S : Seen → Result`:
  prepare (the operation method up to _imethodcall) → requestXml → wireTree (minidom + expat) →
  serverSees (parse_cim … parse_iparamvalue + signature typing) → S → responseXml (DSP0200 forms) →
  wireTree → clientReceive (parse_imethodresponse …, _imethodcall checks, result post-processing).
`ParamRT` says that one parameter reaches the server as a given value; it is PROVED here for every scalar
parameter kind (booleans, integers, strings, string lists, class names) and follows for object-valued
parameters from the C01 object round trip, which enters as the hypothesis record `ObjRT`.
-/
import Proofs.Lemmas.Ops
import Proofs.Lemmas.OpsC01
import Proofs.Lemmas.OpsC01b
import Proofs.Lemmas.OpsSpec
import Proofs.Lemmas.CimXml10
import Proofs.Props.XmlSyntax
import Pywbem.Model.OpsMeth

set_option linter.unusedSimpArgs false

namespace C04
open Pywbem.Model Pywbem.Model.XmlText Pywbem.Model.XmlParse Pywbem.Model.Ops Pywbem.Proto Pywbem.Generated.OpsSig
open Proofs.Ops Proofs.OpsSpec Proofs.OpsC01 Proofs.CimXml

/-! ### the extracted marshalling table is the contract -/

/-- every operation method marshals exactly the parameters of its DSP0200 signature, in order, computes
    the namespace by the documented rule and post-processes its result as documented: the table
    extracted from the current source equals the contract table -/
theorem C04_signature_table_is_spec : rows = specRows := by decide

/-- `parse_iparamvalue` coerces exactly four names; `_imethodcall` drops exactly the `None` values -/
theorem C04_coercion_and_filter_are_spec : coercedNames = specCoerced ∧ dropsOnlyNone = true := by decide

/-! ### None-valued parameters are omitted, nothing else is -/

/-- the IPARAMVALUE list of a request holds one element per non-None parameter, in call order -/
theorem C04_none_params_omitted (C : Codec) (ps : Params) :
    iparamsXml C ps = (dropNone ps).map (paramTree C) ∧
    (dropNone ps).map (·.1) = (ps.filter (fun p => p.2.isSome)).map (·.1) ∧
    (∀ n v, (n, v) ∈ dropNone ps ↔ (n, some v) ∈ ps) :=
  ⟨iparamsXml_dropNone C ps, dropNone_names ps, fun _ _ => mem_dropNone⟩

/-! ### the target namespace -/

/-- no namespace given anywhere: the connection default; a connection created without default
    namespace uses root/cimv2 -/
theorem C04_default_namespace_applied (dflt : Str) :
    nsFromNamespace dflt .none = .ok dflt ∧ nsFromObjectName dflt .none = .ok dflt ∧
    (∀ s, nsFromObjectName dflt (.str s) = .ok dflt) ∧
    (∀ c h, nsFromObjectName dflt (.path (.cls c h none)) = .ok dflt) ∧
    (∀ c h ks, nsFromObjectName dflt (.path (.inst c h none ks)) = .ok dflt) ∧
    effDefault none = "root/cimv2".toList := by
  refine ⟨rfl, rfl, fun _ => rfl, fun _ _ => rfl, fun _ _ _ => rfl, rfl⟩

/-- a namespace given as argument wins (slashes at both ends stripped); a namespace carried by the
    object name is used as it is -/
theorem C04_given_namespace_used (dflt s : Str) :
    nsFromNamespace dflt (.str s) = .ok (stripSlash s) ∧
    (∀ c h ks, nsFromObjectName dflt (.path (.inst c h (some s) ks)) = .ok s) ∧
    (∀ c h, nsFromObjectName dflt (.path (.cls c h (some s))) = .ok s) :=
  ⟨rfl, fun _ _ _ => rfl, fun _ _ => rfl⟩

/-- Enumerate…/GetClass/…: the namespace argument wins over the namespace of a CIMClassName argument,
    which wins over the default -/
theorem C04_namespace_or_classname (dflt : Str) (row : Row) (a : String) (hr : row.nsRule = .nsOrClass a)
    (c : Call) (cn : Str) (h : Option Str) (ns : Option Str) (hc : c.arg a = .path (.cls cn h ns)) :
    (∀ s, c.arg "namespace" = .str s → effNs dflt row c = .ok (stripSlash s)) ∧
    (c.arg "namespace" = .none → effNs dflt row c = .ok (match ns with | some n => stripSlash n | none => dflt)) := by
  constructor
  · intro s hs; simp [effNs, hr, hs, hc, nsFromNamespace, pure, Except.pure]
  · intro hn; cases ns <;> simp [effNs, hr, hn, hc, nsFromNamespace, optStrArg, pure, Except.pure]

/-! ### the server sees what the caller said -/

/-- **server_sees_what_client_said.**  For every operation name and namespace (strings that pass the
    attribute wire) and every parameter list: if each non-None parameter reaches the server as the
    value `seen` lists for it (`ParamRT`, discharged below for every parameter kind), then the server-side
    parser applied to the request document as it arrives reads exactly: the message id, the operation
    name, the namespace, and the list `seen` — no parameter for a None value, none added, order kept. -/
theorem C04_server_sees_what_client_said (C : DecCodec) (depth : Nat) (sig : List Row) (op ns : Str) (ps : Params)
    (seen : List (Str × PVal)) (hop : StableAttr op) (hns : StableAttr ns)
    (h : Zip (fun p q => ParamRT C (embAt C depth) (kindOf sig op q.1) p q) (dropNone ps) seen) :
    ∃ t, wireTree (requestXml C.toCodec op ns ps) = some t ∧
      serverSees C depth sig t = .ok ("1001".toList, { op := op, ns := ns, params := seen }) :=
  serverSees_request C depth sig op ns ps seen hop hns h

/-- a parameter of one of the kinds that need no hypothesis about CIM objects -/
inductive ScalarParam (sig : List Row) (op : Str) : Str × PVal → Prop
  | bool (n : Str) (b : Bool) : StableAttr n → kindOf sig op n = some .bool → ScalarParam sig op (n, .bool b)
  | int (n : Str) (v : Int) (k : Kind) : StableAttr n → kindOf sig op n = some k → (k = .uint ∨ k = .maxobj) →
      ScalarParam sig op (n, .int v)
  | str (n s : Str) : StableAttr n → StableText s → Coerced n = false →
      (kindOf sig op n ≠ some .bool ∧ kindOf sig op n ≠ some .uint ∧ kindOf sig op n ≠ some .maxobj) →
      ScalarParam sig op (n, .str s)
  | strs (n : Str) (l : List (Option Str)) : StableAttr n → StableItems l → ScalarParam sig op (n, .strs l)
  | classname (n c : Str) : StableAttr n → StableAttr c → ScalarParam sig op (n, .obj (.path (.cls c none none)))

/-- every scalar parameter kind round-trips (`ParamRT`), no hypothesis about objects -/
theorem C04_scalar_param_roundtrip {sig : List Row} {op : Str} {p : Str × PVal} (C : DecCodec) (emb : Str → R Atom)
    (h : ScalarParam sig op p) : ParamRT C emb (kindOf sig op p.1) p p := by
  cases h with
  | bool n b hn hk => rw [hk]; exact ParamRT.bool C emb b hn
  | int n v k hn hk hk' => rw [hk]; exact ParamRT.int C emb v k hk' hn
  | str n s hn hs hc hk => exact ParamRT.str C emb _ hn hs hc hk
  | strs n l hn hl => exact ParamRT.strs C emb _ hn hl
  | classname n c hn hc => exact ParamRT.classname C emb _ hn hc

/-- **scalar parameters, no hypothesis about objects.**  Partial only in this respect: string values must
    be `StableText` (XML characters, no CR) — the CR class is the open finding C04-KF3 / C01-KF1, see the
    witness `C04_string_param_roundtrip_fails_at_CR` below; the full statement (every Python string) is false.
    Booleans (whatever the parameter is called: the four names
    `parse_iparamvalue` coerces and the two it does not), integers, strings, string lists with NULL
    entries and class names arrive with equal values; None-valued parameters are omitted. -/
theorem C04_server_sees_scalars_partial (C : DecCodec) (depth : Nat) (sig : List Row) (op ns : Str) (ps : Params)
    (hop : StableAttr op) (hns : StableAttr ns) (h : ∀ p ∈ dropNone ps, ScalarParam sig op p) :
    ∃ t, wireTree (requestXml C.toCodec op ns ps) = some t ∧
      serverSees C depth sig t = .ok ("1001".toList, { op := op, ns := ns, params := dropNone ps }) :=
  serverSees_request C depth sig op ns ps (dropNone ps) hop hns
    (Zip.refl _ (fun p hp => C04_scalar_param_roundtrip C (embAt C depth) (h p hp)))

/-- booleans survive whether or not `parse_iparamvalue` special-cases the parameter name -/
theorem C04_boolean_param_any_name (n : Str) (b : Bool) :
    typeRaw (some .bool) (coerceRaw n (.text (if b then "TRUE".toList else "FALSE".toList))) = .ok (some (.bool b)) :=
  typeRaw_bool n b

/-- every string-kinded parameter of the contract has a name `parse_iparamvalue` leaves alone, so a string
    value "true"/"false" (e.g. a Role) is not turned into a boolean -/
theorem C04_string_params_not_coerced :
    ∀ r ∈ specRows, ∀ p ∈ r.params, (p.kind = .str ∨ p.kind = .ctx) → Coerced p.name.toList = false := by decide

/-- the excluded input class of `StableText` is necessary: a CR in a string parameter does not survive
    (known finding C04-KF3, same root as C01-KF1) -/
theorem C04_string_param_roundtrip_fails_at_CR :
    wireTree (valueElem ['a', '\r', 'b']) = some (valueElem ['a', '\n', 'b']) ∧
    wireText ['a', '\r', 'b'] ≠ some ['a', '\r', 'b'] := by
  have h : wireText ['a', '\r', 'b'] = some ['a', '\n', 'b'] := by decide
  refine ⟨?_, by decide⟩
  simp [valueElem, E, wireTree_elem, wireKids_nil, wireKids_elem_cons, wireKids_text_single, wireAttrs, h]

/-- object-valued parameters: from the C01 object round trip (hypothesis record `ObjRT`) -/
theorem C04_server_sees_object_param {C : DecCodec} {depth : Nat} {Ok : Obj → Prop} {rt : Obj → Obj}
    (R : ObjRT C depth Ok rt) {n : Str} {o : Obj} (k : Option Kind) (hn : StableAttr n) (ho : Ok o)
    (hp : IsParamObj o) : ParamRT C (embAt C depth) k (n, .obj o) (n, .obj (rt o)) :=
  ParamRT.obj R k hn ho hp

/-- `ObjRT` is satisfiable, and not only vacuously: class paths without namespace round-trip unchanged -/
theorem C04_objrt_classpaths (C : DecCodec) (depth : Nat) :
    ObjRT C depth (fun o => ∃ c, StableAttr c ∧ o = .path (.cls c none none)) id := by
  constructor
  rintro o ⟨c, hc, rfl⟩
  refine ⟨E "CLASSNAME" [("NAME".toList, c)] [], ?_, ?_⟩
  · simp [encObj, encPath, E, wireTree_elem, wireKids_nil, wireKids_elem_cons, wireKids_text_single, wireAttrs, hc.wire]
  · simp [decode, decodeTop, nameIn, E, Xml.name, decPathAny, decClassName, checkNode, attrKeysOk, Xml.attr, kidsOk,
      Xml.elemKids, noText, getAttrD, pure, Except.pure, bind, Except.bind]

/-! ### the whole exchange commutes with the server behaviour -/

section
variable (C : DecCodec) (depth : Nat) (sig : List Row) (dflt host : Str) (S : Seen → Result) (row : Row) (c : Call)

/-- **C04_commutes.**  For ANY server behaviour `S`, any operation and call: when the call is accepted
    (`prepare`), every parameter reaches the server (`ParamRT`: proved for scalars, C01 for objects) and
    every item of the server's answer reaches the client's parser (`ChildRT`: proved for the output
    parameters EnumerationContext / EndOfSequence, for class-name lists and empty lists; the C01 round trip
    of the result elements otherwise), the result of the whole exchange — marshal, wire, unmarshal, `S`,
    marshal, wire, unmarshal — is the client's view (`_imethodcall` checks + the operation's
    post-processing) of what `S` answered to exactly the operation, namespace and parameters the caller
    supplied. -/
theorem C04_commutes (ns : Str) (ps : Params) (seen : List (Str × PVal)) (items : List RChild) (kids : List RspChild)
    (hprep : prepare dflt row c = .ok (ns, ps)) (hop : StableAttr row.op.toList) (hns : StableAttr ns)
    (hps : Zip (fun p q => ParamRT C (embAt C depth) (kindOf sig row.op.toList q.1) p q) (dropNone ps) seen)
    (hS : S { op := row.op.toList, ns := ns, params := seen } = .ok items)
    (hI : Zip (ChildRT C (embAt C depth) host row.op.toList) items kids) :
    exchange C depth sig dflt host S row c =
      (match imethodResult row kids with
       | .ok res => clientPost row ns host ps res
       | .error e => .error e) := by
  obtain ⟨t, hw, hs⟩ := serverSees_request C depth sig row.op.toList ns ps seen hop hns hps
  obtain ⟨r, hr, hd⟩ := response_roundtrip C depth host row "1001".toList items kids hop stable_1001 hI
  simp only [exchange, hprep, bind, Except.bind, hw, hs, hS, hr, clientReceive, hd]
  cases imethodResult row kids <;> rfl

/-- the IRETURNVALUE hypothesis of `C04_commutes` holds for the empty result list … -/
theorem C04_childrt_empty (host op : Str) : ChildRT C (embAt C depth) host op (.iret []) (.iret []) :=
  .iret [] [] ⟨[], by simp [ritemsXml, wireKids_nil, wireKids_elem_cons, wireKids_text_single], by simp [AllElem], by
    simp [decIReturnValue, checkNode, attrKeysOk, noText, firstElem, pure, Except.pure, bind, Except.bind]⟩

/-- … and for lists of class paths (what EnumerateClassNames returns) -/
theorem C04_childrt_classpaths (host op : Str) (l : List (Str × Option Str × Option Str)) (hl : ∀ x ∈ l, StableAttr x.1) :
    ChildRT C (embAt C depth) host op (.iret (classPaths l))
      (.iret ((l.map (·.1)).map (fun c => CItem.plain (.path (.cls c none none))))) := by
  refine .iret _ _ ⟨l.map (fun x => classNameW x.1), wireKids_classPaths C.toCodec host op l hl, ?_, ?_⟩
  · intro k hk
    simp only [List.mem_map] at hk
    obtain ⟨x, _, rfl⟩ := hk
    rfl
  · have hdec := decRetItems_classNames C (embAt C depth) (l.map (·.1))
    have hnt : noText (l.map (fun x => classNameW x.1)) = true := by simp [noText, classNameW, E]
    simp only [List.map_map] at hdec
    cases l with
    | nil => simp [decIReturnValue, checkNode, attrKeysOk, noText, firstElem, pure, Except.pure, bind, Except.bind]
    | cons x rest =>
      simp only [List.map_cons, Function.comp] at hdec hnt ⊢
      simp [classNameW, E] at hdec hnt
      simp [decIReturnValue, checkNode, attrKeysOk, hnt, firstElem, classNameW, E, Xml.name, pure, Except.pure,
        bind, Except.bind]
      exact hdec

/-- **errors.**  Whatever the operation: if the server behaviour answers the call it sees with CIM status
    `code`, the caller gets `CIMError(code)` -/
theorem C04_commutes_error (ns : Str) (ps : Params) (seen : List (Str × PVal)) (code : Nat) (desc : Str)
    (hprep : prepare dflt row c = .ok (ns, ps)) (hop : StableAttr row.op.toList) (hns : StableAttr ns)
    (hps : Zip (fun p q => ParamRT C (embAt C depth) (kindOf sig row.op.toList q.1) p q) (dropNone ps) seen)
    (hS : S { op := row.op.toList, ns := ns, params := seen } = .err code desc)
    (hdesc : ∀ ch ∈ desc, isXmlChar ch = true) :
    exchange C depth sig dflt host S row c = .error (.cimError code) := by
  obtain ⟨t, hw, hs⟩ := serverSees_request C depth sig row.op.toList ns ps seen hop hns hps
  have hr := wire_errorResponse C.toCodec host code hop stable_1001 hdesc
  simp only [exchange, hprep, bind, Except.bind, hw, hs, hS, hr]
  exact clientReceive_error C depth row ns host ps _ code desc

/-- **nothing returned.**  If the server behaviour answers with no item (void operations, empty
    association results), the caller gets what the operation method makes of "no child element":
    None for the operations without return value -/
theorem C04_commutes_void (ns : Str) (ps : Params) (seen : List (Str × PVal))
    (hprep : prepare dflt row c = .ok (ns, ps)) (hop : StableAttr row.op.toList) (hns : StableAttr ns)
    (hps : Zip (fun p q => ParamRT C (embAt C depth) (kindOf sig row.op.toList q.1) p q) (dropNone ps) seen)
    (hS : S { op := row.op.toList, ns := ns, params := seen } = .ok []) :
    exchange C depth sig dflt host S row c = clientPost row ns host ps none ∧
    (row.post = .none → exchange C depth sig dflt host S row c = .ok .none) := by
  obtain ⟨t, hw, hs⟩ := serverSees_request C depth sig row.op.toList ns ps seen hop hns hps
  have hr := wire_emptyResponse C.toCodec host hop stable_1001
  have h1 : exchange C depth sig dflt host S row c = clientPost row ns host ps none := by
    simp only [exchange, hprep, bind, Except.bind, hw, hs, hS, hr]
    exact clientReceive_empty C depth row ns host ps _
  refine ⟨h1, fun hp => ?_⟩
  rw [h1]; simp [clientPost, hp, pure, Except.pure]

/-- **class name lists** (EnumerateClassNames): the caller gets exactly the class names of the paths
    the server behaviour returned, in order (host and namespace of the paths are not transmitted) -/
theorem C04_commutes_classnames (ns : Str) (ps : Params) (seen : List (Str × PVal))
    (l : List (Str × Option Str × Option Str))
    (hprep : prepare dflt row c = .ok (ns, ps)) (hop : StableAttr row.op.toList) (hns : StableAttr ns)
    (hps : Zip (fun p q => ParamRT C (embAt C depth) (kindOf sig row.op.toList q.1) p q) (dropNone ps) seen)
    (hpost : row.post = .classNames) (hret : row.hasReturn = true)
    (hS : S { op := row.op.toList, ns := ns, params := seen } = .ok [.iret (classPaths l)])
    (hl : ∀ x ∈ l, StableAttr x.1) :
    exchange C depth sig dflt host S row c = .ok (.names (l.map (·.1))) := by
  obtain ⟨t, hw, hs⟩ := serverSees_request C depth sig row.op.toList ns ps seen hop hns hps
  have hr := wire_classNamesResponse C.toCodec host l hop stable_1001 hl
  simp only [exchange, hprep, bind, Except.bind, hw, hs, hS, hr]
  exact clientReceive_classNames C depth row hpost hret ns host ps _ _

end

/-! ### what the client makes of the unmarshalled result (clientView) -/

/-- GetInstance: the returned instance gets the InstanceName of the request as its path, with the
    effective namespace; whatever path the reply carried is replaced -/
theorem C04_getinstance_path_completion (row : Row) (hpost : row.post = .getInstance) (ns host n cls : Str)
    (p : Path) (rest : Params) (any : Option Path) (pr : List Prop_) (q : List Qual) (more : List CItem)
    (others : List RspChild) :
    clientPost row ns host ((n, some (.obj (.path p))) :: rest)
        (some (.iret (.plain (.inst (.mk cls any pr q)) :: more) :: others)) =
      .ok (.one (.obj (.inst (.mk cls (some (Path.setNs ns p)) pr q)))) := by
  simp [clientPost, hpost, firstIret, pure, Except.pure, bind, Except.bind]

/-- EnumerateInstances / EnumerateInstanceNames: every returned path gets the effective namespace -/
theorem C04_enumerate_namespace_completion (ns cls : Str) (p : Path) (pr : List Prop_) (q : List Qual)
    (h : Option Str) (old : Option Str) (ks : List Key) :
    fixInstNs ns (.inst (.mk cls (some p) pr q)) = .ok (.obj (.inst (.mk cls (some (Path.setNs ns p)) pr q))) ∧
    fixNameNs ns (.path (.inst cls h old ks)) = .ok (.obj (.path (.inst cls h (some ns) ks))) :=
  ⟨rfl, rfl⟩

/-- GetClass / EnumerateClasses: the class gets the path (class name, connection host, effective
    namespace) -/
theorem C04_class_path_completion (host ns n : Str) (s : Option Str) (old : Option Path) (pr : List Prop_)
    (m : List Meth) (q : List Qual) :
    fixClassPath host ns (.cls (.mk n s old pr m q)) =
      .ok (.obj (.cls (.mk n s (some (.cls n (some host) (some ns))) pr m q))) := rfl

/-- open/pull results: when every returned object has the kind the operation expects (CIMInstance, with
    path where required, or CIMInstanceName), the enumeration context is wrapped with the effective
    namespace while the sequence continues, and dropped at its end -/
theorem C04_context_tuple (kind : PullKind) (ns ctx : Str) (items : List CItem) (t1 t2 : Option Str)
    (hk : items.all (pullItemOk kind) = true) :
    rsltParams kind ns [.iret items, .param "EnumerationContext".toList t1 (some ctx) false,
        .param "EndOfSequence".toList t2 (some "FALSE".toList) false] = .ok (items, false, some (some ctx, ns)) ∧
    rsltParams kind ns [.iret items, .param "EnumerationContext".toList t1 (some ctx) false,
        .param "EndOfSequence".toList t2 (some "TRUE".toList) false] = .ok (items, true, none) := by
  have e1 : ("EnumerationContext".toList = "EndOfSequence".toList) = False := by decide
  have e2 : lowerAscii "FALSE".toList = "false".toList := by decide
  have e3 : lowerAscii "TRUE".toList = "true".toList := by decide
  have e4 : ("false".toList = "true".toList) = False := by decide
  constructor <;>
    simp only [rsltParams, rsltStep, List.foldl, e1, e2, e3, e4, hk, if_true, if_false, Bool.not_true, Bool.not_false,
      Bool.and_false, Bool.false_and, Option.isNone, Bool.and_true, Bool.true_and, pure, Except.pure] <;> rfl

/-- an open/pull answer holding an object of another kind (e.g. an instance without path where a path is
    required, or a path where instances are expected) is rejected as CIMXMLParseError -/
theorem C04_pull_wrong_kind_rejected (kind : PullKind) (ns : Str) (items : List CItem) (more : List RspChild)
    (hk : items.all (pullItemOk kind) = false)
    (hok : ∃ r, more.foldl rsltStep (.ok (items, false, none, false, false)) = .ok r ∧ r.1 = items) :
    rsltParams kind ns (.iret items :: more) = .error .cimXmlParseError := by
  obtain ⟨⟨o, e, c, f1, f2⟩, hr, ho⟩ := hok
  simp only at ho
  subst ho
  simp [rsltParams, List.foldl, rsltStep, hr, hk, perr]

/-! ### the object-valued part, discharged from the C01 theorems

`WireOk C S d o` (Proofs/Lemmas/OpsC01.lean) = `Sendable S o` (C01) ∧ embedded nesting ≤ d ∧ `WfTree (encObj o)`
∧ `SoftStable (encObj o)` (XmlSyntax: XML Names / XML Chars; no CR in texts, no TAB/LF/CR in attribute values;
empty string values ARE covered: the receiver sees the tree up to text chunking (`wireTree_norm`) and the decoders
are blind to it (`decodeTop_norm`)).  `CodecOk C S` is C01's hypothesis record about the third-party conversions (float text,
CIMDateTime, expat on embedded-object text). -/

/-- **ObjRT from C01.**  The hypothesis record of the object-valued theorems above holds for every wire-stable
    sendable object, with `rt` = the DSP0201 defaults of C01 (`wdObj`) -/
theorem C04_objrt_from_C01 (C : DecCodec) (S : Spec) (hC : CodecOk C S) (d : Nat) :
    ObjRT C d (WireOk C S d) (wdObj C.toCodec) := objrt_from_C01 C S hC d

/-- a parameter the caller may pass: a scalar, or a CIM object in the shape `_iparam_*` gives it (instance name,
    instance for CreateInstance / ModifyInstance, class, qualifier declaration) that C01 speaks about -/
inductive ParamOk (C : DecCodec) (S : Spec) (d : Nat) (sig : List Row) (op : Str) : Str × PVal → Prop
  | scalar (p : Str × PVal) : ScalarParam sig op p → ParamOk C S d sig op p
  | obj (n : Str) (o : Obj) : StableAttr n → IsParamObj o → WireOk C S d o → ParamOk C S d sig op (n, .obj o)

/-- what the server sees of a parameter: scalars unchanged, objects with the DSP0201 defaults filled in -/
def seenOf (C : Codec) : Str × PVal → Str × PVal
  | (n, .obj o) => (n, .obj (wdObj C o))
  | p => p

/-- **server_sees_what_client_said, objects included** (no hypothesis record left): for every parameter list
    of scalars and C01-sendable wire-stable objects the server reads the operation name, the namespace and each
    non-None parameter — scalars equal, objects equal up to the DSP0201 defaults -/
theorem C04_server_sees_objects (C : DecCodec) (S : Spec) (hC : CodecOk C S) (depth : Nat) (sig : List Row)
    (op ns : Str) (ps : Params) (hop : StableAttr op) (hns : StableAttr ns)
    (h : ∀ p ∈ dropNone ps, ParamOk C S depth sig op p) :
    ∃ t, wireTree (requestXml C.toCodec op ns ps) = some t ∧
      serverSees C depth sig t =
        .ok ("1001".toList, { op := op, ns := ns, params := (dropNone ps).map (seenOf C.toCodec) }) := by
  apply serverSees_request C depth sig op ns ps _ hop hns
  apply Zip.map
  intro p hp
  cases h p hp with
  | scalar p hsc =>
    have hrt := C04_scalar_param_roundtrip C (embAt C depth) hsc
    cases hsc <;> exact hrt
  | obj n o hn hpo hw => exact ParamRT.obj (C04_objrt_from_C01 C S hC depth) _ hn hw hpo

section
variable (C : DecCodec) (S : Spec) (hC : CodecOk C S) (depth : Nat) (sig : List Row) (dflt host : Str)
  (Srv : Seen → Result) (row : Row) (c : Call)

include hC in
/-- **C04_commutes for object results** (no hypothesis record left).  The server behaviour answers with a list
    of result items that travel as plain elements (instances as INSTANCE / VALUE.NAMEDINSTANCE /
    VALUE.INSTANCEWITHPATH, instance names / paths, class names, classes, qualifier declarations), all of one
    element kind, each C01-sendable and wire-stable: the caller gets the operation's post-processing of exactly
    those objects with the DSP0201 defaults — GetInstance, EnumerateInstances, EnumerateInstanceNames,
    CreateInstance, GetClass, EnumerateClasses, EnumerateClassNames, GetQualifier, EnumerateQualifiers. -/
theorem C04_commutes_objects (ns : Str) (ps : Params) (l : List RItem) (view : RItem → Obj) (nm : Str)
    (hprep : prepare dflt row c = .ok (ns, ps)) (hop : StableAttr row.op.toList) (hns : StableAttr ns)
    (hps : ∀ p ∈ dropNone ps, ParamOk C S depth sig row.op.toList p)
    (hret : row.hasReturn = true)
    (hS : Srv { op := row.op.toList, ns := ns, params := (dropNone ps).map (seenOf C.toCodec) } = .ok [.iret l])
    (hl : ∀ x ∈ l, plainObjOf host row.op.toList x = some (view x) ∧ WireOk C S depth (view x) ∧
      (encObj C.toCodec (view x)).name = nm) :
    exchange C depth sig dflt host Srv row c =
      clientPost row ns host ps (some [.iret (l.map (fun x => CItem.plain (wdObj C.toCodec (view x))))]) := by
  have hzip : Zip (fun p q => ParamRT C (embAt C depth) (kindOf sig row.op.toList q.1) p q) (dropNone ps)
      ((dropNone ps).map (seenOf C.toCodec)) := by
    apply Zip.map
    intro p hp
    cases hps p hp with
    | scalar p hsc =>
      have hrt := C04_scalar_param_roundtrip C (embAt C depth) hsc
      cases hsc <;> exact hrt
    | obj n o hn hpo hw => exact ParamRT.obj (C04_objrt_from_C01 C S hC depth) _ hn hw hpo
  have hI := iret_plain C S hC depth host row.op.toList l view nm hl
  rw [C04_commutes C depth sig dflt host Srv row c ns ps _ [.iret l] _ hprep hop hns hzip hS (.cons hI .nil)]
  simp [imethodResult, RspChild.isError, RspChild.isIret, hret, pure, Except.pure]

include hC in
/-- **GetInstance end to end**: whatever instance the server behaviour returns for the request it saw, the
    caller gets that instance (DSP0201 defaults filled in) with the InstanceName of the call as its path,
    completed with the effective namespace -/
theorem C04_getinstance_commutes (ns n : Str) (p : Path) (rest : Params) (i : Inst)
    (hrow : row.post = .getInstance) (hret : row.hasReturn = true) (hform : instForm row.op.toList = .instance)
    (hprep : prepare dflt row c = .ok (ns, (n, some (.obj (.path p))) :: rest))
    (hop : StableAttr row.op.toList) (hns : StableAttr ns)
    (hps : ∀ q ∈ dropNone ((n, some (.obj (.path p))) :: rest), ParamOk C S depth sig row.op.toList q)
    (hS : Srv { op := row.op.toList, ns := ns,
                params := (dropNone ((n, some (.obj (.path p))) :: rest)).map (seenOf C.toCodec) } = .ok [.iret [.inst i]])
    (hi : WireOk C S depth (.inst (match i with | .mk cl _ pr q => .mk cl none pr q))) :
    exchange C depth sig dflt host Srv row c =
      .ok (.one (.obj (.inst (match wdInstNoPath C.toCodec i with
        | .mk cl _ pr q => .mk cl (some (Path.setNs ns p)) pr q)))) := by
  obtain ⟨cl, pth, pr, q⟩ := i
  have hl : ∀ x ∈ [RItem.inst (.mk cl pth pr q)], plainObjOf host row.op.toList x = some ((fun _ => Obj.inst (.mk cl none pr q)) x) ∧
      WireOk C S depth ((fun _ => Obj.inst (.mk cl none pr q)) x) ∧
      (encObj C.toCodec ((fun _ => Obj.inst (.mk cl none pr q)) x)).name = "INSTANCE".toList := by
    intro x hx
    simp only [List.mem_singleton] at hx
    subst hx
    refine ⟨by simp [plainObjOf, hform], hi, by simp [encObj, encInst, E, Xml.name]⟩
  rw [C04_commutes_objects C S hC depth sig dflt host Srv row c ns _ _ _ _ hprep hop hns hps hret hS hl]
  simp only [List.map_cons, List.map_nil, wdObj, wdInst, wdInstNoPath]
  exact C04_getinstance_path_completion row hrow ns host n cl p rest none _ _ [] []

end

/-- association results (Associators / References of an instance): VALUE.OBJECTWITHPATH items whose paths carry
    host and namespace arrive as instances with path, with the DSP0201 defaults -/
theorem C04_childrt_assoc_instances (C : DecCodec) (S : Spec) (hC : CodecOk C S) (d : Nat) (host op : Str)
    (l : List (Path × Inst))
    (h : ∀ x ∈ l, FullInstPath x.1 ∧ SendablePath S x.1 ∧ SendableInstBody S x.2 ∧ depthInst x.2 ≤ d ∧
      WfTree (E "VALUE.OBJECTWITHPATH" [] [encPath C.toCodec x.1, encInstElem C.toCodec x.2]) ∧
      SoftStable (E "VALUE.OBJECTWITHPATH" [] [encPath C.toCodec x.1, encInstElem C.toCodec x.2])) :
    ChildRT C (embAt C d) host op
      (.iret (l.map (fun x => RItem.opInst (Inst.setPath x.1 x.2))))
      (.iret (l.map (fun x => CItem.tagged "VALUE.OBJECTWITHPATH".toList
        (.obj (.inst (Inst.setPath (wdPath C.toCodec x.1) (wdInstNoPath C.toCodec x.2))))))) := by
  have key : ∀ x ∈ l, ritemXml C.toCodec host op (RItem.opInst (Inst.setPath x.1 x.2)) =
      E "VALUE.OBJECTWITHPATH" [] [encPath C.toCodec x.1, encInstElem C.toCodec x.2] := by
    intro x hx
    obtain ⟨hf, _⟩ := h x hx
    obtain ⟨p, cl, pp, pr, q⟩ := x
    match p, hf with
    | .inst c' (some hh) (some n) ks, _ =>
      simp [ritemXml, Inst.setPath, Inst.pathD, Path.withHostD, encInstElem]
  have := iret_of_items C d host op (l.map (fun x => RItem.opInst (Inst.setPath x.1 x.2)))
    (fun r => match r with
      | .opInst (.mk cl (some p) pr q) => CItem.tagged "VALUE.OBJECTWITHPATH".toList
          (.obj (.inst (Inst.setPath (wdPath C.toCodec p) (wdInstNoPath C.toCodec (.mk cl none pr q)))))
      | _ => CItem.other) "VALUE.OBJECTWITHPATH".toList (by
      intro r hr
      simp only [List.mem_map] at hr
      obtain ⟨x, hx, rfl⟩ := hr
      obtain ⟨hf, hsp, hsi, hd, hw, hst⟩ := h x hx
      rw [key x hx]
      obtain ⟨p, cl, pp, pr, q⟩ := x
      refine ⟨rfl, rfl, hw, hst, ?_⟩
      have := decRetItem_opInst C S hC d p (.mk cl pp pr q) hf hsp hsi hd
      simpa [Inst.setPath, wdInstNoPath] using this)
  rw [List.map_map] at this
  have e : l.map ((fun r => match r with
      | RItem.opInst (.mk cl (some p) pr q) => CItem.tagged "VALUE.OBJECTWITHPATH".toList
          (.obj (.inst (Inst.setPath (wdPath C.toCodec p) (wdInstNoPath C.toCodec (.mk cl none pr q)))))
      | _ => CItem.other) ∘ fun x => RItem.opInst (Inst.setPath x.1 x.2)) =
      l.map (fun x => CItem.tagged "VALUE.OBJECTWITHPATH".toList
        (.obj (.inst (Inst.setPath (wdPath C.toCodec x.1) (wdInstNoPath C.toCodec x.2))))) := by
    apply List.map_congr_left
    intro x _
    obtain ⟨p, cl, pp, pr, q⟩ := x
    rfl
  rw [e] at this
  exact this

/-! ### No tree hypotheses left: `WfTree` / `SoftStable` from C01's decidable `CleanObj`; the remaining result forms -/

/-- **WireOk from CleanObj.**  For a C01-sendable object whose strings are clean (`CleanObj`: XML Chars only, no CR in
    character data, no TAB / LF / CR in names — a Bool function of the object) and whose embedded nesting is within
    the depth, well-formedness and wire-stability of its encoding are theorems (C01 `good_encObj`).  The only
    hypotheses that remain are about third-party code: `CodecOk`, `CodecClean` (float formatting prints ASCII). -/
theorem C04_wireok_of_clean (C : DecCodec) (S : Spec) (hK : CodecClean C.toCodec) (d : Nat) (o : Obj)
    (hs : Sendable S o) (hc : CleanObj o) (hd : embDepth o ≤ d) : WireOk C S d o :=
  wireOk_of_clean C S hK d o hs hc hd

/-- a parameter the caller may pass, stated on the object itself (no statement about trees) -/
def CleanParam (S : Spec) (d : Nat) (sig : List Row) (op : Str) (p : Str × PVal) : Prop :=
  ScalarParam sig op p ∨
    ∃ n o, p = (n, .obj o) ∧ StableAttr n ∧ IsParamObj o ∧ Sendable S o ∧ CleanObj o ∧ embDepth o ≤ d

theorem C04_paramok_of_clean (C : DecCodec) (S : Spec) (hK : CodecClean C.toCodec) (d : Nat) (sig : List Row)
    (op : Str) (p : Str × PVal) (h : CleanParam S d sig op p) : ParamOk C S d sig op p := by
  cases h with
  | inl h => exact .scalar p h
  | inr h =>
    obtain ⟨n, o, rfl, hn, hp, hs, hc, hd⟩ := h
    exact .obj n o hn hp (wireOk_of_clean C S hK d o hs hc hd)

/-- **server_sees_what_client_said for clean objects**: `C04_server_sees_objects` with every tree hypothesis
    discharged -/
theorem C04_server_sees_clean_objects (C : DecCodec) (S : Spec) (hC : CodecOk C S) (hK : CodecClean C.toCodec)
    (depth : Nat) (sig : List Row) (op ns : Str) (ps : Params) (hop : StableAttr op) (hns : StableAttr ns)
    (h : ∀ p ∈ dropNone ps, CleanParam S depth sig op p) :
    ∃ t, wireTree (requestXml C.toCodec op ns ps) = some t ∧
      serverSees C depth sig t =
        .ok ("1001".toList, { op := op, ns := ns, params := (dropNone ps).map (seenOf C.toCodec) }) :=
  C04_server_sees_objects C S hC depth sig op ns ps hop hns
    (fun p hp => C04_paramok_of_clean C S hK depth sig op p (h p hp))

section
variable (C : DecCodec) (S : Spec) (hC : CodecOk C S) (hK : CodecClean C.toCodec) (depth : Nat) (sig : List Row)
  (dflt host : Str) (Srv : Seen → Result) (row : Row) (c : Call)

include hC hK in
/-- **C04_commutes for any result list whose items are read back** (`ChildRT.iret`, discharged below for every
    form an operation returns), parameters clean -/
theorem C04_commutes_iret (ns : Str) (ps : Params) (l : List RItem) (view : List CItem)
    (hprep : prepare dflt row c = .ok (ns, ps)) (hop : StableAttr row.op.toList) (hns : StableAttr ns)
    (hps : ∀ p ∈ dropNone ps, CleanParam S depth sig row.op.toList p)
    (hret : row.hasReturn = true)
    (hS : Srv { op := row.op.toList, ns := ns, params := (dropNone ps).map (seenOf C.toCodec) } = .ok [.iret l])
    (hI : ChildRT C (embAt C depth) host row.op.toList (.iret l) (.iret view)) :
    exchange C depth sig dflt host Srv row c = clientPost row ns host ps (some [.iret view]) := by
  have hzip : Zip (fun p q => ParamRT C (embAt C depth) (kindOf sig row.op.toList q.1) p q) (dropNone ps)
      ((dropNone ps).map (seenOf C.toCodec)) := by
    apply Zip.map
    intro p hp
    cases C04_paramok_of_clean C S hK depth sig row.op.toList p (hps p hp) with
    | scalar p hsc =>
      have hrt := C04_scalar_param_roundtrip C (embAt C depth) hsc
      cases hsc <;> exact hrt
    | obj n o hn hpo hw => exact ParamRT.obj (C04_objrt_from_C01 C S hC depth) _ hn hw hpo
  rw [C04_commutes C depth sig dflt host Srv row c ns ps _ [.iret l] _ hprep hop hns hzip hS (.cons hI .nil)]
  simp [imethodResult, RspChild.isError, RspChild.isIret, hret, pure, Except.pure]

include hC hK in
/-- **C04_commutes_objects for clean objects**: parameters and result items described on the objects only -/
theorem C04_commutes_clean_objects (ns : Str) (ps : Params) (l : List RItem) (view : RItem → Obj) (nm : Str)
    (hprep : prepare dflt row c = .ok (ns, ps)) (hop : StableAttr row.op.toList) (hns : StableAttr ns)
    (hps : ∀ p ∈ dropNone ps, CleanParam S depth sig row.op.toList p)
    (hret : row.hasReturn = true)
    (hS : Srv { op := row.op.toList, ns := ns, params := (dropNone ps).map (seenOf C.toCodec) } = .ok [.iret l])
    (hl : ∀ x ∈ l, plainObjOf host row.op.toList x = some (view x) ∧ Sendable S (view x) ∧ CleanObj (view x) ∧
      embDepth (view x) ≤ depth ∧ (encObj C.toCodec (view x)).name = nm) :
    exchange C depth sig dflt host Srv row c =
      clientPost row ns host ps (some [.iret (l.map (fun x => CItem.plain (wdObj C.toCodec (view x))))]) :=
  C04_commutes_objects C S hC depth sig dflt host Srv row c ns ps l view nm hprep hop hns
    (fun p hp => C04_paramok_of_clean C S hK depth sig row.op.toList p (hps p hp)) hret hS
    (fun x hx => ⟨(hl x hx).1, wireOk_of_clean C S hK depth _ (hl x hx).2.1 (hl x hx).2.2.1 (hl x hx).2.2.2.1,
      (hl x hx).2.2.2.2⟩)

end

/-- `C04_childrt_assoc_instances` with the tree hypotheses discharged: clean paths and instance bodies -/
theorem C04_childrt_assoc_clean_instances (C : DecCodec) (S : Spec) (hC : CodecOk C S) (hK : CodecClean C.toCodec)
    (d : Nat) (host op : Str) (l : List (Path × Inst))
    (h : ∀ x ∈ l, FullInstPath x.1 ∧ SendablePath S x.1 ∧ SendableInstBody S x.2 ∧ depthInst x.2 ≤ d ∧
      cleanPath x.1 = true ∧ cleanInstBody x.2 = true) :
    ChildRT C (embAt C d) host op
      (.iret (l.map (fun x => RItem.opInst (Inst.setPath x.1 x.2))))
      (.iret (l.map (fun x => CItem.tagged "VALUE.OBJECTWITHPATH".toList
        (.obj (.inst (Inst.setPath (wdPath C.toCodec x.1) (wdInstNoPath C.toCodec x.2))))))) :=
  C04_childrt_assoc_instances C S hC d host op l (fun x hx =>
    ⟨(h x hx).1, (h x hx).2.1, (h x hx).2.2.1, (h x hx).2.2.2.1,
      (good_owp_inst C hK x.1 x.2 (h x hx).2.2.2.2.1 (h x hx).2.2.2.2.2).1,
      (good_owp_inst C hK x.1 x.2 (h x hx).2.2.2.2.1 (h x hx).2.2.2.2.2).2⟩)

/-- **names of associations** (AssociatorNames / ReferenceNames of an instance): OBJECTPATH items whose instance
    paths carry host and namespace arrive as those paths (DSP0201 defaults: key types) -/
theorem C04_childrt_assoc_names (C : DecCodec) (S : Spec) (hC : CodecOk C S) (hK : CodecClean C.toCodec)
    (d : Nat) (host op : Str) (l : List Path)
    (h : ∀ p ∈ l, FullInstPath p ∧ SendablePath S p ∧ cleanPath p = true) :
    ChildRT C (embAt C d) host op
      (.iret (l.map RItem.opPath))
      (.iret (l.map (fun p => CItem.tagged "OBJECTPATH".toList (.obj (.path (wdPath C.toCodec p)))))) := by
  have key : ∀ p ∈ l, ritemXml C.toCodec host op (RItem.opPath p) = E "OBJECTPATH" [] [encPath C.toCodec p] := by
    intro p hp
    obtain ⟨hf, _⟩ := h p hp
    match p, hf with
    | .inst c' (some hh) (some n) ks, _ => simp [ritemXml, Path.withHostD]
  have := iret_of_items C d host op (l.map RItem.opPath)
    (fun r => match r with
      | .opPath p => CItem.tagged "OBJECTPATH".toList (.obj (.path (wdPath C.toCodec p)))
      | _ => CItem.other) "OBJECTPATH".toList (by
      intro r hr
      simp only [List.mem_map] at hr
      obtain ⟨p, hp, rfl⟩ := hr
      obtain ⟨hf, hsp, hcp⟩ := h p hp
      rw [key p hp]
      have hg := good_objectpath C hK p hcp
      exact ⟨rfl, rfl, hg.1, hg.2, decRetItem_opPath C S hC d p hf hsp⟩)
  rw [List.map_map] at this
  exact this

/-- **class-level association results** (Associators / References of a class): VALUE.OBJECTWITHPATH items of a
    class path with host and namespace and a class arrive as the pair (class path, class with that path), with
    the DSP0201 defaults -/
theorem C04_childrt_assoc_classes (C : DecCodec) (S : Spec) (hC : CodecOk C S) (hK : CodecClean C.toCodec)
    (d : Nat) (host op : Str) (l : List (Path × Cls))
    (h : ∀ x ∈ l, FullClsPath x.1 ∧ SendablePath S x.1 ∧ SendableCls S x.2 ∧ depthCls x.2 ≤ d ∧
      cleanPath x.1 = true ∧ cleanCls x.2 = true) :
    ChildRT C (embAt C d) host op
      (.iret (l.map (fun x => RItem.opCls x.1 x.2)))
      (.iret (l.map (fun x => CItem.tagged "VALUE.OBJECTWITHPATH".toList
        (.pair (wdPath C.toCodec x.1) (Cls.setPath (wdPath C.toCodec x.1) (wdCls C.toCodec x.2)))))) := by
  have key : ∀ x ∈ l, ritemXml C.toCodec host op (RItem.opCls x.1 x.2) =
      E "VALUE.OBJECTWITHPATH" [] [encPath C.toCodec x.1, encCls C.toCodec x.2] := by
    intro x hx
    obtain ⟨hf, _⟩ := h x hx
    obtain ⟨p, cl⟩ := x
    match p, hf with
    | .cls c' (some hh) (some n), _ => simp [ritemXml, Path.withHostD]
  have := iret_of_items C d host op (l.map (fun x => RItem.opCls x.1 x.2))
    (fun r => match r with
      | .opCls p cl => CItem.tagged "VALUE.OBJECTWITHPATH".toList
          (.pair (wdPath C.toCodec p) (Cls.setPath (wdPath C.toCodec p) (wdCls C.toCodec cl)))
      | _ => CItem.other) "VALUE.OBJECTWITHPATH".toList (by
      intro r hr
      simp only [List.mem_map] at hr
      obtain ⟨x, hx, rfl⟩ := hr
      obtain ⟨hf, hsp, hsc, hd, hcp, hcc⟩ := h x hx
      rw [key x hx]
      have hg := good_owp_cls C hK x.1 x.2 hcp hcc
      exact ⟨rfl, rfl, hg.1, hg.2, decRetItem_opCls C S hC d x.1 x.2 hf hsp hsc hd⟩)
  rw [List.map_map] at this
  exact this

/-- **query results** (ExecQuery): instances travel as VALUE.OBJECT and arrive as instances without path, with
    the DSP0201 defaults -/
theorem C04_childrt_query_instances (C : DecCodec) (S : Spec) (hC : CodecOk C S) (hK : CodecClean C.toCodec)
    (d : Nat) (host op : Str) (hform : instForm op = .valueObject) (l : List Inst)
    (h : ∀ i ∈ l, SendableInstBody S i ∧ depthInst i ≤ d ∧ cleanInstBody i = true) :
    ChildRT C (embAt C d) host op
      (.iret (l.map RItem.inst))
      (.iret (l.map (fun i => CItem.tagged "VALUE.OBJECT".toList (.obj (.inst (wdInstNoPath C.toCodec i)))))) := by
  have := iret_of_items C d host op (l.map RItem.inst)
    (fun r => match r with
      | .inst i => CItem.tagged "VALUE.OBJECT".toList (.obj (.inst (wdInstNoPath C.toCodec i)))
      | _ => CItem.other) "VALUE.OBJECT".toList (by
      intro r hr
      simp only [List.mem_map] at hr
      obtain ⟨i, hi, rfl⟩ := hr
      obtain ⟨hsi, hd, hci⟩ := h i hi
      have e : ritemXml C.toCodec host op (RItem.inst i) = E "VALUE.OBJECT" [] [encInstElem C.toCodec i] := by
        simp [ritemXml, hform]
      rw [e]
      have hg := good_valueobject C hK i hci
      exact ⟨rfl, rfl, hg.1, hg.2, decRetItem_valueObject C S hC d i hsi hd⟩)
  rw [List.map_map] at this
  exact this

section
variable (C : DecCodec) (S : Spec) (hC : CodecOk C S) (hK : CodecClean C.toCodec) (depth : Nat) (sig : List Row)
  (dflt host : Str) (Srv : Seen → Result) (row : Row) (c : Call)

include hC hK in
/-- **AssociatorNames / ReferenceNames of an instance, end to end**: whatever instance paths (with host and namespace)
    the server behaviour answers to the request it saw, the caller gets exactly those paths (DSP0201 defaults) -/
theorem C04_assoc_names_commutes (ns n : Str) (tp : Path) (rest : Params) (l : List Path)
    (hrow : row.post = .assocNames) (hret : row.hasReturn = true) (htp : Path.isInst tp = true)
    (hprep : prepare dflt row c = .ok (ns, (n, some (.obj (.path tp))) :: rest))
    (hop : StableAttr row.op.toList) (hns : StableAttr ns)
    (hps : ∀ q ∈ dropNone ((n, some (.obj (.path tp))) :: rest), CleanParam S depth sig row.op.toList q)
    (hS : Srv { op := row.op.toList, ns := ns,
                params := (dropNone ((n, some (.obj (.path tp))) :: rest)).map (seenOf C.toCodec) } =
          .ok [.iret (l.map RItem.opPath)])
    (h : ∀ p ∈ l, FullInstPath p ∧ SendablePath S p ∧ cleanPath p = true) :
    exchange C depth sig dflt host Srv row c =
      .ok (.list (l.map (fun p => CObj.obj (.path (wdPath C.toCodec p))))) := by
  rw [C04_commutes_iret C S hC hK depth sig dflt host Srv row c ns _ _ _ hprep hop hns hps hret hS
    (C04_childrt_assoc_names C S hC hK depth host row.op.toList l h)]
  simp only [clientPost, hrow, List.head?, htp, firstIret, pure, Except.pure, bind, Except.bind]
  rw [third_tagged "OBJECTPATH".toList (fun p => CObj.obj (.path (wdPath C.toCodec p))) l]
  show (if _ then _ else _) = _
  rw [if_pos]
  simp only [List.all_map, List.all_eq_true]
  intro p hp
  obtain ⟨hf, _⟩ := h p hp
  match p, hf with
  | .inst c' (some hh) (some n') ks, _ => rfl

include hC hK in
/-- **Associators / References of an instance, end to end**: the caller gets the instances the server behaviour
    answered, each with its path, with the DSP0201 defaults -/
theorem C04_assoc_instances_commutes (ns n : Str) (tp : Path) (rest : Params) (l : List (Path × Inst))
    (hrow : row.post = .assocObjects) (hret : row.hasReturn = true) (htp : Path.isInst tp = true)
    (hprep : prepare dflt row c = .ok (ns, (n, some (.obj (.path tp))) :: rest))
    (hop : StableAttr row.op.toList) (hns : StableAttr ns)
    (hps : ∀ q ∈ dropNone ((n, some (.obj (.path tp))) :: rest), CleanParam S depth sig row.op.toList q)
    (hS : Srv { op := row.op.toList, ns := ns,
                params := (dropNone ((n, some (.obj (.path tp))) :: rest)).map (seenOf C.toCodec) } =
          .ok [.iret (l.map (fun x => RItem.opInst (Inst.setPath x.1 x.2)))])
    (h : ∀ x ∈ l, FullInstPath x.1 ∧ SendablePath S x.1 ∧ SendableInstBody S x.2 ∧ depthInst x.2 ≤ depth ∧
      cleanPath x.1 = true ∧ cleanInstBody x.2 = true) :
    exchange C depth sig dflt host Srv row c =
      .ok (.list (l.map (fun x => CObj.obj (.inst (Inst.setPath (wdPath C.toCodec x.1) (wdInstNoPath C.toCodec x.2)))))) := by
  rw [C04_commutes_iret C S hC hK depth sig dflt host Srv row c ns _ _ _ hprep hop hns hps hret hS
    (C04_childrt_assoc_clean_instances C S hC hK depth host row.op.toList l h)]
  simp only [clientPost, hrow, List.head?, htp, firstIret, pure, Except.pure, bind, Except.bind]
  rw [third_tagged "VALUE.OBJECTWITHPATH".toList
    (fun x : Path × Inst => CObj.obj (.inst (Inst.setPath (wdPath C.toCodec x.1) (wdInstNoPath C.toCodec x.2)))) l]
  simp only [↓reduceIte]
  show (if _ then _ else _) = _
  rw [if_pos]
  simp only [List.all_map, List.all_eq_true]
  intro x _
  obtain ⟨p, cl, pp, pr, q⟩ := x
  rfl

include hC hK in
/-- **Associators / References of a class, end to end**: the caller gets the (class path, class) pairs the server
    behaviour answered, each class carrying its path, with the DSP0201 defaults -/
theorem C04_assoc_classes_commutes (ns n : Str) (tp : Path) (rest : Params) (l : List (Path × Cls))
    (hrow : row.post = .assocObjects) (hret : row.hasReturn = true) (htp : Path.isInst tp = false)
    (hprep : prepare dflt row c = .ok (ns, (n, some (.obj (.path tp))) :: rest))
    (hop : StableAttr row.op.toList) (hns : StableAttr ns)
    (hps : ∀ q ∈ dropNone ((n, some (.obj (.path tp))) :: rest), CleanParam S depth sig row.op.toList q)
    (hS : Srv { op := row.op.toList, ns := ns,
                params := (dropNone ((n, some (.obj (.path tp))) :: rest)).map (seenOf C.toCodec) } =
          .ok [.iret (l.map (fun x => RItem.opCls x.1 x.2))])
    (h : ∀ x ∈ l, FullClsPath x.1 ∧ SendablePath S x.1 ∧ SendableCls S x.2 ∧ depthCls x.2 ≤ depth ∧
      cleanPath x.1 = true ∧ cleanCls x.2 = true) :
    exchange C depth sig dflt host Srv row c =
      .ok (.list (l.map (fun x => CObj.pair (wdPath C.toCodec x.1)
        (Cls.setPath (wdPath C.toCodec x.1) (wdCls C.toCodec x.2))))) := by
  rw [C04_commutes_iret C S hC hK depth sig dflt host Srv row c ns _ _ _ hprep hop hns hps hret hS
    (C04_childrt_assoc_classes C S hC hK depth host row.op.toList l h)]
  simp only [clientPost, hrow, List.head?, htp, firstIret, pure, Except.pure, bind, Except.bind]
  rw [third_tagged "VALUE.OBJECTWITHPATH".toList
    (fun x : Path × Cls => CObj.pair (wdPath C.toCodec x.1) (Cls.setPath (wdPath C.toCodec x.1) (wdCls C.toCodec x.2))) l]
  simp only [Bool.false_eq_true, if_false]
  apply classLevel_pairs
  intro x hx
  obtain ⟨hf, _⟩ := h x hx
  obtain ⟨p, cl⟩ := x
  match p, hf with
  | .cls c' (some hh) (some n'), _ => exact ⟨_, _, _, _, rfl⟩

include hC hK in
/-- **ExecQuery end to end**: the instances the server behaviour answered (sent as VALUE.OBJECT) arrive with the
    DSP0201 defaults and the path `_cim_operations.ExecQuery` creates for them: class name + effective namespace -/
theorem C04_execquery_commutes (ns : Str) (ps : Params) (l : List Inst)
    (hrow : row.post = .execQuery) (hret : row.hasReturn = true) (hform : instForm row.op.toList = .valueObject)
    (hprep : prepare dflt row c = .ok (ns, ps))
    (hop : StableAttr row.op.toList) (hns : StableAttr ns)
    (hps : ∀ q ∈ dropNone ps, CleanParam S depth sig row.op.toList q)
    (hS : Srv { op := row.op.toList, ns := ns, params := (dropNone ps).map (seenOf C.toCodec) } =
          .ok [.iret (l.map RItem.inst)])
    (h : ∀ i ∈ l, SendableInstBody S i ∧ depthInst i ≤ depth ∧ cleanInstBody i = true) :
    exchange C depth sig dflt host Srv row c =
      .ok (.list (l.map (fun i => queryInst ns (wdInstNoPath C.toCodec i)))) := by
  rw [C04_commutes_iret C S hC hK depth sig dflt host Srv row c ns _ _ _ hprep hop hns hps hret hS
    (C04_childrt_query_instances C S hC hK depth host row.op.toList hform l h)]
  simp only [clientPost, hrow, firstIret, pure, Except.pure, bind, Except.bind]
  rw [third_tagged "VALUE.OBJECT".toList (fun i : Inst => CObj.obj (.inst (wdInstNoPath C.toCodec i))) l]
  simp only [mapM_fixQuery]

end

/-- non-vacuity of `WireOk` / `C04_objrt_from_C01` / `ParamOk.obj`: an instance name with a string key, for the toy
    codec that satisfies `CodecOk` (Proofs/Lemmas/CimXml10.lean) -/
def exampleName : Obj := .path (.inst "CIM_Foo".toList none none [.mk (some "Name".toList) (.str "a&b <c>".toList)])

example : WireOk toyCodec toySpec 0 exampleName := by
  refine ⟨?_, by decide, by decide, by decide⟩
  simp [exampleName, Sendable, SendablePath, SendableKeys, SendableKey, AtomOk, NoDupKeyNames, Key.name, NsOk]

example : IsParamObj exampleName := trivial

/-- non-vacuity of the clean route: cleanliness is decided on the object, `WireOk` follows -/
example : WireOk toyCodec toySpec 0 exampleName :=
  C04_wireok_of_clean toyCodec toySpec toyCodecClean 0 exampleName
    (by simp [exampleName, Sendable, SendablePath, SendableKeys, SendableKey, AtomOk, NoDupKeyNames, Key.name, NsOk])
    (by decide) (by decide)

/-- non-vacuity of `C04_childrt_assoc_names` / `C04_childrt_assoc_classes` / `C04_childrt_query_instances` -/
def exampleFullPath : Path :=
  .inst "CIM_Foo".toList (some "srv".toList) (some "root/cimv2".toList) [.mk (some "Name".toList) (.str "a&b <c>".toList)]

example : ChildRT toyCodec (embAt toyCodec 0) "srv".toList "AssociatorNames".toList
    (.iret [RItem.opPath exampleFullPath])
    (.iret [CItem.tagged "OBJECTPATH".toList (.obj (.path (wdPath toyCodec.toCodec exampleFullPath)))]) :=
  C04_childrt_assoc_names _ toySpec toyCodecOk toyCodecClean 0 _ _ [exampleFullPath] (by
    intro p hp
    simp only [List.mem_singleton] at hp
    subst hp
    refine ⟨trivial, ?_, by decide⟩
    simp [exampleFullPath, SendablePath, SendableKeys, SendableKey, AtomOk, NoDupKeyNames, Key.name, NsOk]
    decide)

/-- an instance whose string property is EMPTY (its `<VALUE></VALUE>` arrives without a text node) is covered -/
def exampleEmptyString : Obj :=
  .inst (.mk "CIM_Foo".toList none
    [.mk "Caption".toList "string".toList (.scalar (.str [])) false none none none none none []] [])

theorem C04_example_empty_string_encoding : encObj toyCodec.toCodec exampleEmptyString =
    .elem "INSTANCE".toList [("CLASSNAME".toList, "CIM_Foo".toList)]
      [.elem "PROPERTY".toList [("NAME".toList, "Caption".toList), ("TYPE".toList, "string".toList)]
        [.elem "VALUE".toList [] [.text []]]] := by
  simp [exampleEmptyString, encObj, encInst, encQuals, encProps, encProp, encVal, valueElem, atomText, E, optAttr,
    optBoolAttr]

example : WireOk toyCodec toySpec 0 exampleEmptyString ∧ IsParamObj exampleEmptyString ∧
    ¬ Pywbem.Model.XmlParse.StableTree (encObj toyCodec.toCodec exampleEmptyString) := by
  refine ⟨⟨?_, by decide, ?_, ?_⟩, trivial, ?_⟩
  · simp [exampleEmptyString, Sendable, SendableInst, SendableInstBody, SendablePropList, SendableProp, SendablePropVal,
      SendableQuals, PlainAtom, AtomOk, typeName, NoDupNames, Prop_.name]
    decide
  · rw [C04_example_empty_string_encoding]; decide
  · rw [C04_example_empty_string_encoding]; decide
  · rw [C04_example_empty_string_encoding]; decide

example : ∃ t, wireTree (encObj toyCodec.toCodec exampleName) = some t ∧
    decode toyCodec 0 t = .ok (wdObj toyCodec.toCodec exampleName) :=
  (C04_objrt_from_C01 toyCodec toySpec toyCodecOk 0).roundtrip exampleName (by
    refine ⟨?_, by decide, by decide, by decide⟩
    simp [exampleName, Sendable, SendablePath, SendableKeys, SendableKey, AtomOk, NoDupKeyNames, Key.name, NsOk])

/-! ### the tree-level wire is the parser applied to the bytes (XmlSyntax discharged) -/

/-- the two `wireTree` steps of `exchange` are not a modelling hypothesis any more: for a request / response
    document whose names are XML Names and whose characters are XML Chars (`WfTree`), the concrete parser model
    `par` (expat + pywbem's SAX handler, Pywbem/Model/XmlParse.lean) applied to the bytes pywbem sends — the XML
    declaration followed by `toxml()` — returns exactly `wireTree` of the document -/
theorem C04_wire_is_parser_on_bytes (C : Codec) (op ns host msgid : Str) (ps : Params) (res : Result)
    (hq : WfTree (requestXml C op ns ps)) (hr : WfTree (responseXml C host op msgid res)) :
    par ("<?xml version=\"1.0\" encoding=\"utf-8\" ?>\n".toList ++ Xml.ser (requestXml C op ns ps)) =
      wireTree (requestXml C op ns ps) ∧
    par ("<?xml version=\"1.0\" encoding=\"utf-8\" ?>\n".toList ++ Xml.ser (responseXml C host op msgid res)) =
      wireTree (responseXml C host op msgid res) := by
  have e1 : (requestXml C op ns ps).isElem = true := rfl
  have e2 : (responseXml C host op msgid res).isElem = true := by cases res <;> rfl
  exact ⟨(XmlSyntax.XmlSyntax_decl _ hq e1).trans (XmlSyntax.XmlSyntax_par_ser _ hq e1),
         (XmlSyntax.XmlSyntax_decl _ hr e2).trans (XmlSyntax.XmlSyntax_par_ser _ hr e2)⟩

/-- non-vacuity: a small request document is well-formed -/
example : WfTree (requestXml toyCodec.toCodec "GetClass".toList "root".toList [("LocalOnly".toList, some (.bool false))]) := by
  decide

/-! ### InvokeMethod: the request (Model/OpsMeth.lean) -/

open Pywbem.Model.OpsMeth in
/-- an array parameter always yields exactly one value element, whatever items it holds; a NULL item is
    written as VALUE.NULL (this is the repaired defect C04-F1: the code raised AttributeError here) -/
theorem C04_method_array_null_items (C : Codec) (l : List Atom) :
    (paramValueXml C (.array l)).length = 1 ∧ paramItemXml C .null = E "VALUE.NULL" [] [] := by
  constructor
  · cases l with
    | nil => rfl
    | cons a rest => simp [paramValueXml]; split <;> rfl
  · rfl

open Pywbem.Model.OpsMeth in
/-- the target of a method call carries the connection default namespace when the caller gave none, the
    caller's namespace otherwise, and never a host -/
theorem C04_method_target_namespace (dflt : Str) (c : Str) (h : Option Str) (ks : List Key) :
    localObject dflt (.path (.inst c h none ks)) = .ok (.inst c none (some dflt) ks) ∧
    (∀ ns, localObject dflt (.path (.inst c h (some ns) ks)) = .ok (.inst c none (some ns) ks)) ∧
    localObject dflt (.str c) = .ok (.cls c none (some dflt)) ∧
    (∀ ns, localObject dflt (.path (.cls c h (some ns))) = .ok (.cls c none (some ns))) :=
  ⟨rfl, fun _ => rfl, rfl, fun _ => rfl⟩

/-! ### non-vacuity -/

example : StableAttr "EnumerateClassNames".toList ∧ StableAttr "root/cimv2".toList ∧ StableText " a&b<c> \n".toList := by
  refine ⟨⟨?_, ?_⟩, ⟨?_, ?_⟩, ⟨?_, ?_⟩⟩ <;> decide

/-- a concrete request through `C04_server_sees_scalars_partial`: one parameter of every scalar kind -/
example (C : DecCodec) : ∃ t, wireTree (requestXml C.toCodec "EnumerateInstances".toList "root/a".toList
      [("ClassName".toList, some (.obj (.path (.cls "C".toList none none)))), ("LocalOnly".toList, none),
       ("DeepInheritance".toList, some (.bool false)), ("PropertyList".toList, some (.strs [some "p".toList, none]))]) = some t ∧
    serverSees C 1 rows t = .ok ("1001".toList, Seen.mk "EnumerateInstances".toList "root/a".toList
      [("ClassName".toList, .obj (.path (.cls "C".toList none none))),
       ("DeepInheritance".toList, .bool false), ("PropertyList".toList, .strs [some "p".toList, none])]) := by
  apply C04_server_sees_scalars_partial C 1 rows
  · constructor <;> decide
  · constructor <;> decide
  · intro p hp
    simp [dropNone] at hp
    rcases hp with rfl | rfl | rfl
    · exact .classname _ _ (by constructor <;> decide) (by constructor <;> decide)
    · exact .bool _ _ (by constructor <;> decide) (by decide)
    · exact .strs _ _ (by constructor <;> decide) (by
        intro s hs; simp at hs; subst hs; constructor <;> decide)

/-- the EnumerateClassNames row of the extracted table (used by the examples below) -/
def ecnRow : Row :=
  { op := "EnumerateClassNames", pyName := "EnumerateClassNames", nsRule := .nsOrClass "ClassName",
    params := [⟨"ClassName", .cls, false⟩, ⟨"DeepInheritance", .bool, false⟩],
    hasReturn := true, hasOut := false, post := .classNames, clears := [] }

example : ecnRow ∈ rows := by decide

def ecnCall : Call := { args := [("ClassName".toList, .str "C".toList), ("DeepInheritance".toList, .bool true)] }

example : prepare "root/a".toList ecnRow ecnCall =
    .ok ("root/a".toList, [("ClassName".toList, some (.obj (.path (.cls "C".toList none none)))),
                            ("DeepInheritance".toList, some (.bool true))]) := by
  rfl

/-- non-vacuity of `C04_commutes_classnames`: EnumerateClassNames(ClassName='C', DeepInheritance=True) on a
    connection with default namespace root/a, against any server that answers with two class paths -/
example (C : DecCodec) (S : Seen → Result)
    (hS : S { op := "EnumerateClassNames".toList, ns := "root/a".toList,
              params := [("ClassName".toList, .obj (.path (.cls "C".toList none none))),
                         ("DeepInheritance".toList, .bool true)] } =
          .ok [.iret (classPaths [("C_Sub".toList, some "h".toList, some "root/a".toList), ("D".toList, none, none)])]) :
    exchange C 1 rows "root/a".toList "srv".toList S ecnRow ecnCall = .ok (.names ["C_Sub".toList, "D".toList]) := by
  have h := C04_commutes_classnames C 1 rows "root/a".toList "srv".toList S ecnRow ecnCall "root/a".toList
    [("ClassName".toList, some (.obj (.path (.cls "C".toList none none)))), ("DeepInheritance".toList, some (.bool true))]
    [("ClassName".toList, .obj (.path (.cls "C".toList none none))), ("DeepInheritance".toList, .bool true)]
    [("C_Sub".toList, some "h".toList, some "root/a".toList), ("D".toList, none, none)]
    rfl (by constructor <;> decide) (by constructor <;> decide)
    (.cons (ParamRT.classname C _ _ (by constructor <;> decide) (by constructor <;> decide))
      (.cons (by
        have : kindOf rows ecnRow.op.toList "DeepInheritance".toList = some .bool := by decide
        rw [this]; exact ParamRT.bool C _ true (by constructor <;> decide)) .nil))
    rfl rfl hS
    (by intro x hx; simp at hx; rcases hx with rfl | rfl <;> (constructor <;> decide))
  simpa using h

end C04
