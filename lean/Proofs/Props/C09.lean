import Pywbem.Model.MofCompile

namespace C09
open Pywbem.Proto Pywbem.Generated Pywbem.Model.MofCompile

/-- the order of the token rules in PLY's master regular expression is the one the model's `lexAt` follows -/
theorem C09_lexer_rule_order_pinned :
    mofTokenRules.map (·.1) = ["COMMENT", "MCOMMENT", "floatValue", "hexValue", "binaryValue", "octalValue",
      "decimalValue", "charValue", "stringValue", "IDENTIFIER", "newline"] := by decide

end C09
