/-
C09 — "The MOF compiler is total: it succeeds or raises MOFCompileError" — property theorems over
Model/MofCompile.lean.

PARTIAL by nature: PLY's LALR engine (which token or production an error is reported for, error recovery) and the
CIM object constructors called by the semantic actions are not in the model; for them only the correspondence
run K and the oracle speak.  What is proved here, for ALL inputs / scripts / histories:
  * the lexer is a total function whose tokens tile the text, with an exact line counter;
  * an error reported at a token lies inside the text (line and column);
  * `#pragma namespace` / `#pragma include` handling raises nothing but MOFParseError / OSError / what the nested
    compile raises;
  * the repository-error translation of the semantic actions, as decision procedures over scripted answers, is total
    where the code translates, with the exact leak conditions as `_partial` theorems + negation witnesses;
  * the value-typing wrapper `_cim_object` and the embedded-value branch of p_instanceDeclaration turn whatever the CIM
    object constructors reject into MOFParseError (constructor behaviour is a hypothesis, exercised by K);
  * the per-compiler state after any history of failed compiles gives a new compile the state a fresh compiler gives.
-/
import Proofs.Lemmas.MofCompile
import Proofs.Lemmas.MofParse

namespace C09
open Pywbem.Proto Pywbem.Generated Pywbem.Model.MofCompile Pywbem.Model.MofParse
open Pywbem.Model.MofLex (Str isDigit)

deriving instance DecidableEq for Except

/-! ## tables extracted from the source are the ones the model was written against -/

/-- the `t_*` rules in source order (= alternation order of PLY's master regex) with their regular expressions are
    exactly those `lexAt` implements; a changed rule or rule order breaks this obligation -/
theorem C09_lexer_rules_pinned : mofTokenRules = [
    ("COMMENT", "//.*"),
    ("MCOMMENT", "/\\*(.|\\n)*?\\*/"),
    ("floatValue", "[+-]?[0-9]*\\.[0-9]+([eE][+-]?[0-9]+)?"),
    ("hexValue", "[+-]?0[xX][0-9a-fA-F]+"),
    ("binaryValue", "[+-]?[0-9]+[bB]"),
    ("octalValue", "[+-]?0[0-9]+"),
    ("decimalValue", "[+-]?([1-9][0-9]*|0)"),
    ("charValue", "'([^'\\\\\\n\\r]|([\\\\](([bfnrt'\"\\\\])|([xX][0-9a-fA-F]{1,4}))))'"),
    ("stringValue", "\"([^\"\\\\\\n\\r]|([\\\\](([bfnrt'\"\\\\])|([xX][0-9a-fA-F]{1,4}))))*\""),
    ("IDENTIFIER", "([a-zA-Z_]|(([\\xC2-\\xDF][\\x80-\\xBF])|(\\xE0[\\xA0-\\xBF][\\x80-\\xBF])|([\\xE1-\\xEC][\\x80-\\xBF][\\x80-\\xBF])|(\\xED[\\x80-\\x9F][\\x80-\\xBF])|([\\xEE-\\xEF][\\x80-\\xBF][\\x80-\\xBF])|(\\xF0[\\x90-\\xBF][\\x80-\\xBF][\\x80-\\xBF])|([\\xF1-\\xF3][\\x80-\\xBF][\\x80-\\xBF][\\x80-\\xBF])|(\\xF4[\\x80-\\x8F][\\x80-\\xBF][\\x80-\\xBF])))([0-9a-zA-Z_]|(([\\xC2-\\xDF][\\x80-\\xBF])|(\\xE0[\\xA0-\\xBF][\\x80-\\xBF])|([\\xE1-\\xEC][\\x80-\\xBF][\\x80-\\xBF])|(\\xED[\\x80-\\x9F][\\x80-\\xBF])|([\\xEE-\\xEF][\\x80-\\xBF][\\x80-\\xBF])|(\\xF0[\\x90-\\xBF][\\x80-\\xBF][\\x80-\\xBF])|([\\xF1-\\xF3][\\x80-\\xBF][\\x80-\\xBF][\\x80-\\xBF])|(\\xF4[\\x80-\\x8F][\\x80-\\xBF][\\x80-\\xBF])))*"),
    ("newline", "\\n+")] := by rfl

/-- `literals`, `t_ignore` and the size of `reserved`; no keyword is a non-ASCII or upper-case string -/
theorem C09_lexer_tables_pinned :
    mofLiterals = "#(){};[],$:=".toList.map Char.toNat ∧ mofIgnore = [32, 13, 9] ∧ mofReserved.length = 40 ∧
    mofReserved.all (fun kv => kv.1.all (fun c => inR 97 122 c || isDigit c)) = true := by decide

/-- the status codes each semantic action tests, and their values -/
theorem C09_status_codes_pinned :
    mofActionStatusCodes = [
      ("p_mp_createClass", ["CIM_ERR_INVALID_NAMESPACE", "CIM_ERR_INVALID_SUPERCLASS", "CIM_ERR_INVALID_PARAMETER",
                            "CIM_ERR_NOT_FOUND", "CIM_ERR_FAILED", "CIM_ERR_ALREADY_EXISTS"]),
      ("p_mp_createInstance", ["CIM_ERR_ALREADY_EXISTS"]),
      ("p_mp_setQualifier", ["CIM_ERR_INVALID_NAMESPACE", "CIM_ERR_NOT_SUPPORTED"]),
      ("p_qualifier", ["CIM_ERR_INVALID_NAMESPACE"]),
      ("p_instanceDeclaration", ["CIM_ERR_NOT_FOUND"])] ∧
    mofCimErr_failed = 1 ∧ mofCimErr_invalid_namespace = 3 ∧ mofCimErr_invalid_parameter = 4 ∧
    mofCimErr_not_found = 6 ∧ mofCimErr_not_supported = 7 ∧ mofCimErr_invalid_superclass = 10 ∧
    mofCimErr_already_exists = 11 := by decide

/-! ## the lexer -/

/-- lexer_total: for EVERY text the lexer returns a token stream (it is a total function) whose tokens are
    non-empty, lie inside the text and do not overlap (positions strictly increase), and the loop ended by itself:
    any larger amount of fuel gives the same stream.  (An exception out of token() is the last token,
    `raiseValueError`: see `C09_lexer_no_leak_partial`.) -/
theorem C09_lexer_total (src : Str) :
    (∀ t ∈ lexAll src, 1 ≤ t.len ∧ t.pos + t.len ≤ src.length) ∧
    (lexAll src).Pairwise (fun a b => a.pos + a.len ≤ b.pos) ∧
    (∀ fuel, src.length < fuel → lexLoop fuel 0 1 src = lexAll src) := by
  refine ⟨?_, lexLoop_sorted _ _ _ _, ?_⟩
  · intro t ht
    have := lexLoop_inv _ _ _ _ t ht
    exact ⟨this.2.2.1, by omega⟩
  · intro fuel h
    exact lexLoop_fuel fuel (src.length + 1) 0 1 src h (by omega)

/-- the line counter the lexer holds when it returns a token is exactly the line the token starts on
    (1 + number of newlines before it); in particular 1 ≤ line ≤ number of lines of the text.
    Holds because `\n+` and `/* */` add their newlines and no other token contains one (after the fix of
    t_MCOMMENT, which added to the discarded token instead of the lexer). -/
theorem C09_lexer_line_exact (src : Str) (t : Tok) (ht : t ∈ lexAll src) :
    t.line = 1 + countNl (src.take t.pos) ∧ 1 ≤ t.line ∧ t.line ≤ numLines src := by
  have := (lexLoop_inv _ _ _ _ t ht).2.2.2
  simp only [Nat.sub_zero] at this
  refine ⟨this, by omega, ?_⟩
  rw [this]
  have : countNl (src.take t.pos) ≤ countNl src := (List.take_sublist _ _).count_le _
  unfold numLines; omega

/-- (line, col) identifies a position inside `src`: some offset `k` of the text lies on line `line` and has at least
    `col` characters of that same line in front of it -/
def InsideAt (src : Str) (line col : Nat) : Prop :=
  ∃ k, k ≤ src.length ∧ line = 1 + countNl (src.take k) ∧ col ≤ k ∧ countNl ((src.take k).drop (k - col)) = 0

/-- error_position_in_bounds: the position reported for an error at any token the lexer returns
    (`lexer.lineno`, `_find_column`) is a position inside the text, on the line of that token -/
theorem C09_error_position_in_bounds (src : Str) (t : Tok) (ht : t ∈ lexAll src) :
    InsideAt src (tokenErrorPos src t).1 (tokenErrorPos src t).2 := by
  have h1 := (C09_lexer_total src).1 t ht
  refine ⟨t.pos, by omega, (C09_lexer_line_exact src t ht).1, findColumn_le src t.pos, findColumn_sameLine src t.pos⟩

/-- the witness form `InsideAt` implies the line-text form: the line number is one of the text's lines and the
    column does not exceed the length of that line -/
theorem C09_insideAt_sound (src : Str) (line col : Nat) (h : InsideAt src line col) :
    posInside src (line, col) = true := by
  obtain ⟨k, hk, hl, hc, h0⟩ := h
  have hcnt : countNl (src.take k) ≤ countNl src := (List.take_sublist _ _).count_le _
  have := insideAt_lineText src k col hk hc h0
  subst hl
  have h1 : 1 ≤ 1 + countNl (src.take k) := by omega
  have h2 : 1 + countNl (src.take k) ≤ numLines src := by unfold numLines; omega
  simp [posInside, h1, h2, this]

/-- error_position_in_bounds in the form of the property text: for every token the lexer returns,
    1 ≤ line ≤ lines(src) and column ≤ len(that line) -/
theorem C09_error_position_in_text (src : Str) (t : Tok) (ht : t ∈ lexAll src) :
    1 ≤ t.line ∧ t.line ≤ numLines src ∧ findColumn src t.pos ≤ (lineText src t.line).length := by
  have := C09_insideAt_sound src _ _ (C09_error_position_in_bounds src t ht)
  simp only [posInside, tokenErrorPos, Bool.and_eq_true] at this
  exact ⟨of_decide_eq_true this.1.1, of_decide_eq_true this.1.2, of_decide_eq_true this.2⟩

/-- for errors raised in semantic actions the line is the lexer's (look-ahead token `la`) and the column comes from the
    first token of the production: inside the text IF both are on the same line … -/
theorem C09_production_position_partial (src : Str) (firstpos : Nat) (la : Tok) (hf : firstpos ≤ src.length)
    (hsame : la.line = 1 + countNl (src.take firstpos)) :
    InsideAt src (productionErrorPos src firstpos la).1 (productionErrorPos src firstpos la).2 :=
  ⟨firstpos, hf, hsame, findColumn_le src firstpos, findColumn_sameLine src firstpos⟩

/-- … and not in general (known finding C09-F2): `      x` / `;` — production starting at `x`, look-ahead `;` on the
    next line gives line 2, column 5, but line 2 has one character -/
theorem C09_production_position_fails_at :
    ¬ ∀ (src : Str) (firstpos : Nat) (la : Tok), la ∈ lexAll src → firstpos ≤ la.pos →
        posInside src (productionErrorPos src firstpos la) = true := by
  intro h
  have := h [32, 32, 32, 32, 32, 32, 120, 10, 59] 6 ⟨.literal, 8, 1, 2⟩ (by decide) (by decide)
  revert this; decide

/-- literal_no_leak (partial): the only exception that can leave the lexer is the ValueError of `int()` for a decimal
    literal with more than 4300 digits (known finding C09-F1); a text whose decimal literals are shorter is lexed
    without exception … -/
theorem C09_lexer_no_leak_partial (s : Str)
    (h : ∀ n, matchDecimal s = some n → n - signLen s ≤ maxStrDigits) : (lexAt s).1 ≠ .raiseValueError := by
  unfold lexAt
  split
  · intro e; cases e
  split
  · intro e; cases e
  split
  · intro e; cases e
  split
  · intro e; cases e
  split
  · split <;> (intro e; cases e)
  split
  · split <;> (intro e; cases e)
  split
  · next n hd =>
    have := h n hd
    split
    · omega
    · intro e; cases e
  split
  · intro e; cases e
  split
  · intro e; cases e
  split
  · intro e; cases e
  split
  · intro e; cases e
  split
  · split <;> (intro e; cases e)
  · intro e; cases e

/-- … and one with 4301 nines is not -/
theorem C09_lexer_no_leak_fails_at : ¬ ∀ (s : Str), (lexAt s).1 ≠ .raiseValueError := by
  intro h
  exact h (List.replicate 4301 57) (by decide +kernel)

/-! ## the LALR(1) parse (tables re-extracted from the grammar through ply.yacc on every run) -/

/-- the extracted action/goto/production tables of the MOF grammar are well-formed (kernel-evaluated over all 320
    states): predecessor lists complete, no transition into state 0, `$end` never shifted, accept only on `$end`, and
    for EVERY state and production it can reduce by: the stack is deep enough, the goto on the left-hand side is
    defined from every state the reduction can uncover ("no stuck state"), and it leads to a state of smaller rank
    (no cycle of reductions, in particular no ε-cycle) -/
theorem C09_parser_tables_wellformed : mofTable.wf = true := by decide +kernel

/-- the defaulted states (reduce without asking the lexer for a look-ahead) the model computes are the ones PLY
    computed -/
theorem C09_parser_defaulted_pinned :
    mofDefaultedStates = (List.range mofTable.actionRows.size).filterMap
      (fun s => (mofTable.defaulted s).map (fun v => (s, v))) := by decide +kernel

/-- generic LR driver (mirror of ply.yacc.LRParser.parseopt_notrack with an error callback that raises): for EVERY
    well-formed table and EVERY token list the parse either accepts after consuming all tokens or reports an error at a
    definite token j — the first token that cannot be shifted: all tokens before it were shifted, and the state reached
    (after the reductions the look-ahead allowed) has no action for it.  No other outcome: no KeyError/IndexError inside
    the engine ("stuck"), no non-termination. -/
theorem C09_lr_driver_total (t : LRTable) (hwf : t.wf = true) (tokens : List Nat) (hne : ∀ x ∈ tokens, x ≠ endTok) :
    lrParse t tokens = .accept tokens.length ∨
    ∃ j s, j ≤ tokens.length ∧ lrParse t tokens = .errorAt j s ∧ t.decide s ((tokens.drop j).headD endTok) = none := by
  have h := lrParse_total t hwf tokens hne
  generalize lrParse t tokens = r at h
  cases h with
  | accept => left; simp
  | error j s hj hd => right; exact ⟨j, s, hj, by simp, hd⟩

/-- parser_total: the same for the MOF grammar's tables, unconditionally -/
theorem C09_parser_total (tokens : List Nat) (hne : ∀ x ∈ tokens, x ≠ endTok) :
    lrParse mofTable tokens = .accept tokens.length ∨
    ∃ j s, j ≤ tokens.length ∧ lrParse mofTable tokens = .errorAt j s ∧
      mofTable.decide s ((tokens.drop j).headD endTok) = none :=
  C09_lr_driver_total mofTable C09_parser_tables_wellformed tokens hne

/-- viable-prefix property: whether the parse reports its error at token `x` (index |ts1|), and in which state, is
    decided by the tokens up to and including `x` alone — the parse of `ts1 ++ x :: rest` errs there iff the parse of
    `ts1 ++ [x]` does, for every continuation `rest`.  (The run of the driver up to a token is a function of the tokens
    up to it: `lrRun_append`.)  Generic in the table. -/
theorem C09_lr_error_prefix_determined (t : LRTable) (hwf : t.wf = true) (ts1 : List Nat) (x : Nat) (rest : List Nat)
    (hne : ∀ y ∈ ts1 ++ x :: rest, y ≠ endTok) (s : Nat) :
    lrParse t (ts1 ++ x :: rest) = .errorAt ts1.length s ↔ lrParse t (ts1 ++ [x]) = .errorAt ts1.length s :=
  lrParse_error_prefix t hwf ts1 x rest hne s

/-- the same for the MOF grammar, unconditionally -/
theorem C09_parser_error_prefix_determined (ts1 : List Nat) (x : Nat) (rest : List Nat)
    (hne : ∀ y ∈ ts1 ++ x :: rest, y ≠ endTok) (s : Nat) :
    lrParse mofTable (ts1 ++ x :: rest) = .errorAt ts1.length s ↔
      lrParse mofTable (ts1 ++ [x]) = .errorAt ts1.length s :=
  lrParse_error_prefix mofTable C09_parser_tables_wellformed ts1 x rest hne s

/-- reductions terminate: the parse loop ends by itself within (n+1)·(maxRank+1)+1 iterations — any larger amount of
    fuel gives the same outcome -/
theorem C09_parser_terminates (tokens : List Nat) (hne : ∀ x ∈ tokens, x ≠ endTok) (fuel : Nat)
    (h : mofTable.fuelFor tokens.length ≤ fuel) : lrRun mofTable fuel [0] tokens 0 = lrParse mofTable tokens := by
  have ht := lrParse_total mofTable C09_parser_tables_wellformed tokens hne
  exact lrRun_mono' mofTable _ [0] tokens 0 ht.ne_fault.1 fuel h

/-- the whole syntax analysis (lexer + LALR parse) of EVERY text ends in one of: accepted, MOFParseError at a token,
    MOFParseError at the end of the text, or the lexer's ValueError (C09-F1) — the parse engine never faults -/
theorem C09_parse_text_total (src : Str) : parseText src ≠ .engineFault := by
  unfold parseText
  simp only []
  have ht := lrParse_total mofTable C09_parser_tables_wellformed
    ((parserTokens (lexAll src)).map (fun t => terminalId (tokenType src t))) (tokenIds_ne_end src _)
  unfold lrParse at ht
  simp only [List.length_map] at ht
  generalize lrRun mofTable _ [0] _ 0 = r at ht
  cases ht with
  | accept => simp only []; split <;> (intro e; cases e)
  | error j s hj hd =>
    simp only []
    split
    · intro e; cases e
    · split <;> (intro e; cases e)

/-- a syntax error reported at a token is reported at a token of the text, in a state that has no action for that
    token, and its position (lexer line, `_find_column`) lies inside the text — for EVERY text -/
theorem C09_parse_text_error_position (src : Str) (t : Tok) (s : Nat) (h : parseText src = .errorAtToken t s) :
    t ∈ lexAll src ∧ 1 ≤ t.line ∧ t.line ≤ numLines src ∧ findColumn src t.pos ≤ (lineText src t.line).length := by
  have hmem : t ∈ lexAll src := by
    unfold parseText at h
    simp only [] at h
    split at h
    · split at h <;> cases h
    · next k st _ =>
      split at h
      · next t' ht' =>
        injection h with h1 _; subst h1
        have hm : t' ∈ parserTokens (lexAll src) := List.mem_of_getElem? ht'
        exact (List.takeWhile_prefix _).subset hm
      · split at h <;> cases h
    · cases h
  exact ⟨hmem, C09_error_position_in_text src t hmem⟩

/-! ## compiler directives -/

/-- directive_no_leak (namespace): for every parameter text and every `\w` classification, `#pragma namespace` either
    raises MOFParseError or switches to a namespace that is a non-empty sequence of non-empty `\w`-segments separated
    by single slashes — never AttributeError -/
theorem C09_directive_no_leak (w : Nat → Bool) (param : Str) :
    pragmaNamespace w param = .error .mofParseError ∨
    ∃ ns, pragmaNamespace w param = .ok ns ∧ ns ≠ [] ∧ nsSegments w false ns = true :=
  pragmaNamespace_cases w param

/-- the defect the fix removed: before it `#pragma namespace ("1:")` raised AttributeError … -/
theorem C09_directive_unfixed_leaked :
    pragmaNamespaceUnfixed isIdChar [49, 58] = .error .attributeError := by decide

/-- … and the fix changed nothing else -/
theorem C09_directive_fix_conservative (w : Nat → Bool) (param : Str)
    (h : pragmaNamespaceUnfixed w param ≠ .error .attributeError) :
    pragmaNamespaceUnfixed w param = pragmaNamespace w param := by
  unfold pragmaNamespaceUnfixed at h ⊢
  split
  · next hm => simp [hm] at h
  · rfl

/-- directive_no_leak (whole action): if the nested compile of an included file raises only allowed exceptions, so does
    p_compilerDirective — for include, namespace and unknown pragmas, any file system -/
theorem C09_compilerDirective_no_leak (w : Nat → Bool) (env : FsEnv) (file : Option Str) (ns directive param : Str)
    (henv : ∀ f, noLeak (env.compile f) = true) :
    noLeak (compilerDirective w env file ns directive param) = true := by
  unfold compilerDirective
  split
  · have : noLeak (compileFile env (includePath file param)) = true := by
      unfold compileFile
      split
      · exact henv _
      · split
        · rfl
        · exact henv _
    split
    · rfl
    · next e he => rw [he] at this; simpa [noLeak] using this
  · split
    · rcases pragmaNamespace_cases w param with h | ⟨n, h, _⟩ <;> simp [h, noLeak, allowed]
    · rfl

/-! ## include / dependency structure of MOF files -/

/-- termination and no_leak for ANY file structure: `compileFileG` (compile_file with the nesting limit) is a total
    function, so every structure of files that include or depend on each other — cycles, files needing themselves,
    missing files, any fan-out — is compiled in finitely many steps; and if the individual statements raise only
    allowed exceptions, so does the whole nested compile (this discharges the hypothesis of
    `C09_compilerDirective_no_leak` about the nested compile: it raises OSError, MOFDependencyError, or what a
    statement raises) -/
theorem C09_include_structure_no_leak (fs : Files) (budget f : Nat)
    (hleaf : ∀ g stmts, fs g = some stmts → ∀ r, Stmt.leaf r ∈ stmts → noLeak r = true) :
    noLeak (compileFileG fs budget f) = true :=
  compileFileG_noLeak fs hleaf budget f

/-- the same for compile_string of a text with include statements -/
theorem C09_include_unit_no_leak (fs : Files) (limit : Nat) (stmts : List Stmt)
    (hleaf : ∀ g stmts, fs g = some stmts → ∀ r, Stmt.leaf r ∈ stmts → noLeak r = true)
    (hl : ∀ r, Stmt.leaf r ∈ stmts → noLeak r = true) : noLeak (compileUnitG fs limit stmts) = true :=
  compileStmts_noLeak _ (compileFileG_noLeak fs hleaf limit) stmts hl

/-- a file that includes itself: with the limit MOFDependencyError for every limit … -/
theorem C09_include_cycle_guarded (b : Nat) : compileFileG selfIncluding b 0 = .error .mofDependencyError :=
  selfIncluding_guarded b

/-- … without it (the code before the fix) no amount of fuel ends the recursion: RecursionError (was C09-F9) -/
theorem C09_include_cycle_unguarded_diverged (fuel : Nat) : compileFileU selfIncluding fuel 0 = none :=
  selfIncluding_unguarded fuel

/-- the limit changes nothing for structures that are nested less deep than the limit: whenever the compile without
    limit ends within `fuel` nesting levels and fuel ≤ limit, the compile with limit gives the same outcome -/
theorem C09_nesting_limit_conservative (fs : Files) (fuel budget f : Nat) (r : Except PyExc Unit)
    (h : compileFileU fs fuel f = some r) (hb : fuel ≤ budget) : compileFileG fs budget f = r :=
  guard_conservative fs fuel budget f r h hb

/-! ## translation of repository errors -/

/-- repo_error_translation_total: for EVERY status code `c` outside the codes an action repairs, the first rejected
    repository call of that action is translated into MOFRepositoryError -/
theorem C09_repo_error_translation_total (c : Nat) :
    (c ≠ 11 → ∀ gc p mi, mpCreateInstance (some c) gc p mi = .error .mofRepositoryError) ∧
    (c ≠ 3 → c ≠ 7 → ∀ sv ns dq sq2, mpSetQualifier (some c) sv ns dq sq2 = .error .mofRepositoryError) ∧
    (c ≠ 6 → ∀ mof gc2, instanceClassLookup (some c) mof gc2 = .error .mofRepositoryError) ∧
    (c ≠ 3 → ∀ sv ns qf fd, qualifierLookup false (some c) sv ns qf fd = .error .mofRepositoryError) ∧
    (c ≠ 3 → c ≠ 10 → c ≠ 4 → c ≠ 6 → c ≠ 1 → c ≠ 11 → ∀ (env : CcEnv) rest,
        mpCreateClass { env with createClass := some c :: rest } = .error .mofRepositoryError) := by
  refine ⟨?_, ?_, ?_, ?_, ?_⟩
  · intro h gc p mi; simp [mpCreateInstance, mofCimErr_already_exists, h]
  · intro h3 h7 sv ns dq sq2; simp [mpSetQualifier, mofCimErr_invalid_namespace, mofCimErr_not_supported, h3, h7]
  · intro h mof gc2; simp [instanceClassLookup, mofCimErr_not_found, h]
  · intro h sv ns qf fd; simp [qualifierLookup, mofCimErr_invalid_namespace, h]
  · intro h3 h10 h4 h6 h1 h11 env rest
    simp [mpCreateClass, ccLoop, nextAns, mofCimErr_invalid_namespace, mofCimErr_invalid_superclass,
      mofCimErr_invalid_parameter, mofCimErr_not_found, mofCimErr_failed, mofCimErr_already_exists,
      h3, h10, h4, h6, h1, h11]

/-- actions_no_leak (p_mp_createInstance): total — whatever the repository answers to CreateInstance, GetClass and
    ModifyInstance and whether or not the instance path can be built, the outcome is success or MOFRepositoryError -/
theorem C09_createInstance_no_leak (ci gc : Ans) (pathOk : Bool) (mi : Ans) :
    mpCreateInstance ci gc pathOk mi = .ok () ∨ mpCreateInstance ci gc pathOk mi = .error .mofRepositoryError := by
  unfold mpCreateInstance
  repeat' split
  all_goals simp

/-- actions_no_leak (p_mp_setQualifier), partial: no leak unless SetQualifier answers INVALID_NAMESPACE or
    NOT_SUPPORTED (then the repair calls are outside the try block: known findings C09-F6a/F7) … -/
theorem C09_setQualifier_no_leak_partial (sq1 : Ans) (sv : Bool) (ns : Option PyExc) (dq sq2 : Ans)
    (h : sq1 ≠ some 3 ∧ sq1 ≠ some 7) : noLeak (mpSetQualifier sq1 sv ns dq sq2) = true := by
  cases sq1 with
  | none => rfl
  | some c =>
    have h3 : c ≠ 3 := fun e => h.1 (by rw [e])
    have h7 : c ≠ 7 := fun e => h.2 (by rw [e])
    simp [mpSetQualifier, mofCimErr_invalid_namespace, mofCimErr_not_supported, h3, h7, noLeak, allowed]

/-- … and with them it leaks: NOT_SUPPORTED, then DeleteQualifier rejected with FAILED: raw CIMError;
    INVALID_NAMESPACE without a server object: AttributeError -/
theorem C09_setQualifier_fails_at :
    ¬ ∀ (sq1 : Ans) (sv : Bool) (ns : Option PyExc) (dq sq2 : Ans), noLeak (mpSetQualifier sq1 sv ns dq sq2) = true := by
  intro h
  have := h (some 7) false none (some 1) none
  revert this; decide

/-- actions_no_leak (p_mp_createClass), partial: for EVERY script of CreateClass answers that contains neither
    INVALID_NAMESPACE nor INVALID_SUPERCLASS, with the namespace registered in the qualifier cache and nested
    compiles that do not leak, the outcome is success or an allowed exception … -/
theorem C09_createClass_no_leak_partial (env : CcEnv) (hq : env.nsInQualcache = true)
    (hqf : noLeak env.qualFiles = true) (hd : noLeak env.depsOutcome = true)
    (hs : ∀ a ∈ env.createClass, a ≠ some 3 ∧ a ≠ some 10) : noLeak (mpCreateClass env) = true :=
  mpCreateClass_partial env hq hqf hd hs

/-- … INVALID_SUPERCLASS twice (the superclass file on the search path does not define the superclass) is an
    AssertionError (C09-F10), INVALID_NAMESPACE without server object an AttributeError (C09-F6a) -/
theorem C09_createClass_fails_at :
    ¬ ∀ (env : CcEnv), env.nsInQualcache = true → noLeak env.qualFiles = true → noLeak env.depsOutcome = true →
        noLeak (mpCreateClass env) = true := by
  intro h
  have := h { createClass := [some 10, some 10], hasServer := false, createNs := none, hasSuper := true,
              superMof := some (.ok ()), nsInQualcache := true, qualsKnown := true, qualFiles := .ok (),
              depsOutcome := .ok (), modifyClass := none } rfl rfl rfl
  revert this; decide

/-- the retry loop of p_mp_createClass terminates: at most one iteration per repair flag and one more -/
theorem C09_createClass_loop_terminates (env : CcEnv) (fuel : Nat) (h : 4 ≤ fuel) (s : List Ans) :
    ccLoop env fuel {} s = ccLoop env 4 {} s :=
  ccLoop_fuel env fuel 4 {} s (by simp [CcFlags.unfixed]; omega) (by simp [CcFlags.unfixed])

/-- actions_no_leak (p_instanceDeclaration class lookup), partial: no leak unless GetClass answers NOT_FOUND, a class
    file is found and compiled, and GetClass fails again (that call is outside the try block: C09-F7) -/
theorem C09_instanceClassLookup_no_leak_partial (gc1 : Ans) (mof : Option (Except PyExc Unit)) (gc2 : Ans)
    (hm : ∀ r, mof = some r → noLeak r = true) (h : gc2 = none) :
    noLeak (instanceClassLookup gc1 mof gc2) = true := by
  subst h
  cases gc1 with
  | none => rfl
  | some c =>
    by_cases hc : (c == mofCimErr_not_found) = true
    · cases mof with
      | none => simp [instanceClassLookup, hc, noLeak, allowed]
      | some r =>
        have := hm r rfl
        cases r with
        | error e => simpa [instanceClassLookup, hc, noLeak] using this
        | ok u => simp [instanceClassLookup, hc, noLeak]
    · simp [instanceClassLookup, hc, noLeak, allowed]

theorem C09_instanceClassLookup_fails_at :
    ¬ ∀ (gc1 : Ans) (gc2 : Ans), noLeak (instanceClassLookup gc1 (some (.ok ())) gc2) = true := by
  intro h
  have := h (some 6) (some 6)
  revert this; decide

/-- actions_no_leak (p_qualifier lookup), partial: no leak unless EnumerateQualifiers answers INVALID_NAMESPACE
    (create_namespace without server object / failing: C09-F6a/F6b) -/
theorem C09_qualifierLookup_no_leak_partial (inCache : Bool) (eq : Ans) (sv : Bool) (ns : Option PyExc)
    (qf : Except PyExc Unit) (found : Bool) (hq : noLeak qf = true) (h : eq ≠ some 3) :
    noLeak (qualifierLookup inCache eq sv ns qf found) = true := by
  unfold qualifierLookup
  cases inCache with
  | true => rfl
  | false =>
    cases eq with
    | none =>
      cases qf with
      | error e => simpa [noLeak] using hq
      | ok u => cases found <;> simp [noLeak, allowed]
    | some c =>
      have h3 : c ≠ 3 := fun e => h (by rw [e])
      simp [mofCimErr_invalid_namespace, h3, noLeak, allowed]

theorem C09_qualifierLookup_fails_at :
    ¬ ∀ (eq : Ans) (found : Bool), noLeak (qualifierLookup false eq false none (.ok ()) found) = true := by
  intro h
  have := h (some 3) true
  revert this; decide

/-! ## semantic actions that build CIM objects -/

/-- actions_no_leak (value typing): whatever value or value/type mismatch the CIM object constructors and cimvalue()
    reject with ValueError, TypeError or OverflowError — the only exceptions they raise for bad values — the
    semantic actions report MOFParseError; results pass unchanged.  (The constructors themselves are C06's domain:
    their exception classes are the hypothesis; K runs them.) -/
theorem C09_actions_value_no_leak {α} (r : Except PyExc α)
    (h : ∀ e, r = .error e → e = .valueError ∨ e = .typeError ∨ e = .overflowError) :
    (∃ v, r = .ok v ∧ cimObject r = .ok v) ∨ cimObject r = .error .mofParseError := by
  cases r with
  | ok v => exact Or.inl ⟨v, rfl, rfl⟩
  | error e =>
    rcases h e rfl with h | h | h <;> subst h <;> exact Or.inr rfl

/-- embedded instance values: for every kind of value and every outcome of the nested compile that is allowed or one
    of the three value exceptions, the action raises nothing but allowed exceptions -/
theorem C09_embeddedValue_no_leak (truthy allStrings : Bool) (nested : Except PyExc Nat)
    (h : ∀ e, nested = .error e → allowed e = true ∨ e = .valueError ∨ e = .typeError ∨ e = .overflowError) :
    noLeak (embeddedValue truthy allStrings nested) = true := by
  unfold embeddedValue
  cases truthy <;> cases allStrings <;> simp [noLeak, allowed]
  cases nested with
  | ok n => by_cases hn : n = 0 <;> simp [hn, cimObject]
  | error e =>
    rcases h e rfl with h | h | h | h
    · cases e <;> simp_all [cimObject, allowed]
    all_goals (subst h; simp [cimObject])

/-! ## reuse of the compiler object -/

/-- compiler_reusable: after ANY history of compile_string / compile_embedded_value calls — failed or not, with any
    effects on the parser state, including nested includes that failed — a new compile_string starts from the same
    file / mof / target namespace / embedded-objects state as on a fresh MOFCompiler.  (The caches qualcache,
    classnames and aliases only grow: `C09_compiler_caches_grow`.) -/
theorem C09_compiler_reusable (history : List Call) (mof ns : Nat) (filename : Option Nat) :
    (compilePrologue (runCalls {} history) mof ns filename).view = (compilePrologue {} mof ns filename).view := by
  have := runCalls_embedded history {} rfl
  simp [PState.view, compilePrologue, this]

/-- a compile never removes a namespace from the qualifier cache (a failed compile leaves what it had registered) -/
theorem C09_compiler_caches_grow (s : PState) (c : Call) (x : Nat) (h : x ∈ s.qualcacheNs) :
    x ∈ (stepCall s c).qualcacheNs := by
  have key : ∀ m n f e, x ∈ (applyEffect (compilePrologue s m n f) e).qualcacheNs := by
    intro m n f e
    simp only [applyEffect, compilePrologue]
    exact foldl_addKey_mem _ _ x (addKey_mem _ _ x h)
  cases c with
  | str m n f e ok =>
    simp only [stepCall, compileString]
    split
    · exact key m n f e
    · split <;> exact key m n f e
  | emb m n e ok =>
    simp only [stepCall, compileEmbedded]
    exact key m n none e

/-! ## non-vacuity -/

-- the lexer on a small MOF text: tokens, positions, lines
example : (lexAll ("a = 0x1F;\n/* c\n */ \"s\\x41\" 08 @".toList.map Char.toNat)).map (fun t => (t.kind, t.pos, t.len, t.line)) =
    [(Kind.ident, 0, 1, 1), (Kind.literal, 2, 1, 1), (Kind.hex, 4, 4, 1), (Kind.literal, 8, 1, 1),
     (Kind.stringValue, 19, 7, 3), (Kind.errOctal, 27, 2, 3), (Kind.errChar, 30, 1, 3)] := by decide +kernel
example : InsideAt [10, 32, 64] 2 1 := ⟨2, by decide, by decide, by decide, by decide⟩
example : posInside [10, 32, 64] (tokenErrorPos [10, 32, 64] ⟨.errChar, 2, 1, 2⟩) = true := by decide
example : pragmaNamespace isIdChar ("root/cimv2".toList.map Char.toNat) = .ok (("root/cimv2".toList.map Char.toNat)) := by decide
example : pragmaNamespace isIdChar ("http://h/root".toList.map Char.toNat) = .error .mofParseError := by decide
example : pragmaNamespace isIdChar ("///root".toList.map Char.toNat) = .ok (("root".toList.map Char.toNat)) := by decide
example : lrParse mofTable (["CLASS", "IDENTIFIER", "{", "}", ";"].map terminalId) = .accept 5 := by decide +kernel
example : lrParse mofTable (["CLASS", "IDENTIFIER", "{", "}"].map terminalId) = .errorAt 4 137 := by decide +kernel
example : lrParse mofTable (["CLASS", "CLASS", ";", "{"].map terminalId) = .errorAt 2 21 ∧
    lrParse mofTable (["CLASS", "CLASS", ";"].map terminalId) = .errorAt 2 21 := by decide +kernel
example : parseText ("class A { uint8 p = 5; };\n  @".toList.map Char.toNat) = .errorAtToken ⟨.errChar, 28, 1, 2⟩ 185 := by
  decide +kernel
example : compileFileG (fun f => if f = 0 then some [.leaf (.ok ()), .file 1] else if f = 1 then some [.file 0] else none) 50 0 =
    .error .mofDependencyError := by decide
example : compileFileG (fun f => if f = 0 then some [.file 1, .leaf (.error .mofParseError)] else if f = 1 then some [] else none) 50 0 =
    .error .mofParseError := by decide
example : mpCreateInstance (some 11) none true none = .ok () := by decide
example : cimObject (.error .valueError : Except PyExc Unit) = .error .mofParseError := by decide
example : embeddedValue true false (.ok 1) = .error .mofParseError := by decide
example : mpCreateClass { createClass := [some 4, none], hasServer := false, createNs := none, hasSuper := false,
                          superMof := none, nsInQualcache := true, qualsKnown := true, qualFiles := .ok (),
                          depsOutcome := .ok (), modifyClass := none } = .ok () := by decide
example : (runCalls ({} : PState) [Call.emb 1 2 ({} : Effect) false,
    Call.str 3 4 (some 5) ({ nestedFile := some (6, 7) } : Effect) false]).file = some 6 := by decide
example : (runCalls ({} : PState) [Call.str 3 4 (some 5) ({} : Effect) true, Call.emb 1 2 ({} : Effect) false]).view =
    (none, none, some 2, none) := by decide

end C09
