/-
C14 — Pull enumeration sessions deliver each object exactly once, within limits.
ONLY property theorems, non-vacuity examples and witnesses live here; helper
lemmas are in Proofs/Lemmas/Pull.lean.  All theorems quantify over arbitrary
operation lists on one shared context table (any number of interleaved
sessions, any MaxObjectCount sequence, any result-set size).
-/
import Proofs.Lemmas.Pull
import Proofs.Lemmas.PullDrain

namespace C14
open Pywbem.Model.Pull Pywbem.Proto Proofs.Pull

/-- **Exactly once.**  After any operation history starting from an empty context table,
    with `h` the history a client computes from its own (request, response) pairs:
    every session that reported end-of-sequence delivered exactly the result set it was
    opened on (nothing lost, nothing twice, order kept); every session still open has
    delivered a prefix and the server holds exactly the rest; a session closed early has
    delivered a prefix. -/
theorem C14_exactly_once (nss : List Nat) (ops : List Op) :
    let r := runH { nss := nss } Hist.empty ops
    (∀ i, r.2.st i = .eos → r.2.del i = r.2.orig i) ∧
    (∀ c ∈ r.1.ctxs, r.2.st c.id = .opened ∧ r.2.del c.id ++ c.data = r.2.orig c.id) ∧
    (∀ i, r.2.st i = .closed → r.2.del i <+: r.2.orig i) ∧
    (∀ i, r.2.st i = .opened → ∃ c ∈ r.1.ctxs, c.id = i) := by
  intro r
  have h := (rel_run ops (inv_init nss) (rel_init nss)).2
  exact ⟨h.eos, h.live, h.closed, h.opened⟩

/-- the history state is the state of the plain run (the history is a pure observer) -/
theorem C14_history_is_observer (nss : List Nat) (ops : List Op) :
    (runH { nss := nss } Hist.empty ops).1 = (run { nss := nss } ops).1 :=
  runH_state _ _ _

/-- An Open that reports eos delivers the whole result set at once and creates no context. -/
theorem C14_open_single_shot (s : State) (p : OpenParams) (k : Kind) (ns : Nat) (objs : List Obj) (max : Option Int)
    (b : List Obj) (c : Option Nat) (h : (stepOpen s p k ns objs max).2 = .batch b true c) :
    b = objs ∧ (stepOpen s p k ns objs max).1 = s := by
  rcases stepOpen_cases s p k ns objs max with ⟨e, he⟩ | ⟨_, he⟩ | ⟨_, he⟩ <;> rw [he] at h ⊢ <;> simp_all

/-- **Batch bound.** every Open / Pull response carries at most MaxObjectCount objects … -/
theorem C14_batch_bound_pull (s : State) (k : Kind) (i : Nat) (m : Int) (hm : 0 ≤ m)
    (b : List Obj) (eos : Bool) (c : Option Nat)
    (h : (stepPull s k (some i) (some m)).2 = .batch b eos c) : b.length ≤ m.toNat := by
  rcases stepPull_cases s k i (some m) with ⟨e, he⟩ | ⟨x, _, hle, he⟩ | ⟨x, _, _, he⟩ <;> rw [he] at h
  · simp at h
  · simp at h; obtain ⟨rfl, _, _⟩ := h; simpa [effMax] using hle
  · simp at h; obtain ⟨rfl, _, _⟩ := h; simp [effMax, List.length_take]; omega

theorem C14_batch_bound_open (s : State) (p : OpenParams) (k : Kind) (ns : Nat) (objs : List Obj) (max : Option Int)
    (b : List Obj) (eos : Bool) (c : Option Nat)
    (h : (stepOpen s p k ns objs max).2 = .batch b eos c) : b.length ≤ effMax max := by
  rcases stepOpen_cases s p k ns objs max with ⟨e, he⟩ | ⟨hle, he⟩ | ⟨_, he⟩ <;> rw [he] at h
  · simp at h
  · simp at h; obtain ⟨rfl, _, _⟩ := h; exact hle
  · simp at h; obtain ⟨rfl, _, _⟩ := h; simp [List.length_take]; omega

/-- … and none for MaxObjectCount = 0 -/
theorem C14_zero_delivers_nothing (s : State) (k : Kind) (i : Nat)
    (b : List Obj) (eos : Bool) (c : Option Nat)
    (h : (stepPull s k (some i) (some 0)).2 = .batch b eos c) : b = [] := by
  have := C14_batch_bound_pull s k i 0 (by omega) b eos c h
  simpa using this

/-- **eos is exact.** A successful pull reports eos iff the context is gone afterwards; when it
    does not report eos the context still holds at least one object (eos is never reported while
    objects remain, and never withheld when none remain). -/
theorem C14_eos_iff_exhausted (s : State) (hs : Inv s) (k : Kind) (i : Nat) (max : Option Int)
    (b : List Obj) (eos : Bool) (c : Option Nat)
    (h : (stepPull s k (some i) max).2 = .batch b eos c) :
    (eos = true → lookup (stepPull s k (some i) max).1.ctxs i = none ∧ c = none) ∧
    (eos = false → c = some i ∧ ∃ x, lookup (stepPull s k (some i) max).1.ctxs i = some x ∧ x.data ≠ []) := by
  rcases stepPull_cases s k i max with ⟨e, he⟩ | ⟨x, hp, _, he⟩ | ⟨x, hp, hgt, he⟩ <;> rw [he] at h ⊢
  · simp at h
  · simp at h; obtain ⟨rfl, rfl, rfl⟩ := h
    refine ⟨fun _ => ⟨?_, rfl⟩, by simp⟩
    simp only [lookup, remove]
    apply List.find?_eq_none.mpr
    intro y hy; simp at hy; simp [hy.2]
  · simp at h; obtain ⟨rfl, rfl, rfl⟩ := h
    refine ⟨by simp, fun _ => ⟨rfl, ?_⟩⟩
    have hmem : ({ x with data := x.data.drop (effMax max) } : Ctx) ∈
        replaceData s.ctxs i (x.data.drop (effMax max)) :=
      mem_replaceData.mpr ⟨x, (lookup_some hp.2.2.1).1, by simp [(lookup_some hp.2.2.1).2]⟩
    cases hl : lookup (replaceData s.ctxs i (x.data.drop (effMax max))) i with
    | none => exact absurd (lookup_some hp.2.2.1).2 (by
        have := lookup_none hl _ hmem; simpa using this)
    | some y =>
      refine ⟨y, rfl, ?_⟩
      have hi' : Inv (stepPull s k (some i) max).1 := by
        have := inv_step (.pull k (some i) max) hs; simpa [step] using this
      rw [he] at hi'
      exact hi'.nonempty y (lookup_some hl).1

/-- **Progress.** On every reachable state a pull with MaxObjectCount > 0 delivers at least one
    object (or is refused); together with `C14_exactly_once` every enumeration ends after at most
    |result set| such pulls. -/
theorem C14_progress (s : State) (hs : Inv s) (k : Kind) (i : Nat) (m : Int) (hm : 0 < m)
    (b : List Obj) (eos : Bool) (c : Option Nat)
    (h : (stepPull s k (some i) (some m)).2 = .batch b eos c) : b ≠ [] := by
  rcases stepPull_cases s k i (some m) with ⟨e, he⟩ | ⟨x, hp, _, he⟩ | ⟨x, hp, _, he⟩ <;> rw [he] at h
  · simp at h
  · simp at h; obtain ⟨rfl, _, _⟩ := h
    exact hs.nonempty x (lookup_some hp.2.2.1).1
  · simp at h; obtain ⟨rfl, _, _⟩ := h
    have hne := hs.nonempty x (lookup_some hp.2.2.1).1
    have : 0 < effMax (some m) := by simp [effMax]; omega
    intro e
    rcases List.take_eq_nil_iff.mp e with e | e
    · omega
    · exact hne e

/-- the remaining data strictly shrinks on a non-final pull with MaxObjectCount > 0 -/
theorem C14_remaining_decreases (s : State) (hs : Inv s) (k : Kind) (i : Nat) (m : Int) (hm : 0 < m)
    (x : Ctx) (hx : lookup s.ctxs i = some x) (y : Ctx)
    (b : List Obj) (c : Option Nat)
    (h : (stepPull s k (some i) (some m)).2 = .batch b false c)
    (hy : lookup (stepPull s k (some i) (some m)).1.ctxs i = some y) :
    y.data.length < x.data.length := by
  rcases stepPull_cases s k i (some m) with ⟨e, he⟩ | ⟨z, hp, _, he⟩ | ⟨z, hp, hgt, he⟩ <;> rw [he] at h hy
  · simp at h
  · simp at h
  · have hz : z = x := by have := hp.2.2.1; rw [hx] at this; exact (Option.some.inj this).symm
    subst hz
    obtain ⟨hymem, hyid⟩ := lookup_some hy
    obtain ⟨a, ha, rfl⟩ := mem_replaceData.mp hymem
    have hai : a.id = i := by
      by_cases e : a.id == i <;> simp [e] at hyid ⊢ <;> simp_all
    have : a = z := hs.uniq a ha z (lookup_some hx).1 (by rw [hai, (lookup_some hx).2])
    subst this
    have : 0 < effMax (some m) := by simp [effMax]; omega
    simp [hai, List.length_drop]; omega

/-- a context that is absent from the table (never issued, ended by eos, or closed) and whose id is
    below the id supply stays absent under every later operation history: ids are never reused -/
theorem C14_gone_stays_gone (s : State) (ops : List Op) (i : Nat) (hi : i < s.nextId)
    (h : lookup s.ctxs i = none) : lookup (run s ops).1.ctxs i = none ∧ i < (run s ops).1.nextId := by
  induction ops generalizing s with
  | nil => exact ⟨h, hi⟩
  | cons op ops ih =>
    simp only [run]
    suffices hstep : lookup (step s op).1.ctxs i = none ∧ i < (step s op).1.nextId from ih _ hstep.2 hstep.1
    have hnone := lookup_none h
    have keep_remove : ∀ j, lookup (remove s.ctxs j) i = none := by
      intro j; unfold lookup; apply List.find?_eq_none.mpr
      intro y hy; have := hnone y (mem_remove.mp hy).1; simpa using this
    cases op with
    | «open» p k ns objs max =>
      simp only [step]
      rcases stepOpen_cases s p k ns objs max with ⟨e, he⟩ | ⟨_, he⟩ | ⟨_, he⟩ <;> rw [he]
      · exact ⟨h, hi⟩
      · exact ⟨h, hi⟩
      · refine ⟨?_, by simp [openedState]; omega⟩
        unfold lookup openedState; apply List.find?_eq_none.mpr
        intro y hy; simp at hy
        rcases hy with hy | hy
        · have := hnone y hy; simpa using this
        · subst hy; simp; omega
    | pull k ctx max =>
      simp only [step]
      cases ctx with
      | none => exact ⟨h, hi⟩
      | some j =>
        rcases stepPull_cases s k j max with ⟨e, he⟩ | ⟨x, _, _, he⟩ | ⟨x, _, _, he⟩ <;> rw [he]
        · exact ⟨h, hi⟩
        · exact ⟨keep_remove j, hi⟩
        · refine ⟨?_, hi⟩
          unfold lookup; apply List.find?_eq_none.mpr
          intro y hy
          obtain ⟨a, ha, rfl⟩ := mem_replaceData.mp hy
          have := hnone a ha
          by_cases e : a.id == j <;> simp [e] <;> simpa using this
    | close ctx =>
      simp only [step]
      cases ctx with
      | none => exact ⟨h, hi⟩
      | some j =>
        rcases stepClose_cases s j with ⟨e, he⟩ | ⟨x, _, _, he⟩ <;> rw [he]
        · exact ⟨h, hi⟩
        · exact ⟨keep_remove j, hi⟩
    | addNs ns =>
      simp only [step]
      by_cases e : s.nss.contains ns = true <;> simp only [e, if_true] <;> exact ⟨h, hi⟩
    | removeNs ns => exact ⟨h, hi⟩
    | setDisabled b => exact ⟨h, hi⟩

/-- **Refused afterwards.** a pull / close on an absent context never delivers anything and never
    changes the table; with valid MaxObjectCount and pull enabled the answer is
    CIM_ERR_INVALID_ENUMERATION_CONTEXT. -/
theorem C14_absent_context_refused (s : State) (k : Kind) (i : Nat) (max : Option Int)
    (h : lookup s.ctxs i = none) (hm : badMax max = false) (hd : s.disabled = false) :
    stepPull s k (some i) max = (s, .err (.cimError CIM_ERR_INVALID_ENUMERATION_CONTEXT)) ∧
    stepClose s (some i) = (s, .err (.cimError CIM_ERR_INVALID_ENUMERATION_CONTEXT)) := by
  simp [stepPull, stepClose, h, hm, hd]

/-- after a pull that reported eos, or after a successful close, the context is absent -/
theorem C14_no_leak_after_eos_or_close (s : State) (k : Kind) (i : Nat) (max : Option Int) :
    (∀ b c, (stepPull s k (some i) max).2 = .batch b true c →
        lookup (stepPull s k (some i) max).1.ctxs i = none) ∧
    ((stepClose s (some i)).2 = .done → lookup (stepClose s (some i)).1.ctxs i = none) := by
  have gone : lookup (remove s.ctxs i) i = none := by
    unfold lookup remove; apply List.find?_eq_none.mpr
    intro y hy; simp at hy; simp [hy.2]
  constructor
  · intro b c h
    rcases stepPull_cases s k i max with ⟨e, he⟩ | ⟨x, _, _, he⟩ | ⟨x, _, _, he⟩ <;> rw [he] at h ⊢
    · simp at h
    · exact gone
    · simp at h
  · intro h
    rcases stepClose_cases s i with ⟨e, he⟩ | ⟨x, _, _, he⟩ <;> rw [he] at h ⊢
    · simp at h
    · exact gone

/-- **Wrong kind.** a pull of the wrong kind is refused and consumes nothing -/
theorem C14_wrong_kind_refused_no_consume (s : State) (k : Kind) (i : Nat) (max : Option Int)
    (x : Ctx) (hx : lookup s.ctxs i = some x) (hk : x.kind ≠ k) :
    (stepPull s k (some i) max).1 = s ∧ ∃ e, (stepPull s k (some i) max).2 = .err e := by
  rcases stepPull_cases s k i max with ⟨e, he⟩ | ⟨z, hp, _, _⟩ | ⟨z, hp, _, _⟩
  · rw [he]; exact ⟨rfl, e, rfl⟩
  · have : z = x := by have := hp.2.2.1; rw [hx] at this; exact (Option.some.inj this).symm
    exact absurd (this ▸ hp.2.2.2.2) hk
  · have : z = x := by have := hp.2.2.1; rw [hx] at this; exact (Option.some.inj this).symm
    exact absurd (this ▸ hp.2.2.2.2) hk

theorem C14_wrong_kind_code (s : State) (k : Kind) (i : Nat) (max : Option Int)
    (x : Ctx) (hx : lookup s.ctxs i = some x) (hk : x.kind ≠ k)
    (hm : badMax max = false) (hd : s.disabled = false) (hn : x.ns ∈ s.nss) :
    (stepPull s k (some i) max).2 = .err (.cimError CIM_ERR_INVALID_ENUMERATION_CONTEXT) := by
  simp [stepPull, hx, hm, hd, hn, hk]

/-- **Independence.** an operation addressed to context `i` leaves every other context untouched -/
theorem C14_sessions_independent (s : State) (k : Kind) (i : Nat) (max : Option Int) (c : Ctx)
    (hc : c.id ≠ i) :
    (c ∈ (stepPull s k (some i) max).1.ctxs ↔ c ∈ s.ctxs) ∧
    (c ∈ (stepClose s (some i)).1.ctxs ↔ c ∈ s.ctxs) := by
  constructor
  · rcases stepPull_cases s k i max with ⟨e, he⟩ | ⟨x, _, _, he⟩ | ⟨x, _, _, he⟩ <;> rw [he]
    · simp only [mem_remove]; exact ⟨fun h => h.1, fun h => ⟨h, hc⟩⟩
    · simp only [mem_replaceData]
      constructor
      · rintro ⟨a, ha, rfl⟩
        by_cases e : a.id == i
        · simp [e] at hc; simp_all
        · simpa [e] using ha
      · intro h; exact ⟨c, h, by have : (c.id == i) = false := by simp [hc]
                                 simp [this]⟩
  · rcases stepClose_cases s i with ⟨e, he⟩ | ⟨x, _, _, he⟩ <;> rw [he]
    simp only [mem_remove]; exact ⟨fun h => h.1, fun h => ⟨h, hc⟩⟩

/-- an Open never touches existing contexts and issues an id nobody holds -/
theorem C14_open_fresh (s : State) (hs : Inv s) (p : OpenParams) (k : Kind) (ns : Nat) (objs : List Obj) (max : Option Int)
    (b : List Obj) (i : Nat) (h : (stepOpen s p k ns objs max).2 = .batch b false (some i)) :
    lookup s.ctxs i = none ∧ ∀ c ∈ s.ctxs, c ∈ (stepOpen s p k ns objs max).1.ctxs := by
  rcases stepOpen_cases s p k ns objs max with ⟨e, he⟩ | ⟨_, he⟩ | ⟨_, he⟩ <;> rw [he] at h ⊢
  · simp at h
  · simp at h
  · simp at h; obtain ⟨_, rfl⟩ := h
    refine ⟨?_, fun c hc => by simp [openedState, hc]⟩
    unfold lookup; apply List.find?_eq_none.mpr
    intro y hy; have := hs.below y hy; simp; omega


/-- **Namespace removed during a session.** A pull on a session whose namespace no longer exists delivers
    nothing: it is refused with CIM_ERR_INVALID_NAMESPACE and the server state is unchanged - the context stays, so
    `CloseEnumeration` can still end the session (`C14_no_leak_after_eos_or_close`). -/
theorem C14_removed_namespace_refuses_pull (s : State) (k : Kind) (i : Nat) (max : Option Int) (c : Ctx)
    (hm : badMax max = false) (hd : s.disabled = false) (hl : lookup s.ctxs i = some c) (hns : c.ns ∉ s.nss) :
    stepPull s k (some i) max = (s, .err (.cimError CIM_ERR_INVALID_NAMESPACE)) := by
  unfold stepPull
  simp [hm, hd, hl, hns]

/-- … in every history: after `removeNs ns`, no pull on a session of `ns` delivers objects until the namespace
    is added again (the step right after the removal, for any state) -/
theorem C14_remove_then_pull_refused (s : State) (k : Kind) (i : Nat) (max : Option Int) (c : Ctx) (ns : Nat)
    (hm : badMax max = false) (hd : s.disabled = false) (hl : lookup s.ctxs i = some c) (hc : c.ns = ns) :
    (step (step s (.removeNs ns)).1 (.pull k (some i) max)).2 = .err (.cimError CIM_ERR_INVALID_NAMESPACE) := by
  have h := C14_removed_namespace_refuses_pull (step s (.removeNs ns)).1 k i max c hm
    (by simpa [step] using hd) (by simpa [step] using hl) (by simp [step, hc])
  simp only [step] at h ⊢
  rw [h]

/-! ### the optional session parameters (FilterQueryLanguage, FilterQuery, OperationTimeout, ContinueOnError) -/

/-- **Parameters can only refuse.** Whatever optional parameters an Open carries, it either behaves
    exactly like the Open without them or is refused with an error and changes nothing: the mock
    applies no filter, so parameters never alter WHICH objects a session delivers. -/
theorem C14_open_params_only_refuse (s : State) (p : OpenParams) (k : Kind) (ns : Nat) (objs : List Obj)
    (max : Option Int) :
    stepOpen s p k ns objs max = stepOpen s {} k ns objs max ∨
    ∃ e, stepOpen s p k ns objs max = (s, .err e) := by
  have hb0 : badTimeout ({} : OpenParams).timeout = false := rfl
  have hpe : paramErr {} = none := by decide
  unfold stepOpen
  rw [hb0, hpe]
  by_cases h1 : badMax max = true
  · right; exact ⟨.valueError, by simp [h1]⟩
  by_cases h1' : badTimeout p.timeout = true
  · right; exact ⟨.valueError, by simp [h1']⟩
  have h1f : badTimeout p.timeout = false := by simpa using h1'
  rw [h1f]
  by_cases h2 : s.disabled = true
  · left; simp [h1, h2]
  by_cases h3 : ns ∈ s.nss
  · cases hp : paramErr p with
    | some e => right; exact ⟨e, by simp [h1, h2, h3]⟩
    | none => left; simp [h1, h2, h3]
  · left; simp [h1, h2, h3]

/-- a refused parameter set creates no context and delivers nothing, in every state -/
theorem C14_bad_params_no_context (s : State) (p : OpenParams) (k : Kind) (ns : Nat) (objs : List Obj)
    (max : Option Int) (h : (paramErr p).isSome = true ∨ badTimeout p.timeout = true) :
    ∃ e, stepOpen s p k ns objs max = (s, .err e) := by
  rcases stepOpen_cases s p k ns objs max with he | ⟨_, he⟩ | ⟨_, he⟩
  · exact he
  all_goals
    exfalso
    unfold stepOpen at he
    rcases h with h | h
    · cases hp : paramErr p with
      | none => simp [hp] at h
      | some e =>
        by_cases h1 : (badMax max || badTimeout p.timeout) = true <;> simp only [h1, if_true] at he
        · simp at he
        by_cases h2 : s.disabled = true <;> simp only [h2, if_true] at he
        · simp at he
        by_cases h3 : (!(s.nss.contains ns)) = true <;> simp only [h3, if_true] at he
        · simp at he
        rw [hp] at he
        simp at he
    · simp [h] at he

/-- which parameter sets the server accepts: exactly FilterQuery only together with a language, the
    language `DMTF:FQL` if any, and OperationTimeout 0 or within 1 … OPEN_MAX_TIMEOUT -/
theorem C14_params_accepted_iff (p : OpenParams) :
    paramErr p = none ↔
      ((p.fql.truthy = false → p.fqSet = false) ∧ (p.fql.truthy = true → p.fql = .dmtf) ∧
       (∀ t, p.timeout = some t → t = 0 ∨ (0 ≤ t ∧ t ≤ (openMaxTimeout : Int)))) := by
  unfold paramErr
  cases hf : p.fql <;> cases hq : p.fqSet <;> cases ht : p.timeout <;> simp [Fql.truthy] <;> omega

example : paramErr { fql := .dmtf, fqSet := true, timeout := some 40 } = none := by decide
example : paramErr { fql := .other } = some (.cimError 14) := by decide
example : paramErr { fqSet := true } = some (.cimError 4) := by decide
example : paramErr { timeout := some 41 } = some (.cimError 4) := by decide

/-! ### whole enumerations: the client loop `Open…; while not eos: Pull…` (Proofs/Lemmas/PullDrain.lean) -/

/-- **Every enumeration terminates, exactly.** From any reachable state, for a live session `i`
    (its namespace exists, pull operations enabled): ANY sequence of pulls of the right kind with
    MaxObjectCount > 0 that is at least as long as what remains delivers exactly the remaining
    objects (order kept, nothing lost, nothing twice), reports end-of-sequence exactly once, and
    the server afterwards is the start state without that context — whatever happens to be in the
    other sessions of the shared table. -/
theorem C14_terminates (s : State) (hs : Inv s) (k : Kind) (i : Nat) (c : Ctx)
    (hl : lookup s.ctxs i = some c) (hk : c.kind = k) (hns : c.ns ∈ s.nss) (hd : s.disabled = false)
    (ms : List Int) (hpos : ∀ m ∈ ms, 0 < m) (hlen : c.data.length ≤ ms.length) :
    (run s (pulls k i ms)).1 = { s with ctxs := remove s.ctxs i } ∧
    delivered (run s (pulls k i ms)).2 = c.data ∧
    eosCount (run s (pulls k i ms)).2 = 1 :=
  drain ms s k i c hs hl hk hns hd hpos hlen

/-- the same with keep-alive pulls (MaxObjectCount = 0) anywhere in the loop: they neither deliver
    nor end the session; `posCount ms` positive pulls ≥ remaining objects suffice -/
theorem C14_terminates_with_keepalive (s : State) (hs : Inv s) (k : Kind) (i : Nat) (c : Ctx)
    (hl : lookup s.ctxs i = some c) (hk : c.kind = k) (hns : c.ns ∈ s.nss) (hd : s.disabled = false)
    (ms : List Int) (hnn : ∀ m ∈ ms, 0 ≤ m) (hlen : c.data.length ≤ posCount ms) :
    (run s (pulls k i ms)).1 = { s with ctxs := remove s.ctxs i } ∧
    delivered (run s (pulls k i ms)).2 = c.data ∧
    eosCount (run s (pulls k i ms)).2 = 1 :=
  drainKA ms s k i c hs hl hk hns hd hnn hlen

/-- draining one session leaves every other session of the shared table exactly as it was -/
theorem C14_drain_leaves_others (s : State) (hs : Inv s) (k : Kind) (i j : Nat) (c : Ctx)
    (hl : lookup s.ctxs i = some c) (hk : c.kind = k) (hns : c.ns ∈ s.nss) (hd : s.disabled = false)
    (ms : List Int) (hnn : ∀ m ∈ ms, 0 ≤ m) (hlen : c.data.length ≤ posCount ms) (hj : j ≠ i) :
    lookup (run s (pulls k i ms)).1.ctxs j = lookup s.ctxs j := by
  rw [(drainKA ms s k i c hs hl hk hns hd hnn hlen).1]
  exact lookup_remove_other s.ctxs hj

/-- **Open + pull loop = the traditional operation, and nothing stays behind.** For every accepted
    Open (any optional parameters that `_validate_open_params` accepts, MaxObjectCount None / 0 / k)
    on any reachable state, followed by a long-enough loop of pulls with MaxObjectCount > 0 on the
    context it returned: the concatenated responses are exactly `objs` (the traditional result),
    eos is reported exactly once, and the server's context table equals the one before the Open. -/
theorem C14_whole_enumeration (s : State) (hs : Inv s) (p : OpenParams) (k : Kind) (ns : Nat)
    (objs : List Obj) (max : Option Int) (ms : List Int)
    (hbm : badMax max = false) (hbt : badTimeout p.timeout = false) (hd : s.disabled = false)
    (hns : ns ∈ s.nss) (hp : paramErr p = none)
    (hpos : ∀ m ∈ ms, 0 < m) (hlen : objs.length ≤ ms.length) :
    (run s (Op.open p k ns objs max :: pulls k s.nextId ms)).1.ctxs = s.ctxs ∧
    delivered (run s (Op.open p k ns objs max :: pulls k s.nextId ms)).2 = objs ∧
    eosCount (run s (Op.open p k ns objs max :: pulls k s.nextId ms)).2 = 1 :=
  whole_enumeration s hs p k ns objs max ms hbm hbt hd hns hp hpos hlen

/-- after end-of-sequence any number of further pulls is refused, delivers nothing and changes nothing -/
theorem C14_pulls_after_end_inert (s : State) (k : Kind) (i : Nat) (ms : List Int)
    (h : lookup s.ctxs i = none) :
    (run s (pulls k i ms)).1 = s ∧ delivered (run s (pulls k i ms)).2 = [] ∧
      eosCount (run s (pulls k i ms)).2 = 0 :=
  run_pulls_absent s k i ms h

-- non-vacuity: a concrete session (3 remaining objects beside another live session) meets the hypotheses
example :
    let s : State := { ctxs := [⟨0, .paths, 1, [7]⟩, ⟨1, .insts, 1, [4, 5, 6]⟩], nextId := 2, nss := [1] }
    lookup s.ctxs 1 = some ⟨1, .insts, 1, [4, 5, 6]⟩ ∧
    (run s (pulls .insts 1 [2, 0, 1, 9])).2 =
      [.batch [4, 5] false (some 1), .batch [] false (some 1), .batch [6] true none, .err (.cimError 21)] ∧
    (run s (pulls .insts 1 [2, 0, 1, 9])).1.ctxs = [⟨0, .paths, 1, [7]⟩] := by decide

example : (run { nss := [1] } (Op.open {} .paths 1 [1, 2, 3, 4, 5] (some 2) :: pulls .paths 0 [1, 3, 1, 1, 1])).2 =
    [.batch [1, 2] false (some 0), .batch [3] false (some 0), .batch [4, 5] true none,
     .err (.cimError 21), .err (.cimError 21), .err (.cimError 21)] := by decide

/-! ### non-vacuity: a concrete interleaved history meets the hypotheses and exercises the claims -/

def demoOps : List Op :=
  [.open {} .paths 1 [10, 11, 12, 13, 14] (some 2), .open { fql := .dmtf, fqSet := true, timeout := some 40 } .insts 1 [20, 21, 22] (some 1),
   .pull .paths (some 0) (some 0), .pull .insts (some 0) (some 1), .pull .paths (some 0) (some 2),
   .pull .insts (some 1) none, .pull .paths (some 0) (some 5), .pull .paths (some 0) (some 1),
   .close (some 1)]

example : (run { nss := [1] } demoOps).2 =
    [.batch [10, 11] false (some 0), .batch [20] false (some 1),
     .batch [] false (some 0), .err (.cimError 21), .batch [12, 13] false (some 0),
     .batch [21, 22] true none, .batch [14] true none, .err (.cimError 21), .err (.cimError 21)] := by
  decide

example : Inv (run { nss := [1] } (demoOps.take 3)).1 := inv_run _ (inv_init _)

end C14
