/-
C10 — The mock server's instance store is a faithful keyed map with CIM status codes.
ONLY property theorems, non-vacuity examples and witnesses live here; helper lemmas are in
Proofs/Lemmas/Store.lean, StoreEq.lean, StoreClient.lean, StoreLaws.lean, StoreAlias.lean, StoreSubclass.lean,
StoreKeys.lean.
Models (all mirror the code after the `fix:` commits): Pywbem/Model/Store.lean (the six operations from the request
to the dict), StoreClient.lean (argument handling of the public methods), StoreEq.lean (pywbem's path equality),
StoreSubclass.lean (the downward subclass walk), StoreAlias.lean (object identities and copies);
reference map: Pywbem/Model/StoreSpec.lean.

Statement of the refinement (proved here under `TameRun`: no association classes and arbitrary requests, or a
coherent schema – a class name denotes the same class in every namespace –, NULL defaults of reference
properties and requests whose reference-typed properties hold paths or NULL; association instances living in
several namespaces are included.  The driver additionally evaluates the same equation at run time on every
history of K, field "specAgrees"):

    ∀ r ops, Fresh r →
      (run r ops).2.map normOut = (StoreSpec.run (abs r) ops).2 ∧ abs (run r ops).1 = (StoreSpec.run (abs r) ops).1
-/
import Proofs.Lemmas.Store
import Proofs.Lemmas.StoreEq
import Proofs.Lemmas.StoreClient
import Proofs.Lemmas.StoreLaws
import Proofs.Lemmas.StoreAlias
import Proofs.Lemmas.StoreSubclass
import Proofs.Lemmas.StoreKeys

set_option linter.unusedSimpArgs false

namespace C10
open Pywbem.Proto Pywbem.Model.Store Pywbem.Model.StoreSpec Pywbem.Generated.Store Proofs.Store

/-- a freshly built repository: namespace names pairwise different, no instances yet -/
structure Fresh (r : Repo) : Prop where
  nsUniq : NsUnique r
  empty : ∀ e ∈ r.nss, e.insts = []

/-- **Refinement.**  For every history of Create / Modify / Delete / Get / EnumerateInstances /
    EnumerateInstanceNames requests – valid or not, any namespaces, any paths, association instances living in
    several namespaces included – the outcomes of the model, with paths normalised (names lower-cased,
    keybindings sorted), are the outcomes of the reference map, and the final store is the final reference map.
    Hypothesis `TameRun`: the schema has no association classes (then the requests are arbitrary), or the
    schema is coherent (a class name denotes the same class in every namespace that has it), defaults of
    reference properties are NULL, and in the Create/Modify requests exactly the reference-typed properties
    hold paths (or NULL) – what every `CIMProperty` object satisfies. -/
theorem C10_refines_spec (r : Repo) (ops : List Op) (hf : Fresh r) (ht : TameRun r ops) :
    (Pywbem.Model.Store.run r ops).2.map normOut = (Pywbem.Model.StoreSpec.run (abs r) ops).2
      ∧ abs (Pywbem.Model.Store.run r ops).1 = (Pywbem.Model.StoreSpec.run (abs r) ops).1 := by
  have h := sim_run'' ops r ht (inv_empty r hf.nsUniq hf.empty)
  exact ⟨h.1, h.2.1⟩

/-- one step of the same statement, from any state satisfying the store invariant -/
theorem C10_step_refines_spec (r : Repo) (op : Op) (ht : Tame r op) (hinv : Inv r) :
    normOut (step r op).2 = (sstep (abs r) op).2 ∧ abs (step r op).1 = (sstep (abs r) op).1 := by
  have h := sim_step'' r op ht hinv
  exact ⟨h.1, h.2.1⟩

/-- **Keys are unique and consistent (same hypothesis).**  After any history, in every namespace: no two stored
    instances have equal keys (up to case and order); the path kept inside a stored instance equals the key it
    is stored under; the key carries no host and names the namespace it is stored in; the instance has every key
    property of its creation class; every namespace named by a reference value of an association instance exists. -/
theorem C10_store_invariant (r : Repo) (ops : List Op) (hf : Fresh r) (ht : TameRun r ops) :
    ∀ e ∈ (Pywbem.Model.Store.run r ops).1.nss,
      e.insts.Pairwise (fun a b => normPath a.key ≠ normPath b.key) ∧
      (∀ s ∈ e.insts, normPath s.path = normPath s.key ∧ s.key.host = none ∧
        s.key.ns.map lower = some (lower e.name) ∧ lower s.inst.cls = lower s.key.cls ∧
        ∀ c, findCls e.classes s.key.cls = some c →
          (∀ d ∈ keyDecls c, (findProp s.inst.props d.name).isSome = true) ∧
          (c.isAssoc = true → ∀ p ∈ s.inst.props, ∀ m, refNs p.val = some m → m.isEmpty = false →
            (findNs (Pywbem.Model.Store.run r ops).1 m).isSome = true)) := by
  have h := (sim_run'' ops r ht (inv_empty r hf.nsUniq hf.empty)).2.2
  intro e he
  have hi := h.entries e he
  exact ⟨hi.uniq, fun s hs => ⟨hi.pathKey s hs, hi.hostNone s hs, hi.nsOk s hs, hi.instCls s hs,
    fun c hc => ⟨hi.hasKeys s hs c hc, hi.refVals s hs c hc⟩⟩⟩

/-- non-vacuity of the hypotheses: a two-namespace repository with a key class -/
def demoCls : Cls :=
  { name := "TST_P".toList, super := none, isAssoc := false,
    props := [{ name := "name".toList, ty := "string".toList, isArr := false, isKey := true, dflt := .null },
              { name := "v".toList, ty := "uint32".toList, isArr := false, isKey := false, dflt := .null }] }
def demoRepo : Repo :=
  { nss := [{ name := "root/a".toList, classes := [demoCls], insts := [] },
            { name := "Root/B".toList, classes := [demoCls], insts := [] }], dflt := "root/a".toList }

example : Fresh demoRepo ∧ NoAssoc demoRepo ∧ ∀ ops, TameRun demoRepo ops := by
  have hna : NoAssoc demoRepo := by
    intro e he c hc; simp [demoRepo] at he; rcases he with rfl | rfl <;> simp at hc <;> subst hc <;> rfl
  refine ⟨⟨?_, ?_⟩, hna, fun _ => Or.inl hna⟩
  · unfold NsUnique demoRepo; decide
  · intro e he; simp [demoRepo] at he; rcases he with rfl | rfl <;> rfl

/-- non-vacuity of the association branch of `TameRun`: two namespaces loaded from the same schema with an
    association class, and a request creating an association whose ends lie in the *other* namespace -/
def demoAssoc : Cls :=
  { name := "TST_L".toList, super := none, isAssoc := true,
    props := [{ name := "parent".toList, ty := "reference".toList, isArr := false, isKey := true, dflt := .null },
              { name := "child".toList, ty := "reference".toList, isArr := false, isKey := true, dflt := .null }] }
def demoRepoA : Repo :=
  { nss := [{ name := "root/a".toList, classes := [demoCls, demoAssoc], insts := [] },
            { name := "Root/B".toList, classes := [demoCls, demoAssoc], insts := [] }], dflt := "root/a".toList }
def demoEndPath0 (k : String) : Path0 :=
  { cls := "TST_P".toList, ns := some "ROOT/B".toList, host := none, keys := [("name".toList, Scalar.str k.toList)] }
def demoEnd (k : String) : Val := Val.one (KV.ref (demoEndPath0 k))
def demoCreateAssoc : Op :=
  .create none { cls := "TST_L".toList,
                 props := [{ name := "parent".toList, ty := "reference".toList, isArr := false, val := demoEnd "x" },
                           { name := "child".toList, ty := "reference".toList, isArr := false, val := demoEnd "y" }] }

example : Fresh demoRepoA ∧ ¬ NoAssoc demoRepoA ∧ TameRun demoRepoA [demoCreateAssoc] := by
  have hmem : ∀ e ∈ demoRepoA.nss, e.classes = [demoCls, demoAssoc] := by
    intro e he; simp [demoRepoA] at he; rcases he with rfl | rfl <;> rfl
  refine ⟨⟨?_, ?_⟩, ?_, Or.inr ⟨?_, ?_, ?_⟩⟩
  · unfold NsUnique demoRepoA; decide
  · intro e he; simp [demoRepoA] at he; rcases he with rfl | rfl <;> rfl
  · intro h
    have := h { name := "root/a".toList, classes := [demoCls, demoAssoc], insts := [] } (by simp [demoRepoA])
      demoAssoc (by simp)
    simp [demoAssoc] at this
  · intro e he c hc
    rw [hmem e he] at hc
    simp at hc
    rcases hc with rfl | rfl
    · refine ⟨?_, ?_⟩
      · intro d hd hty; simp [demoCls] at hd; rcases hd with rfl | rfl <;> exact absurd hty (by decide)
      · intro d hd q; simp [demoCls] at hd; rcases hd with rfl | rfl <;> simp
    · refine ⟨?_, ?_⟩
      · intro d hd _; simp [demoAssoc] at hd; rcases hd with rfl | rfl <;> rfl
      · intro d hd q; simp [demoAssoc] at hd; rcases hd with rfl | rfl <;> simp
  · intro e1 he1 e2 he2 n c1 c2 h1 h2
    rw [hmem e1 he1] at h1; rw [hmem e2 he2] at h2
    rw [h1] at h2; cases h2; rfl
  · intro op hop
    simp at hop; subst hop
    refine ⟨?_, ?_⟩
    · intro p hp _
      simp [demoCreateAssoc] at hp
      rcases hp with rfl | rfl <;> exact Or.inr ⟨_, rfl⟩
    · intro p hp _
      simp [demoCreateAssoc] at hp
      rcases hp with rfl | rfl <;> rfl

/-! ### an incoherent schema (witness) -/

def wP : Cls :=
  { name := "P".toList, super := none, isAssoc := false,
    props := [{ name := "n".toList, ty := "string".toList, isArr := false, isKey := true, dflt := .null }] }
def wL (extra : Bool) : Cls :=
  { name := "L".toList, super := none, isAssoc := true,
    props := [{ name := "a".toList, ty := "reference".toList, isArr := false, isKey := true, dflt := .null }] ++
             (if extra then [{ name := "k".toList, ty := "string".toList, isArr := false, isKey := true, dflt := .null }] else []) }
/-- namespace B declares the association class with an additional key property: an incoherent schema -/
def wRepo : Repo :=
  { nss := [{ name := "A".toList, classes := [wP, wL false], insts := [] },
            { name := "B".toList, classes := [wP, wL true], insts := [] }], dflt := "A".toList }
def wEnd : Path0 := { cls := "P".toList, ns := some "B".toList, host := none, keys := [("n".toList, Scalar.str "x".toList)] }
def wLPath : Path :=
  { cls := "L".toList, ns := some "B".toList, host := none, keys := [("a".toList, KV.ref wEnd)] }
def wOps : List Op :=
  [ .create (some "B".toList) { cls := "P".toList, props := [{ name := "n".toList, ty := "string".toList, isArr := false, val := Val.one (KV.sc (Scalar.str "x".toList)) }] },
    .create none { cls := "L".toList, props := [{ name := "a".toList, ty := "reference".toList, isArr := false, val := Val.one (KV.ref wEnd) }] },
    .modify wLPath { cls := "L".toList, props := [{ name := "k".toList, ty := "string".toList, isArr := false, val := Val.one (KV.sc (Scalar.str "v".toList)) }] } none ]

/-- **The coherence hypothesis is needed.**  With an association class that namespace B declares with an additional
    key property, the copy of a multi-namespace instance stored in B lacks that property; ModifyInstance naming it
    makes the code (and the model) raise KeyError where the reference map answers INVALID_PARAMETER
    (known finding C10-KF1, probed on the real code by K on every run). -/
theorem C10_refines_spec_fails_for_incoherent_schema :
    (Pywbem.Model.Store.run wRepo wOps).2.map normOut ≠ (Pywbem.Model.StoreSpec.run (abs wRepo) wOps).2 := by
  decide +kernel

/-- **Enumerations never fail on a stored instance.**  In every state satisfying the store invariant,
    EnumerateInstances answers INVALID_NAMESPACE, INVALID_CLASS or a list – never NOT_FOUND (the failure the
    multi-namespace ModifyInstance defect produced), never anything else. -/
theorem C10_enumerate_total (r : Repo) (hinv : Inv r) (ns : Option Name) (cls : Name) (di : Option Bool)
    (pl : Option (List Name)) (o : RetOpts := {}) :
    (stepEnumInsts r ns cls di pl o).2 = errNs ∨ (stepEnumInsts r ns cls di pl o).2 = errClass ∨
      ∃ l, (stepEnumInsts r ns cls di pl o).2 = .insts l := by
  unfold stepEnumInsts
  cases hns : findNs r (effNs r ns) with
  | none => simp [hns]
  | some e =>
    cases hcl : findCls e.classes cls with
    | none => simp [hns, hcl]
    | some c =>
      have hie := hinv.entries e (findNs_mem hns).1
      simp only [hns, hcl]
      rw [enumCollect_ok _ _ _ _ _ hie.uniq hie.pathKey _ (fun s hs => (List.mem_filter.mp hs).1)]
      exact Or.inr (Or.inr ⟨_, rfl⟩)

/-- … and without the invariant it does: a stored instance whose own path differs from its key
    (the state the unfixed `modify_multi_namespace_instance` produced) makes the enumeration fail. -/
def brokenRepo : Repo :=
  { nss := [{ name := "root/a".toList, classes := [demoCls],
              insts := [{ key := { cls := "TST_P".toList, ns := some "root/a".toList, host := none,
                                   keys := [("name".toList, .sc (.str "x".toList))] },
                          path := { cls := "TST_P".toList, ns := some "root/b".toList, host := none,
                                    keys := [("name".toList, .sc (.str "x".toList))] },
                          inst := { cls := "TST_P".toList, props := [] } }] }], dflt := "root/a".toList }

theorem C10_enumerate_total_fails_without_invariant :
    (stepEnumInsts brokenRepo none "TST_P".toList none none).2 = errNotFound := by decide

/-- **Status codes of GetInstance, exactly.**  INVALID_NAMESPACE iff the namespace does not exist; otherwise
    INVALID_CLASS iff the class of the path does not exist there; otherwise NOT_FOUND iff no stored key equals
    the path (up to case and order); otherwise the stored properties, filtered, under the requested path. -/
theorem C10_get_status_exact (r : Repo) (path : Path) (pl : Option (List Name)) (o : RetOpts := {}) :
    let ns := effNs r path.ns
    let p := reqPath ns path
    (findNs r ns = none → (stepGet r path pl o).2 = errNs) ∧
    (∀ e, findNs r ns = some e → findCls e.classes path.cls = none → (stepGet r path pl o).2 = errClass) ∧
    (∀ e c, findNs r ns = some e → findCls e.classes path.cls = some c →
        (∀ s ∈ e.insts, normPath s.key ≠ normPath p) → (stepGet r path pl o).2 = errNotFound) ∧
    (∀ e c s, findNs r ns = some e → findCls e.classes path.cls = some c → lookupInst e.insts p = some s →
        (stepGet r path pl o).2 = .inst ⟨s.inst.cls, p,
          removeClassOrigin (removeQualifiers (filterProps pl s.inst.props)), false⟩) ∧
    (stepGet r path pl o).1 = r := by
  intro ns p
  unfold stepGet
  refine ⟨?_, ?_, ?_, ?_, ?_⟩
  · intro h; simp only [ns] at h; simp [h]
  · intro e h hc
    simp only [ns] at h
    have : (reqPath (effNs r path.ns) path).cls = path.cls := rfl
    simp [h, this, hc]
  · intro e c h hc hall
    simp only [ns] at h
    have hp : (reqPath (effNs r path.ns) path).cls = path.cls := rfl
    have hl : lookupInst e.insts (reqPath (effNs r path.ns) path) = none := by
      unfold lookupInst
      apply List.find?_eq_none.mpr
      intro s hs hpe
      exact hall s hs (pathEq_iff.mp hpe)
    simp [h, hp, hc, hl]
  · intro e c s h hc hl
    simp only [ns] at h
    have hp : (reqPath (effNs r path.ns) path).cls = path.cls := rfl
    simp only [p, ns] at hl
    simp [h, hp, hc, hl, getInstancePost_eq, retrieveSimple]
    rfl
  · have := (sim_get r path pl o).2.1
    unfold stepGet at this
    exact this

/-- **Case and order of names do not matter.**  Two GetInstance requests whose paths have the same normal
    form (class name, namespace, key names in any lexical case; keybindings in any order; boolean keys as
    integers) have the same outcome up to the lexical case of the returned path. -/
theorem C10_get_case_insensitive (r : Repo) (p q : Path) (pl : Option (List Name)) (o : RetOpts := {})
    (h : normPath { p with ns := some (effNs r p.ns), host := none } = normPath { q with ns := some (effNs r q.ns), host := none }) :
    normOut (stepGet r p pl o).2 = normOut (stepGet r q pl o).2 := by
  have hp := (sim_get r p pl o).1
  have hq := (sim_get r q pl o).1
  rw [hp, hq]
  unfold specGet
  have hd : (abs r).dflt = r.dflt := rfl
  have hk : keyIn p (p.ns.getD r.dflt) = keyIn q (q.ns.getD r.dflt) := h
  have hns : lower (p.ns.getD r.dflt) = lower (q.ns.getD r.dflt) := by
    have := congrArg Path.ns h
    simpa [normPath, effNs] using this
  have hcls : lower p.cls = lower q.cls := by
    have := congrArg Path.cls h
    simpa [normPath] using this
  have hf : sFindNs (abs r) (p.ns.getD r.dflt) = sFindNs (abs r) (q.ns.getD r.dflt) := by
    unfold sFindNs; rw [hns]
  simp only [hd, hf, hk]
  cases sFindNs (abs r) (q.ns.getD r.dflt) with
  | none => rfl
  | some e => simp only [findCls_congr e.classes hcls]

/-! ### the map laws (stated for schemas without association classes) -/

/-- **Get after Create.**  After a successful CreateInstance, GetInstance on the returned path answers the
    created instance: same class name, the returned path, and the same properties (names up to lexical
    case – they take the case of the class declaration –, types, arrayness and values unchanged), filtered
    by the PropertyList. -/
theorem C10_create_then_get_partial (r r' : Repo) (nsArg : Option Name) (inst : Inst) (p : Path)
    (pl : Option (List Name)) (hna : NoAssoc r) (h : stepCreate r nsArg inst = (r', .path p)) :
    ∃ ps, (stepGet r' p pl).2 =
        .inst ⟨inst.cls, p, removeClassOrigin (removeQualifiers (filterProps pl ps)), false⟩ ∧
      ps.map (fun q => (lower q.name, q.ty, q.isArr, q.val)) =
        inst.props.map (fun q => (lower q.name, q.ty, q.isArr, q.val)) := by
  obtain ⟨c, hc⟩ := get_after_create pl hna h
  refine ⟨adjustNames c inst.props, hc, ?_⟩
  unfold adjustNames
  rw [List.map_map]
  apply List.map_congr_left
  intro q _
  have := adjustName_same c q
  simp [Function.comp, this.1, this.2.1, this.2.2.1, this.2.2.2]

/-- **Create twice.**  Repeating a successful CreateInstance is refused with ALREADY_EXISTS and changes nothing. -/
theorem C10_create_twice_already_exists_partial (r r' : Repo) (nsArg : Option Name) (inst : Inst) (p : Path)
    (hna : NoAssoc r) (h : stepCreate r nsArg inst = (r', .path p)) :
    stepCreate r' nsArg inst = (r', errExists) :=
  create_twice hna h

/-- **Get after Delete.**  After a successful DeleteInstance, GetInstance on the same path answers NOT_FOUND. -/
theorem C10_delete_then_get_not_found_partial (r r' : Repo) (path : Path) (pl : Option (List Name))
    (hna : NoAssoc r) (h : stepDelete r path = (r', .unit)) :
    (stepGet r' path pl).2 = errNotFound :=
  get_after_delete pl hna h

/-- **Delete touches one key only.**  GetInstance on any path with a different key – another namespace,
    another class, other keybindings; compared in normal form – answers after the DeleteInstance what it
    answered before. -/
theorem C10_delete_frame_partial (r r' : Repo) (path q : Path) (pl : Option (List Name)) (hna : NoAssoc r)
    (h : stepDelete r path = (r', .unit))
    (hne : keyIn q (effNs r q.ns) ≠ keyIn path (effNs r path.ns)) :
    (stepGet r' q pl).2 = (stepGet r q pl).2 :=
  get_frame_delete pl hna h hne

/-! ### only documented status codes -/

/-- **Only documented errors (hypothesis `TameRun` as above).**  Every outcome of every history
    is a result, one of CIM_ERR_INVALID_NAMESPACE / INVALID_PARAMETER / INVALID_CLASS / NOT_FOUND /
    ALREADY_EXISTS – or `TypeError`, which by the next theorem needs an array- or embedded-object-valued
    property in a CreateInstance (it escapes only when that is a *key* property, which no valid schema declares). -/
theorem C10_only_documented_errors (r : Repo) (ops : List Op) (hf : Fresh r) (ht : TameRun r ops) :
    ∀ o ∈ (Pywbem.Model.Store.run r ops).2, Documented o := by
  intro o ho
  have h := (sim_run'' ops r ht (inv_empty r hf.nsUniq hf.empty)).1
  have : normOut o ∈ (Pywbem.Model.StoreSpec.run (abs r) ops).2 := by
    rw [← h]; exact List.mem_map_of_mem ho
  exact documented_normOut (srun_documented ops (abs r) _ this)

theorem C10_type_error_needs_nonscalar_value (r : Repo) (op : Op) (ht : Tame r op) (hinv : Inv r)
    (h : (step r op).2 = .err .typeError) :
    ∃ ns inst, op = .create ns inst ∧ ∃ p ∈ inst.props, notScalar p.val = true := by
  have hs := (sim_step'' r op ht hinv).1
  rw [h] at hs
  simp only [normOut] at hs
  cases op with
  | create ns i => exact ⟨ns, i, rfl, specCreate_typeError hs.symm⟩
  | modify p i pl =>
    exfalso
    simp only [sstep] at hs
    unfold specModify at hs
    simp only [] at hs
    repeat' split at hs
    all_goals simp [errNs, errClass, errParam, errNotFound] at hs
  | delete p =>
    exfalso
    simp only [sstep] at hs
    unfold specDelete at hs
    simp only [] at hs
    repeat' split at hs
    all_goals simp [errNs, errClass, errParam, errNotFound] at hs
  | get p pl o =>
    exfalso
    simp only [sstep] at hs
    unfold specGet at hs
    simp only [] at hs
    repeat' split at hs
    all_goals simp [errNs, errClass, errParam, errNotFound] at hs
  | enumInsts ns c di pl o =>
    exfalso
    simp only [sstep] at hs
    unfold specEnumInsts at hs
    simp only [] at hs
    repeat' split at hs
    all_goals simp [errNs, errClass, errParam, errNotFound] at hs
  | enumNames ns c =>
    exfalso
    simp only [sstep] at hs
    unfold specEnumNames at hs
    simp only [] at hs
    repeat' split at hs
    all_goals simp [errNs, errClass, errParam, errNotFound] at hs

/-- the TypeError is real: a class with an array-valued key property (a malformed schema) -/
def badCls : Cls :=
  { name := "BAD".toList, super := none, isAssoc := false,
    props := [{ name := "k".toList, ty := "string".toList, isArr := true, isKey := true, dflt := .null }] }
def badRepo : Repo := { nss := [{ name := "root/a".toList, classes := [badCls], insts := [] }], dflt := "root/a".toList }

def badInst : Inst :=
  { cls := "BAD".toList, props := [{ name := "k".toList, ty := "string".toList, isArr := true, val := Val.arr [] }] }

theorem C10_type_error_witness : (stepCreate badRepo none badInst).2 = .err .typeError := by
  decide

/-! ### the lookup predicate of the model is pywbem's path equality -/

/-- **`CIMInstanceName.__eq__` decides equality of normal forms.**  The procedure of the code – `_eq_name` on host,
    namespace and class name, `NocaseDict.__eq__` on the keybindings (every item of the left dict is looked up
    case-insensitively in the right one and the values are compared with `==`, recursively for reference
    values; then the lengths are compared) – answers True exactly when the two paths have the same normal form
    (names lower-cased, keybindings sorted, booleans as integers), for all paths whose keybindings are
    NocaseDicts.  So the model's dict lookup by normal form is lookup by `__eq__`. -/
theorem C10_path_eq_is_normal_form (p q : Path) (hp : PathWF p) (hq : PathWF q) :
    pyPathEq p q = true ↔ normPath p = normPath q :=
  Proofs.StoreEq.pyPathEq_iff_normPath p q hp hq

/-- non-vacuity: a path with two keybindings, one of them a reference -/
def demoEndPath : Path0 :=
  { cls := "TST_P".toList, ns := some "root/a".toList, host := none, keys := [("name".toList, Scalar.str "x".toList)] }
def demoPathWF : Path :=
  { cls := "TST_L".toList, ns := some "root/a".toList, host := none,
    keys := [("parent".toList, KV.ref demoEndPath), ("w".toList, KV.sc (Scalar.int 1))] }

example : PathWF demoPathWF := by
  refine ⟨by unfold KeysWF demoPathWF; decide, ?_⟩
  intro e he
  simp [demoPathWF] at he
  rcases he with rfl | rfl
  · unfold KVWF KeysWF demoEndPath; decide
  · trivial

/-- without the NocaseDict hypothesis the equivalence fails: keybinding lists with a repeated name -/
def dupL : Path := { cls := "C".toList, ns := none, host := none,
                     keys := [("a".toList, KV.sc (Scalar.int 1)), ("A".toList, KV.sc (Scalar.int 1))] }
def dupR : Path := { cls := "C".toList, ns := none, host := none,
                     keys := [("a".toList, KV.sc (Scalar.int 1)), ("b".toList, KV.sc (Scalar.int 5))] }

theorem C10_path_eq_is_normal_form_fails_without_nocasedict :
    ¬ (pyPathEq dupL dupR = true ↔ normPath dupL = normPath dupR) := by decide

/-! ### configuration the model is written for (regenerated from the source text on every run) -/

/-- The model strips qualifiers and class origins from returned instances unconditionally and never filters by
    LocalOnly: that is the code's behaviour exactly as long as these constants of pywbem_mock have these values
    (`Generated/Store.lean` is re-extracted from `pywbem_mock/config.py` and `_mainprovider.py` on every run; a
    changed value breaks this theorem instead of silently invalidating the model).  The status codes are the
    DSP0200 numbers. -/
theorem C10_model_config_pinned :
    ignoreInstanceIqParam = true ∧ ignoreInstanceIcoParam = true ∧ instanceRetrieveLocalOnly = false ∧
    defaultDeepInheritance = true ∧
    cimErrInvalidNamespace = 3 ∧ cimErrInvalidParameter = 4 ∧ cimErrInvalidClass = 5 ∧ cimErrNotFound = 6 ∧
    cimErrAlreadyExists = 11 := by decide

/-! ### the public calls: client-side argument handling in front of the store -/

/-- **Refinement for public calls.**  The same statement as `C10_refines_spec` one layer further out: histories of
    `FakedWBEMConnection` method calls with arbitrary Python arguments (namespace / class name / instance name /
    instance / PropertyList / boolean options of the right or of a wrong type, namespace given directly, with
    slashes, or through the object) – `callToOp` is the method's own argument handling. -/
theorem C10_calls_refine_spec (r : Repo) (calls : List Call) (hf : Fresh r) (ht : TameCalls r calls) :
    (Pywbem.Model.Store.runCalls r calls).2.map normOut = (Pywbem.Model.StoreSpec.runCalls (abs r) calls).2
      ∧ abs (Pywbem.Model.Store.runCalls r calls).1 = (Pywbem.Model.StoreSpec.runCalls (abs r) calls).1 := by
  have h := sim_runCalls calls r ht (inv_empty r hf.nsUniq hf.empty)
  exact ⟨h.1, h.2.1⟩

/-- non-vacuity: schemas without association classes admit every list of calls -/
example (calls : List Call) : TameCalls demoRepo calls := by
  refine Or.inl ?_
  intro e he c hc; simp [demoRepo] at he; rcases he with rfl | rfl <;> simp at hc <;> subst hc <;> rfl

/-- **Only documented exceptions escape a public call**: a result, one of the five CIM status codes, TypeError
    (an argument of a wrong Python type; or the non-scalar key value of `C10_type_error_needs_nonscalar_value`),
    or ValueError (ModifyInstance with an instance that has no path). -/
theorem C10_calls_only_documented_errors (r : Repo) (calls : List Call) (hf : Fresh r) (ht : TameCalls r calls) :
    ∀ o ∈ (Pywbem.Model.Store.runCalls r calls).2, DocumentedCall o := by
  intro o ho
  have h := (sim_runCalls calls r ht (inv_empty r hf.nsUniq hf.empty)).1
  have : normOut o ∈ (Pywbem.Model.StoreSpec.runCalls (abs r) calls).2 := by
    rw [← h]; exact List.mem_map_of_mem ho
  exact documentedCall_normOut (srunCalls_documented calls (abs r) _ this)

/-- **A refused call changes nothing**, and it is refused with TypeError or ValueError (no hypotheses). -/
theorem C10_bad_argument_changes_nothing (r : Repo) (c : Call) (e : PyExc) (h : callToOp c = .error e) :
    stepCall r c = (r, .err e) ∧ (e = .typeError ∨ e = .valueError) := by
  refine ⟨?_, callToOp_err h⟩
  unfold stepCall; rw [h]

example : callToOp (.modifyInstance (.inst ⟨"C".toList, [], false⟩ none) .none .none) = .error .valueError := rfl
example : callToOp (.getInstance .other .none .none .none .none) = .error .typeError := rfl

/-- **LocalOnly, IncludeQualifiers and IncludeClassOrigin do not reach the result** of GetInstance and
    EnumerateInstances (any values of the right type): with the configuration constants of the mock
    (`C10_model_config_pinned`) `_get_instance` removes qualifiers and class origins unconditionally and never
    applies LocalOnly. -/
theorem C10_retrieval_options_ignored (r : Repo) (p : Path) (pl : Option (List Name)) (ns : Option Name) (cls : Name)
    (di : Option Bool) (o o' : RetOpts) :
    step r (.get p pl o) = step r (.get p pl o') ∧
    step r (.enumInsts ns cls di pl o) = step r (.enumInsts ns cls di pl o') :=
  ⟨stepGet_opts r p pl o o', stepEnumInsts_opts r ns cls di pl o o'⟩

/-- … and what is returned carries no qualifiers and no class origins, whatever was stored -/
theorem C10_retrieved_properties_are_bare (r : Repo) (p : Path) (pl : Option (List Name)) (o : RetOpts) (i : RInst)
    (h : (stepGet r p pl o).2 = .inst i) : i.quals = false ∧ ∀ q ∈ i.props, q.quals = false ∧ q.origin = none := by
  unfold stepGet at h
  simp only [getInstancePost_eq, retrieveSimple] at h
  repeat' split at h
  all_goals first
    | (simp [errNs, errClass, errNotFound] at h; done)
    | skip
  simp at h
  subst h
  refine ⟨rfl, ?_⟩
  intro q hq
  simp only [removeClassOrigin, removeQualifiers, List.mem_map] at hq
  obtain ⟨q1, ⟨q0, _, rfl⟩, rfl⟩ := hq
  exact ⟨rfl, rfl⟩

/-- **A PropertyList given as one string is the one-element list** (`_iparam_propertylist`). -/
theorem C10_propertylist_string_is_singleton (n : NameArg) (lo iq ico : BoolArg) (x : Name) (mi : InstArg)
    (cls : ClsArg) (ns : NsArg) (di : BoolArg) :
    callToOp (.getInstance n lo iq ico (.str x)) = callToOp (.getInstance n lo iq ico (.list [x])) ∧
    callToOp (.modifyInstance mi iq (.str x)) = callToOp (.modifyInstance mi iq (.list [x])) ∧
    callToOp (.enumerateInstances cls ns lo di iq ico (.str x)) =
      callToOp (.enumerateInstances cls ns lo di iq ico (.list [x])) :=
  ⟨rfl, rfl, rfl⟩

/-- **Leading and trailing slashes of a namespace argument are ignored** (`_iparam_namespace_from_namespace`) -/
theorem C10_namespace_slashes_ignored (ni : InstArg) (cls : ClsArg) (n : Name) (lo di iq ico : BoolArg) (pl : PlArg) :
    stripSlashes (stripSlashes n) = stripSlashes n ∧
    callToOp (.createInstance ni (.str (stripSlashes n))) = callToOp (.createInstance ni (.str n)) ∧
    callToOp (.enumerateInstanceNames cls (.str (stripSlashes n))) = callToOp (.enumerateInstanceNames cls (.str n)) ∧
    callToOp (.enumerateInstances cls (.str (stripSlashes n)) lo di iq ico pl) =
      callToOp (.enumerateInstances cls (.str n) lo di iq ico pl) := by
  have hi := stripSlashes_idem n
  refine ⟨hi, ?_, ?_, ?_⟩ <;> simp [callToOp, createNsArg, enumNsArg, nsOfArg, hi]

example : stripSlashes "//root/a/".toList = "root/a".toList := by decide

/-- **A class given as CIMClassName is the class name plus, when no namespace argument is given, its namespace** -/
theorem C10_classname_object_is_name_and_namespace (c n : Name) (ns : NsArg) :
    callToOp (.enumerateInstanceNames (.clsName c none) ns) = callToOp (.enumerateInstanceNames (.str c) ns) ∧
    callToOp (.enumerateInstanceNames (.clsName c (some n)) .none) = callToOp (.enumerateInstanceNames (.str c) (.str n)) := by
  refine ⟨?_, ?_⟩
  · cases ns <;> rfl
  · rfl

/-! ### the map laws at full strength (any schema admitted by `Tame`, association instances in several namespaces
    included); the `_partial` versions above are kept unchanged -/

/-- **Get after Create.**  After a successful CreateInstance, GetInstance on the returned path answers the created
    instance (normalised path; properties with the names of the class declaration, without qualifiers and class
    origin, filtered by the PropertyList), whatever retrieval options are given. -/
theorem C10_create_then_get (r r' : Repo) (nsArg : Option Name) (inst : Inst) (p : Path)
    (ht : Tame r (.create nsArg inst)) (hinv : Inv r) (h : stepCreate r nsArg inst = (r', .path p))
    (pl : Option (List Name)) (o : RetOpts) :
    ∃ c, normOut (stepGet r' p pl o).2 = .inst ⟨inst.cls, normPath p,
      removeClassOrigin (removeQualifiers (filterProps pl (adjustNames c inst.props))), false⟩ :=
  create_then_get_full ht hinv h pl o

/-- **Create twice.**  Repeating a successful CreateInstance answers ALREADY_EXISTS and changes nothing. -/
theorem C10_create_twice_already_exists (r r' : Repo) (nsArg : Option Name) (inst : Inst) (p : Path)
    (ht : Tame r (.create nsArg inst)) (hinv : Inv r) (h : stepCreate r nsArg inst = (r', .path p)) :
    stepCreate r' nsArg inst = (r', errExists) :=
  create_twice_full ht hinv h

/-- **Get after Delete.**  After a successful DeleteInstance in a state satisfying the store invariant, GetInstance on
    the same path answers NOT_FOUND. -/
theorem C10_delete_then_get_not_found (r r' : Repo) (path : Path) (hinv : Inv r) (h : stepDelete r path = (r', .unit))
    (pl : Option (List Name)) (o : RetOpts) : (stepGet r' path pl o).2 = errNotFound :=
  delete_then_get_full hinv h pl o

/-- **Delete touches no other (class, keybindings).**  In every namespace, GetInstance for a path whose class name or
    keybindings differ in normal form from those of the deleted path answers what it answered before.  (A
    multi-namespace association instance is deleted under the same class and keybindings in every target
    namespace, which is why the namespace is not part of the condition; `C10_delete_frame_partial` has the
    per-namespace statement for schemas without association classes.) -/
theorem C10_delete_frame (r r' : Repo) (path q : Path) (hinv : Inv r) (h : stepDelete r path = (r', .unit))
    (pl : Option (List Name)) (o : RetOpts)
    (hne : bareKey (keyIn q (q.ns.getD r.dflt)) ≠ bareKey (keyIn path (path.ns.getD r.dflt))) :
    normOut (stepGet r' q pl o).2 = normOut (stepGet r q pl o).2 :=
  delete_frame_full hinv h q pl o hne

/-- **Get after Modify.**  After a successful ModifyInstance, GetInstance answers the instance it answered before with
    the supplied properties merged in: those named by the PropertyList (all supplied ones without PropertyList),
    listed-but-missing ones with their class default, names in the case of the class declaration; every other
    property as before. -/
theorem C10_modify_then_get (r r' : Repo) (path : Path) (inst : Inst) (pl : Option (List Name))
    (ht : Tame r (.modify path inst pl)) (hinv : Inv r) (h : stepModify r path inst pl = (r', .unit))
    (pl' : Option (List Name)) (o : RetOpts) :
    ∃ c oldCls oldProps,
      normOut (stepGet r path none o).2 = .inst ⟨oldCls, keyIn path (path.ns.getD r.dflt),
        removeClassOrigin (removeQualifiers oldProps), false⟩ ∧
      normOut (stepGet r' path pl' o).2 = .inst ⟨oldCls, keyIn path (path.ns.getD r.dflt),
        removeClassOrigin (removeQualifiers (filterProps pl'
          (updateProps oldProps (adjustNames c (reduceByPl c inst.props pl))))), false⟩ :=
  modify_then_get_full ht hinv h pl' o

/-- **A refused CreateInstance changes nothing** (no hypotheses). -/
theorem C10_refused_create_changes_nothing (r : Repo) (nsArg : Option Name) (inst : Inst) (e : PyExc)
    (h : (stepCreate r nsArg inst).2 = .err e) : (stepCreate r nsArg inst).1 = r :=
  stepCreate_err_state r nsArg inst e h

/-- non-vacuity of the laws: in the two-namespace association schema `demoRepoA` (fresh, so the invariant holds) the
    cross-namespace creation `demoCreateAssoc` is admitted by `Tame`; it is refused there (its end points do not
    exist), and the creation of an end point succeeds -/
example : Inv demoRepoA ∧ Tame demoRepoA demoCreateAssoc := by
  refine ⟨inv_empty demoRepoA (by unfold NsUnique demoRepoA; decide)
    (by intro e he; simp [demoRepoA] at he; rcases he with rfl | rfl <;> rfl), ?_⟩
  have hmem : ∀ e ∈ demoRepoA.nss, e.classes = [demoCls, demoAssoc] := by
    intro e he; simp [demoRepoA] at he; rcases he with rfl | rfl <;> rfl
  refine Or.inr ⟨?_, ?_, ?_⟩
  · intro e he c hc
    rw [hmem e he] at hc
    simp at hc
    rcases hc with rfl | rfl
    · refine ⟨?_, ?_⟩
      · intro d hd hty; simp [demoCls] at hd; rcases hd with rfl | rfl <;> exact absurd hty (by decide)
      · intro d hd q; simp [demoCls] at hd; rcases hd with rfl | rfl <;> simp
    · refine ⟨?_, ?_⟩
      · intro d hd _; simp [demoAssoc] at hd; rcases hd with rfl | rfl <;> rfl
      · intro d hd q; simp [demoAssoc] at hd; rcases hd with rfl | rfl <;> simp
  · intro e1 he1 e2 he2 n c1 c2 h1 h2
    rw [hmem e1 he1] at h1; rw [hmem e2 he2] at h2
    rw [h1] at h2; cases h2; rfl
  · refine ⟨?_, ?_⟩
    · intro p hp _
      simp at hp
      rcases hp with rfl | rfl <;> exact Or.inr ⟨_, rfl⟩
    · intro p hp _
      simp at hp
      rcases hp with rfl | rfl <;> rfl

def demoCreateP : Inst :=
  { cls := "tst_p".toList, props := [{ name := "NAME".toList, ty := "string".toList, isArr := false,
                                        val := Val.one (KV.sc (Scalar.str "x".toList)) }] }

example : (match (stepCreate demoRepoA (some "ROOT/B".toList) demoCreateP).2 with | .path _ => true | _ => false) = true := by
  decide

/-! ### ModifyInstance and the key properties -/

/-- **ModifyInstance never changes a key property, with or without PropertyList.**  After a successful ModifyInstance
    (any schema admitted by `Tame`, any ModifiedInstance, any PropertyList – naming key properties or not, supplying
    them or not) the instance GetInstance answers has, under every key property name of the class, a value that is
    Python-equal (`==` on the CIM values) to the value it had before: the checks of the dispatcher (a supplied key
    property must equal the stored one; a key property named in PropertyList but not supplied would be reset to its
    class default and is refused unless that is the stored value) leave `CIMInstance.update` nothing else to write. -/
theorem C10_modify_keeps_key_values (r r' : Repo) (path : Path) (inst : Inst) (pl : Option (List Name))
    (ht : Tame r (.modify path inst pl)) (hinv : Inv r) (h : stepModify r path inst pl = (r', .unit)) (o : RetOpts) :
    ∃ e c oldCls oldProps newProps,
      findNs r (effNs r path.ns) = some e ∧ findCls e.classes inst.cls = some c ∧
      normOut (stepGet r path none o).2 = .inst ⟨oldCls, keyIn path (path.ns.getD r.dflt),
        removeClassOrigin (removeQualifiers oldProps), false⟩ ∧
      normOut (stepGet r' path none o).2 = .inst ⟨oldCls, keyIn path (path.ns.getD r.dflt),
        removeClassOrigin (removeQualifiers newProps), false⟩ ∧
      ∀ n d sp, findDecl c n = some d → d.isKey = true → findProp oldProps n = some sp →
        ∃ q, findProp newProps n = some q ∧ valNe q.val sp.val = false :=
  modify_keeps_keys_full ht hinv h o

/-- non-vacuity, and the three ways of touching a key: on the repository holding TST_P.name="x", a modification of
    `v` under PropertyList ["V"] succeeds; supplying another key value, and naming the key in PropertyList without
    supplying it (it would be reset to the class default NULL), are refused with INVALID_PARAMETER -/
def demoStored : Repo := (stepCreate demoRepo none demoCreateP).1
def demoStoredPath : Path :=
  { cls := "TST_P".toList, ns := none, host := none, keys := [("Name".toList, KV.sc (Scalar.str "x".toList))] }
def demoV : PropV := { name := "v".toList, ty := "uint32".toList, isArr := false, val := Val.one (KV.sc (Scalar.int 5)) }
def demoOtherKey : PropV :=
  { name := "name".toList, ty := "string".toList, isArr := false, val := Val.one (KV.sc (Scalar.str "y".toList)) }

example :
    (stepModify demoStored demoStoredPath { cls := "TST_P".toList, props := [demoV] } (some ["V".toList])).2 = .unit ∧
    (stepModify demoStored demoStoredPath { cls := "TST_P".toList, props := [demoOtherKey] } none).2 = errParam ∧
    (stepModify demoStored demoStoredPath { cls := "TST_P".toList, props := [demoV] }
      (some ["v".toList, "NAME".toList])).2 = errParam := by
  decide

/-! ### the embedded-instance class check -/

/-- **Embedded instances are checked against the EmbeddedInstance class** (`_validate_property`, `is_subclass`; no
    hypotheses).  A CreateInstance that succeeds and a ModifyInstance that succeeds validated every supplied property:
    a property holding an embedded instance of class `ecls` is declared with that type and arrayness and either
    carries `EmbeddedInstance(k)` where `ecls` is a class of the namespace that is `k` or walks up the superclass
    chain to `k`, or (no EmbeddedInstance qualifier) is declared `EmbeddedObject`.  Conversely a CreateInstance with a
    property that fails the validation answers INVALID_PARAMETER and changes nothing. -/
theorem C10_embedded_instance_class_checked (r : Repo) (nsArg : Option Name) (inst : Inst) (path : Path)
    (pl : Option (List Name)) :
    (∀ p, (stepCreate r nsArg inst).2 = .path p →
      ∃ e c, findNs r (effNs r nsArg) = some e ∧ findCls e.classes inst.cls = some c ∧
        ∀ q ∈ inst.props, ∀ ecls txt, q.val = .emb false ecls txt → EmbChecked e.classes c q ecls) ∧
    ((stepModify r path inst pl).2 = .unit →
      ∃ e c, findNs r (effNs r path.ns) = some e ∧ findCls e.classes inst.cls = some c ∧
        ∀ q ∈ inst.props, ∀ ecls txt, q.val = .emb false ecls txt → EmbChecked e.classes c q ecls) ∧
    (∀ e c q, findNs r (effNs r nsArg) = some e → findCls e.classes inst.cls = some c → q ∈ inst.props →
      validProp e.classes c q = false → stepCreate r nsArg inst = (r, errParam)) := by
  refine ⟨?_, ?_, ?_⟩
  · intro p h
    obtain ⟨e, c, he, hc, hall⟩ := stepCreate_ok_valid h
    exact ⟨e, c, he, hc, fun q hq ecls txt hv => validProp_emb (hall q hq) hv⟩
  · intro h
    obtain ⟨e, c, he, hc, hall⟩ := stepModify_ok_valid h
    exact ⟨e, c, he, hc, fun q hq ecls txt hv => validProp_emb (hall q hq) hv⟩
  · intro e c q he hc hq hv
    exact stepCreate_invalid he hc hq hv

/-- non-vacuity: class TST_E has `[EmbeddedInstance("TST_P")] string ei`; an embedded instance of the subclass tst_q is
    accepted, one of the unrelated class Other and one of a class that is not in the repository are refused -/
def demoClsQ : Cls := { name := "tst_q".toList, super := some "TST_P".toList, isAssoc := false, props := demoCls.props }
def demoClsO : Cls := { name := "Other".toList, super := none, isAssoc := false, props := demoCls.props }
def demoClsE : Cls :=
  { name := "TST_E".toList, super := none, isAssoc := false,
    props := [{ name := "id".toList, ty := "string".toList, isArr := false, isKey := true, dflt := .null },
              { name := "ei".toList, ty := "string".toList, isArr := false, isKey := false, dflt := .null,
                embInst := some "TST_P".toList }] }
def demoRepoE : Repo :=
  { nss := [{ name := "root/a".toList, classes := [demoCls, demoClsQ, demoClsO, demoClsE], insts := [] }],
    dflt := "root/a".toList }
def demoInstE (ecls : String) : Inst :=
  { cls := "TST_E".toList,
    props := [{ name := "id".toList, ty := "string".toList, isArr := false, val := Val.one (KV.sc (Scalar.str "1".toList)) },
              { name := "EI".toList, ty := "string".toList, isArr := false, val := .emb false ecls.toList "…".toList }] }

example :
    (match (stepCreate demoRepoE none (demoInstE "TST_Q")).2 with | .path _ => true | _ => false) = true ∧
    (stepCreate demoRepoE none (demoInstE "Other")).2 = errParam ∧
    (stepCreate demoRepoE none (demoInstE "Nowhere")).2 = errParam := by
  decide

/-! ### case and order of names: the other operations; status codes of DeleteInstance -/

/-- **DeleteInstance does not depend on case or order in the path**: two requests whose paths have the same normal
    form (class name, namespace, key names in any lexical case, keybindings in any order) have the same outcome and
    leave the same reference map behind. -/
theorem C10_delete_case_insensitive (r : Repo) (p q : Path) (hinv : Inv r)
    (h : keyIn p (p.ns.getD r.dflt) = keyIn q (q.ns.getD r.dflt)) :
    (stepDelete r p).2 = (stepDelete r q).2 ∧ abs (stepDelete r p).1 = abs (stepDelete r q).1 := by
  have hp := sim_delete'' r p hinv
  have hq := sim_delete'' r q hinv
  have hd : (abs r).dflt = r.dflt := rfl
  have hs := specDelete_congr (abs r) (p := p) (q := q) (by rw [hd]; exact h)
  refine ⟨?_, by rw [hp.2.1, hq.2.1, hs]⟩
  have : normOut (stepDelete r p).2 = normOut (stepDelete r q).2 := by rw [hp.1, hq.1, hs]
  -- outcomes of DeleteInstance carry no paths: normalisation is the identity on them
  have hshape : ∀ x : Path, (∃ e, (stepDelete r x).2 = .err e) ∨ (stepDelete r x).2 = .unit := by
    intro x
    have hx := (sim_delete'' r x hinv).1
    unfold specDelete at hx
    simp only [] at hx
    repeat' split at hx
    all_goals first
      | exact Or.inl ⟨_, normOut_eq_err hx⟩
      | exact Or.inr (normOut_eq_unit hx)
  rcases hshape p with ⟨e, he⟩ | he <;> rcases hshape q with ⟨e', he'⟩ | he' <;> simp_all [normOut]

/-- **The enumerations do not depend on the case of the class name and of the namespace** (and EnumerateInstances
    not on the retrieval options). -/
theorem C10_enumerate_case_insensitive (r : Repo) (hinv : Inv r) (ns ns' : Option Name) (cls cls' : Name)
    (di : Option Bool) (pl : Option (List Name)) (o o' : RetOpts)
    (hn : lower (effNs r ns) = lower (effNs r ns')) (hc : lower cls = lower cls') :
    normOut (stepEnumNames r ns cls).2 = normOut (stepEnumNames r ns' cls').2 ∧
    normOut (stepEnumInsts r ns cls di pl o).2 = normOut (stepEnumInsts r ns' cls' di pl o').2 := by
  have hd : (abs r).dflt = r.dflt := rfl
  refine ⟨?_, ?_⟩
  · have e := specEnumNames_congr (abs r) (ns := ns) (ns' := ns') (cls := cls) (cls' := cls')
      (by rw [hd]; exact hn) hc
    rw [(sim_enumNames r ns cls hinv).1, (sim_enumNames r ns' cls' hinv).1, e]
  · have e := specEnumInsts_congr (abs r) (ns := ns) (ns' := ns') (cls := cls) (cls' := cls') di pl o o'
      (by rw [hd]; exact hn) hc
    rw [(sim_enumInsts r ns cls di pl hinv o).1, (sim_enumInsts r ns' cls' di pl hinv o').1, e]

/-- **Status codes of DeleteInstance, exactly** (in a state satisfying the store invariant): INVALID_NAMESPACE iff the
    namespace does not exist; otherwise INVALID_CLASS iff the class of the path does not exist there; otherwise
    NOT_FOUND iff no stored key equals the path; otherwise success. -/
theorem C10_delete_status_exact (r : Repo) (path : Path) (hinv : Inv r) :
    let ns := effNs r path.ns
    let p := reqPath ns path
    (findNs r ns = none → (stepDelete r path).2 = errNs) ∧
    (∀ e, findNs r ns = some e → findCls e.classes path.cls = none → (stepDelete r path).2 = errClass) ∧
    (∀ e c, findNs r ns = some e → findCls e.classes path.cls = some c →
        (∀ s ∈ e.insts, normPath s.key ≠ normPath p) → (stepDelete r path).2 = errNotFound) ∧
    (∀ e c s, findNs r ns = some e → findCls e.classes path.cls = some c → lookupInst e.insts p = some s →
        (stepDelete r path).2 = .unit) := by
  intro ns p
  have hsim := (sim_delete'' r path hinv).1
  have hp : (reqPath (effNs r path.ns) path).cls = path.cls := rfl
  refine ⟨?_, ?_, ?_, ?_⟩
  · intro h; unfold stepDelete; simp only [ns] at h; simp [h]
  · intro e h hc; unfold stepDelete; simp only [ns] at h; simp [h, hp, hc]
  · intro e c h hc hall
    have hl : lookupInst e.insts (reqPath (effNs r path.ns) path) = none := by
      unfold lookupInst
      apply List.find?_eq_none.mpr
      intro s hs hpe
      exact hall s hs (pathEq_iff.mp hpe)
    unfold stepDelete; simp only [ns] at h; simp [h, hp, hc, hl]
  · intro e c s h hc hl
    simp only [ns] at h
    simp only [p, ns] at hl
    apply normOut_eq_unit
    rw [hsim]
    unfold specDelete
    have hd : (abs r).dflt = r.dflt := rfl
    simp only [hd, sFindNs_abs]
    have h' : findNs r (path.ns.getD r.dflt) = some e := h
    rw [h']
    simp only [Option.map_some]
    have hcc : (absNs e).classes = e.classes := rfl
    rw [hcc, hc]
    simp only []
    rw [absNs_map, keyIn_eq, sLookup_abs]
    have hl' : lookupInst e.insts (reqPath (path.ns.getD r.dflt) path) = some s := hl
    rw [hl']
    rfl

/-! ### which instances an enumeration selects: the subclass list of the code -/

/-- **The subclass walks agree.**  The code collects the names of all subclasses of the requested class walking DOWN
    the class store (`MainProvider._get_subclass_names`, recursively over the direct subclasses, mirrored by
    `subclassNames` in Model/StoreSubclass.lean) and selects the instances whose class name is in that list or is
    the requested name (`_get_subclass_list_for_enums`, a NocaseList); the model walks UP the superclass chain of
    the instance's class (`descends`).  For every class store – any shape of the superclass links, dangling or
    cyclic links included – whose class names are pairwise different up to case (the class store is a NocaseDict)
    both select the same class names. -/
theorem C10_subclass_walk_down_is_up (cs : List Cls) (hu : cs.Pairwise (fun a b => lower a.name ≠ lower b.name))
    (target c : Name) : inEnumDown cs target c = descends cs cs.length c target :=
  inEnumDown_eq_descends cs hu target c

/-- … hence the enumerations of the model select exactly the stored instances whose class name is in the subclass
    list the code computes. -/
theorem C10_enumeration_selects_by_subclass_list (e : NsEntry)
    (hu : e.classes.Pairwise (fun a b => lower a.name ≠ lower b.name)) (cls : Name) :
    e.insts.filter (inEnum e cls) = e.insts.filter (fun s => inEnumDown e.classes cls s.path.cls) := by
  apply List.filter_congr
  intro s _
  unfold inEnum
  rw [inEnumDown_eq_descends e.classes hu]

/-- non-vacuity: a three-level tree with names in mixed case, and a class outside the tree -/
def demoTree : List Cls :=
  [⟨"Base".toList, none, false, []⟩, ⟨"mid".toList, some "BASE".toList, false, []⟩,
   ⟨"LEAF".toList, some "Mid".toList, false, []⟩, ⟨"Other".toList, none, false, []⟩]

example : demoTree.Pairwise (fun a b => lower a.name ≠ lower b.name) ∧
    subclassNames demoTree demoTree.length "base".toList = ["mid".toList, "LEAF".toList] ∧
    inEnumDown demoTree "base".toList "leaf".toList = true ∧ inEnumDown demoTree "base".toList "Other".toList = false := by
  decide

/-- the hypothesis is needed: with two classes of the same name (impossible in a NocaseDict) the lookup of the upward
    walk finds the first of them and the two walks differ -/
example : let cs : List Cls := [⟨"b".toList, none, false, []⟩, ⟨"B".toList, some "A".toList, false, []⟩, ⟨"A".toList, none, false, []⟩]
    inEnumDown cs "A".toList "B".toList = true ∧ descends cs cs.length "B".toList "A".toList = false := by
  decide

/-! ### isolation of the objects passed in and handed out -/

section Isolation
open Pywbem.Model.StoreAlias Proofs.StoreAlias

/-- **Isolation.**  Replay, for any history of the six operations on any stored entries, the copy calls the code
    makes (client-side `copy()`, dispatcher `deepcopy`, `from_instance`, the store's `create`/`get`/`iter_values`
    copies, `path.copy()` of the enumerations, the per-namespace copies of a multi-namespace modify – Model/
    StoreAlias.lean).  If the objects the client passes in consist of nodes it made itself or was handed before,
    then after the history no node held by the repository (keys and stored instances with all their property,
    value, path and nested reference objects) is a node the client holds: whatever the client changes in the
    objects it passed in or got back, the repository is not touched. -/
theorem C10_isolation (ops : List AOp) (hin : InputsOk cfg0 {} ops) :
    ∀ i ∈ storeIds (runA cfg0 {} ops), i ∉ (runA cfg0 {} ops).client ∧ ∀ n, i ≠ .cli n := by
  have h := iso_run ops {} iso_init hin
  intro i hi
  refine ⟨h.disjoint i hi, ?_⟩
  intro n hn
  obtain ⟨m, hm, _⟩ := h.storeSrv i hi
  rw [hn] at hm; cases hm

/-- non-vacuity: a client-made instance with a key property holding a mutable value, created and read back -/
def demoInstO : InstO := { id := .cli 0, props := [{ id := .cli 1, vals := [.cli 2] }, { id := .cli 3, vals := [] }], path := none }
def demoNameO : PathO := { id := .cli 4, kids := [.cli 5] }
def demoAOps : List AOp := [.create demoInstO [0], .get demoNameO 0, .enumNames [0], .modify demoInstO 0 1, .enumInsts [0]]

example : InputsOk cfg0 {} demoAOps ∧ (runA cfg0 {} demoAOps).store.length = 1 := by
  refine ⟨?_, by decide⟩
  simp only [demoAOps, InputsOk, InputOk, AOp.inputIds, and_true]
  refine ⟨?_, ?_, ?_, ?_, ?_⟩ <;> intro i hi <;> simp [demoInstO, demoNameO, InstO.nodes, PropO.nodes, PathO.nodes] at hi
  all_goals (first | trivial | (rcases hi with rfl | rfl | rfl | rfl <;> exact Or.inl ⟨_, rfl⟩) | (rcases hi with rfl | rfl <;> exact Or.inl ⟨_, rfl⟩))

/-- **Before fix F6** (`InMemoryObjectStore.create` used the caller's path object as dictionary key) the statement is
    false: after one CreateInstance the client holds the key of the stored instance. -/
theorem C10_isolation_fails_without_key_copy :
    ∃ i ∈ storeIds (runA { keyCopy := false } {} [.create demoInstO [0]]),
      i ∈ (runA { keyCopy := false } {} [.create demoInstO [0]]).client := by decide

/-- … likewise without the deep copy in `create` (seeded mutant m3: the stored instance carries the returned path) and
    without the copy in `get` (seeded mutant m4: GetInstance hands out the stored object). -/
theorem C10_isolation_fails_without_create_copy :
    ∃ i ∈ storeIds (runA { createCopy := false } {} [.create demoInstO [0]]),
      i ∈ (runA { createCopy := false } {} [.create demoInstO [0]]).client := by decide

theorem C10_isolation_fails_without_get_copy :
    ∃ i ∈ storeIds (runA { getCopy := false } {} [.create demoInstO [0], .get demoNameO 0]),
      i ∈ (runA { getCopy := false } {} [.create demoInstO [0], .get demoNameO 0]).client := by decide

end Isolation

end C10
