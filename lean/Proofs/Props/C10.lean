/-
C10 — The mock server's instance store is a faithful keyed map with CIM status codes.
ONLY property theorems, non-vacuity examples and witnesses live here; helper lemmas are in
Proofs/Lemmas/Store.lean.  Model: Pywbem/Model/Store.lean (mirrors the code after the `fix:` commits),
reference map: Pywbem/Model/StoreSpec.lean.

Full statement of the refinement (proved here for schemas without association classes; for
association classes – including instances living in several namespaces – the same equation is
checked at run time by the driver on every history of K, field "specAgrees"):

    ∀ r ops, Fresh r →
      (run r ops).2.map normOut = (StoreSpec.run (abs r) ops).2 ∧ abs (run r ops).1 = (StoreSpec.run (abs r) ops).1
-/
import Proofs.Lemmas.Store

namespace C10
open Pywbem.Proto Pywbem.Model.Store Pywbem.Model.StoreSpec Pywbem.Generated.Store Proofs.Store

/-- a freshly built repository: namespace names pairwise different, no instances yet -/
structure Fresh (r : Repo) : Prop where
  nsUniq : NsUnique r
  empty : ∀ e ∈ r.nss, e.insts = []

/-- **Refinement (partial: schemas without association classes).**  For every history of Create / Modify /
    Delete / Get / EnumerateInstances / EnumerateInstanceNames requests – valid or not, any namespaces, any
    paths – the outcomes of the model, with paths normalised (names lower-cased, keybindings sorted), are the
    outcomes of the reference map, and the final store is the final reference map. -/
theorem C10_refines_spec_partial (r : Repo) (ops : List Op) (hf : Fresh r) (hna : NoAssoc r) :
    (Pywbem.Model.Store.run r ops).2.map normOut = (Pywbem.Model.StoreSpec.run (abs r) ops).2
      ∧ abs (Pywbem.Model.Store.run r ops).1 = (Pywbem.Model.StoreSpec.run (abs r) ops).1 := by
  have h := sim_run ops r hna (inv_empty r hf.nsUniq hf.empty)
  exact ⟨h.1, h.2.1⟩

/-- one step of the same statement, from any state satisfying the store invariant -/
theorem C10_step_refines_spec_partial (r : Repo) (op : Op) (hna : NoAssoc r) (hinv : Inv r) :
    normOut (step r op).2 = (sstep (abs r) op).2 ∧ abs (step r op).1 = (sstep (abs r) op).1 := by
  have h := sim_step r op hna hinv
  exact ⟨h.1, h.2.1⟩

/-- **Keys are unique and consistent (partial: schemas without association classes).**  After any history, in
    every namespace: no two stored instances have equal keys (up to case and order); the path kept inside a
    stored instance equals the key it is stored under; the key carries no host and names the namespace it is
    stored in; the instance has every key property of its creation class. -/
theorem C10_store_invariant_partial (r : Repo) (ops : List Op) (hf : Fresh r) (hna : NoAssoc r) :
    ∀ e ∈ (Pywbem.Model.Store.run r ops).1.nss,
      e.insts.Pairwise (fun a b => normPath a.key ≠ normPath b.key) ∧
      (∀ s ∈ e.insts, normPath s.path = normPath s.key ∧ s.key.host = none ∧
        s.key.ns.map lower = some (lower e.name) ∧ lower s.inst.cls = lower s.key.cls ∧
        ∀ c, findCls e.classes s.key.cls = some c → ∀ d ∈ keyDecls c, (findProp s.inst.props d.name).isSome = true) := by
  have h := (sim_run ops r hna (inv_empty r hf.nsUniq hf.empty)).2.2
  intro e he
  have hi := h.entries e he
  exact ⟨hi.uniq, fun s hs => ⟨hi.pathKey s hs, hi.hostNone s hs, hi.nsOk s hs, hi.instCls s hs, hi.hasKeys s hs⟩⟩

/-- non-vacuity of the hypotheses: a two-namespace repository with a key class -/
def demoCls : Cls :=
  { name := "TST_P".toList, super := none, isAssoc := false,
    props := [{ name := "name".toList, ty := "string".toList, isArr := false, isKey := true, dflt := .null },
              { name := "v".toList, ty := "uint32".toList, isArr := false, isKey := false, dflt := .null }] }
def demoRepo : Repo :=
  { nss := [{ name := "root/a".toList, classes := [demoCls], insts := [] },
            { name := "Root/B".toList, classes := [demoCls], insts := [] }], dflt := "root/a".toList }

example : Fresh demoRepo ∧ NoAssoc demoRepo := by
  refine ⟨⟨?_, ?_⟩, ?_⟩
  · unfold NsUnique demoRepo; decide
  · intro e he; simp [demoRepo] at he; rcases he with rfl | rfl <;> rfl
  · intro e he c hc; simp [demoRepo] at he; rcases he with rfl | rfl <;> simp at hc <;> subst hc <;> rfl

/-- **Enumerations never fail on a stored instance.**  In every state satisfying the store invariant,
    EnumerateInstances answers INVALID_NAMESPACE, INVALID_CLASS or a list – never NOT_FOUND (the failure the
    multi-namespace ModifyInstance defect produced), never anything else. -/
theorem C10_enumerate_total (r : Repo) (hinv : Inv r) (ns : Option Name) (cls : Name) (di : Option Bool)
    (pl : Option (List Name)) :
    (stepEnumInsts r ns cls di pl).2 = errNs ∨ (stepEnumInsts r ns cls di pl).2 = errClass ∨
      ∃ l, (stepEnumInsts r ns cls di pl).2 = .insts l := by
  unfold stepEnumInsts
  cases hns : findNs r (effNs r ns) with
  | none => simp [hns]
  | some e =>
    cases hcl : findCls e.classes cls with
    | none => simp [hns, hcl]
    | some c =>
      have hie := hinv.entries e (findNs_mem hns).1
      simp only [hns, hcl]
      rw [enumCollect_ok _ _ _ hie.uniq hie.pathKey _ (fun s hs => (List.mem_filter.mp hs).1)]
      exact Or.inr (Or.inr ⟨_, rfl⟩)

/-- … and without the invariant it does: a stored instance whose own path differs from its key
    (the state the unfixed `modify_multi_namespace_instance` produced) makes the enumeration fail. -/
def brokenRepo : Repo :=
  { nss := [{ name := "root/a".toList, classes := [demoCls],
              insts := [{ key := { cls := "TST_P".toList, ns := some "root/a".toList, host := none,
                                   keys := [("name".toList, .sc (.str "x".toList))] },
                          path := { cls := "TST_P".toList, ns := some "root/b".toList, host := none,
                                    keys := [("name".toList, .sc (.str "x".toList))] },
                          inst := { cls := "TST_P".toList, props := [] } }] }], dflt := "root/a".toList }

theorem C10_enumerate_total_fails_without_invariant :
    (stepEnumInsts brokenRepo none "TST_P".toList none none).2 = errNotFound := by decide

/-- **Status codes of GetInstance, exactly.**  INVALID_NAMESPACE iff the namespace does not exist; otherwise
    INVALID_CLASS iff the class of the path does not exist there; otherwise NOT_FOUND iff no stored key equals
    the path (up to case and order); otherwise the stored properties, filtered, under the requested path. -/
theorem C10_get_status_exact (r : Repo) (path : Path) (pl : Option (List Name)) :
    let ns := effNs r path.ns
    let p := reqPath ns path
    (findNs r ns = none → (stepGet r path pl).2 = errNs) ∧
    (∀ e, findNs r ns = some e → findCls e.classes path.cls = none → (stepGet r path pl).2 = errClass) ∧
    (∀ e c, findNs r ns = some e → findCls e.classes path.cls = some c →
        (∀ s ∈ e.insts, normPath s.key ≠ normPath p) → (stepGet r path pl).2 = errNotFound) ∧
    (∀ e c s, findNs r ns = some e → findCls e.classes path.cls = some c → lookupInst e.insts p = some s →
        (stepGet r path pl).2 = .inst { cls := s.inst.cls, path := p, props := filterProps pl s.inst.props }) ∧
    (stepGet r path pl).1 = r := by
  intro ns p
  unfold stepGet
  refine ⟨?_, ?_, ?_, ?_, ?_⟩
  · intro h; simp only [ns] at h; simp [h]
  · intro e h hc
    simp only [ns] at h
    have : (reqPath (effNs r path.ns) path).cls = path.cls := rfl
    simp [h, this, hc]
  · intro e c h hc hall
    simp only [ns] at h
    have hp : (reqPath (effNs r path.ns) path).cls = path.cls := rfl
    have hl : lookupInst e.insts (reqPath (effNs r path.ns) path) = none := by
      unfold lookupInst
      apply List.find?_eq_none.mpr
      intro s hs hpe
      exact hall s hs (pathEq_iff.mp hpe)
    simp [h, hp, hc, hl]
  · intro e c s h hc hl
    simp only [ns] at h
    have hp : (reqPath (effNs r path.ns) path).cls = path.cls := rfl
    simp only [p, ns] at hl
    simp [h, hp, hc, hl]
    rfl
  · have := (sim_get r path pl).2.1
    unfold stepGet at this
    exact this

/-- **Case and order of names do not matter.**  Two GetInstance requests whose paths have the same normal
    form (class name, namespace, key names in any lexical case; keybindings in any order; boolean keys as
    integers) have the same outcome up to the lexical case of the returned path. -/
theorem C10_get_case_insensitive (r : Repo) (p q : Path) (pl : Option (List Name))
    (h : normPath { p with ns := some (effNs r p.ns), host := none } = normPath { q with ns := some (effNs r q.ns), host := none }) :
    normOut (stepGet r p pl).2 = normOut (stepGet r q pl).2 := by
  have hp := (sim_get r p pl).1
  have hq := (sim_get r q pl).1
  rw [hp, hq]
  unfold specGet
  have hd : (abs r).dflt = r.dflt := rfl
  have hk : keyIn p (p.ns.getD r.dflt) = keyIn q (q.ns.getD r.dflt) := h
  have hns : lower (p.ns.getD r.dflt) = lower (q.ns.getD r.dflt) := by
    have := congrArg Path.ns h
    simpa [normPath, effNs] using this
  have hcls : lower p.cls = lower q.cls := by
    have := congrArg Path.cls h
    simpa [normPath] using this
  have hf : sFindNs (abs r) (p.ns.getD r.dflt) = sFindNs (abs r) (q.ns.getD r.dflt) := by
    unfold sFindNs; rw [hns]
  simp only [hd, hf, hk]
  cases sFindNs (abs r) (q.ns.getD r.dflt) with
  | none => rfl
  | some e => simp only [findCls_congr e.classes hcls]

end C10
