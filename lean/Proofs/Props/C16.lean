/-
C16 — Accepted indications reach each callback exactly once in order; stop() is clean.
ONLY property theorems, non-vacuity examples and witnesses live here; helper lemmas are in
Proofs/Lemmas/Listener.lean.  Every theorem about `Reachable c n s` quantifies over ALL
schedules of the step relation of Pywbem/Model/Listener.lean: any number `n` of senders,
any number of indications per sender, callbacks of any duration (any number of other steps
between entering and leaving a callback, leaving by return or by raise), any sequence of
start()/stop() calls that does not call start() on a started listener, bounded or unbounded
queue, any number `c.ncb` of callbacks.

`c.proto = .fixed` is the code after the `fix:` commit; for `.old` (the code before it) the
bad schedules are kept as kernel-checked witnesses at the end of the file.
-/
import Proofs.Lemmas.Listener
import Pywbem.Generated.ListenerThreads

namespace C16
open Pywbem.Model.Listener Pywbem.Proto Proofs.Listener

/-- a concrete complete run used by the non-vacuity examples: start, one indication accepted,
    delivered to the single callback, stop() called while the callback is running, stop returns -/
def demoTrace : List Label :=
  [.start, .main, .main, .main, .cb false, .snd 0, .snd 0, .snd 0, .cb false, .cb false,
   .stop, .main, .main, .main, .cb true, .cb false, .main, .cb false, .cb false, .main]

def fixedCfg : Cfg := { proto := .fixed, maxQ := 0, ncb := 1 }
def oldCfg : Cfg := { proto := .old, maxQ := 0, ncb := 1 }

/-- **Conservation and log shape (exactly once, global FIFO, registration order).**
    In every reachable state of the fixed protocol the accepted indications `enq` (in the order
    of their successful `put`) split into: completely delivered ++ the one the callback thread
    holds ++ still queued; and the callback log is exactly: for each completely delivered
    indication, in that order, callbacks 0,1,…,ncb-1 once each, followed by the callbacks
    already entered for the indication in flight (0,1,…, in registration order). -/
theorem C16_delivery_log_shape (c : Cfg) (hc : c.proto = .fixed) (n : Nat) (s : Sys)
    (h : Reachable c n s) :
    s.dlv ++ inflight s ++ s.queue = s.enq ∧ s.log = expand c.ncb s.dlv ++ partialLog c s :=
  let d := (inv_reachable hc h).data
  ⟨d.conserve, d.logOk⟩

/-- **stop() is clean and complete.**  Whenever the main thread is between API calls and the last
    call was stop() (or nothing was called yet): every accepted indication has been delivered to
    every callback exactly in `expand` order, exactly the accepted indications were acknowledged,
    no exception was ever raised by start()/stop(), the callback thread has ended (or never
    existed), no server exists or accepts, no handler thread is alive, queue and thread
    references are cleared. -/
theorem C16_stop_returns_clean (c : Cfg) (hc : c.proto = .fixed) (n : Nat) (s : Sys)
    (h : Reachable c n s) (hidle : s.main = .idle) (hup : s.up = false) :
    s.log = expand c.ncb s.enq ∧ (∀ x, x ∈ s.acked ↔ x ∈ s.enq) ∧ s.errs = [] ∧
    (s.cb = .off ∨ s.cb = .done false) ∧ s.srv = false ∧ s.accepting = false ∧
    allIdle s.senders = true ∧ s.qref = false ∧ s.thrRef = false ∧ s.queue = [] := by
  have I := inv_reachable hc h
  have m := I.ctl.mainOK
  simp [MainOK, hidle, hup] at m
  obtain ⟨ht, hq, hsrv, hsrv2, hqueue⟩ := m
  have hquiet := I.ctl.nothr_cb ht
  have hidleAll := allIdle_of_idleOn (I.ctl.nosrv_idle hsrv) (I.ctl.nosrv2_idle hsrv2)
  have hacc : s.accepting = false := by
    cases ha : s.accepting
    · rfl
    · have := I.ctl.acc_srv ha; simp_all
  have hin : inflight s = [] := by rcases hquiet with e | e <;> simp [inflight, e]
  have hpl : partialLog c s = [] := by rcases hquiet with e | e <;> simp [partialLog, e]
  have hd : s.dlv = s.enq := by simpa [hin, hqueue] using I.data.conserve
  refine ⟨?_, ?_, I.ctl.noErr, hquiet, hsrv, hacc, hidleAll, hq, ht, hqueue⟩
  · simpa [hd, hpl] using I.data.logOk
  · intro x
    constructor
    · intro hx
      rcases I.uniq.ack_enq x hx with h1 | h1
      · exact h1
      · simp [I.ctl.noIgn] at h1
    · intro hx
      rcases I.uniq.enq_ack x hx with h1 | ⟨sd, hsd, hpc, _⟩
      · exact h1
      · have := allIdle_get hidleAll hsd
        simp [this] at hpc

example : ∃ s, Reachable fixedCfg 1 s ∧ s.main = .idle ∧ s.up = false ∧ s.enq = [(0, 0)] ∧
    s.log = [(0, (0, 0))] := by
  refine ⟨_, reachable_runTrace Reachable.init demoTrace (s' := (runTrace fixedCfg demoTrace (init 1)).get (by decide)) (by simp), ?_⟩
  decide

/-- **start()/stop() never raise** (fixed protocol): in particular stop() never re-raises an
    exception of the callback thread and a start() after a stop() never fails its assertions
    (the listener is restartable), under every schedule. -/
theorem C16_no_exception_from_start_stop (c : Cfg) (hc : c.proto = .fixed) (n : Nat) (s : Sys)
    (h : Reachable c n s) : s.errs = [] ∧ s.cb ≠ .done true :=
  ⟨(inv_reachable hc h).ctl.noErr, (inv_reachable hc h).ctl.noExc⟩

/-- the steps of start() after the call: Queue(), CallbackThread.start(), one server per configured port -/
def startSteps (c : Cfg) : List Label :=
  [.main, .main] ++ (if c.http then [.main] else []) ++ (if c.https then [.main] else [])

/-- **Restartable, any port configuration.**  From every state in which stop() has returned, the steps
    of start() are enabled one after the other without interference being necessary, start() returns
    without exception, and every configured port (HTTP, HTTPS, both, none) accepts indications again. -/
theorem C16_restartable_any_ports (c : Cfg) (hc : c.proto = .fixed) (n : Nat) (s : Sys)
    (h : Reachable c n s) (hidle : s.main = .idle) (hup : s.up = false) :
    ∃ s', runTrace c (.start :: startSteps c) s = some s' ∧ s'.main = .idle ∧ s'.up = true ∧
      s'.accepting = c.http ∧ s'.accepting2 = c.https ∧ s'.srv = c.http ∧ s'.srv2 = c.https ∧
      s'.qref = true ∧ s'.cb = .run ∧ s'.errs = [] := by
  have I := inv_reachable hc h
  have m := I.ctl.mainOK
  simp [MainOK, hidle, hup] at m
  obtain ⟨ht, hq, hs1, hs2, _⟩ := m
  have ha1 : s.accepting = false := by
    cases ha : s.accepting
    · rfl
    · have := I.ctl.acc_srv ha; simp_all
  have ha2 : s.accepting2 = false := by
    cases ha : s.accepting2
    · rfl
    · have := I.ctl.acc_srv2 ha; simp_all
  cases h1 : c.http <;> cases h2 : c.https <;>
    simp [startSteps, runTrace, step, stepStart, stepMain, startServers, hidle, hup, ht, hq, hs1, hs2, ha1, ha2,
      h1, h2, I.ctl.noErr]

/-- **Restartable.**  From every state in which stop() has returned, the four steps of start()
    are enabled one after the other without interference being necessary, start() returns
    without exception, and the listener accepts indications again.  (Stated for the configuration the
    first version of the model had, HTTP port only; `C16_restartable_any_ports` is the general form.) -/
theorem C16_restartable (c : Cfg) (hc : c.proto = .fixed) (hh : c.http = true) (hs : c.https = false) (n : Nat) (s : Sys)
    (h : Reachable c n s) (hidle : s.main = .idle) (hup : s.up = false) :
    ∃ s', runTrace c [.start, .main, .main, .main] s = some s' ∧ s'.main = .idle ∧ s'.up = true ∧
      s'.accepting = true ∧ s'.qref = true ∧ s'.cb = .run ∧ s'.errs = [] := by
  obtain ⟨s', h1, h2, h3, h4, _, _, _, h5, h6, h7⟩ := C16_restartable_any_ports c hc n s h hidle hup
  refine ⟨s', ?_, h2, h3, ?_, h5, h6, h7⟩
  · simpa [startSteps, hh, hs] using h1
  · simpa [hh] using h4

/-- **At most once, always.**  In every reachable state, every (callback, indication) pair occurs at
    most once in the callback log: no callback is ever invoked twice for the same indication. -/
theorem C16_at_most_once (c : Cfg) (hc : c.proto = .fixed) (n : Nat) (s : Sys)
    (h : Reachable c n s) (k : Nat) (x : Ind) : s.log.count (k, x) ≤ 1 := by
  have I := inv_reachable hc h
  have hnd : (s.dlv ++ inflight s ++ s.queue).Nodup := by
    rw [I.data.conserve]; exact perSender_nodup _ I.uniq.order
  have hnd2 : (s.dlv ++ inflight s).Nodup := (List.nodup_append.mp hnd).1
  have hcx : (s.dlv ++ inflight s).count x ≤ 1 := List.nodup_iff_count.mp hnd2 x
  rw [I.data.logOk, List.count_append, count_expand]
  rcases partialLog_calls c s with ⟨hi, hp⟩ | ⟨y, m, hi, hp⟩
  · rw [hp]; rw [hi] at hcx; simp at hcx ⊢; split <;> omega
  · rw [hp, count_calls]; rw [hi, List.count_append, List.count_singleton] at hcx
    by_cases hxy : x = y
    · subst hxy; simp at hcx; simp [hcx]; split <;> omega
    · simp [hxy]; split <;> omega

/-- **Exactly once when stopped.**  After stop() has returned, every acknowledged indication has been
    passed to every registered callback exactly once, and nothing else has been passed to any callback. -/
theorem C16_exactly_once_when_stopped (c : Cfg) (hc : c.proto = .fixed) (n : Nat) (s : Sys)
    (h : Reachable c n s) (hidle : s.main = .idle) (hup : s.up = false) (k : Nat) (x : Ind) :
    s.log.count (k, x) = if k < c.ncb ∧ x ∈ s.acked then 1 else 0 := by
  obtain ⟨hlog, hack, _⟩ := C16_stop_returns_clean c hc n s h hidle hup
  have U := uniq_reachable h
  have hnd := perSender_nodup _ U.order
  rw [hlog, count_expand]
  by_cases hk : k < c.ncb
  · by_cases hx : x ∈ s.enq
    · have h1 : s.enq.count x ≤ 1 := List.nodup_iff_count.mp hnd x
      have h2 : 0 < s.enq.count x := List.count_pos_iff.mpr hx
      simp [hk, (hack x).mpr hx]; omega
    · have : s.enq.count x = 0 := List.count_eq_zero.mpr hx
      have hx' : x ∉ s.acked := fun ha => hx ((hack x).mp ha)
      simp [hk, hx', this]
  · simp [hk]

/-- **stop() can always return.**  From every reachable state of the fixed protocol there is a
    continuation schedule, without any further start() call, after which stop() has returned (and
    then everything of `C16_stop_returns_clean` holds): no schedule can bring the listener into a
    state from which stop() cannot complete (no deadlock between join(), server_close() and the
    handler threads; the polling loops end once the queue is drained).  This is possibility under
    some schedule; termination under every *fair* schedule is not claimed here. -/
theorem C16_stop_can_always_return (c : Cfg) (hc : c.proto = .fixed) (n : Nat) (s : Sys)
    (h : Reachable c n s) :
    ∃ ls s', (∀ l ∈ ls, l ≠ .start) ∧ runTrace c ls s = some s' ∧ s'.main = .idle ∧ s'.up = false :=
  can_stop hc (measure c s) s h (Nat.le_refl _)

/-- **Each callback sees a sub-sequence of the accepted indications, in queue order** (fixed protocol,
    every reachable state): the indications handed to callback `k` so far, in the order of the calls,
    are a sublist of `enq`; hence strictly increasing per sender (the order the sender sent them and they
    were acknowledged) and free of duplicates. -/
theorem C16_callback_sees_in_order (c : Cfg) (hc : c.proto = .fixed) (n : Nat) (s : Sys)
    (h : Reachable c n s) (k : Nat) :
    (seenBy k s.log).Sublist s.enq ∧
    (seenBy k s.log).Pairwise (fun a b => a.1 = b.1 → a.2 < b.2) := by
  have I := inv_reachable hc h
  have hsub : (seenBy k s.log).Sublist s.enq := by
    rw [I.data.logOk, seenBy_append, seenBy_expand, ← I.data.conserve]
    have h2 : (seenBy k (partialLog c s)).Sublist (inflight s) := by
      rcases partialLog_calls c s with ⟨hi, hp⟩ | ⟨y, m, hi, hp⟩
      · rw [hp, hi]; simp [seenBy]
      · rw [hp, hi, seenBy_calls]; split <;> simp
    have h1 : (if k < c.ncb then s.dlv else []).Sublist s.dlv := by split <;> simp
    rw [List.append_assoc]
    exact List.Sublist.append h1 (List.Sublist.trans h2 (List.sublist_append_left _ _))
  exact ⟨hsub, List.Pairwise.sublist hsub I.uniq.order⟩

/-- **When stopped, every callback has seen exactly the accepted indications, in queue order.** -/
theorem C16_every_callback_saw_all (c : Cfg) (hc : c.proto = .fixed) (n : Nat) (s : Sys)
    (h : Reachable c n s) (hidle : s.main = .idle) (hup : s.up = false) (k : Nat) (hk : k < c.ncb) :
    seenBy k s.log = s.enq := by
  obtain ⟨hlog, _⟩ := C16_stop_returns_clean c hc n s h hidle hup
  rw [hlog, seenBy_expand]; simp [hk]

/-- **A raising callback changes nothing** (by construction of the model, mirroring the
    `try/except Exception` around each callback call): the transition taken when a callback is left by
    an exception is the one taken when it returns. -/
theorem C16_callback_raise_irrelevant (c : Cfg) (s : Sys) : step c (.cb true) s = step c (.cb false) s := rfl

/-- **Acknowledged ⇒ enqueued.**  No indication is acknowledged with a success response without
    having been put into the queue (the "`_ind_queue is None` – ignoring indication" branch of
    `_handle_indication` is unreachable: stop() joins all handler threads before it touches the
    queue reference). -/
theorem C16_acked_implies_enqueued (c : Cfg) (hc : c.proto = .fixed) (n : Nat) (s : Sys)
    (h : Reachable c n s) : s.ignored = [] ∧ ∀ x ∈ s.acked, x ∈ s.enq := by
  have I := inv_reachable hc h
  refine ⟨I.ctl.noIgn, ?_⟩
  intro x hx
  rcases I.uniq.ack_enq x hx with h1 | h1
  · exact h1
  · simp [I.ctl.noIgn] at h1

/-- **Refused is never delivered.**  An indication answered with the queue-full CIM error is never
    put into the queue, never acknowledged, and never passed to any callback. -/
theorem C16_refused_never_delivered (c : Cfg) (hc : c.proto = .fixed) (n : Nat) (s : Sys)
    (h : Reachable c n s) (x : Ind) (hx : x ∈ s.refused) :
    x ∉ s.enq ∧ x ∉ s.acked ∧ ∀ k, (k, x) ∉ s.log := by
  have I := inv_reachable hc h
  have hne := I.uniq.ref_not_enq x hx
  refine ⟨hne, ?_, ?_⟩
  · intro ha
    rcases I.uniq.ack_enq x ha with h1 | h1
    · exact hne h1
    · simp [I.ctl.noIgn] at h1
  · intro k hk
    rw [I.data.logOk] at hk
    have hsub : x ∈ s.dlv ++ inflight s := by
      rcases List.mem_append.mp hk with h1 | h1
      · exact List.mem_append_left _ (mem_expand.mp h1).2
      · exact List.mem_append_right _ (partialLog_sub h1)
    apply hne
    rw [← I.data.conserve]
    exact List.mem_append_left _ hsub

/-- **Per-sender order and uniqueness** (both protocols).  Among accepted indications, among
    acknowledged ones and among refused ones, those of one sender appear in strictly increasing
    sequence number, i.e. in the order the sender sent them (which is the order they were
    acknowledged, a sender sends the next indication after the response to the previous one);
    in particular no indication is accepted, acknowledged or refused twice.  Together with
    `C16_delivery_log_shape` (delivery order = `enq` order) indications of one sender reach the
    callbacks in the order they were acknowledged. -/
theorem C16_per_sender_order (c : Cfg) (n : Nat) (s : Sys) (h : Reachable c n s) :
    s.enq.Pairwise (fun a b => a.1 = b.1 → a.2 < b.2) ∧
    s.acked.Pairwise (fun a b => a.1 = b.1 → a.2 < b.2) ∧
    s.refused.Pairwise (fun a b => a.1 = b.1 → a.2 < b.2) ∧
    s.enq.Nodup ∧ s.acked.Nodup := by
  have U := uniq_reachable h
  have nd : ∀ l : List Ind, l.Pairwise perSender → l.Nodup := by
    intro l hl
    refine List.Pairwise.imp ?_ hl
    intro a b hab e
    subst e
    exact Nat.lt_irrefl _ (hab rfl)
  exact ⟨U.order, U.ackOrder, U.refOrder, nd _ U.order, nd _ U.ackOrder⟩

/-- **Queue bound** (both protocols): a bounded queue never holds more than `max_ind_queue_size`. -/
theorem C16_queue_bound (c : Cfg) (n : Nat) (s : Sys) (h : Reachable c n s) (hq : c.maxQ ≠ 0) :
    s.queue.length ≤ c.maxQ :=
  (uniq_reachable h).qbound hq

example : ∃ s, Reachable { proto := .fixed, maxQ := 1, ncb := 1 } 2 s ∧ s.refused = [(1, 0)] ∧ s.queue = [(0, 0)] := by
  let tr : List Label := [.start, .main, .main, .main, .snd 0, .snd 1, .snd 0, .snd 1, .snd 1]
  refine ⟨_, reachable_runTrace Reachable.init tr
    (s' := (runTrace { proto := .fixed, maxQ := 1, ncb := 1 } tr (init 2)).get (by decide)) (by simp), ?_⟩
  decide

/-! ### two servers (HTTP and HTTPS port), any port configuration -/

def bothCfg : Cfg := { proto := .fixed, maxQ := 0, ncb := 1, http := true, https := true }

/-- both ports: start, one indication over HTTP (sender 0) and one over HTTPS (sender 1), stop() with the HTTPS
    handler still running (server_close of the HTTPS server waits for it), everything delivered -/
def bothTrace : List Label :=
  [.start, .main, .main, .main, .main, .cb false, .snd 0, .sndTls 1, .snd 0, .snd 0, .snd 1,
   .stop, .main, .main, .main, .snd 1, .main, .cb false, .cb false, .cb false, .cb false, .cb false, .cb false,
   .cb false, .cb false, .main, .main, .cb false, .cb false, .main]

/-- **stop() leaves no server behind, for every port configuration.**  Whenever stop() has returned: neither
    the HTTP nor the HTTPS server object exists, neither port accepts, no handler thread of either server is
    alive (each `server_close()` joined its own), and the callback thread has ended. -/
theorem C16_stop_leaves_no_server (c : Cfg) (hc : c.proto = .fixed) (n : Nat) (s : Sys)
    (h : Reachable c n s) (hidle : s.main = .idle) (hup : s.up = false) :
    s.srv = false ∧ s.srv2 = false ∧ s.accepting = false ∧ s.accepting2 = false ∧
    allIdle s.senders = true ∧ (s.cb = .off ∨ s.cb = .done false) := by
  have I := inv_reachable hc h
  have m := I.ctl.mainOK
  simp [MainOK, hidle, hup] at m
  obtain ⟨ht, _, hs1, hs2, _⟩ := m
  refine ⟨hs1, hs2, ?_, ?_, allIdle_of_idleOn (I.ctl.nosrv_idle hs1) (I.ctl.nosrv2_idle hs2), I.ctl.nothr_cb ht⟩
  · cases ha : s.accepting
    · rfl
    · have := I.ctl.acc_srv ha; simp_all
  · cases ha : s.accepting2
    · rfl
    · have := I.ctl.acc_srv2 ha; simp_all

example : ∃ s, Reachable bothCfg 2 s ∧ s.main = .idle ∧ s.up = false ∧ s.enq = [(0, 0), (1, 0)] ∧
    s.log = [(0, (0, 0)), (0, (1, 0))] ∧ s.acked = [(0, 0), (1, 0)] := by
  refine ⟨_, reachable_runTrace Reachable.init bothTrace
    (s' := (runTrace bothCfg bothTrace (init 2)).get (by decide)) (by simp), ?_⟩
  decide

/-- **After start() has returned every configured port serves.**  Between a returned start() and the next
    stop() call: queue and callback thread exist, and each configured port has its server object, accepting. -/
theorem C16_started_serves_configured_ports (c : Cfg) (hc : c.proto = .fixed) (n : Nat) (s : Sys)
    (h : Reachable c n s) (hidle : s.main = .idle) (hup : s.up = true) :
    s.qref = true ∧ s.thrRef = true ∧ (c.http = true → s.srv = true ∧ s.accepting = true) ∧
    (c.https = true → s.srv2 = true ∧ s.accepting2 = true) := by
  have m := (inv_reachable hc h).ctl.mainOK
  simp [MainOK, hidle, hup] at m
  exact m

example : ∃ s, Reachable bothCfg 2 s ∧ s.main = .idle ∧ s.up = true ∧ s.accepting = true ∧ s.accepting2 = true := by
  refine ⟨_, reachable_runTrace Reachable.init (bothTrace.take 5)
    (s' := (runTrace bothCfg (bothTrace.take 5) (init 2)).get (by decide)) (by simp), ?_⟩
  decide

/-- **A handler thread lives only while its own server exists.**  A request that came in over the HTTP
    (HTTPS) port is in flight only while the HTTP (HTTPS) server object exists: each `server_close()` joins
    the handler threads of its own server before stop() goes on, so no handler can touch the queue reference
    after stop() has started to take the delivery down (the reason for `C16_acked_implies_enqueued`). -/
theorem C16_handler_only_while_its_server_exists (c : Cfg) (hc : c.proto = .fixed) (n : Nat) (s : Sys)
    (h : Reachable c n s) (j : Nat) (sd : Sender) (hj : s.senders[j]? = some sd) (hbusy : sd.pc ≠ .idle) :
    (sd.tls = false → s.srv = true ∧ s.qref = true) ∧ (sd.tls = true → s.srv2 = true ∧ s.qref = true) := by
  have I := inv_reachable hc h
  constructor
  · intro ht
    cases hs : s.srv
    · rcases idleOn_get (I.ctl.nosrv_idle hs) hj with h1 | h1
      · exact absurd h1 hbusy
      · exact absurd ht h1
    · exact ⟨rfl, (I.ctl.srv_q (Or.inl hs)).1⟩
  · intro ht
    cases hs : s.srv2
    · rcases idleOn_get (I.ctl.nosrv2_idle hs) hj with h1 | h1
      · exact absurd h1 hbusy
      · exact absurd ht h1
    · exact ⟨rfl, (I.ctl.srv_q (Or.inr hs)).1⟩

/-- **The `_queue_full` flag and its warnings** (both protocols).  The flag can only be set for a bounded
    queue; the logged warnings ("now full" = true, "no longer full" = false) alternate, start with "now full",
    and the last one tells the current value of the flag (no warning yet: flag false). -/
theorem C16_queue_full_flag (c : Cfg) (n : Nat) (s : Sys) (h : Reachable c n s) :
    (s.qfull = true → c.maxQ ≠ 0) ∧ alternating s.fullLog = true ∧ s.fullLog.head? ≠ some false ∧
    s.fullLog.getLast? = (if s.fullLog = [] then none else some s.qfull) ∧ (s.fullLog = [] → s.qfull = false) := by
  have F := full_reachable h
  exact ⟨F.bounded, F.alt, F.headOk, F.lastOk, F.emptyOk⟩

example : ∃ s, Reachable { proto := .fixed, maxQ := 1, ncb := 1 } 2 s ∧ s.fullLog = [true, false] ∧ s.qfull = false := by
  let tr : List Label := [.start, .main, .main, .main, .snd 0, .snd 1, .snd 0, .snd 1, .snd 1,
    .cb false, .cb false, .snd 1, .snd 1]
  refine ⟨_, reachable_runTrace Reachable.init tr
    (s' := (runTrace { proto := .fixed, maxQ := 1, ncb := 1 } tr (init 2)).get (by decide)) (by simp), ?_⟩
  decide

/-! ### start() whose server creation fails -/

/-- **A failing start() takes the listener down like stop().**  When the server creation of a start() call fails
    (`failStart`: HTTP or HTTPS port in use, address error, bad certificate/key file; possibly while the HTTP
    server is already serving and indications are in the queue or in a callback): the user sees the listener as
    not started, and some continuation without any further start() call ends in a state where start() has raised
    and everything of `C16_stop_returns_clean` / `C16_stop_leaves_no_server` holds – in particular every
    indication acknowledged by the already running HTTP server has been delivered to every callback, exactly once.
    (All other theorems of this file quantify over schedules that contain failing starts as well: `failStart` is
    a label of the step relation.) -/
theorem C16_failed_start_cleans_up (c : Cfg) (hc : c.proto = .fixed) (n : Nat) (s s1 : Sys)
    (h : Reachable c n s) (hf : step c .failStart s = some s1) :
    s1.up = false ∧ s1.startFails = s.startFails + 1 ∧ s1.errs = [] ∧
    ∃ ls s', (∀ l ∈ ls, l ≠ .start) ∧ runTrace c ls s1 = some s' ∧ s'.main = .idle ∧ s'.up = false ∧
      s'.log = expand c.ncb s'.enq ∧ (∀ x, x ∈ s'.acked ↔ x ∈ s'.enq) ∧ s'.srv = false ∧ s'.srv2 = false ∧
      s'.qref = false ∧ s'.thrRef = false ∧ s'.errs = [] := by
  have h1 : Reachable c n s1 := Reachable.step .failStart h hf
  have hup : s1.up = false ∧ s1.startFails = s.startFails + 1 := by
    simp only [step, stepFail] at hf
    split at hf
    · split at hf <;> injection hf with hf <;> subst hf
      · simp
      · simp [stopHttps, afterServers, afterQ]
        split <;> (try split) <;> (try split) <;> (try split) <;> simp
    · simp at hf
  obtain ⟨ls, s', hns, hrun, hidle, hup'⟩ := C16_stop_can_always_return c hc n s1 h1
  have hr' := reachable_runTrace h1 ls hrun
  obtain ⟨a1, a2, a3, _, _, _, _, a8, a9, _⟩ := C16_stop_returns_clean c hc n s' hr' hidle hup'
  obtain ⟨b1, b2, _⟩ := C16_stop_leaves_no_server c hc n s' hr' hidle hup'
  exact ⟨hup.1, hup.2, (inv_reachable hc h1).ctl.noErr, ls, s', hns, hrun, hidle, hup', a1, a2, b1, b2, a8, a9, a3⟩

/-- the HTTPS server cannot be created while the HTTP server has accepted an indication that is still queued -/
def failTrace : List Label :=
  [.start, .main, .main, .main, .snd 0, .snd 0, .snd 0, .failStart]

example : ∃ s s1, Reachable bothCfg 1 s ∧ step bothCfg .failStart s = some s1 ∧ s1.main = .tShutdown ∧
    s1.queue = [(0, 0)] ∧ s1.acked = [(0, 0)] ∧ s1.startFails = 1 := by
  refine ⟨(runTrace bothCfg (failTrace.take 7) (init 1)).get (by decide), _,
    reachable_runTrace Reachable.init (failTrace.take 7) (by simp), rfl, ?_⟩
  decide

/-! ### termination of stop() under fair schedules: a variant that every thread respects

`stopping s`: the main thread is inside stop() (or inside the cleanup of a failed start()).  The variant is the
pair (`mainRank s`, `help c s`) in lexicographic order, `help` being the work the *other* threads still have to do
before main's next step is enabled: at `server_close()` the steps left for the handler threads of that server,
at the `empty()` poll and at `join()` the steps left for the callback thread to drain the queue and to end.
The three theorems are the premises of the standard fair-termination argument: the variant never goes up, whoever
moves (1); while stop() has not returned, some thread has an enabled step that lowers it (2) – the main thread
whenever `help = 0`, and then that step stays enabled because of (1) (3), otherwise a busy handler thread of the
server being closed or the callback thread, whose next step is enabled until it is taken (a busy handler and a
live callback thread can always step: `stepSndAt`/`stepCb` have no guard there).  Hence along every schedule that
does not starve those threads for ever (weak fairness), stop() returns; the only steps that leave the variant
unchanged are polling `empty()` on a non-empty queue, steps of handler threads of the *other* server and its
new requests, and idle `get` timeouts of the callback thread while nothing is queued.
The infinite-trace statement itself is not formalised. -/

/-- **(1) The variant never goes up.**  While stop() is in progress no step of any thread – main, callback thread,
    handler threads of either server, new requests on a port that still accepts – raises (rank, help). -/
theorem C16_fair_variant_never_increases (c : Cfg) (hc : c.proto = .fixed) (n : Nat) (s s' : Sys)
    (h : Reachable c n s) (hst : stopping s) (l : Label) (hs : step c l s = some s') :
    mainRank s' < mainRank s ∨ (mainRank s' = mainRank s ∧ help c s' ≤ help c s) :=
  fair_never_increases hc (inv_reachable hc h) hst l hs

/-- **(2) Some thread can always lower the variant.**  While stop() is in progress there is an enabled step that
    lowers (rank, help) strictly. -/
theorem C16_fair_helpful_step_enabled (c : Cfg) (hc : c.proto = .fixed) (n : Nat) (s : Sys)
    (h : Reachable c n s) (hst : stopping s) :
    ∃ l s', step c l s = some s' ∧
      (mainRank s' < mainRank s ∨ (mainRank s' = mainRank s ∧ help c s' < help c s)) :=
  fair_helpful hc (inv_reachable hc h) hst

/-- **(3) With no help needed, the main thread itself can go on.**  While stop() is in progress and `help = 0`,
    the next step of the main thread is enabled and lowers its rank. -/
theorem C16_fair_main_enabled_when_no_help (c : Cfg) (hc : c.proto = .fixed) (n : Nat) (s : Sys)
    (h : Reachable c n s) (hst : stopping s) (h0 : help c s = 0) :
    ∃ s', step c .main s = some s' ∧ mainRank s' < mainRank s :=
  fair_main_enabled hc (inv_reachable hc h) hst h0

/-- stop() is waiting in `server_close()` of the HTTPS server for the handler thread of sender 1 -/
example : ∃ s, Reachable bothCfg 2 s ∧ stopping s ∧ s.main = .tClose2 ∧ help bothCfg s = 1 := by
  refine ⟨_, reachable_runTrace Reachable.init (bothTrace.take 15)
    (s' := (runTrace bothCfg (bothTrace.take 15) (init 2)).get (by decide)) (by simp), ?_, ?_, ?_⟩
  · unfold stopping; decide
  · decide
  · decide

/-! ### add_callback: which callbacks are registered, and in which order -/

/-- **Registered callbacks.**  After any sequence `regs` of `add_callback` calls (callbacks identified up to
    `==`, e.g. bound methods of one object are equal): `self._callbacks` has no duplicates, contains exactly the
    callbacks ever passed, in the order of their first registration (a sub-sequence of `regs`), and registering
    known callbacks again, in any order, changes nothing. -/
theorem C16_registered_callbacks (regs : List Nat) :
    (registered regs).Nodup ∧ (∀ f, f ∈ registered regs ↔ f ∈ regs) ∧ (registered regs).Sublist regs ∧
    (∀ more : List Nat, (∀ f ∈ more, f ∈ regs) → registered (regs ++ more) = registered regs) := by
  refine ⟨foldl_add_nodup regs [] (by simp), ?_, ?_, ?_⟩
  · intro f; simpa [registered] using foldl_add_mem regs [] f
  · obtain ⟨t, h1, h2⟩ := foldl_add_sublist regs []
    simpa [registered, h1] using h2
  · intro more hm
    unfold registered
    rw [List.foldl_append]
    exact foldl_add_known more _ (fun f hf => (foldl_add_mem regs [] f).mpr (Or.inr (hm f hf)))

example : registered [2, 0, 2, 1, 0] = [2, 0, 1] := by decide

/-- **Every registered callback saw every accepted indication once, in queue order.**  With the callbacks
    registered by `regs` (so `ncb` = number of distinct ones): when stop() has returned, every callback ever
    passed to `add_callback`, however often, occupies exactly one position `k` of `self._callbacks`, and the
    sequence of indications handed to that position is exactly `enq`. -/
theorem C16_each_registered_callback_saw_all (c : Cfg) (hc : c.proto = .fixed) (regs : List Nat)
    (hn : c.ncb = (registered regs).length) (n : Nat) (s : Sys)
    (h : Reachable c n s) (hidle : s.main = .idle) (hup : s.up = false) (f : Nat) (hf : f ∈ regs) :
    ∃ k, (registered regs)[k]? = some f ∧ (∀ k', (registered regs)[k']? = some f → k' = k) ∧
      seenBy k s.log = s.enq := by
  obtain ⟨hnd, hmem, _, _⟩ := C16_registered_callbacks regs
  obtain ⟨k, hk⟩ := List.mem_iff_getElem?.mp ((hmem f).mpr hf)
  have hlt : k < (registered regs).length := by
    rcases Nat.lt_or_ge k (registered regs).length with h1 | h1
    · exact h1
    · simp [List.getElem?_eq_none h1] at hk
  refine ⟨k, hk, ?_, C16_every_callback_saw_all c hc n s h hidle hup k (by omega)⟩
  intro k' hk'
  exact ((List.getElem?_inj hlt hnd).mp (hk.trans hk'.symm)).symm

/-- **The source has the structure the fixed protocol mirrors.**  Facts re-read from the text of
    pywbem/_listener.py on every run (tools/extractors/listener_threads.py): stop() stops the listener
    threads before the indication delivery; `put(block=False)`; no server class disables the
    joining of handler threads in `server_close()` (the hypothesis behind the `tClose` guard, which the
    correspondence run cannot observe because it replaces the server object); callbacks are called
    inside `try/except Exception`; `_callback_thread.join()` has no timeout (the `tJoin` guard);
    `add_callback` deduplicates with `not in` (equality, so `ncb` counts distinct callbacks); queue.Full is answered with CIM_ERR_FAILED (1); the get timeout is
    positive.  An edit changing any of these breaks this theorem.  (The two facts that distinguish
    `proto = fixed` from `proto = old` – `_ind_queue = None` after `join()`, no `self._ind_queue` read in
    the callback loop – are checked against the tree under test by the harness, not here: the generated
    file is shared by checks that run on trees with and without the fix.) -/
theorem C16_source_structure :
    Pywbem.Generated.ListenerThreads.stopOrder = ["_stop_listener_threads", "_stop_indication_delivery"] ∧
    Pywbem.Generated.ListenerThreads.putNonBlocking = true ∧
    Pywbem.Generated.ListenerThreads.handlerThreadsJoined = true ∧
    Pywbem.Generated.ListenerThreads.callbackExceptionCaught = true ∧
    Pywbem.Generated.ListenerThreads.joinWithoutTimeout = true ∧
    Pywbem.Generated.ListenerThreads.dedupByEquality = true ∧
    Pywbem.Generated.ListenerThreads.queueFullStatus = 1 ∧
    Pywbem.Generated.ListenerThreads.queueGetTimeoutPositive = true := by
  decide

/-! ### the old protocol (code before the fix): kernel-checked bad schedules -/

/-- callback thread holds the last indication inside the callback; stop() sees the queue empty and
    clears `_ind_queue`; the callback returns and evaluates `self._ind_queue.task_done` on None;
    join() re-raises in stop(); the next start() fails its assertion. -/
def oldBadTrace : List Label :=
  [.start, .main, .main, .main, .cb false, .snd 0, .snd 0, .snd 0, .cb false, .cb false,
   .stop, .main, .main, .main, .cb false, .main, .main, .start]

theorem C16_old_protocol_stop_raises_then_start_asserts :
    (runTrace oldCfg oldBadTrace (init 1)).map (·.errs) = some [.attributeError, .assertionError] := by
  decide

/-- the idle variant: no indication at all; the callback thread is between `queue.Empty` and the
    next `self._ind_queue.get` when stop() clears the reference -/
def oldBadTraceIdle : List Label :=
  [.start, .main, .main, .main, .cb false, .cb false, .stop, .main, .main, .main, .cb false, .main, .main]

theorem C16_old_protocol_idle_stop_raises :
    (runTrace oldCfg oldBadTraceIdle (init 0)).map (·.errs) = some [.attributeError] := by
  decide

/-- hence `C16_no_exception_from_start_stop` is false for the old protocol -/
theorem C16_old_protocol_not_clean :
    ¬ (∀ s, Reachable oldCfg 1 s → s.errs = []) := by
  intro hall
  have hr := reachable_runTrace (c := oldCfg) (n := 1) Reachable.init oldBadTrace
    (s' := (runTrace oldCfg oldBadTrace (init 1)).get (by decide)) (by simp)
  have := hall _ hr
  revert this
  decide

/-- the same schedules are not even executable in the fixed protocol up to the raising join:
    stop() blocks in join() until the callback thread has really ended -/
theorem C16_fixed_protocol_blocks_bad_schedule :
    runTrace fixedCfg oldBadTrace (init 1) = none ∧ runTrace fixedCfg oldBadTraceIdle (init 0) = none := by
  decide

end C16
