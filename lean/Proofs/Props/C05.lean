/-
C05 — Equality, hashing and copying of CIM objects are lawful.
ONLY property theorems, non-vacuity examples and witnesses live here; helper lemmas are in
Proofs/Lemmas/{Eq,EqNorm,Copy}.lean.

All theorems quantify over ALL objects of the nested family `Obj` (any nesting depth, any of the nine CIM
classes, NocaseDict, lists, CIMDateTime/number/string leaves) and over ANY `str.lower`/`str.casefold`
(`C : CaseOps`).  `good C a` = the invariants the real constructors guarantee (NocaseDict keys pairwise
different after casefolding, one attribute per slot, name slots hold None or a string) and NaN-freedom.
Which attribute is compared/hashed how comes from Generated/Slots.lean (source extraction).
-/
import Proofs.Lemmas.Mut

namespace C05
open Pywbem.Model.Eq Pywbem.Generated.Slots Pywbem.Proto Proofs.Eq

/-! ## `==` is an equivalence -/

/-- **Reflexive** on every well-formed NaN-free object. -/
theorem C05_eq_refl (C : CaseOps) (a : Obj) (h : good C a = true) : eqObj C a a = true :=
  eqObj_refl C a h

/-- **Symmetric** (as a Boolean equation): needs the NocaseDict key invariant on both sides (pigeonhole). -/
theorem C05_eq_symm (C : CaseOps) (a b : Obj) (ga : good C a = true) (gb : good C b = true) :
    eqObj C a b = eqObj C b a :=
  eqObj_symm C a b ga gb

/-- **Transitive**, unconditionally. -/
theorem C05_eq_trans (C : CaseOps) (a b c : Obj) (h1 : eqObj C a b = true) (h2 : eqObj C b c = true) :
    eqObj C a c = true :=
  eqObj_trans C a b c h1 h2

/-- `!=` is the negation of `==`. -/
theorem C05_ne_is_not_eq (C : CaseOps) (a b : Obj) : neObj C a b = !eqObj C a b := rfl

-- why NaN is excluded (as in the property): a NaN leaf is not even equal to itself
example : eqObj CaseOps.py (.atom .nan) (.atom .nan) = false := by simp [eqObj, eqAtom]
-- why the NocaseDict invariant is needed: with a duplicate (case-folded) key, `==` is not reflexive
example : eqObj CaseOps.py (.dict 0 [(some ['a'], .atom (.num 1 1 1)), (some ['A'], .atom (.num 1 2 1))])
    (.dict 0 [(some ['a'], .atom (.num 1 1 1)), (some ['A'], .atom (.num 1 2 1))]) = false := by decide +kernel

-- non-vacuity: a good object with a nested dict, and a pair that is equal but not identical
example : good CaseOps.py (.node 0 .className [.atom (.str ['A']), .none, .atom (.str ['n'])]) = true := by decide
example : eqObj CaseOps.py (.dict 0 [(some ['a'], .atom (.num 1 5 1)), (some ['B'], .none)])
    (.dict 1 [(some ['b'], .none), (some ['A'], .atom (.num 3 5 1))]) = true := by decide +kernel

/-! ## `a == b → hash(a) == hash(b)` -/

/-- the extracted `__hash__` of every class hashes each slot the way the extracted `__eq__` compares it (or not at all) -/
theorem C05_hash_spec_compatible : ∀ k : Kind, compat (eqSpec k) (hashSpec k) = true := by
  intro k; cases k <;> decide

/-- For ANY builtin `hash` whose frozenset hash depends only on the set of element hashes, and any
    well-formed NaN-free objects: equal objects have equal hashes. -/
theorem C05_eq_implies_hash_eq {β : Type} (C : CaseOps) (H : PyHash β) (hf : FsetExt H) (a b : Obj)
    (ga : good C a = true) (gb : good C b = true) (h : eqObj C a b = true) :
    hashObj C H a = hashObj C H b :=
  hashObj_eq' C H hf C05_hash_spec_compatible a ga b gb h

-- non-vacuity of `FsetExt`: a frozenset hash that is a function of the set (here: "is it empty")
def toyHash : PyHash Nat where
  none := 0
  str _ := 1
  num _ _ := 2
  inf _ := 3
  nan := 4
  dt _ := 5
  td _ := 6
  tuple l := l.length
  fset l := if l.isEmpty then 0 else 1

example : FsetExt toyHash := by
  intro l1 l2 h
  cases l1 with
  | nil => cases l2 with
    | nil => rfl
    | cons y ys => exact absurd ((h y).mpr (by simp)) (by simp)
  | cons x xs => cases l2 with
    | nil => exact absurd ((h x).mp (by simp)) (by simp)
    | cons y ys => simp [toyHash]

/-! ## `==` looks at every public attribute -/

/-- every slot of every CIM class is compared by `__eq__` (none skipped), every attribute `__eq__` compares is a
    slot (so the model, which walks the slots, misses none), and `copy()` reads every slot -/
theorem C05_every_slot_compared : ∀ k : Kind,
    Cmp.skip ∉ eqSpec k ∧ slotsOf k ≠ [] ∧
    (((Pywbem.Generated.Slots.eqCalls.lookup k.pyName).getD []).all (fun p => (slotsOf k).contains p.1)) = true ∧
    ((slotsOf k).all (fun s => (((Pywbem.Generated.Slots.copyReads.lookup k.pyName).getD []).contains s))) = true := by
  intro k; cases k <;> decide

/-- `__eq__` of two objects of one class is exactly the conjunction of the per-attribute comparisons
    (`_eq_name` on name slots, `==` on the others). -/
theorem C05_eq_iff_all_attributes (C : CaseOps) (i j : Nat) (k : Kind) (as bs : List Obj) :
    eqObj C (.node i k as) (.node j k bs) = true ↔
      (as.length = (eqSpec k).length ∧ bs.length = (eqSpec k).length ∧
        ∀ n, n < (eqSpec k).length →
          cmp1 C ((eqSpec k).getD n .skip) (as.getD n .none) (bs.getD n .none) = true) := by
  simp only [eqObj, beq_self_eq_true, Bool.true_and]
  exact eqAttrs_iff_get C (eqSpec k) as bs

/-- **Single-attribute mutation**: replacing one attribute by a value that the attribute's comparison tells
    apart makes the objects unequal (together with `C05_every_slot_compared`: for every slot). -/
theorem C05_eq_distinguishes_attribute (C : CaseOps) (i j : Nat) (k : Kind) (as : List Obj) (n : Nat) (v : Obj)
    (hn : n < as.length) (hlen : as.length = (eqSpec k).length)
    (hv : cmp1 C ((eqSpec k).getD n .skip) (as.getD n .none) v = false) :
    eqObj C (.node i k as) (.node j k (as.set n v)) = false := by
  rw [Bool.eq_false_iff]
  intro h
  have h3 := ((C05_eq_iff_all_attributes C i j k as (as.set n v)).mp h).2.2 n (hlen ▸ hn)
  simp [List.getD_eq_getElem?_getD, hn] at h3 hv
  rw [hv] at h3
  exact Bool.false_ne_true h3

/-- exact characterisation of NocaseDict `==`: same number of items, and every item has a partner with the same
    casefolded key and an equal value (so a missing, an extra or a changed item is always noticed) -/
theorem C05_dict_eq_iff (C : CaseOps) (i j : Nat) (es fs : List (Key × Obj)) (gf : good C (.dict j fs) = true) :
    eqObj C (.dict i es) (.dict j fs) = true ↔
      (es.length = fs.length ∧
        ∀ e ∈ es, ∃ f ∈ fs, ckey C f.1 = ckey C e.1 ∧ eqObj C e.2 f.2 = true) :=
  eqDict_iff C i j es fs gf

/-- exact characterisation of list (array value) `==`: same length, equal elements position by position -/
theorem C05_list_eq_iff (C : CaseOps) (i j : Nat) (xs ys : List Obj) :
    eqObj C (.list i xs) (.list j ys) = true ↔
      (xs.length = ys.length ∧ ∀ n, n < xs.length → eqObj C (xs.getD n .none) (ys.getD n .none) = true) := by
  simp only [eqObj]
  exact eqList_iff_get C xs ys

/-- objects of different classes are never equal -/
theorem C05_eq_distinguishes_class (C : CaseOps) (i j : Nat) (k k' : Kind) (as bs : List Obj) (h : k ≠ k') :
    eqObj C (.node i k as) (.node j k' bs) = false := by
  simp [eqObj, h]

/-- what a leaf value publicly is: everything but the Python number type -/
def publicAtom : Atom → Atom
  | .num _ n d => .num 0 n d
  | a => a

/- Full statement (FALSE, see the witness below — known finding C05-KF1):
     ∀ a b, a ≠ .nan → publicAtom a ≠ publicAtom b → eqAtom a b = false
   Proved: the same with `normAtom`, which additionally erases CIMDateTime.precision and minutes_from_utc. -/
/-- leaf values that differ in more than Python number type / CIMDateTime precision / minutes_from_utc are unequal -/
theorem C05_eq_distinguishes_leaf_partial (a b : Atom) (ha : a ≠ .nan) (h : normAtom a ≠ normAtom b) :
    eqAtom a b = false := by
  rw [Bool.eq_false_iff]
  exact fun he => h ((eqAtom_iff_norm a b ha).mp he)

/-- negation witness: two timestamps that differ in the public attribute `precision` compare equal, and so do two
    that differ in `minutes_from_utc` -/
theorem C05_eq_distinguishes_leaf_fails_at :
    ¬ (∀ a b : Atom, a ≠ .nan → publicAtom a ≠ publicAtom b → eqAtom a b = false) := by
  intro h
  have := h (.ts 0 0 (some 18)) (.ts 0 0 none) (by decide) (by decide)
  simp [eqAtom] at this

theorem C05_datetime_offset_not_distinguished : eqAtom (.ts 0 0 none) (.ts 0 60 none) = true := by decide

/-- the source of that: `precision` is a slot of CIMDateTime that `__eq__` does not compare (source extraction) -/
theorem C05_datetime_precision_not_compared :
    Pywbem.Generated.Slots.slots.lookup "CIMDateTime" = some ["timedelta", "datetime", "precision"] ∧
    Pywbem.Generated.Slots.eqCalls.lookup "CIMDateTime" = some [("datetime", .item), ("timedelta", .item)] ∧
    Pywbem.Generated.Slots.hashCalls.lookup "CIMDateTime" = some [("datetime", .item), ("timedelta", .item)] := by
  decide

/-! ## what `==` ignores -/

/-- **Case, number type, identity**: objects whose normal forms (names lower-cased, dict keys casefolded, Python
    number type and identities erased; order of dict items KEPT) coincide are equal. -/
theorem C05_eq_ignores_case_and_number_type (C : CaseOps) (a b : Obj) (ga : good C a = true)
    (h : norm C a = norm C b) : eqObj C a b = true :=
  eqObj_of_norm' C a ga b h

example : norm CaseOps.py (.node 0 .className [.atom (.str ['A', 'b']), .none, .atom (.str ['r'])]) =
    norm CaseOps.py (.node 7 .className [.atom (.str ['a', 'B']), .none, .atom (.str ['R'])]) := by rfl

/-- **Order**: a NocaseDict equals any permutation of itself … -/
theorem C05_eq_ignores_order (C : CaseOps) (i j : Nat) (es fs : List (Key × Obj))
    (g : good C (.dict i es) = true) (hp : es.Perm fs) : eqObj C (.dict i es) (.dict j fs) = true :=
  eqDict_perm C i j es fs g hp

/-- … and replacing an attribute by an equal one (e.g. a reordered/recased child dict) gives an equal object;
    with transitivity this carries the two theorems above to any depth. -/
theorem C05_eq_congr_attribute (C : CaseOps) (i j : Nat) (k : Kind) (as : List Obj) (n : Nat) (v : Obj)
    (g : good C (.node i k as) = true) (hn : n < as.length)
    (hv : cmp1 C ((eqSpec k).getD n .skip) (as.getD n .none) v = true) :
    eqObj C (.node i k as) (.node j k (as.set n v)) = true := by
  have hrefl := (C05_eq_iff_all_attributes C i i k as as).mp (eqObj_refl C _ g)
  rw [C05_eq_iff_all_attributes]
  refine ⟨hrefl.1, by simp [hrefl.1], ?_⟩
  intro m hm
  by_cases hmn : m = n
  · subst hmn
    simpa [List.getD_eq_getElem?_getD, hn] using hv
  · have := hrefl.2.2 m hm
    simpa [List.getD_eq_getElem?_getD, List.getElem?_set_ne (Ne.symm hmn)] using this

/-! ## copies -/

/-- `copy()` (and NocaseDict.copy()) yields an object equal to the original -/
theorem C05_copy_equal (C : CaseOps) (n : Nat) (a : Obj) (g : good C a = true) :
    eqObj C a (copyObj n a).1 = true :=
  eqObj_of_norm' C a g _ (norm_copyObj C n a g).symm

/-- `copy.copy()` yields an equal object that shares every attribute value with the original -/
theorem C05_shallow_copy_equal (C : CaseOps) (n : Nat) (a : Obj) (g : good C a = true) :
    eqObj C a (shallowObj n a).1 = true :=
  eqObj_of_norm' C a g _ (norm_shallowObj C n a).symm

/-- `copy.deepcopy()` / a pickle round trip yields an equal object in which every mutable value is new:
    all identities are ≥ `n`, i.e. none is an identity of the original when `n` exceeds them -/
theorem C05_deepcopy_equal_and_fresh (C : CaseOps) (n : Nat) (a : Obj) (g : good C a = true) :
    eqObj C a (deepObj n a).1 = true ∧ ∀ i ∈ ids (deepObj n a).1, n ≤ i :=
  ⟨eqObj_of_norm' C a g _ (deepObj_ok C a n).1.symm, fun i hi => ((deepObj_ok C a n).2.2 i hi).1⟩

/- Full statement (FALSE — known findings C05-KF2, C05-KF3):
     ∀ n i k as, ∀ j ∈ ids (copyObj n (.node i k as)).1, j < n → j ∈ documentedShared (.node i k as)
   Proved: the same for objects whose `value` / `path` slots hold no mutable value objects. -/
/-- identities of the original (`< n`) that survive in `copy()` are exactly values of the dict-valued attributes,
    i.e. within the documented shared set — provided no mutable object sits in a `value`/`path` slot -/
theorem C05_copy_sharing_partial (n i : Nat) (k : Kind) (as : List Obj)
    (hv : valuesImmutable (.node i k as) = true) :
    ∀ j ∈ ids (copyObj n (.node i k as)).1, j < n → j ∈ documentedShared (.node i k as) := by
  intro j hj hlt
  rw [copyObj_node] at hj
  simp only [ids, List.mem_cons] at hj
  rcases hj with rfl | hj
  · omega
  · exact copySlots_shared n (n + 1) (copySpec k) as (by omega) hv j hj hlt

-- non-vacuity: an instance path with a reference-free keybinding satisfies the hypothesis, and its keybinding
-- values are what is shared
example : valuesImmutable (.node 0 .instanceName
    [.atom (.str ['C']), .dict 1 [(some ['k'], .node 2 .className [.atom (.str ['D']), .none, .none])], .none, .none]) = true := by
  decide

/-- negation witness: `CIMProperty('p', CIMInstance('C')).copy()` shares the embedded instance (identity 1),
    which is not in the documented shared set -/
theorem C05_copy_sharing_fails_at :
    ¬ (∀ (n i : Nat) (k : Kind) (as : List Obj), ∀ j ∈ ids (copyObj n (.node i k as)).1, j < n →
        j ∈ documentedShared (.node i k as)) := by
  intro h
  have := h 10 0 .property
    [.atom (.str ['p']), .node 1 .instance [.atom (.str ['C']), .dict 2 [], .dict 3 [], .none], .atom (.str ['s']),
     .none, .none, .none, .none, .none, .dict 4 [], .none] 1 (by decide) (by decide)
  revert this
  decide

/-- the setters `copy()` goes through (source extraction) treat every slot the way the `copy()` docstrings say:
    dict-valued attributes re-created, `value` through cimvalue(), path copied, the rest stored as given -/
theorem C05_copy_spec_as_documented : ∀ k : Kind, copySpec k = (slotsOf k).map (docCopyAct k) := by
  intro k; cases k <;> decide

/-- a NocaseDict copy is a new dict holding the same value objects -/
theorem C05_dict_copy_shape (n i : Nat) (es : List (Key × Obj)) :
    copyObj n (.dict i es) = (.dict n es, n + 1) ∧ shallowObj n (.dict i es) = (.dict n es, n + 1) := by
  simp [copyObj, shallowObj]

/-! ## NocaseDict operations (`__setitem__`, `__getitem__`, `__delitem__`, `in`, get, pop, popitem, setdefault,
update, clear, len, keys — Model/NocaseDict.lean) -/

/-- **The NocaseDict invariant is not an assumption for dictionaries built through the API**: after ANY sequence of
    calls, starting from the empty dictionary, no two items have the same casefolded key. -/
theorem C05_dict_api_keeps_invariant (C : CaseOps) (allow : Bool) (ops : List DOp) :
    (keysOf C (dRun C { allow := allow, items := [] } ops).1.items).Nodup :=
  dRun_inv C ops _ (by simp [DInv, keysOf])

/-- … and from any state that satisfies it -/
theorem C05_dict_api_keeps_invariant_from (C : CaseOps) (s : DState) (h : (keysOf C s.items).Nodup)
    (ops : List DOp) : (keysOf C (dRun C s ops).1.items).Nodup :=
  dRun_inv C ops s h

/-- hence a dictionary filled item by item (every dict-valued setter of _cim_obj.py, `NocaseDict(iterable)`) with
    good values is `good`: the hypothesis of the `==`/hash theorems is discharged for constructed dictionaries -/
theorem C05_dict_from_items_good (C : CaseOps) (i : Nat) (items : Items) (gv : ∀ e ∈ items, good C e.2 = true) :
    good C (.dict i (dFromItems C items)) = true :=
  good_dFromItems C i items gv

example : dFromItems CaseOps.py [(some ['a'], .none), (some ['B'], .atom (.num 1 1 1)), (some ['A'], .atom (.num 1 2 1))]
    = [(some ['A'], .atom (.num 1 2 1)), (some ['B'], .atom (.num 1 1 1))] := by rfl

/-- `d[k] = v` then `d[k']`: the new value iff the keys agree up to case, else what was there before -/
theorem C05_dict_getitem_after_setitem (C : CaseOps) (k : Key) (v : Obj) (k' : Key) (es : Items) :
    lookup C k' (dSet C k v es) = if ckey C k = ckey C k' then some v else lookup C k' es :=
  lookup_dSet C k v k' es

/-- `del d[k]` then `d[k']` -/
theorem C05_dict_getitem_after_delitem (C : CaseOps) (k k' : Key) (es : Items) (h : (keysOf C es).Nodup) :
    lookup C k' (dErase C k es) = if ckey C k = ckey C k' then Option.none else lookup C k' es :=
  lookup_dErase C k k' es h

/-- item assignment keeps the iteration order: an existing key keeps its position (and the number of items),
    a new key is appended -/
theorem C05_dict_setitem_position (C : CaseOps) (k : Key) (v : Obj) (es : Items) :
    (ckey C k ∈ keysOf C es → keysOf C (dSet C k v es) = keysOf C es ∧ (dSet C k v es).length = es.length) ∧
    (ckey C k ∉ keysOf C es → keysOf C (dSet C k v es) = keysOf C es ++ [ckey C k]) :=
  ⟨fun h => ⟨keysOf_dSet_mem C k v es h, length_dSet_mem C k v es h⟩, keysOf_dSet_not_mem C k v es⟩

/-- **Extensionality**: two good NocaseDicts are `==` iff every key (up to case) is absent in both or present in
    both with `==` values — the iteration order and the spelling of the keys never matter. -/
theorem C05_dict_eq_iff_lookup (C : CaseOps) (i j : Nat) (es fs : Items)
    (ge : good C (.dict i es) = true) (gf : good C (.dict j fs) = true) :
    eqObj C (.dict i es) (.dict j fs) = true ↔ ∀ k, optRel C (lookup C k es) (lookup C k fs) :=
  eqDict_iff_lookup C i j es fs ge gf

/-- `==` is a congruence for item assignment (keys may differ in case, values may be merely `==`) … -/
theorem C05_dict_eq_congr_setitem (C : CaseOps) (i j : Nat) (es fs : Items) (k k' : Key) (v w : Obj)
    (ge : good C (.dict i es) = true) (gf : good C (.dict j fs) = true)
    (gv : good C v = true) (gw : good C w = true)
    (h : eqObj C (.dict i es) (.dict j fs) = true) (hk : ckey C k = ckey C k') (hv : eqObj C v w = true) :
    eqObj C (.dict i (dSet C k v es)) (.dict j (dSet C k' w fs)) = true := by
  rw [eqDict_iff_lookup C i j _ _ (good_dSet C i k v es ge gv) (good_dSet C j k' w fs gf gw)]
  have h0 := (eqDict_iff_lookup C i j es fs ge gf).mp h
  intro q
  rw [lookup_dSet, lookup_dSet, ← hk]
  by_cases hq : ckey C k = ckey C q
  · simpa [hq, optRel] using hv
  · simpa [hq] using h0 q

/-- … and for item deletion -/
theorem C05_dict_eq_congr_delitem (C : CaseOps) (i j : Nat) (es fs : Items) (k k' : Key)
    (ge : good C (.dict i es) = true) (gf : good C (.dict j fs) = true)
    (h : eqObj C (.dict i es) (.dict j fs) = true) (hk : ckey C k = ckey C k') :
    eqObj C (.dict i (dErase C k es)) (.dict j (dErase C k' fs)) = true := by
  rw [eqDict_iff_lookup C i j _ _ (good_dErase C i k es ge) (good_dErase C j k' fs gf)]
  have h0 := (eqDict_iff_lookup C i j es fs ge gf).mp h
  intro q
  rw [lookup_dErase C k q es ((good_dict C i es).mp ge).1, lookup_dErase C k' q fs ((good_dict C j fs).mp gf).1,
    ← hk]
  by_cases hq : ckey C k = ckey C q
  · simp [hq, optRel]
  · simpa [hq] using h0 q

/-- only KeyError (missing key) and ValueError (unnamed key while `allow_unnamed_keys` is off) escape the API -/
theorem C05_dict_api_errors (C : CaseOps) (s : DState) (op : DOp) (e : PyExc) (h : (dStep C s op).2 = .err e) :
    e = .keyError ∨ (e = .valueError ∧ s.allow = false) := by
  have hck : ∀ k x, checkKey s.allow k = .error x → x = .valueError ∧ s.allow = false := by
    intro k x hx
    unfold checkKey at hx
    split at hx
    · rename_i hc; simp at hc; cases hx; exact ⟨rfl, hc.2⟩
    · cases hx
  have hup : ∀ items es x, (updateChecked C s.allow items es).2 = some x → x = .valueError ∧ s.allow = false := by
    intro items
    induction items with
    | nil => intro es x hx; simp [updateChecked] at hx
    | cons kv rest ih =>
      obtain ⟨k, v⟩ := kv
      intro es x hx
      simp only [updateChecked] at hx
      cases hc : checkKey s.allow k with
      | error y => rw [hc] at hx; simp at hx; subst hx; exact hck k y hc
      | ok _ => rw [hc] at hx; exact ih _ x hx
  cases op with
  | setitem k v =>
    simp only [dStep] at h
    cases hc : checkKey s.allow k with
    | error y => rw [hc] at h; simp at h; subst h; exact Or.inr (hck k y hc)
    | ok _ => rw [hc] at h; simp at h
  | getitem k =>
    simp only [dStep] at h
    cases hc : checkKey s.allow k with
    | error y => rw [hc] at h; simp at h; subst h; exact Or.inr (hck k y hc)
    | ok _ =>
      rw [hc] at h
      cases hl : lookup C k s.items <;> rw [hl] at h <;> simp at h
      exact Or.inl h.symm
  | delitem k =>
    simp only [dStep] at h
    cases hc : checkKey s.allow k with
    | error y => rw [hc] at h; simp at h; subst h; exact Or.inr (hck k y hc)
    | ok _ =>
      rw [hc] at h
      by_cases hd : dContains C k s.items = true <;> simp [hd] at h
      exact Or.inl h.symm
  | contains k =>
    simp only [dStep] at h
    cases hc : checkKey s.allow k with
    | error y => rw [hc] at h; simp at h; subst h; exact Or.inr (hck k y hc)
    | ok _ => rw [hc] at h; simp at h
  | get k d =>
    simp only [dStep] at h
    cases hc : checkKey s.allow k with
    | error y => rw [hc] at h; simp at h; subst h; exact Or.inr (hck k y hc)
    | ok _ => rw [hc] at h; simp at h
  | pop k d =>
    simp only [dStep] at h
    cases hc : checkKey s.allow k with
    | error y => rw [hc] at h; simp at h; subst h; exact Or.inr (hck k y hc)
    | ok _ =>
      rw [hc] at h
      cases hl : lookup C k s.items <;> cases d <;> rw [hl] at h <;> simp at h
      exact Or.inl h.symm
  | popitem =>
    simp only [dStep] at h
    cases hl : s.items.getLast? with
    | none => rw [hl] at h; simp at h; exact Or.inl h.symm
    | some kv => rw [hl] at h; simp at h
  | setdefault k d =>
    simp only [dStep] at h
    cases hc : checkKey s.allow k with
    | error y => rw [hc] at h; simp at h; subst h; exact Or.inr (hck k y hc)
    | ok _ =>
      rw [hc] at h
      cases hl : lookup C k s.items <;> rw [hl] at h <;> simp at h
  | update items =>
    simp only [dStep] at h
    cases hu : (updateChecked C s.allow items s.items).2 with
    | none => rw [hu] at h; simp at h
    | some x => rw [hu] at h; simp at h; subst h; exact Or.inr (hup items s.items x hu)
  | clear => simp [dStep] at h
  | len => simp [dStep] at h
  | keys => simp [dStep] at h
  | setAllow b => simp [dStep] at h

/-! ## sets and dicts of CIM objects; the class check of `__eq__` -/

/-- **Set / dict membership agrees with `==`** (CPython looks for an element with the same hash that is `==`):
    for good objects and any builtin hash with set-determined frozenset hash, `b in {xs…}` iff some element `== b`. -/
theorem C05_set_membership_iff_eq {β : Type} [DecidableEq β] (C : CaseOps) (H : PyHash β) (hf : FsetExt H)
    (b : Obj) (xs : List Obj) (gb : good C b = true) (gx : ∀ a ∈ xs, good C a = true) :
    pyIn C H b xs = xs.any (fun a => eqObj C a b) :=
  pyIn_eq_any C H (fun a ha hq => C05_eq_implies_hash_eq C H hf a b (gx a ha) gb hq)

/-- two objects of the same CIM class are always comparable (after the `_eq_item` fix nothing below raises) … -/
theorem C05_eq_same_class_never_raises (C : CaseOps) (i j : Nat) (k : Kind) (as bs : List Obj) :
    eqTop C (.node i k as) (.node j k bs) = .ok (eqObj C (.node i k as) (.node j k bs)) := by
  simp [eqTop]

/-- … and comparing with an object of another class raises TypeError (documented) -/
theorem C05_eq_other_class_raises_typeerror (C : CaseOps) (i j : Nat) (k k' : Kind) (as bs : List Obj)
    (h : k ≠ k') : eqTop C (.node i k as) (.node j k' bs) = .error .typeError := by
  simp [eqTop, h]

/-- ordering (`<`, `<=`, `>`, `>=`) of CIM objects and NocaseDicts is always rejected with TypeError -/
theorem C05_ordering_always_rejected (i : Nat) (k : Kind) (as : List Obj) (es : Items) (b : Obj) :
    orderTop (.node i k as) b = .error .typeError ∧ orderTop (.dict i es) b = .error .typeError := by
  simp [orderTop]

/-! ## mutating a copy -/

/-- **deepcopy / pickle**: whatever is changed in place in the copy (at any identity of the copy, by any function),
    the original is unchanged — for every original whose identities are below the allocator. -/
theorem C05_mutating_deepcopy_leaves_original (C : CaseOps) (n : Nat) (a : Obj) (f : Obj → Obj) (i : Nat)
    (hn : ∀ j ∈ ids a, j < n) (hi : i ∈ ids (deepObj n a).1) : mutAt i f a = a := by
  apply mutAt_not_mem
  intro hia
  have h1 := hn i hia
  have h2 := ((deepObj_ok C a n).2.2 i hi).1
  omega

/- Full statement (FALSE — known findings C05-KF2, C05-KF3): the same without `hv`. -/
/-- **copy()**: a change made in the copy at any identity outside the documented shared set leaves the original
    unchanged — provided no mutable object sits in a `value` / `path` slot (KF2/KF3 otherwise). -/
theorem C05_mutating_copy_leaves_original_partial (n i0 : Nat) (k : Kind) (as : List Obj) (f : Obj → Obj) (i : Nat)
    (hn : ∀ j ∈ ids (.node i0 k as), j < n) (hv : valuesImmutable (.node i0 k as) = true)
    (hi : i ∈ ids (copyObj n (.node i0 k as)).1) (hdoc : i ∉ documentedShared (.node i0 k as)) :
    mutAt i f (.node i0 k as) = .node i0 k as := by
  apply mutAt_not_mem
  intro hia
  exact hdoc (C05_copy_sharing_partial n i0 k as hv i hi (hn i hia))

/-- a change at an identity the copy allocated itself (the new object, its re-created dicts / value list / path)
    never reaches the original — no hypothesis on the values -/
theorem C05_mutating_fresh_part_of_copy_leaves_original (n : Nat) (a : Obj) (f : Obj → Obj) (i : Nat)
    (hn : ∀ j ∈ ids a, j < n) (hi : n ≤ i) : mutAt i f a = a := by
  apply mutAt_not_mem
  intro hia
  have := hn i hia
  omega

-- non-vacuity: re-naming the class of a deep copy (identity 5) of a path with a nested reference leaves it alone,
-- while the same change through a shared identity (2) is visible
example : mutAt 2 (fun _ => .none)
    (.node 0 .instanceName [.atom (.str ['C']), .dict 1 [(some ['k'], .node 2 .className [.atom (.str ['D']), .none, .none])], .none, .none])
    = .node 0 .instanceName [.atom (.str ['C']), .dict 1 [(some ['k'], .none)], .none, .none] := by
  simp [mutAt, mutAtList, mutAtEntries]

/-! ## None is a value of its own; pickling; a concrete frozenset hash -/

/-- **None vs anything else** (e.g. the empty string, False, 0, an empty dict): never equal, for `_eq_item` and for
    `_eq_name` alike — an attribute that is None is told apart from every set attribute -/
theorem C05_none_differs_from_every_value (C : CaseOps) (b : Obj) (h : b ≠ .none) :
    eqObj C .none b = false ∧ eqObj C b .none = false ∧ eqName C .none b = false ∧ eqName C b .none = false := by
  cases b with
  | none => exact absurd rfl h
  | atom x => cases x <;> simp [eqObj, eqName]
  | list i xs => simp [eqObj, eqName]
  | dict i es => simp [eqObj, eqName]
  | node i k as => simp [eqObj, eqName]

example : eqName CaseOps.py .none (.atom (.str [])) = false := by simp [eqName]

/-- **Pickle state**: `__setstate__(__getstate__())` restores every slot of every CIM class with the value it had
    (the slot names are pairwise different, and the compatibility rule that skips `classorigin`/`propagated` keys on
    CIMClass never matches a slot name) — source extraction of `__slots__` and of the skip rule, for all attribute lists -/
theorem C05_pickle_state_roundtrip (k : Kind) (as : List Obj) (h : as.length = (rawSlotsOf k).length) :
    setstate k (getstate k as) = as.map some := by
  have hn : (rawSlotsOf k).Nodup := by cases k <;> decide
  have hs : ∀ s ∈ rawSlotsOf k, setstateSkipped k s = false := by cases k <;> decide
  unfold setstate getstate
  rw [← lookup_zip_map (rawSlotsOf k) as hn h.symm]
  apply List.map_congr_left
  intro s hsm
  simp [hs s hsm]

example : setstate .className (getstate .className [.atom (.str ['C']), .none, .atom (.str ['n'])])
    = [some (.atom (.str ['C'])), some .none, some (.atom (.str ['n']))] := by
  exact C05_pickle_state_roundtrip .className _ (by decide)

/-- the hypothesis `FsetExt` of the hash theorem is satisfied by a CPython-like frozenset hash (a commutative
    combination over the DISTINCT element hashes): here the sum -/
theorem C05_frozenset_sum_hash_is_set_determined : FsetExt sumHash := sumHash_fsetExt

/-- hence, for that concrete builtin hash, `a == b → hash(a) == hash(b)` with no hypothesis about hashing left -/
theorem C05_eq_implies_hash_eq_concrete (C : CaseOps) (a b : Obj) (ga : good C a = true) (gb : good C b = true)
    (h : eqObj C a b = true) : hashObj C sumHash a = hashObj C sumHash b :=
  C05_eq_implies_hash_eq C sumHash sumHash_fsetExt a b ga gb h

/-! ## equal objects stay equal under the same in-place change (what a set/dict holding them relies on) -/

/-- list values: `append` of `==` values, `pop()` -/
theorem C05_eq_congr_list_ops (C : CaseOps) (i j : Nat) (xs ys : List Obj) (v w : Obj)
    (h : eqObj C (.list i xs) (.list j ys) = true) (hv : eqObj C v w = true) :
    eqObj C (applyOp C (.listAppend v) (.list i xs)) (applyOp C (.listAppend w) (.list j ys)) = true ∧
    eqObj C (applyOp C .listPop (.list i xs)) (applyOp C .listPop (.list j ys)) = true := by
  simp only [eqObj, applyOp] at h ⊢
  exact ⟨eqList_append C v w hv xs ys h, eqList_dropLast C xs ys h⟩

/-- NocaseDict.update with the same items -/
theorem C05_eq_congr_dict_update (C : CaseOps) (i j : Nat) (items es fs : Items)
    (ge : good C (.dict i es) = true) (gf : good C (.dict j fs) = true) (gi : ∀ e ∈ items, good C e.2 = true)
    (h : eqObj C (.dict i es) (.dict j fs) = true) :
    eqObj C (applyOp C (.dictUpdate items) (.dict i es)) (applyOp C (.dictUpdate items) (.dict j fs)) = true :=
  (eqDict_dUpdate C i j items es fs ge gf gi h).1

/-- a public attribute setter called with values the attribute's comparison cannot tell apart -/
theorem C05_eq_congr_set_attribute (C : CaseOps) (i j : Nat) (k : Kind) (as bs : List Obj) (n : Nat) (v w : Obj)
    (h : eqObj C (.node i k as) (.node j k bs) = true)
    (hv : cmp1 C ((eqSpec k).getD n .skip) v w = true) :
    eqObj C (applyOp C (.setAttr n v) (.node i k as)) (applyOp C (.setAttr n w) (.node j k bs)) = true := by
  simp only [eqObj, applyOp, beq_self_eq_true, Bool.true_and] at h ⊢
  exact eqAttrs_set C (eqSpec k) as bs n v w h hv

/-- `path[k] = v` (CIMInstanceName.__setitem__ / update) on two equal good paths, keys up to case, values up to `==` -/
theorem C05_eq_congr_path_setitem (C : CaseOps) (i j : Nat) (as bs : List Obj) (k k' : Key) (v w : Obj)
    (ga : good C (.node i .instanceName as) = true) (gb : good C (.node j .instanceName bs) = true)
    (gv : good C v = true) (gw : good C w = true)
    (h : eqObj C (.node i .instanceName as) (.node j .instanceName bs) = true)
    (hk : ckey C k = ckey C k') (hv : eqObj C v w = true) :
    eqObj C (applyOp C (.pathSet k v) (.node i .instanceName as))
      (applyOp C (.pathSet k' w) (.node j .instanceName bs)) = true := by
  have hspec : (eqSpec .instanceName).getD kbIndex .skip = .dict := by decide
  have hlen : kbIndex < (eqSpec .instanceName).length := by decide
  have hall := (C05_eq_iff_all_attributes C i j .instanceName as bs).mp h
  have hkb := hall.2.2 kbIndex hlen
  rw [hspec] at hkb
  simp only [cmp1] at hkb
  simp only [good] at ga gb
  have gka := goodAttrs_getD C _ as ga kbIndex (by omega)
  have gkb := goodAttrs_getD C _ bs gb kbIndex (by omega)
  simp only [applyOp]
  cases hA : as.getD kbIndex .none with
  | dict ja es =>
    cases hB : bs.getD kbIndex .none with
    | dict jb fs =>
      rw [hA, hB] at hkb; rw [hA] at gka; rw [hB] at gkb
      simp only [eqObj, beq_self_eq_true, Bool.true_and]
      simp only [eqObj, beq_self_eq_true, Bool.true_and] at h
      apply eqAttrs_set C _ as bs kbIndex _ _ h
      rw [hspec]
      exact C05_dict_eq_congr_setitem C ja jb es fs k k' v w gka gkb gv gw hkb hk hv
    | none => rw [hA, hB] at hkb; simp [eqObj] at hkb
    | atom x => rw [hA, hB] at hkb; simp [eqObj] at hkb
    | list _ _ => rw [hA, hB] at hkb; simp [eqObj] at hkb
    | node _ _ _ => rw [hA, hB] at hkb; simp [eqObj] at hkb
  | none => cases hB : bs.getD kbIndex .none <;> rw [hA, hB] at hkb <;> simp [eqObj] at hkb <;> exact h
  | atom x => cases hB : bs.getD kbIndex .none <;> rw [hA, hB] at hkb <;> simp [eqObj] at hkb <;> exact h
  | list _ _ => cases hB : bs.getD kbIndex .none <;> rw [hA, hB] at hkb <;> simp [eqObj] at hkb <;> exact h
  | node _ _ _ => cases hB : bs.getD kbIndex .none <;> rw [hA, hB] at hkb <;> simp [eqObj] at hkb <;> exact h

-- non-vacuity: the keybindings slot is where the model says, and a path item assignment lands there
example : applyOp CaseOps.py (.pathSet (some ['K']) (.atom (.num 1 1 1)))
    (.node 0 .instanceName [.atom (.str ['C']), .dict 1 [(some ['k'], .none)], .none, .none])
    = .node 0 .instanceName [.atom (.str ['C']), .dict 1 [(some ['K'], .atom (.num 1 1 1))], .none, .none] := by rfl

/-- `__hash__` of every class reads only public attributes that are slots (never a raw `_slot`, whose value may
    still be the lazily-initialised None while the public attribute already shows the empty NocaseDict), and hashes
    every slot `__eq__` compares: the hash is a function of exactly what `==` looks at, at any time -/
theorem C05_hash_reads_public_attributes : ∀ k : Kind,
    (((Pywbem.Generated.Slots.hashCalls.lookup k.pyName).getD []).all (fun p => (slotsOf k).contains p.1)) = true ∧
    hashSpec k = eqSpec k := by
  intro k; cases k <;> decide

end C05
