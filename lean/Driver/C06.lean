import Pywbem.Model.TypedElems
import Pywbem.Model.AtomicXml
import Pywbem.Model.FloatText
import Pywbem.Model.Utf8Decode
open Lean Pywbem.Proto Pywbem.Model.CimTypes Pywbem.Model.DateTime Pywbem.Model.CimValue Pywbem.Model.TypedElems Pywbem.Model.AtomicXml Pywbem.Model.FloatText

/-! C06 driver.  One JSON object per line.
  {"op":"int","ty":T,"pos":[arg…],"x":arg|null,"base":arg|null[,"enforce":bool]}      → {"ok":"<int>"} | {"exc":…}
      arg = {"k":"int","v":"…"} | {"k":"bool","v":b} | {"k":"float","b":"<bits>"} | {"k":"str","s":[cp…]}
          | {"k":"bytes","s":[byte…]} | {"k":"none"} | {"k":"other"}
  {"op":"dt","arg":dtarg,"copy":bool}   → {"ok":{"dt":DT,"str":[cp…]|{"exc":…},"mfu":"<int>"|{"exc":…},"rt":bool|null,
                                              "wf":bool (hypothesis WF of the theorems),"expr":bool (Expressible)}} | {"exc":…}
      dtarg = {"k":"str","s":[cp…]} | {"k":"datetime","f":[7 nats],"off":int|null} | {"k":"timedelta","f":[days,secs,us]}
            | {"k":"other"}
      DT = {"kind":"ts","f":[y,mo,d,h,mi,s,us],"off":"<int>","prec":n|null} | {"kind":"iv","f":["<days>",secs,us],"prec":n|null}
  {"op":"real","s":["<%.17G text>",…]}  → {"ok":["<fixed text>",…]}
  {"op":"cv","v":val,"t":T|null}        → {"ok":val} | {"exc":…}
  {"op":"unp","items":[{"s":[cp…],"pf":"<bits>"|null,"t":T},…]} → {"ok":[val|{"exc":…},…]}   (TupleParser.unpack_numeric)
  {"op":"elem","kind":"CIMProperty"|…,"args":{"value":val,"type":T|null,"is_array":b|null,"emb":null|false|"instance"|"object"|other,
        "refclass":b},"values":[val…]} → {"ok":ELEM,"steps":[{"exc":…|null,"elem":ELEM}…]} | {"exc":…}   (constructor, then value setter)
  {"op":"hist","init":[{"key":n,"args":ARGS}…],"ops":[{"op":"update"|"update_existing"|"setitem"|"propvalue",
        "items":[{"key":n,"value":val | "prop":{"name":n,ARGS…}}…]}…]} → {"ok":[{"exc":…|null,"state":[[key,ELEM]…]}…]}
  {"op":"atomic","items":[{"v":SC,"f17":"<%.17G text>"|null,"f11":…}…]} → {"ok":[{"ok":[cp…]|null}|{"exc":…},…]}   (atomic_to_cim_xml)
  {"op":"usv","items":[{"s":[cp…]|null,"pf":"<bits>"|null,"t":T}…]}      → {"ok":[val|{"exc":…},…]}            (unpack_single_value)
  {"op":"realm","p":17|11,"bits":["<bits>",…]} → {"ok":[{"t":"<text>","b":"<bits read back>"|null},…]}   (Model/FloatText.lean)
  {"op":"limits"}                        → the limits table, config switch and format digits the model uses -/

def parseArg (j : Json) : Arg :=
  match getStr j "k" with
  | some "int" => .int ((getInt j "v").getD 0)
  | some "bool" => .bool ((getBool j "v").getD false)
  | some "float" => .float ((getInt j "b").getD 0).toNat
  | some "str" => .str ((getChars j "s").getD [])
  | some "bytes" => .bytes ((getArr j "s").filterMap jsonToNat?)
  | some "none" => .none
  | _ => .other

def optArg (j : Json) (k : String) : Option Arg :=
  match getField j k with
  | .null => none
  | a => some (parseArg a)

def excJ (e : PyExc) : Json := e.toJson

def dtToJson : DT → Json
  | .ts y mo d h mi s us off p => Json.mkObj [("kind", "ts"),
      ("f", Json.arr #[(y : Json), (mo : Json), (d : Json), (h : Json), (mi : Json), (s : Json), (us : Json)]),
      ("off", intToJson off), ("prec", optToJson (fun (n : Nat) => (n : Json)) p)]
  | .iv days secs us p => Json.mkObj [("kind", "iv"),
      ("f", Json.arr #[intToJson days, (secs : Json), (us : Json)]),
      ("prec", optToJson (fun (n : Nat) => (n : Json)) p)]

def natsOf (j : Json) (k : String) : List Nat := (getArr j k).filterMap jsonToNat?

def parseDT (j : Json) : DT :=
  let p := getNat j "prec"
  match getStr j "kind" with
  | some "ts" =>
    match natsOf j "f" with
    | [y, mo, d, h, mi, s, us] => .ts y mo d h mi s us ((getInt j "off").getD 0) p
    | _ => default
  | _ =>
    match getArr j "f" with
    | [d, s, u] => .iv ((jsonToInt? d).getD 0) ((jsonToNat? s).getD 0) ((jsonToNat? u).getD 0) p
    | _ => default

def parseDtArg (j : Json) : DtArg :=
  match getStr j "k" with
  | some "str" => .str ((getChars j "s").getD [])
  | some "datetime" =>
    match natsOf j "f" with
    | [y, mo, d, h, mi, s, us] => .datetime y mo d h mi s us (getInt j "off")
    | _ => .other
  | some "timedelta" =>
    match getArr j "f" with
    | [d, s, u] => .timedelta ((jsonToInt? d).getD 0) ((jsonToNat? s).getD 0) ((jsonToNat? u).getD 0)
    | _ => .other
  | some "cimdt" => .cimdt (parseDT (getField j "dt"))
  | _ => .other

def exceptJ {α} (f : α → Json) : Except PyExc α → Json
  | .ok a => f a
  | .error e => excJ e

def dtReport (x : DT) : Json :=
  let str := toStr x
  let rt : Json := match str with
    | .ok s => (match parse s with | .ok y => Json.bool (y == x) | .error _ => Json.bool false)
    | .error _ => Json.null
  Json.mkObj [("dt", dtToJson x), ("str", exceptJ cpsToJson str),
              ("mfu", exceptJ intToJson (minutesFromUtc x)), ("rt", rt),
              ("wf", Json.bool (WF x)), ("expr", Json.bool (Expressible x))]

def tyOfName (s : String) : Ty :=
  match s with
  | "boolean" => .boolean | "string" => .string | "char16" => .char16 | "reference" => .reference
  | "datetime" => .datetime | "real32" => .real32 | "real64" => .real64
  | n => match IntTy.ofName? n with | some t => .int t | none => .unknown

def parseSc (j : Json) : Sc :=
  match getStr j "k" with
  | some "none" => .none
  | some "bool" => .bool ((getBool j "v").getD false)
  | some "int" => .int ((getInt j "v").getD 0)
  | some "float" => .float ((getInt j "b").getD 0).toNat
  | some "str" => .str ((getChars j "s").getD [])
  | some "char16" => .char16 ((getChars j "s").getD [])
  | some "bytes" => .bytes (natsOf j "s")
  | some "cimint" => .cimInt ((IntTy.ofName? ((getStr j "ty").getD "")).getD .uint8) ((getInt j "v").getD 0)
  | some "real32" => .real32 ((getInt j "b").getD 0).toNat
  | some "real64" => .real64 ((getInt j "b").getD 0).toNat
  | some "cimdt" => .cimDT (parseDT (getField j "dt"))
  | some "datetime" =>
    (match natsOf j "f" with
     | [y, mo, d, h, mi, s, us] => .datetime y mo d h mi s us (getInt j "off")
     | _ => .obj true)
  | some "timedelta" =>
    (match getArr j "f" with
     | [d, s, u] => .timedelta ((jsonToInt? d).getD 0) ((jsonToNat? s).getD 0) ((jsonToNat? u).getD 0)
     | _ => .obj true)
  | some "instname" => .instName ((getBool j "t").getD true)
  | some "classname" => .className
  | some "instance" => .instance ((getBool j "t").getD true)
  | some "class" => .cimClass
  | some "tuple" => .tuple ((getBool j "t").getD true)
  | _ => .obj ((getBool j "t").getD true)

def scToJson : Sc → Json
  | .none => Json.mkObj [("k", "none")]
  | .bool b => Json.mkObj [("k", "bool"), ("v", b)]
  | .int v => Json.mkObj [("k", "int"), ("v", intToJson v)]
  | .float b => Json.mkObj [("k", "float"), ("b", intToJson b)]
  | .str s => Json.mkObj [("k", "str"), ("s", cpsToJson s)]
  | .char16 s => Json.mkObj [("k", "char16"), ("s", cpsToJson s)]
  | .bytes s => Json.mkObj [("k", "bytes"), ("s", Json.arr (s.map (fun (n : Nat) => (n : Json))).toArray)]
  | .cimInt t v => Json.mkObj [("k", "cimint"), ("ty", t.name), ("v", intToJson v)]
  | .real32 b => Json.mkObj [("k", "real32"), ("b", intToJson b)]
  | .real64 b => Json.mkObj [("k", "real64"), ("b", intToJson b)]
  | .cimDT x => Json.mkObj [("k", "cimdt"), ("dt", dtToJson x)]
  | .datetime y mo d h mi s us off => Json.mkObj [("k", "datetime"),
      ("f", Json.arr #[(y : Json), (mo : Json), (d : Json), (h : Json), (mi : Json), (s : Json), (us : Json)]),
      ("off", optToJson intToJson off)]
  | .timedelta d s u => Json.mkObj [("k", "timedelta"), ("f", Json.arr #[intToJson d, (s : Json), (u : Json)])]
  | .instName t => Json.mkObj [("k", "instname"), ("t", t)]
  | .className => Json.mkObj [("k", "classname")]
  | .instance t => Json.mkObj [("k", "instance"), ("t", t)]
  | .cimClass => Json.mkObj [("k", "class")]
  | .obj t => Json.mkObj [("k", "obj"), ("t", t)]
  | .tuple t => Json.mkObj [("k", "tuple"), ("t", t)]

/-- the scalars of a value JSON (to collect the harness-supplied third-party answers) -/
def scalarsOf (j : Json) : List Json :=
  match getStr j "k" with
  | some "list" => getArr j "l"
  | _ => [j]

/-- Env from the answers attached to str/bytes scalars: "pf" (float() bits or null), "u8" (decoded text or null),
    "uri" (from_wbem_uri: true/false = succeeded with/without keybindings, null = ValueError) -/
def envOf (scalars : List Json) : Env :=
  { pyFloat := fun isB cps =>
      (scalars.find? (fun j =>
        (if isB then getStr j "k" == some "bytes" else (getStr j "k" == some "str" || getStr j "k" == some "char16")) &&
        ((if isB then natsOf j "s" else ((getChars j "s").getD []).map Char.toNat) == cps))).bind
        (fun j => (getInt j "pf").map Int.toNat)
    utf8 := Pywbem.Model.Utf8Decode.utf8Decode       -- concrete model of bytes.decode('utf-8') (no longer supplied by the harness)
    uri := fun s =>
      (scalars.find? (fun j => (getStr j "k" == some "str" || getStr j "k" == some "char16") && (getChars j "s").getD [] == s)).bind
        (fun j => getBool j "uri") }

/-- every JSON object with a "k" field below j (the scalars of all values of a request) -/
partial def allScalars (j : Json) : List Json :=
  match j with
  | .arr a => a.toList.flatMap allScalars
  | .obj _ =>
    let here := match getStr j "k" with | some "list" => [] | some _ => [j] | none => []
    let kids := match j with
      | .obj m => (m.toList.map (fun kv => kv.2)).flatMap allScalars
      | _ => []
    here ++ kids
  | _ => []

def parseVal (vj : Json) : Val :=
  match getStr vj "k" with
  | some "list" => .list ((getArr vj "l").map parseSc)
  | _ => .sc (parseSc vj)

def valToJson : Val → Json
  | .sc s => scToJson s
  | .list l => Json.mkObj [("k", "list"), ("l", Json.arr (l.map scToJson).toArray)]

def parseArgs (j : Json) : Args :=
  { value := parseVal (getField j "value"),
    type := (getStr j "type").map tyOfName,
    isArray := getBool j "is_array",
    emb := match getField j "emb" with
      | .null => .infer
      | .bool false => .no
      | .str "instance" => .emb .instance
      | .str "object" => .emb .object
      | _ => .bad,
    refClass := (getBool j "refclass").getD false }

def kindOfName (s : Option String) : ElemKind :=
  match s with
  | some "CIMParameter" => .parameter
  | some "CIMQualifier" => .qualifier
  | some "CIMQualifierDeclaration" => .qualifierDecl
  | _ => .property

def elemToJson (e : Elem) : Json :=
  Json.mkObj [("type", e.type.name), ("value", valToJson e.value), ("is_array", e.isArray),
    ("emb", match e.embedded with | none => Json.null | some .instance => "instance" | some .object => "object")]

def parseGiven (j : Json) : Given :=
  match getField j "prop" with
  | .null => .value (parseVal (getField j "value"))
  | pj => .prop ((getNat pj "name").getD 0) (parseArgs pj)

def parseOp (j : Json) : Option Op :=
  let items := getArr j "items"
  match getStr j "op" with
  | some "update" => some (.update (items.map (fun it => ((getNat it "key").getD 0, parseGiven it))))
  | some "update_existing" => some (.updateExisting (items.map (fun it => ((getNat it "key").getD 0, parseVal (getField it "value")))))
  | some "setitem" => (items.head?).map (fun it => .setItem ((getNat it "key").getD 0) (parseGiven it))
  | some "propvalue" => (items.head?).map (fun it => .propValue ((getNat it "key").getD 0) (parseVal (getField it "value")))
  | _ => none

def instToJson (i : Inst) : Json :=
  Json.arr (i.props.map (fun p => Json.arr #[(p.1 : Json), elemToJson p.2])).toArray

def excOptJ : Option PyExc → Json
  | none => Json.null
  | some e => excJ e

/-- run a history step by step, reporting exception and state after every step -/
def runSteps (env : Env) : Inst → List Op → List Json
  | _, [] => []
  | i, o :: r =>
    let (i', e) := step env i o
    Json.mkObj [("exc", excOptJ e), ("state", instToJson i')] :: runSteps env i' r

def handle (j : Json) : Json :=
  match getStr j "op" with
  | some "int" =>
    let ty := (IntTy.ofName? ((getStr j "ty").getD "")).getD .uint8
    let c : Call := { pos := (getArr j "pos").map parseArg, kwX := optArg j "x", kwBase := optArg j "base" }
    let r := match getBool j "enforce" with
      | some e => mkInt e ty c
      | none => mkIntCfg ty c
    exceptJ (fun (x : CimInt) => Json.mkObj [("ok", intToJson x.val), ("ty", x.ty.name)]) r
  | some "dt" =>
    let r := construct (parseDtArg (getField j "arg"))
    let r := if (getBool j "copy").getD false then r.bind (fun x => construct (.cimdt x)) else r
    exceptJ (fun x => Json.mkObj [("ok", dtReport x)]) r
  | some "real" =>
    let outs := (getArr j "s").map (fun x =>
      match x with
      | .str s => Json.str (String.ofList (fixup s.toList))
      | _ => Json.null)
    Json.mkObj [("ok", Json.arr outs.toArray)]
  | some "cv" =>
    let vj := getField j "v"
    let env := envOf (scalarsOf vj)
    let v : Val := match getStr vj "k" with
      | some "list" => .list ((getArr vj "l").map parseSc)
      | _ => .sc (parseSc vj)
    let t : Option Ty := (getStr j "t").map tyOfName
    exceptJ (fun (r : Val) =>
      match r with
      | .sc s => Json.mkObj [("ok", scToJson s)]
      | .list l => Json.mkObj [("ok", Json.mkObj [("k", "list"), ("l", Json.arr (l.map scToJson).toArray)])])
      (cimvalue env v t)
  | some "elem" =>
    -- {"op":"elem","kind":K,"args":ARGS,"values":[v…]}: construct, then assign each value through the value setter
    let env := envOf (allScalars j)
    let k := kindOfName (getStr j "kind")
    match mkElem env k (parseArgs (getField j "args")) with
    | .error e => excJ e
    | .ok e0 =>
      let rec go (e : Elem) : List Json → List Json
        | [] => []
        | vj :: r =>
          match setValue env e (parseVal vj) with
          | .error ex => Json.mkObj [("exc", excJ ex), ("elem", elemToJson e)] :: go e r
          | .ok e' => Json.mkObj [("exc", Json.null), ("elem", elemToJson e')] :: go e' r
      Json.mkObj [("ok", elemToJson e0), ("steps", Json.arr (go e0 (getArr j "values")).toArray)]
  | some "hist" =>
    -- {"op":"hist","init":[{"key":n,"args":ARGS}…],"ops":[OP…]}: instance with the initial properties, then the history
    let env := envOf (allScalars j)
    let init := (getArr j "init").foldl (fun (acc : Except PyExc Inst) it =>
      acc.bind (fun i => (mkProperty env (parseArgs (getField it "args"))).map
        (fun p => { props := putProp i.props ((getNat it "key").getD 0) p }))) (.ok {})
    match init, (getArr j "ops").mapM parseOp with
    | .error e, _ => excJ e
    | _, none => Json.mkObj [("bad", "op")]
    | .ok i0, some ops => Json.mkObj [("ok", Json.arr (runSteps env i0 ops).toArray)]
  | some "atomic" =>
    -- {"op":"atomic","items":[{"v":SC,"f17":"…"|null,"f11":"…"|null}…]}: atomic_to_cim_xml; f17/f11 = CPython's own format()
    let outs := (getArr j "items").map (fun it =>
      let vj := getField it "v"
      let env := envOf [vj]
      let f17 := fun (_ : Nat) => ((getStr it "f17").getD "").toList
      let f11 := fun (_ : Nat) => ((getStr it "f11").getD "").toList
      exceptJ (fun (r : Option (List Char)) => Json.mkObj [("ok", optToJson cpsToJson r)])
        (atomicToCimXml f17 f11 env.utf8 (parseSc vj)))
    Json.mkObj [("ok", Json.arr outs.toArray)]
  | some "usv" =>
    -- {"op":"usv","items":[{"s":[cp…]|null,"pf":"<bits>"|null,"t":T}…]}: TupleParser.unpack_single_value
    let outs := (getArr j "items").map (fun it =>
      let t : WireTy := match getStr it "t" with
        | some "string" => .string | some "boolean" => .boolean | some "datetime" => .datetime | some "char16" => .char16
        | some "real32" => .num .real32 | some "real64" => .num .real64
        | some n => (match IntTy.ofName? n with | some ty => .num (.int ty) | none => .other)
        | none => .other
      exceptJ scToJson (unpackSingleValue ((getInt it "pf").map Int.toNat) (getChars it "s") t))
    Json.mkObj [("ok", Json.arr outs.toArray)]
  | some "toxml" =>
    -- {"op":"toxml","items":[val…]}: module-level tocimxml(value); '%.17G'/'%.11G' through the concrete model fmtG
    let rec vx : ValXml → Json
      | .value t => Json.mkObj [("VALUE", optToJson cpsToJson t)]
      | .valueNull => Json.str "NULL"
      | .object => Json.str "OBJECT"
      | .valueArray l => Json.mkObj [("ARRAY", Json.arr (l.map vx).toArray)]
    Json.mkObj [("ok", Json.arr ((getArr j "items").map (fun vj =>
      exceptJ vx (tocimxmlCfg (fmtG 17) (fmtG 11) Pywbem.Model.Utf8Decode.utf8Decode (parseVal vj)))).toArray)]
  | some "utf8" =>
    -- {"op":"utf8","items":[[byte…]…]} → [[cp…]|null]
    Json.mkObj [("ok", Json.arr ((getArr j "items").map (fun it =>
      optToJson cpsToJson (Pywbem.Model.Utf8Decode.utf8Decode ((match it with | .arr a => a.toList | _ => []).filterMap jsonToNat?)))).toArray)]
  | some "dteq" =>
    -- {"op":"dteq","pairs":[[DT,DT]…]} → [true|false|{"exc":…}]   (CIMDateTime.__eq__ of two distinct objects)
    let outs := (getArr j "pairs").map (fun pr =>
      match pr with
      | .arr #[a, b] => exceptJ (fun (r : Bool) => Json.bool r) (dtEq (parseDT a) (parseDT b))
      | _ => Json.null)
    Json.mkObj [("ok", Json.arr outs.toArray)]
  | some "realm" =>
    -- {"op":"realm","p":17|11,"bits":["<bits>",…]}: the concrete codec model: text = fixup (fmtG p bits), back = floatOfText text
    let p := (getNat j "p").getD 17
    let outs := (getArr j "bits").map (fun b =>
      let txt := fixup (fmtG p ((jsonToInt? b).getD 0).toNat)
      Json.mkObj [("t", Json.str (String.ofList txt)), ("b", optToJson (fun (n : Nat) => intToJson n) (floatOfText txt))])
    Json.mkObj [("ok", Json.arr outs.toArray)]
  | some "unp" =>
    let outs := (getArr j "items").map (fun it =>
      let t : NumTy := match getStr it "t" with
        | some "real32" => .real32
        | some "real64" => .real64
        | some n => .int ((IntTy.ofName? n).getD .uint8)
        | none => .real64
      exceptJ scToJson (unpackNumeric ((getInt it "pf").map Int.toNat) ((getChars it "s").getD []) t))
    Json.mkObj [("ok", Json.arr outs.toArray)]
  | some "limits" =>
    Json.mkObj [("limits", Json.arr (IntTy.all.map (fun t =>
        Json.arr #[Json.str t.name, intToJson t.lo, intToJson t.hi])).toArray),
      ("enforce", Pywbem.Generated.enforceIntegerRange),
      ("real32digits", optToJson (fun (n : Nat) => (n : Json)) (specDigits Pywbem.Generated.real32FormatSpec)),
      ("real64digits", optToJson (fun (n : Nat) => (n : Json)) (specDigits Pywbem.Generated.real64FormatSpec))]
  | _ => Json.mkObj [("bad", "op")]

def main : IO Unit := runDriver handle
