import Pywbem.Model.CimJson
import Pywbem.Model.CimXmlDec
import Pywbem.Model.XmlParse
open Lean Pywbem.Proto Pywbem.Model Pywbem.Model.CimJson Pywbem.Model.XmlText

/-! C01 driver.  ops:
  {"op":"enc","obj":obj,"codec":{…}}   -> {"xml":cps}                          ser (encObj o)
  {"op":"encp","obj":path obj,"ih":b,"ins":b,"codec":{…}} -> {"xml":cps}       ser (encPathOpt ih ins p)
  {"op":"dec","tree":tt,"codec":{…}}   -> {"ok":obj} | {"exc":…}               decode 8 tree
  {"op":"par","s":cps}                 -> {"tree":tt|null}                     XmlParse.par (proved against Xml.ser)
  {"op":"txt","s":cps}                 -> {"text":cps|null,"attr":cps|null}    wireText / wireAttr
-/

def decCodecOfJson (j : Json) : DecCodec :=
  let truncs : List (UInt64 × Except PyExc Int) := (getArr j "truncs").filterMap (fun e => match e with
    | .arr a => some (bitsOf (a[0]!), match a[1]! with
        | .str s => (match s.toInt? with
            | some i => .ok i
            | none => if s == "OverflowError" then .error .overflowError else .error .valueError)
        | _ => .error .valueError)
    | _ => none)
  let fofi : List (Int × Option UInt64) := (getArr j "fofi").filterMap (fun e => match e with
    | .arr a => some ((jsonToInt? (a[0]!)).getD 0, match a[1]! with | .null => none | b => some (bitsOf b))
    | _ => none)
  { toCodec := codecOfJson j,
    truncFloat := fun b => match truncs.find? (fun e => e.1 == b) with
      | some e => e.2 | none => .error .valueError,
    floatOfInt := fun i => match fofi.find? (fun e => e.1 == i) with
      | some e => e.2 | none => none }

def handle (j : Json) : Json :=
  match getStr j "op" with
  | some "enc" =>
    match objOfJson (getField j "obj") with
    | some o => Json.mkObj [("xml", cpsToJson (encObj (codecOfJson (getField j "codec")) o).ser)]
    | none => Json.mkObj [("bad", "obj")]
  | some "encp" =>
    match objOfJson (getField j "obj") with
    | some (.path p) => Json.mkObj [("xml", cpsToJson (encPathOpt (codecOfJson (getField j "codec"))
        ((getBool j "ih").getD false) ((getBool j "ins").getD false) p).ser)]
    | _ => Json.mkObj [("bad", "obj")]
  | some "dec" =>
    match decode (decCodecOfJson (getField j "codec")) 8 (xmlOfJson (getField j "tree")) with
    | .ok o => Json.mkObj [("ok", objToJson o)]
    | .error e => e.toJson
  | some "par" =>
    match Pywbem.Model.XmlParse.par ((getChars j "s").getD []) with
    | some t => Json.mkObj [("tree", xmlToJson t)]
    | none => Json.mkObj [("tree", Json.null)]
  | some "txt" =>
    let s := (getChars j "s").getD []
    Json.mkObj [("text", optToJson cpsToJson (wireText s)), ("attr", optToJson cpsToJson (wireAttr s))]
  | _ => Json.mkObj [("bad", "op")]

def main : IO Unit := runDriver handle
