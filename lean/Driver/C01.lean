import Pywbem.Model.CimJson
open Lean Pywbem.Proto Pywbem.Model Pywbem.Model.CimJson Pywbem.Model.XmlText

/-! C01 driver.  ops:
  {"op":"enc","obj":obj,"codec":{…}}            -> {"xml":cps}            ser (encObj o)
  {"op":"txt","s":cps}                          -> {"text":cps|null,"attr":cps|null}   wireText / wireAttr
-/

def handle (j : Json) : Json :=
  match getStr j "op" with
  | some "enc" =>
    match objOfJson (getField j "obj") with
    | some o => Json.mkObj [("xml", cpsToJson (encObj (codecOfJson (getField j "codec")) o).ser)]
    | none => Json.mkObj [("bad", "obj")]
  | some "txt" =>
    let s := (getChars j "s").getD []
    Json.mkObj [("text", optToJson cpsToJson (wireText s)), ("attr", optToJson cpsToJson (wireAttr s))]
  | _ => Json.mkObj [("bad", "op")]

def main : IO Unit := runDriver handle
