import Pywbem.Model.Uri
open Lean Pywbem.Proto Pywbem.Model.Uri

/-! C07 driver.  One JSON object per line:
  {"op":"to",   "fmt":F, "path":P, "tab":TAB}    -> {"ok":[code points]}
  {"op":"toc",  "fmt":F, "cpath":CP, "tab":TAB}  -> {"ok":[code points]}
  {"op":"from", "text":[code points], "tab":TAB} -> {"ok":P} | {"exc":name}
  {"op":"fromc","text":[code points], "tab":TAB} -> {"ok":CP} | {"exc":name}
  {"op":"eq",   "p":P, "q":P, "tab":TAB, "reals":[[cps,class|null],…], "dts":[…]} -> {"eq":bool}   (CIMInstanceName.__eq__)
  {"op":"eqc",  "p":CP, "q":CP, "tab":TAB}       -> {"eq":bool}   (CIMClassName.__eq__)
  {"op":"lit",  "text":[code points]}            -> {"int":"decimal"|null,"real":bool,"dt":bool,"frepr":bool}
  P   = {"host":cps|null,"ns":cps|null,"cls":cps,"keys":[[cps, V],…]}
  V   = {"t":"str","v":cps} | {"t":"bool","v":bool} | {"t":"int","v":"decimal"} | {"t":"real","v":cps}
      | {"t":"dt","v":cps} | {"t":"ref","v":P}
  CP  = {"host":…,"ns":…,"cls":…}
  TAB = {"word":[cp,…], "lower":[[cp,[cp,…]],…], "fold":[[cp,[cp,…]],…]}   (non-ASCII characters only; what
        Python's re `\w`, str.lower and str.casefold say for them) -/

def fmtOf : Option String → Fmt
  | some "canonical" => .canonical
  | some "cimobject" => .cimobject
  | some "historical" => .historical
  | _ => .standard

def pairTable (j : Json) : List (Nat × List Char) :=
  match j with
  | .arr a => a.toList.filterMap (fun e =>
      match e with
      | .arr p => match p.toList with
        | [c, l] => match jsonToNat? c, jsonToChars? l with
          | some c, some l => some (c, l)
          | _, _ => none
        | _ => none
      | _ => none)
  | _ => []

def mkTab (j : Json) : Tab :=
  let words := (getArr j "word").filterMap jsonToNat?
  let lowers := pairTable (getField j "lower")
  let folds := pairTable (getField j "fold")
  let look (t : List (Nat × List Char)) (c : Char) : List Char :=
    match t.find? (fun p => p.1 == c.toNat) with
    | some p => p.2
    | none => [c]
  { word := fun c => if c.toNat < 128 then asciiWord c else words.contains c.toNat,
    lower := fun c => if c.toNat < 128 then [lowerAscii c] else look lowers c,
    fold := fun c => if c.toNat < 128 then [lowerAscii c] else look folds c }

/-- equivalence classes of the real / datetime texts of a request, computed by the real Python (`null` = equal to nothing, NaN) -/
def classTable (j : Json) : List (List Char × Option Nat) :=
  match j with
  | .arr a => a.toList.filterMap (fun e =>
      match e with
      | .arr p => match p.toList with
        | [t, c] => (jsonToChars? t).map (fun t => (t, jsonToNat? c))
        | _ => none
      | _ => none)
  | _ => []

def sameClass (t : List (List Char × Option Nat)) (a b : List Char) : Bool :=
  match t.find? (fun p => p.1 == a), t.find? (fun p => p.1 == b) with
  | some (_, some x), some (_, some y) => x == y
  | _, _ => false

def mkEqTab (j : Json) : EqTab :=
  { realSame := sameClass (classTable (getField j "reals")), dtSame := sameClass (classTable (getField j "dts")) }

def optChars (j : Json) (k : String) : Option (List Char) := jsonToChars? (getField j k)

mutual
partial def pathOfJson (j : Json) : Option Path :=
  match jsonToChars? (getField j "cls") with
  | none => none
  | some cls =>
    match (getArr j "keys").mapM keyOfJson with
    | none => none
    | some ks => some (.mk (optChars j "host") (optChars j "ns") cls (Keys.ofList ks))
partial def keyOfJson (j : Json) : Option (Str × KeyVal) :=
  match j with
  | .arr a => match a.toList with
    | [k, v] => match jsonToChars? k, valOfJson v with
      | some k, some v => some (k, v)
      | _, _ => none
    | _ => none
  | _ => none
partial def valOfJson (j : Json) : Option KeyVal :=
  match getStr j "t" with
  | some "str" => (getChars j "v").map .str
  | some "bool" => (getBool j "v").map .bool
  | some "int" => (getInt j "v").map .int
  | some "real" => (getChars j "v").map .real
  | some "dt" => (getChars j "v").map .dt
  | some "ref" => (pathOfJson (getField j "v")).map .ref
  | _ => none
end

def optCps : Option Str → Json
  | none => Json.null
  | some s => cpsToJson s

mutual
partial def pathToJson : Path → Json
  | .mk h n c ks => Json.mkObj [("host", optCps h), ("ns", optCps n), ("cls", cpsToJson c),
      ("keys", Json.arr (ks.toList.map (fun kv => Json.arr #[cpsToJson kv.1, valToJson kv.2])).toArray)]
partial def valToJson : KeyVal → Json
  | .str s => Json.mkObj [("t", "str"), ("v", cpsToJson s)]
  | .bool b => Json.mkObj [("t", "bool"), ("v", b)]
  | .int i => Json.mkObj [("t", "int"), ("v", intToJson i)]
  | .real r => Json.mkObj [("t", "real"), ("v", cpsToJson r)]
  | .dt s => Json.mkObj [("t", "dt"), ("v", cpsToJson s)]
  | .ref p => Json.mkObj [("t", "ref"), ("v", pathToJson p)]
end

def cpathToJson (p : ClassPath) : Json :=
  Json.mkObj [("host", optCps p.host), ("ns", optCps p.ns), ("cls", cpsToJson p.cls)]

def handle (j : Json) : Json :=
  let T := mkTab (getField j "tab")
  match getStr j "op" with
  | some "to" =>
    match pathOfJson (getField j "path") with
    | some p => Json.mkObj [("ok", cpsToJson (toUri T (fmtOf (getStr j "fmt")) p))]
    | none => Json.mkObj [("bad", "path")]
  | some "toc" =>
    let c := getField j "cpath"
    match jsonToChars? (getField c "cls") with
    | some cls => Json.mkObj [("ok", cpsToJson (toUriClass T (fmtOf (getStr j "fmt"))
        { host := optChars c "host", ns := optChars c "ns", cls := cls }))]
    | none => Json.mkObj [("bad", "cpath")]
  | some "from" =>
    match getChars j "text" with
    | some t => match fromUri T t with
      | .ok p => Json.mkObj [("ok", pathToJson p)]
      | .error e => e.toJson
    | none => Json.mkObj [("bad", "text")]
  | some "fromc" =>
    match getChars j "text" with
    | some t => match fromUriClass T t with
      | .ok p => Json.mkObj [("ok", cpathToJson p)]
      | .error e => e.toJson
    | none => Json.mkObj [("bad", "text")]
  | some "eq" =>
    -- {"op":"eq","p":P,"q":P,"tab":TAB,"reals":[[cps,class|null],…],"dts":[[cps,class|null],…]} -> {"eq":bool}
    match pathOfJson (getField j "p"), pathOfJson (getField j "q") with
    | some p, some q => Json.mkObj [("eq", pathEqB T (mkEqTab j) p q)]
    | _, _ => Json.mkObj [("bad", "path")]
  | some "eqc" =>
    let rd (c : Json) : Option ClassPath :=
      (jsonToChars? (getField c "cls")).map (fun cls => { host := optChars c "host", ns := optChars c "ns", cls := cls })
    match rd (getField j "p"), rd (getField j "q") with
    | some p, some q => Json.mkObj [("eq", classEqB T p q)]
    | _, _ => Json.mkObj [("bad", "cpath")]
  | some "tofmt" =>
    -- {"op":"tofmt","name":str,"path":P,"tab":TAB} -> {"ok":cps} | {"exc":…}     (format argument validation)
    match pathOfJson (getField j "path") with
    | some p => match toWbemUri T ((getStr j "name").getD "") p with
      | .ok u => Json.mkObj [("ok", cpsToJson u)]
      | .error e => e.toJson
    | none => Json.mkObj [("bad", "path")]
  | some "tofmtc" =>
    let c := getField j "cpath"
    match jsonToChars? (getField c "cls") with
    | some cls => match toWbemUriClass T ((getStr j "name").getD "") { host := optChars c "host", ns := optChars c "ns", cls := cls } with
      | .ok u => Json.mkObj [("ok", cpsToJson u)]
      | .error e => e.toJson
    | none => Json.mkObj [("bad", "cpath")]
  | some "mk" =>
    -- {"op":"mk","cls":cps,"keys":[[cps,V],…],"host":…,"ns":…,"tab":TAB} -> {"ok":P}   (constructor: namespace setter, NocaseDict copy)
    match jsonToChars? (getField j "cls"), (getArr j "keys").mapM keyOfJson with
    | some cls, some ks => Json.mkObj [("ok", pathToJson (mkPath T cls ks (optChars j "host") (optChars j "ns")))]
    | _, _ => Json.mkObj [("bad", "mk")]
  | some "hdr" =>
    -- {"op":"hdr","kind":"text"|"cls"|"inst"|"other",…} -> {"ok":cps} | {"exc":"TypeError"}   (get_cimobject_header)
    let arg : Option HeaderArg :=
      match getStr j "kind" with
      | some "text" => (getChars j "text").map .text
      | some "cls" =>
        let c := getField j "cpath"
        (jsonToChars? (getField c "cls")).map (fun cls => .cls { host := optChars c "host", ns := optChars c "ns", cls := cls })
      | some "inst" => (pathOfJson (getField j "path")).map .inst
      | _ => some .other
    match arg with
    | some a => match cimObjectHeader T a with
      | .ok u => Json.mkObj [("ok", cpsToJson u)]
      | .error e => e.toJson
    | none => Json.mkObj [("bad", "hdr")]
  | some "strof" =>
    match pathOfJson (getField j "path") with
    | some p => Json.mkObj [("ok", cpsToJson (pathStr T p))]
    | none => Json.mkObj [("bad", "path")]
  | some "lit" =>
    match getChars j "text" with
    | some t => Json.mkObj [("int", optToJson intToJson (intLit t)), ("real", realLit t), ("dt", dtAccepts t),
                           ("frepr", isFloatRepr t)]
    | none => Json.mkObj [("bad", "text")]
  | _ => Json.mkObj [("bad", "op")]

def main : IO Unit := runDriver handle
