import Pywbem.Model.Atomic
open Lean Pywbem.Proto Pywbem.Model.Atomic

/-! C11 driver.  Input line: {"nss":[name,…],"ops":[op,…]} (names are JSON strings or code point arrays);
  the history starts from a repository with the given empty namespaces.
  Output: {"steps":[{"exc":null|{exc,code?},"state":STATE},…]} – outcome and abstract repository dump after
  every operation (formats: harness/c11.py `abstract_state`). -/

abbrev AName := Pywbem.Model.Atomic.Name

def gName (j : Json) (k : String) : AName := (getChars j k).getD []
def gOptName (j : Json) (k : String) : Option AName := getChars j k
def jName (n : AName) : Json := Json.str (String.ofList n)
def jOptName : Option AName → Json
  | none => Json.null
  | some n => jName n

def pScalar (j : Json) : Option Scalar :=
  match getChars j "s" with
  | some s => some (.str s)
  | none => (getInt j "i").map Scalar.int

def pKeys0 (j : Json) : List (AName × Scalar) :=
  (getArr j "keys").filterMap (fun e =>
    match e with
    | .arr a => if a.size == 2 then (do let n ← jsonToChars? a[0]!; let v ← pScalar a[1]!; pure (n, v)) else none
    | _ => none)

def pPath0 (j : Json) : Path0 :=
  { cls := gName j "cls", ns := gOptName j "ns", host := gOptName j "host", keys := pKeys0 j }

def pVal (j : Json) : Val :=
  match j with
  | .null => .null
  | _ =>
    match pScalar j with
    | some s => .sc s
    | none =>
      match getField j "ref" with
      | .null => .null
      | r => .ref (pPath0 r)

def pPropV (j : Json) : PropV :=
  { name := gName j "name", ty := gName j "ty", isArr := (getBool j "arr").getD false, val := pVal (getField j "val") }

def pInst (j : Json) : Inst := { cls := gName j "cls", props := (getArr j "props").map pPropV }

def pPath (j : Json) : Path :=
  { cls := gName j "cls", ns := gOptName j "ns",
    keys := (getArr j "keys").filterMap (fun e =>
      match e with
      | .arr a => if a.size == 2 then (jsonToChars? a[0]!).map (fun n => (n, pVal a[1]!)) else none
      | _ => none) }

def pQualUse (j : Json) : QualUse := { name := gName j "name", ty := gName j "ty", val := gOptName j "val" }

def pQualDecl (j : Json) : QualDecl :=
  { name := gName j "name", ty := gName j "ty", scopes := (getArr j "scopes").filterMap jsonToChars?,
    body := (getNat j "body").getD 0 }

def pPropDef (j : Json) : PropDef :=
  { name := gName j "name", ty := gName j "ty", isArr := (getBool j "arr").getD false, ref := gOptName j "ref",
    quals := (getArr j "quals").map pQualUse }

def pMethodDef (j : Json) : MethodDef :=
  { name := gName j "name", retTy := gName j "ret", quals := (getArr j "quals").map pQualUse,
    params := (getArr j "params").map pPropDef }

def pClassDef (j : Json) : ClassDef :=
  { name := gName j "name", super := gOptName j "super", quals := (getArr j "quals").map pQualUse,
    props := (getArr j "props").map pPropDef, methods := (getArr j "methods").map pMethodDef }

def pObj (j : Json) : Obj :=
  match getStr j "k" with
  | some "cls" => .cls (pClassDef (getField j "cls"))
  | some "inst" => .inst (match getField j "path" with | .null => none | p => some (pPath p)) (pInst (getField j "inst"))
  | some "qual" => .qual (pQualDecl (getField j "qual"))
  | _ => .bad

def pProd (j : Json) : Prod :=
  match getStr j "k" with
  | some "cls" => .cls (pClassDef (getField j "cls"))
  | some "inst" => .inst (pInst (getField j "inst"))
  | some "qual" => .qual (pQualDecl (getField j "qual"))
  | some "include" => .missingInclude
  | _ => .syntaxError

partial def pItem (j : Json) : MofItem :=
  match getStr j "k" with
  | some "pragma_ns" => .pragmaNamespace (gName j "ns")
  | some "bad_pragma" => .badPragmaNamespace
  | some "other_pragma" => .otherPragma
  | some "include_file" => .include ((getArr j "items").map pItem)
  | _ => .prod (pProd j)

def pOp (j : Json) : Option Op :=
  let ns := gName j "ns"
  match getStr j "op" with
  | some "createClass" => some (.createClass ns (pClassDef (getField j "cls")))
  | some "modifyClass" => some (.modifyClass ns (pClassDef (getField j "cls")))
  | some "deleteClass" => some (.deleteClass ns (gName j "name"))
  | some "setQualifier" => some (.setQualifier ns (pQualDecl (getField j "qual")))
  | some "deleteQualifier" => some (.deleteQualifier ns (gName j "name"))
  | some "createInstance" => some (.createInstance ns (pInst (getField j "inst")))
  | some "modifyInstance" => some (.modifyInstance ns (pPath (getField j "path")) (pInst (getField j "inst"))
      (match getField j "pl" with | .null => none | _ => some ((getArr j "pl").filterMap jsonToChars?)))
  | some "deleteInstance" => some (.deleteInstance ns (pPath (getField j "path")))
  | some "addNamespace" => some (.addNamespace ns)
  | some "removeNamespace" => some (.removeNamespace ns)
  | some "addObjects" => some (.addObjects ns ((getArr j "objs").map pObj))
  | some "addObject" => some (.addObject ns (pObj (getField j "obj")))
  | some "compileMof" => some (.compileMofItems ns ((getArr j "prods").map pItem))
  | some "compileSchema" => some (.compileSchemaClasses ns ((getArr j "files").map (fun f =>
      if (getBool f "listed").getD true then SchemaFile.items ((getArr f "prods").map pItem) else SchemaFile.notListed)))
  | _ => none

/-! output -/

def jScalar : Scalar → Json
  | .str s => Json.mkObj [("s", jName s)]
  | .int v => Json.mkObj [("i", intToJson v)]

def jPath0 (p : Path0) : Json :=
  Json.mkObj [("cls", jName p.cls), ("ns", jOptName p.ns), ("host", jOptName p.host),
              ("keys", Json.arr (p.keys.map (fun e => Json.arr #[jName e.1, jScalar e.2])).toArray)]

def jVal : Val → Json
  | .null => Json.null
  | .sc s => jScalar s
  | .ref p => Json.mkObj [("ref", jPath0 p)]

def jPropV (p : PropV) : Json :=
  Json.mkObj [("name", jName p.name), ("ty", jName p.ty), ("arr", p.isArr), ("val", jVal p.val)]

def jPath (p : Path) : Json :=
  Json.mkObj [("cls", jName p.cls), ("ns", jOptName p.ns),
              ("keys", Json.arr (p.keys.map (fun e => Json.arr #[jName e.1, jVal e.2])).toArray)]

def jQualUse (q : QualUse) : Json :=
  Json.mkObj [("name", jName q.name), ("ty", jName q.ty), ("val", jOptName q.val), ("propagated", q.propagated)]

def jParam (p : PropDef) : Json :=
  Json.mkObj [("name", jName p.name), ("ty", jName p.ty), ("arr", p.isArr), ("ref", jOptName p.ref),
              ("quals", Json.arr (p.quals.map jQualUse).toArray)]

def jMethodRec (m : MethodRec) : Json :=
  Json.mkObj [("name", jName m.d.name), ("ret", jName m.d.retTy), ("quals", Json.arr (m.d.quals.map jQualUse).toArray),
              ("params", Json.arr (m.d.params.map jParam).toArray), ("origin", jName m.origin),
              ("propagated", m.propagated)]

def jPropRec (p : PropRec) : Json :=
  Json.mkObj [("name", jName p.d.name), ("ty", jName p.d.ty), ("arr", p.d.isArr), ("ref", jOptName p.d.ref),
              ("quals", Json.arr (p.d.quals.map jQualUse).toArray), ("origin", jName p.origin),
              ("propagated", p.propagated)]

def jClass (c : ClassRec) : Json :=
  Json.mkObj [("name", jName c.name), ("super", jOptName c.super),
              ("quals", Json.arr (c.quals.map jQualUse).toArray), ("props", Json.arr (c.props.map jPropRec).toArray),
              ("methods", Json.arr (c.methods.map jMethodRec).toArray)]

def jQualDecl (q : QualDecl) : Json :=
  Json.mkObj [("name", jName q.name), ("ty", jName q.ty), ("scopes", Json.arr (q.scopes.map jName).toArray),
              ("body", (q.body : Nat))]

def jInst (i : InstRec) : Json :=
  Json.mkObj [("path", jPath i.path), ("cls", jName i.cls), ("props", Json.arr (i.props.map jPropV).toArray)]

def jState (s : State) : Json :=
  Json.mkObj [("nss", Json.arr (s.nss.map (fun r =>
    Json.mkObj [("name", jName r.name), ("classes", Json.arr (r.classes.map jClass).toArray),
                ("quals", Json.arr (r.quals.map jQualDecl).toArray),
                ("insts", Json.arr (r.insts.map jInst).toArray)])).toArray)]

def pCmd (j : Json) : Option Cmd :=
  match getStr j "op" with
  | some "installNsProvider" => some (.installNsProvider (gName j "ns"))
  | some "installUserProvider" =>
    let names := fun k => (getArr j k).filterMap jsonToChars?
    let exc : PyExc := match getStr j "exc" with
      | some "ValueError" => .valueError
      | some "TypeError" => .typeError
      | some "KeyError" => .keyError
      | some "OSError" => .osError
      | some "CIMError" => .cimError ((getNat j "code").getD 1)
      | _ => .valueError
    some (.installUserProvider { ns := gName j "ns", cls := gName j "cls", trigger := gName j "trigger",
                                 rejCreate := names "rej_create", rejModify := names "rej_modify",
                                 rejDelete := names "rej_delete", exc := exc })
  | _ => (pOp j).map Cmd.op

def handle (j : Json) : Json :=
  match (getArr j "ops").mapM pCmd with
  | none => Json.mkObj [("bad", "op")]
  | some ops =>
    let s0 : State := { nss := ((getArr j "nss").filterMap jsonToChars?).map (fun n => { name := n }) }
    let steps := runCmds s0 ops
    Json.mkObj [("steps", Json.arr (steps.map (fun r =>
      Json.mkObj [("exc", match r.2 with | none => Json.null | some e => e.toJson), ("state", jState r.1)])).toArray)]

def main : IO Unit := runDriver handle
