import Pywbem.Model.MofCompile
import Pywbem.Model.MofParse
open Lean Pywbem.Proto Pywbem.Model Pywbem.Model.MofCompile Pywbem.Model.MofParse

/-! C09 driver.  Strings travel as arrays of code points.  Input line = {"op":..., ...}:
  {"op":"lex","src":S}                       -> {"toks":[[kind,pos,len,line,extra]..]}   extra = token type of an
                                                identifier / hex text of an integer value / null
  {"op":"col","src":S,"pos":n}               -> {"col":n,"ptr":n}
  {"op":"pragma","param":S,"word":[cp..]}    -> {"ok":S} | {"exc":..}      word = the code points of param that are \w
  {"op":"include","file":S|null,"param":S}   -> {"path":S}
  {"op":"createInstance","ci":A,"gc":A,"pathOk":b,"mi":A}                 A = null | status code
  {"op":"setQualifier","sq1":A,"server":b,"createNs":E,"dq":A,"sq2":A}    E = null | {"exc":name[,"code":n]}
  {"op":"createClass","cc":[A..],"server":b,"createNs":E,"hasSuper":b,"superMof":null|R,"nsInQualcache":b,"qualsKnown":b,
        "qualFiles":R,"deps":R,"modifyClass":A}                           R = {"ok":null} | {"exc":..}
  {"op":"qualifier","inCache":b,"eq":A,"server":b,"createNs":E,"qualFiles":R,"found":b}
  {"op":"instClass","gc1":A,"mof":null|R,"gc2":A}
  {"op":"cimObject","r":R}
  {"op":"lr","types":[token type names]}     -> {"accept":n} | {"error":[k,state]} | {"fault":..}   (LALR driver only)
  {"op":"parse","src":S}                     -> {"accept":true} | {"errtok":[pos,len,line,col,state]} | {"erreof":state}
                                                | {"raised":true} | {"fault":true}              (lexer + LALR driver)
  {"op":"wf"}                                -> {"wf":bool,"states":n,"maxRank":n}   (well-formedness evaluated at run time)
  each of the five             -> {"ok":null} | {"exc":..} -/

def natsToJson (s : List Nat) : Json := Json.arr (s.map (fun (n : Nat) => (n : Json))).toArray
def getNats (j : Json) (k : String) : List Nat := (getArr j k).filterMap jsonToNat?

def kindName : Kind → String
  | .comment => "comment" | .mcomment => "mcomment" | .newline => "newline"
  | .float => "floatValue" | .hex => "hexValue" | .binary => "binaryValue" | .octal => "octalValue"
  | .decimal => "decimalValue" | .charValue => "charValue" | .stringValue => "stringValue"
  | .ident => "ident" | .literal => "literal" | .errChar => "errChar" | .errBinary => "errBinary"
  | .errOctal => "errOctal" | .raiseValueError => "raiseValueError"

def hexOfInt (i : Int) : String :=
  let body := String.ofList (Nat.toDigits 16 i.natAbs)
  if i < 0 then "-" ++ body else body

def tokJson (src : List Nat) (t : Tok) : Json :=
  let text := (src.drop t.pos).take t.len
  let extra : Json :=
    match t.kind with
    | .ident => Json.str (identType text)
    | k => match tokenInt k text with
      | some v => Json.str (hexOfInt v)
      | none => Json.null
  Json.arr #[Json.str (kindName t.kind), (t.pos : Nat), (t.len : Nat), (t.line : Nat), extra]

def excOfName (n : String) (code : Nat) : PyExc :=
  match n with
  | "CIMError" => .cimError code
  | "ModelError" => .modelError | "ValueError" => .valueError | "TypeError" => .typeError
  | "OSError" => .osError | "KeyError" => .keyError | "IndexError" => .indexError
  | "AttributeError" => .attributeError | "OverflowError" => .overflowError
  | "AssertionError" => .assertionError | "MOFParseError" => .mofParseError
  | "MOFDependencyError" => .mofDependencyError | "MOFRepositoryError" => .mofRepositoryError
  | "MOFCompileError" => .mofCompileError | "RecursionError" => .recursionError
  | _ => .connectionError

def optExc (j : Json) (k : String) : Option PyExc :=
  match getField j k with
  | .null => none
  | o => some (excOfName ((getStr o "exc").getD "") ((getNat o "code").getD 0))

def resOf (j : Json) (k : String) : Except PyExc Unit :=
  match getField j k with
  | .null => .ok ()
  | o => match getStr o "exc" with
    | some n => .error (excOfName n ((getNat o "code").getD 0))
    | none => .ok ()

def optRes (j : Json) (k : String) : Option (Except PyExc Unit) :=
  match getField j k with
  | .null => none
  | _ => some (resOf j k)

def ans (j : Json) (k : String) : Ans := getNat j k

def unitRes (r : Except PyExc Unit) : Json :=
  match r with
  | .ok _ => Json.mkObj [("ok", Json.null)]
  | .error e => e.toJson

def handle (j : Json) : Json :=
  match getStr j "op" with
  | some "lex" =>
    let src := getNats j "src"
    Json.mkObj [("toks", Json.arr ((lexAll src).map (tokJson src)).toArray)]
  | some "col" =>
    let src := getNats j "src"
    let pos := (getNat j "pos").getD 0
    Json.mkObj [("col", (findColumn src pos : Nat)), ("ptr", (contextPointerOffset src pos : Nat))]
  | some "pragma" =>
    let word := getNats j "word"
    match pragmaNamespace (fun c => word.contains c) (getNats j "param") with
    | .ok ns => Json.mkObj [("ok", natsToJson ns)]
    | .error e => e.toJson
  | some "include" =>
    let file : Option (List Nat) := match getField j "file" with | .null => none | _ => some (getNats j "file")
    Json.mkObj [("path", natsToJson (includePath file (getNats j "param")))]
  | some "createInstance" =>
    unitRes (mpCreateInstance (ans j "ci") (ans j "gc") ((getBool j "pathOk").getD true) (ans j "mi"))
  | some "setQualifier" =>
    unitRes (mpSetQualifier (ans j "sq1") ((getBool j "server").getD false) (optExc j "createNs") (ans j "dq") (ans j "sq2"))
  | some "createClass" =>
    let env : CcEnv := {
      createClass := (getArr j "cc").map jsonToNat?
      hasServer := (getBool j "server").getD false
      createNs := optExc j "createNs"
      hasSuper := (getBool j "hasSuper").getD false
      superMof := optRes j "superMof"
      nsInQualcache := (getBool j "nsInQualcache").getD true
      qualsKnown := (getBool j "qualsKnown").getD true
      qualFiles := resOf j "qualFiles"
      depsOutcome := resOf j "deps"
      modifyClass := ans j "modifyClass" }
    unitRes (mpCreateClass env)
  | some "qualifier" =>
    unitRes (qualifierLookup ((getBool j "inCache").getD false) (ans j "eq") ((getBool j "server").getD false)
      (optExc j "createNs") (resOf j "qualFiles") ((getBool j "found").getD false))
  | some "cimObject" => unitRes (cimObject (resOf j "r"))
  | some "lr" =>
    let types := (getArr j "types").filterMap (fun x => match x with | .str s => some s | _ => none)
    match lrParse mofTable (types.map terminalId) with
    | .accept n => Json.mkObj [("accept", (n : Nat))]
    | .errorAt k st => Json.mkObj [("error", Json.arr #[(k : Nat), (st : Nat)])]
    | .stuck _ _ => Json.mkObj [("fault", "stuck")]
    | .outOfFuel => Json.mkObj [("fault", "fuel")]
  | some "parse" =>
    let src := getNats j "src"
    match parseText src with
    | .accept => Json.mkObj [("accept", true)]
    | .errorAtToken t st => Json.mkObj [("errtok", Json.arr #[(t.pos : Nat), (t.len : Nat), (t.line : Nat),
        (findColumn src t.pos : Nat), (st : Nat)])]
    | .errorAtEnd st => Json.mkObj [("erreof", (st : Nat))]
    | .lexerRaised => Json.mkObj [("raised", true)]
    | .engineFault => Json.mkObj [("fault", true)]
  | some "files" =>
    -- {"op":"files","files":[[STMT..]..],"limit":n,"main":[STMT..]}  STMT = {"file":i} | {"leaf":R}; file i = i-th entry, else missing
    let parseStmt (x : Json) : Stmt :=
      match getNat x "file" with
      | some i => .file i
      | none => .leaf (resOf x "leaf")
    let files := (getArr j "files").map (fun f => match f with | .arr a => some (a.toList.map parseStmt) | _ => none)
    let fs : Files := fun i => (files[i]?).join
    unitRes (compileUnitG fs ((getNat j "limit").getD 50) ((getArr j "main").map parseStmt))
  | some "wf" => Json.mkObj [("wf", mofTable.wf), ("states", (mofTable.actionRows.size : Nat)),
      ("maxRank", (mofTable.maxRank : Nat))]
  | some "instClass" =>
    unitRes (instanceClassLookup (ans j "gc1") (optRes j "mof") (ans j "gc2"))
  | _ => Json.mkObj [("bad", "op")]

def main : IO Unit := runDriver handle
