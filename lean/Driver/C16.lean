import Pywbem.Model.Listener
open Lean Pywbem.Proto Pywbem.Model.Listener

/-! C16 driver.  One JSON object per line.

  {"op":"run",  "cfg":CFG, "labels":[L,…]}
  {"op":"walk", "cfg":CFG, "seed":int, "maxlen":int, "perSender":int, "starts":int, "sticky":0..100}
  {"op":"reg",  "regs":[callback id,…]}   -> {"registered":[…]}   (add_callback sequence -> self._callbacks)
  {"op":"enum", "cfg":CFG, "perSender":int, "starts":int, "pb":int, "limit":int, "skip":int}
  CFG = {"proto":"fixed"|"old","maxQ":int,"ncb":int,"n":int,"http":bool (default true),"https":bool (default false)}
  L   = "start" | "stop" | "main" | "cb" | "cb!" | "s<j>" | "t<j>" (sender j sends its next request to the HTTPS port)
        | "fail" | "failc" (the server creation start() is about to do fails: OSError / certificate)

  run/walk answer {"labels":[…],"pcs":[pcvector after each step],"final":{…}} or {"stuck":i,"label":L}
  (walks are completed by a round-robin phase that ends with the listener stopped).
  enum answers {"traces":[[L,…],…],"truncated":bool}: all complete schedules (ending stopped) with at
  most `pb` preemptions, `starts` start() calls and `perSender` indications per sender.
-/

def labelStr : Label → String
  | .start => "start" | .stop => "stop" | .main => "main"
  | .cb false => "cb" | .cb true => "cb!" | .snd j => s!"s{j}" | .sndTls j => s!"t{j}" | .failStart => "fail"

def parseLabel (s : String) : Option Label :=
  match s with
  | "start" => some .start | "stop" => some .stop | "main" => some .main
  | "cb" => some (.cb false) | "cb!" => some (.cb true)
  | "fail" => some .failStart | "failc" => some .failStart
  | _ => if s.startsWith "s" then (s.drop 1).toNat?.map Label.snd
         else if s.startsWith "t" then (s.drop 1).toNat?.map Label.sndTls else none

def mainStr : MainPc → String
  | .idle => "idle" | .sMkq => "mkq" | .sThr => "thr_start" | .sSrv => "mkserver" | .sSrv2 => "mkserver2"
  | .tShutdown => "shutdown" | .tClose => "server_close" | .tShutdown2 => "shutdown2" | .tClose2 => "server_close2"
  | .tPoll => "empty"
  | .tSetEv => "setev" | .tJoin => "join"

def cbStr : CbPc → String
  | .off => "off" | .run => "run" | .get => "get" | .enter _ k => s!"enter{k}" | .inCb _ k => s!"incb{k}"
  | .taskDone _ => "task_done" | .chk => "stopped" | .done false => "done" | .done true => "died"

def hStr : HPc → String
  | .idle => "send" | .put => "put" | .respOk => "resp" | .respIgn => "resp" | .respErr => "resperr"

def pcVector (s : Sys) : String :=
  mainStr s.main ++ "|" ++ cbStr s.cb ++ "|" ++ ",".intercalate (s.senders.map (fun sd => hStr sd.pc))
    ++ "|" ++ toString s.queue.length ++ (if s.qfull then "F" else "")

def indJson (x : Ind) : Json := Json.arr #[(x.1 : Nat), (x.2 : Nat)]
def indsJson (l : List Ind) : Json := Json.arr (l.map indJson).toArray

def finalJson (s : Sys) : Json := Json.mkObj [
  ("log", Json.arr (s.log.map (fun (k, x) => Json.arr #[(k : Nat), (x.1 : Nat), (x.2 : Nat)])).toArray),
  ("enq", indsJson s.enq), ("acked", indsJson s.acked), ("refused", indsJson s.refused),
  ("ignored", indsJson s.ignored), ("queue", indsJson s.queue),
  ("errs", Json.arr (s.errs.map (fun e => Json.str e.name)).toArray),
  ("qref", s.qref), ("thrRef", s.thrRef), ("srv", s.srv), ("accepting", s.accepting), ("up", s.up),
  ("srv2", s.srv2), ("accepting2", s.accepting2), ("qfull", s.qfull), ("startFails", (s.startFails : Nat)),
  ("fullLog", Json.arr (s.fullLog.map (fun (b : Bool) => Json.bool b)).toArray),
  ("main", mainStr s.main), ("cb", cbStr s.cb),
  ("nexts", Json.arr (s.senders.map (fun sd => (sd.next : Json))).toArray)]

def parseCfg (j : Json) : Cfg × Nat :=
  let c := getField j "cfg"
  ({ proto := if getStr c "proto" == some "old" then .old else .fixed,
     maxQ := (getNat c "maxQ").getD 0, ncb := (getNat c "ncb").getD 1,
     http := (getBool c "http").getD true, https := (getBool c "https").getD false }, (getNat c "n").getD 1)

/-- run labels, collecting the pc vector after every step -/
def runCollect (c : Cfg) : List Label → Sys → Nat → List String → Except (Nat × Label) (Sys × List String)
  | [], s, _, acc => .ok (s, acc.reverse)
  | l :: ls, s, i, acc =>
    match step c l s with
    | none => .error (i, l)
    | some s' => runCollect c ls s' (i + 1) (pcVector s' :: acc)

def answerRun (c : Cfg) (n : Nat) (labels : List Label) : Json :=
  match runCollect c labels (init n) 0 [] with
  | .error (i, l) => Json.mkObj [("stuck", (i : Nat)), ("label", labelStr l)]
  | .ok (s, pcs) => Json.mkObj [
      ("labels", Json.arr (labels.map (fun l => Json.str (labelStr l))).toArray),
      ("pcs", Json.arr (pcs.map (fun (p : String) => Json.str p)).toArray),
      ("final", finalJson s)]

/-! ### thread view of labels -/

inductive Tid where
  | main | cb | snd (j : Nat)
  deriving DecidableEq, Repr

def tidOf : Label → Tid
  | .start => .main | .stop => .main | .main => .main | .cb _ => .cb | .snd j => .snd j | .sndTls j => .snd j
  | .failStart => .main

structure Budget where
  perSender : Nat
  starts : Nat      -- start() calls still allowed
  extra : Nat := 0  -- stop() calls on a stopped listener still allowed
  fails : Nat := 0  -- failing server creations still allowed
  deriving Repr

/-- labels a scheduler may pick in state `s` (a step that changes nothing is not offered) -/
def candidates (c : Cfg) (b : Budget) (s : Sys) (sending : Bool) : List Label :=
  let mainL : List Label :=
    if s.main = .idle then
      (if s.up = false ∧ b.starts > 0 then [Label.start] else []) ++ (if s.up || b.extra > 0 then [Label.stop] else [])
    else [Label.main] ++ (if b.fails > 0 && (s.main = .sSrv || s.main = .sSrv2) then [Label.failStart] else [])
  let cbL : List Label := [Label.cb false]
  let sndL : List Label := (List.range s.senders.length).flatMap (fun j =>
    match s.senders[j]? with
    | some sd =>
      if sd.pc != .idle then [Label.snd j]
      else if sending && sd.next < b.perSender then [Label.snd j, Label.sndTls j] else []
    | none => [])
  (mainL ++ cbL ++ sndL).filter (fun l =>
    match step c l s with
    | some s' => s' != s || l == .stop
    | none => false)

def spend (b : Budget) (l : Label) : Budget :=
  match l with
  | .start => { b with starts := b.starts - 1 }
  | .stop => { b with extra := b.extra - 1 }
  | .failStart => { b with fails := b.fails - 1 }
  | _ => b

def lcg (x : Nat) : Nat := (x * 6364136223846793005 + 1442695040888963407) % 18446744073709551616
def rnd (x : Nat) (m : Nat) : Nat := if m = 0 then 0 else (x / 65536) % m

def stopped (s : Sys) : Bool :=
  s.main == .idle && !s.up && (s.cb == .off || s.cb == .done false || s.cb == .done true)
    && allIdle s.senders

/-- random walk: with probability sticky% stay with the thread of the previous step -/
partial def walk (c : Cfg) (b : Budget) (sticky : Nat) (fuel : Nat) (seed : Nat) (last : Option Tid)
    (s : Sys) (acc : List Label) : Sys × Budget × Nat × List Label :=
  if fuel = 0 then (s, b, seed, acc) else
  let cands := candidates c b s true
  if cands.isEmpty then (s, b, seed, acc) else
  let seed1 := lcg seed
  let same := match last with
    | some t => cands.filter (fun l => tidOf l == t)
    | none => []
  let pool := if !same.isEmpty && rnd seed1 100 < sticky then same else cands
  let seed2 := lcg seed1
  let l0 := pool[rnd seed2 pool.length]!
  let seed3 := lcg seed2
  let l := match l0, s.cb with
    | .cb _, .inCb _ _ => Label.cb (rnd seed3 4 == 0)
    | l, _ => l
  match step c l s with
  | none => (s, b, seed3, acc)
  | some s' => walk c (spend b l) sticky (fuel - 1) seed3 (some (tidOf l)) s' (l :: acc)

/-- round-robin completion: no new requests, no new start(); stop() as soon as main is idle and up -/
partial def complete (c : Cfg) (fuel : Nat) (turn : Nat) (s : Sys) (acc : List Label) : Sys × List Label :=
  if fuel = 0 || stopped s then (s, acc) else
  let b : Budget := { perSender := 0, starts := 0 }
  let cands := candidates c b s false
  if cands.isEmpty then (s, acc) else
  let l := cands[turn % cands.length]!
  match step c l s with
  | none => (s, acc)
  | some s' => complete c (fuel - 1) (turn + 1) s' (l :: acc)

def answerWalk (j : Json) : Json :=
  let (c, n) := parseCfg j
  let b : Budget := { perSender := (getNat j "perSender").getD 1, starts := (getNat j "starts").getD 1,
                      extra := (getNat j "extraStops").getD 0, fails := (getNat j "fails").getD 0 }
  let (s1, _, _, acc1) := walk c b ((getNat j "sticky").getD 0) ((getNat j "maxlen").getD 60)
    ((getNat j "seed").getD 1) none (init n) []
  let (_, acc2) := complete c 2000 0 s1 acc1
  answerRun c n acc2.reverse

/-! ### systematic enumeration with a preemption bound -/

structure EnumSt where
  out : Array (List Label) := #[]
  seen : Nat := 0
  truncated : Bool := false

partial def enum (c : Cfg) (limit skip : Nat) (pb : Nat) (b : Budget) (last : Option Tid) (s : Sys)
    (path : List Label) (onPath : List Sys) (st : EnumSt) : EnumSt :=
  if st.truncated then st else
  let cands := candidates c b s true
  let st := if stopped s && !path.isEmpty then
      (if st.seen < skip then { st with seen := st.seen + 1 }
       else if st.out.size ≥ limit then { st with truncated := true }
       else { st with out := st.out.push path.reverse, seen := st.seen + 1 })
    else st
  let viable : List (Label × Sys) := cands.filterMap (fun l =>
    match step c l s with
    | some s' => if onPath.contains s' then none else some (l, s')
    | none => none)
  let lastEnabled := match last with
    | some t => viable.any (fun (l, _) => tidOf l == t)
    | none => false
  viable.foldl (fun st (l, s') =>
    let cost := if lastEnabled && some (tidOf l) != last then 1 else 0
    if cost > pb then st
    else enum c limit skip (pb - cost) (spend b l) (some (tidOf l)) s' (l :: path) (s' :: onPath) st) st

def answerEnum (j : Json) : Json :=
  let (c, n) := parseCfg j
  let b : Budget := { perSender := (getNat j "perSender").getD 1, starts := (getNat j "starts").getD 1,
                      fails := (getNat j "fails").getD 0 }
  let st := enum c ((getNat j "limit").getD 1000) ((getNat j "skip").getD 0) ((getNat j "pb").getD 1) b none
    (init n) [] [init n] {}
  Json.mkObj [
    ("traces", Json.arr (st.out.map (fun tr => Json.arr (tr.map (fun l => Json.str (labelStr l))).toArray))),
    ("truncated", st.truncated)]

def handle (j : Json) : Json :=
  match getStr j "op" with
  | some "run" =>
    let (c, n) := parseCfg j
    match (getArr j "labels").mapM (fun x => match x with | .str s => parseLabel s | _ => none) with
    | none => Json.mkObj [("bad", "label")]
    | some ls => answerRun c n ls
  | some "walk" => answerWalk j
  | some "enum" => answerEnum j
  | some "reg" =>
    let regs := (getArr j "regs").filterMap jsonToNat?
    Json.mkObj [("registered", Json.arr ((registered regs).map (fun (n : Nat) => (n : Json))).toArray)]
  | _ => Json.mkObj [("bad", "op")]

def main : IO Unit := runDriver handle
