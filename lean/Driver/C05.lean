import Pywbem.Model.NocaseDict
open Lean Pywbem.Proto Pywbem.Model.Eq

/-! C05 driver.  Objects travel as JSON:
  null                                   None
  {"s":[code points]}                    str / Char16
  {"n":"<int>","d":"<nat>","t":tag}      number = n/d in lowest terms (bool, int, float, CIMInt, CIMFloat); t = Python type index
  {"f":"inf"|"-inf"|"nan"}               non-finite float
  {"ts":"<utc µs>","mfu":int,"p":int|null}   CIMDateTime timestamp
  {"iv":"<µs>","p":int|null}             CIMDateTime interval
  {"l":[obj…],"id":n}                    list
  {"d":[[key|null,obj]…],"id":n}         NocaseDict (key = code points)
  {"k":"CIMInstance",…,"a":[obj…],"id":n}    CIM object, attributes in __slots__ order
 Requests:
  {"op":"cmp","a":obj,"b":obj}  →  {"eq":b,"ne":b,"heq":b,"ga":b,"gb":b,"neq":b}
  {"op":"cmpn","objs":[obj…],"pairs":[[i,j]…]}  →  {"res":[{"eq","ne","heq","neq"}…],"good":[b…]}
  {"op":"dictops","allow":b,"ops":[{"o":"setitem","k":key,"v":obj}…]}  →  {"outs":[…],"items":[[key,obj]…],"allow":b}
  {"op":"inplace","a":obj,"i":identity,"o":{"o":"dictSet","k":key,"v":obj}|…}  →  {"obj":obj}   (mutAt i (applyOp o) a)
  {"op":"state","a":obj}  →  {"keys":[slot…],"restored":[obj|"UNSET"…]}   (__getstate__ keys, __setstate__ of it on a new object)
  {"op":"eqtop","a":obj,"b":obj}  →  {"ok":b} | {"exc":"TypeError"}
  {"op":"copy","how":"copy"|"shallow"|"deep","a":obj,"base":n}  →  {"obj":obj,"next":n,"doc":[ids]}
-/

def natOfJson (j : Json) : Nat :=
  match jsonToInt? j with
  | some i => i.toNat
  | none => 0

partial def parseObj (j : Json) : Option Obj :=
  match j with
  | .null => some .none
  | _ =>
    let id := (getNat j "id").getD 0
    match getField j "s", getField j "n", getField j "f", getField j "ts", getField j "iv" with
    | .arr _, _, _, _, _ => (getChars j "s").map (fun s => .atom (.str s))
    | _, .str _, _, _, _ =>
      some (.atom (.num ((getNat j "t").getD 0) ((getInt j "n").getD 0) (natOfJson (getField j "d"))))
    | _, _, .str f, _, _ =>
      if f == "nan" then some (.atom .nan) else some (.atom (.inf (f == "-inf")))
    | _, _, _, .str _, _ =>
      some (.atom (.ts ((getInt j "ts").getD 0) ((getInt j "mfu").getD 0) (getNat j "p")))
    | _, _, _, _, .str _ => some (.atom (.iv ((getInt j "iv").getD 0) (getNat j "p")))
    | _, _, _, _, _ =>
      match getField j "l", getField j "d", getStr j "k" with
      | .arr xs, _, _ => (xs.toList.mapM parseObj).map (.list id)
      | _, .arr es, _ =>
        (es.toList.mapM (fun e =>
          match e with
          | Json.arr #[k, v] =>
            (parseObj v).bind (fun v' =>
              match k with
              | .null => some (none, v')
              | _ => (jsonToChars? k).map (fun s => (some s, v')))
          | _ => none)).map (.dict id)
      | _, _, some kn =>
        (Kind.ofName? kn).bind (fun k => ((getArr j "a").mapM parseObj).map (.node id k))
      | _, _, _ => none

def keyToJson : Key → Json
  | none => Json.null
  | some s => cpsToJson s

partial def objToJson : Obj → Json
  | .none => Json.null
  | .atom (.str s) => Json.mkObj [("s", cpsToJson s)]
  | .atom (.num t n d) => Json.mkObj [("n", intToJson n), ("d", Json.str (toString d)), ("t", (t : Nat))]
  | .atom (.inf b) => Json.mkObj [("f", if b then "-inf" else "inf")]
  | .atom .nan => Json.mkObj [("f", "nan")]
  | .atom (.ts u m p) => Json.mkObj [("ts", intToJson u), ("mfu", Json.num (JsonNumber.fromInt m)),
      ("p", optToJson (fun (n : Nat) => (n : Json)) p)]
  | .atom (.iv u p) => Json.mkObj [("iv", intToJson u), ("p", optToJson (fun (n : Nat) => (n : Json)) p)]
  | .list i xs => Json.mkObj [("l", Json.arr (xs.map objToJson).toArray), ("id", (i : Nat))]
  | .dict i es => Json.mkObj [("d", Json.arr (es.map (fun e => Json.arr #[keyToJson e.1, objToJson e.2])).toArray),
      ("id", (i : Nat))]
  | .node i k as => Json.mkObj [("k", k.pyName), ("a", Json.arr (as.map objToJson).toArray), ("id", (i : Nat))]

/-- a concrete `hash()` for K: canonical text, so that model hashes are equal exactly when the hashed
    structures are equal (frozenset: sorted, duplicates removed) -/
def textHash : PyHash String where
  none := "N"
  str s := "s" ++ toString (s.map Char.toNat)
  num n d := "n" ++ toString n ++ "/" ++ toString d
  inf b := if b then "-inf" else "inf"
  nan := "nan"
  dt u := "dt" ++ toString u
  td u := "td" ++ toString u
  tuple l := "(" ++ ",".intercalate l ++ ")"
  fset l := "{" ++ ",".intercalate ((l.mergeSort (fun a b => decide (a ≤ b))).eraseDups) ++ "}"

def C := CaseOps.py

def parseKey (j : Json) : Option Key :=
  match j with
  | .null => some none
  | _ => (jsonToChars? j).map some

def parseItems (js : List Json) : Option Items :=
  js.mapM (fun e =>
    match e with
    | Json.arr #[k, v] => (parseKey k).bind (fun k' => (parseObj v).map (fun v' => (k', v')))
    | _ => none)

def parseDOp (j : Json) : Option DOp :=
  let k := parseKey (getField j "k")
  let v := parseObj (getField j "v")
  match getStr j "o" with
  | some "setitem" => k.bind (fun k => v.map (DOp.setitem k))
  | some "getitem" => k.map DOp.getitem
  | some "delitem" => k.map DOp.delitem
  | some "contains" => k.map DOp.contains
  | some "get" => k.bind (fun k => v.map (DOp.get k))
  | some "pop" => k.bind (fun k => v.map (fun d => DOp.pop k (some d)))
  | some "pop0" => k.map (fun k => DOp.pop k none)
  | some "popitem" => some .popitem
  | some "setdefault" => k.bind (fun k => v.map (DOp.setdefault k))
  | some "update" => (parseItems (getArr j "items")).map DOp.update
  | some "clear" => some .clear
  | some "len" => some .len
  | some "keys" => some .keys
  | some "allow" => some (.setAllow ((getBool j "b").getD false))
  | _ => none

def parseInOp (j : Json) : Option InOp :=
  let k := parseKey (getField j "k")
  let v := parseObj (getField j "v")
  match getStr j "o" with
  | some "listAppend" => v.map InOp.listAppend
  | some "listPop" => some .listPop
  | some "dictSet" => k.bind (fun k => v.map (InOp.dictSet k))
  | some "dictDel" => k.map InOp.dictDel
  | some "dictUpdate" => (parseItems (getArr j "items")).map InOp.dictUpdate
  | some "setAttr" => v.map (InOp.setAttr ((getNat j "slot").getD 0))
  | some "pathSet" => k.bind (fun k => v.map (InOp.pathSet k))
  | some "pathDel" => k.map InOp.pathDel
  | _ => none

def doutToJson : DOut → Json
  | .none => Json.mkObj [("none", true)]
  | .val v => Json.mkObj [("val", objToJson v)]
  | .bool b => Json.mkObj [("bool", b)]
  | .nat n => Json.mkObj [("nat", (n : Nat))]
  | .keys ks => Json.mkObj [("keys", Json.arr (ks.map keyToJson).toArray)]
  | .item k v => Json.mkObj [("item", Json.arr #[keyToJson k, objToJson v])]
  | .err e => e.toJson

def handle (j : Json) : Json :=
  match getStr j "op" with
  | some "cmp" =>
    match parseObj (getField j "a"), parseObj (getField j "b") with
    | some a, some b =>
      Json.mkObj [("eq", eqObj C a b), ("ne", neObj C a b),
        ("heq", hashObj C textHash a == hashObj C textHash b),
        ("ga", good C a), ("gb", good C b),
        ("neq", toString (repr (norm C a)) == toString (repr (norm C b)))]
    | _, _ => Json.mkObj [("bad", "obj")]
  | some "cmpn" =>
    match (getArr j "objs").mapM parseObj with
    | some objs =>
      let arr := objs.toArray
      let goods := arr.map (good C)
      let hashes := arr.map (hashObj C textHash)
      let norms := arr.map (fun o => toString (repr (norm C o)))
      let res := (getArr j "pairs").map (fun p =>
        match p with
        | Json.arr #[x, y] =>
          let i := natOfJson x
          let k := natOfJson y
          let a := arr[i]!
          let b := arr[k]!
          Json.mkObj [("eq", eqObj C a b), ("ne", neObj C a b), ("heq", hashes[i]! == hashes[k]!),
            ("in", pyIn C textHash b [a]),
            ("neq", norms[i]! == norms[k]!)]
        | _ => Json.null)
      Json.mkObj [("res", Json.arr res.toArray), ("good", Json.arr (goods.map (fun (b : Bool) => (b : Json))))]
    | none => Json.mkObj [("bad", "obj")]
  | some "dictops" =>
    let s0 : DState := { allow := (getBool j "allow").getD false, items := [] }
    match (getArr j "ops").mapM parseDOp with
    | some ops =>
      let (s, outs) := dRun C s0 ops
      Json.mkObj [("outs", Json.arr (outs.map doutToJson).toArray),
        ("items", Json.arr (s.items.map (fun e => Json.arr #[keyToJson e.1, objToJson e.2])).toArray),
        ("allow", s.allow)]
    | none => Json.mkObj [("bad", "dictop")]
  | some "inplace" =>
    match parseObj (getField j "a"), parseInOp (getField j "o") with
    | some a, some op => Json.mkObj [("obj", objToJson (mutAt ((getNat j "i").getD 0) (applyOp C op) a))]
    | _, _ => Json.mkObj [("bad", "inplace")]
  | some "state" =>
    match parseObj (getField j "a") with
    | some (.node _ k as) =>
      let st := getstate k as
      Json.mkObj [("keys", Json.arr (st.map (fun e => (e.1 : Json))).toArray),
        ("restored", Json.arr ((setstate k st).map (fun o =>
          match o with
          | some v => objToJson v
          | none => Json.str "UNSET")).toArray)]
    | _ => Json.mkObj [("bad", "obj")]
  | some "eqtop" =>
    match parseObj (getField j "a"), parseObj (getField j "b") with
    | some a, some b =>
      let ord := match orderTop a b with
        | .ok r => Json.mkObj [("ok", r)]
        | .error e => e.toJson
      match eqTop C a b with
      | .ok r => Json.mkObj [("ok", r), ("order", ord)]
      | .error e => (e.toJson).setObjVal! "order" ord
    | _, _ => Json.mkObj [("bad", "obj")]
  | some "copy" =>
    match parseObj (getField j "a") with
    | some a =>
      let base := (getNat j "base").getD 0
      let (r, n) := match getStr j "how" with
        | some "copy" => copyObj base a
        | some "shallow" => shallowObj base a
        | _ => deepObj base a
      Json.mkObj [("obj", objToJson r), ("next", (n : Nat)),
        ("doc", Json.arr ((documentedShared a).map (fun (i : Nat) => (i : Json))).toArray)]
    | none => Json.mkObj [("bad", "obj")]
  | _ => Json.mkObj [("bad", "op")]

def main : IO Unit := runDriver handle
