import Pywbem.Model.MofStr
import Pywbem.Model.MofLex
import Pywbem.Model.MofVal
open Lean Pywbem.Proto Pywbem.Model

/-! C08 driver.  Strings travel as arrays of code points.  Input line = {"op":..., ...}:
  {"op":"escape","s":S}                                             -> {"out":S}
  {"op":"mofstr","s":S,"indent":n,"maxline":n,"pos":i,"es":n,"avoid":b,"q":n}
                                                                    -> {"ok":{"mof":S,"pos":i}} | {"exc":..}
  {"op":"mofval","s":S,"indent":n,"maxline":n,"pos":i,"es":n}       -> same
  {"op":"value","v":ITEM|[ITEM..],"indent","maxline","pos","es","avoid"} -> same
        ITEM = null | {"s":S} | {"c":S} | {"l":S}
  {"op":"fix","tok":S}                                              -> {"ok":S} | {"exc":..}
  {"op":"lexstr","text":S} / {"op":"lexchar","text":S}              -> {"tok":S,"rest":n} | {"tok":null}
  {"op":"valmof","ty":T,"v":VAL|[VAL..],"indent","maxline","pos","es","avoid"} -> {"ok":{"mof","pos"}} | {"exc"}
        VAL = null | {"s":S} | {"c":S} | {"b":bool} | {"i":"dec"} | {"r":S str(float)} | {"d":S str(datetime)} | {"ref":S uri}
  {"op":"valread","ty":T,"arr":bool,"text":S}                         -> {"v":VAL|[VAL..]} | {"none":true}
  {"op":"lexnum","text":S}   -> {"tok":"float","text":S,"rest":n} | {"tok":"int","v":"dec","rest":n} | {"tok":"error",..} | {"tok":null}
  {"op":"intstr","v":"dec"}  -> {"out":S}
  {"op":"strlist","text":S}                                         -> {"lex":null} | {"ok":S} | {"exc":..}
  {"op":"strarray","text":S}                                        -> {"lex":null} | {"ok":[S..]} | {"exc":..}
  {"op":"roundtrip", mofstr arguments}                              -> mofstr, then strlist on its output -/

def natsToJson (s : List Nat) : Json := Json.arr (s.map (fun (n : Nat) => (n : Json))).toArray

def getNats (j : Json) (k : String) : List Nat := (getArr j k).filterMap jsonToNat?

def intJ (i : Int) : Json := Json.num (JsonNumber.fromInt i)

def resJson (r : Except PyExc (List Nat × Int)) : Json :=
  match r with
  | .ok (m, p) => Json.mkObj [("ok", Json.mkObj [("mof", natsToJson m), ("pos", intJ p)])]
  | .error e => e.toJson

def strRes (r : Except PyExc (List Nat)) : Json :=
  match r with
  | .ok s => Json.mkObj [("ok", natsToJson s)]
  | .error e => e.toJson

def parseItem (j : Json) : MofStr.Item :=
  match j with
  | .null => .null
  | _ =>
    match getField j "s", getField j "c", getField j "l" with
    | .arr a, _, _ => .str (a.toList.filterMap jsonToNat?)
    | _, .arr a, _ => .char16 (a.toList.filterMap jsonToNat?)
    | _, _, .arr a => .lit (a.toList.filterMap jsonToNat?)
    | _, _, _ => .null

/-- driver codec: Python's own texts are the carriers (str(float), str(CIMDateTime), to_wbem_uri()) -/
def drvCodec : MofVal.Codec :=
  { F := List Nat, D := List Nat, R := List Nat, realStr := id, realParse := some, dtStr := id, dtParse := some,
    refStr := id, refParse := some }

def parseScalar (j : Json) : MofVal.Scalar drvCodec :=
  match j with
  | .null => .null
  | _ =>
    match getField j "s", getField j "c", getField j "b", getField j "i", getField j "r", getField j "d",
      getField j "ref" with
    | .arr a, _, _, _, _, _, _ => .str (a.toList.filterMap jsonToNat?)
    | _, .arr a, _, _, _, _, _ => .char16 (a.toList.filterMap jsonToNat?)
    | _, _, .bool b, _, _, _, _ => .bool b
    | _, _, _, .str t, _, _, _ => .int (t.toInt?.getD 0)
    | _, _, _, _, .arr a, _, _ => .real (a.toList.filterMap jsonToNat?)
    | _, _, _, _, _, .arr a, _ => .datetime (a.toList.filterMap jsonToNat?)
    | _, _, _, _, _, _, .arr a => .ref (a.toList.filterMap jsonToNat?)
    | _, _, _, _, _, _, _ => .null

def parseValueJ (j : Json) : MofVal.Value drvCodec :=
  match j with
  | .arr a => .array (a.toList.map parseScalar)
  | x => .scalar (parseScalar x)

def scalarJ (s : MofVal.Scalar drvCodec) : Json :=
  match s with
  | .null => Json.null
  | .str v => Json.mkObj [("s", natsToJson v)]
  | .char16 v => Json.mkObj [("c", natsToJson v)]
  | .bool b => Json.mkObj [("b", b)]
  | .int v => Json.mkObj [("i", intToJson v)]
  | .real x => Json.mkObj [("r", natsToJson x)]
  | .datetime d => Json.mkObj [("d", natsToJson d)]
  | .ref r => Json.mkObj [("ref", natsToJson r)]

def valueJ (v : MofVal.Value drvCodec) : Json :=
  match v with
  | .scalar s => scalarJ s
  | .array xs => Json.arr (xs.map scalarJ).toArray

def typeOf (j : Json) (k : String) : MofVal.CimType :=
  ((getStr j k).bind MofVal.CimType.ofName).getD .string

def handle (j : Json) : Json :=
  let indent := (getNat j "indent").getD 0
  let maxline := (getNat j "maxline").getD 80
  let pos := (getInt j "pos").getD 0
  let es := (getNat j "es").getD 0
  let avoid := (getBool j "avoid").getD false
  let q := (getNat j "q").getD 34
  match getStr j "op" with
  | some "escape" => Json.mkObj [("out", natsToJson (MofStr.escape (getNats j "s")))]
  | some "mofstr" => resJson (MofStr.mofstr (getNats j "s") indent maxline pos es avoid q)
  | some "mofval" => resJson (MofStr.mofval (getNats j "s") indent maxline pos es)
  | some "value" =>
    let v : MofStr.Item ⊕ List MofStr.Item :=
      match getField j "v" with
      | .arr a => .inr (a.toList.map parseItem)
      | x => .inl (parseItem x)
    resJson (MofStr.valueTomof v indent maxline pos es avoid)
  | some "fix" => strRes (MofLex.fixStringValue (getNats j "tok"))
  | some "lexstr" =>
    match MofLex.lexStringValue (getNats j "text") with
    | some (t, r) => Json.mkObj [("tok", natsToJson t), ("rest", (r.length : Nat))]
    | none => Json.mkObj [("tok", Json.null)]
  | some "lexchar" =>
    match MofLex.lexCharValue (getNats j "text") with
    | some (t, r) => Json.mkObj [("tok", natsToJson t), ("rest", (r.length : Nat))]
    | none => Json.mkObj [("tok", Json.null)]
  | some "valmof" =>
    resJson (MofVal.valueToMof drvCodec (typeOf j "ty") (parseValueJ (getField j "v")) indent maxline pos es avoid)
  | some "valread" =>
    match MofVal.parseValue drvCodec (typeOf j "ty") ((getBool j "arr").getD false) (getNats j "text") with
    | none => Json.mkObj [("none", true)]
    | some v => Json.mkObj [("v", valueJ v)]
  | some "lexnum" =>
    match MofLex.lexNumber (getNats j "text") with
    | none => Json.mkObj [("tok", Json.null)]
    | some (.float t, r) => Json.mkObj [("tok", "float"), ("text", natsToJson t), ("rest", (r.length : Nat))]
    | some (.int v, r) => Json.mkObj [("tok", "int"), ("v", intToJson v), ("rest", (r.length : Nat))]
    | some (.error t, r) => Json.mkObj [("tok", "error"), ("text", natsToJson t), ("rest", (r.length : Nat))]
  | some "intstr" => Json.mkObj [("out", natsToJson (MofLex.intStr ((getInt j "v").getD 0)))]
  | some "strlist" =>
    match MofLex.compileStringList (getNats j "text") with
    | none => Json.mkObj [("lex", Json.null)]
    | some r => strRes r
  | some "strarray" =>
    match MofLex.compileStringArray (getNats j "text") with
    | none => Json.mkObj [("lex", Json.null)]
    | some (.ok ss) => Json.mkObj [("ok", Json.arr (ss.map natsToJson).toArray)]
    | some (.error e) => e.toJson
  | some "roundtrip" =>
    match MofStr.mofstr (getNats j "s") indent maxline pos es avoid q with
    | .error e => e.toJson
    | .ok (m, _) =>
      match MofLex.compileStringList m with
      | none => Json.mkObj [("lex", Json.null)]
      | some r => strRes r
  | _ => Json.mkObj [("bad", "op")]

def main : IO Unit := runDriver handle
