import Pywbem.Model.MofStr
import Pywbem.Model.MofLex
import Pywbem.Model.MofVal
import Pywbem.Model.MofDecl
open Lean Pywbem.Proto Pywbem.Model

/-! C08 driver.  Strings travel as arrays of code points.  Input line = {"op":..., ...}:
  {"op":"escape","s":S}                                             -> {"out":S}
  {"op":"mofstr","s":S,"indent":n,"maxline":n,"pos":i,"es":n,"avoid":b,"q":n}
                                                                    -> {"ok":{"mof":S,"pos":i}} | {"exc":..}
  {"op":"mofval","s":S,"indent":n,"maxline":n,"pos":i,"es":n}       -> same
  {"op":"value","v":ITEM|[ITEM..],"indent","maxline","pos","es","avoid"} -> same
        ITEM = null | {"s":S} | {"c":S} | {"l":S}
  {"op":"fix","tok":S}                                              -> {"ok":S} | {"exc":..}
  {"op":"lexstr","text":S} / {"op":"lexchar","text":S}              -> {"tok":S,"rest":n} | {"tok":null}
  {"op":"valmof","ty":T,"v":VAL|[VAL..],"indent","maxline","pos","es","avoid"} -> {"ok":{"mof","pos"}} | {"exc"}
        VAL = null | {"s":S} | {"c":S} | {"b":bool} | {"i":"dec"} | {"r":S str(float)} | {"d":S str(datetime)} | {"ref":S uri}
  {"op":"valread","ty":T,"arr":bool,"text":S}                         -> {"v":VAL|[VAL..]} | {"none":true}
  {"op":"qdmof","qd":QD,"maxline"} -> {"ok":S}|{"exc"}     {"op":"qdread","text":S} -> {"qd":QD}|{"none":true}
        QD = {"name":S,"ty":T,"arr":b,"size":n|null,"value"?:VAL|[VAL],"scopes":[8 b],"fl":{"o","s","t","i": b|null}}
  {"op":"qlmof","quals":[Q..],"indent","maxline"} -> {"ok":S}|{"exc"}   {"op":"qlread","decls":[QD..],"text":S} -> {"quals":[Q..]}|{"none":true}
        Q = {"name":S,"ty":T,"value":VAL|[VAL],"fl":{..}}
  {"op":"clsmof","cls":CLS,"maxline"} -> {"ok":S}|{"exc"}   {"op":"clsread","decls":[QD..],"text":S} -> {"cls":CLS}|{"none":true}
  {"op":"instmof","inst":INST,"maxline"} -> {"ok":S}|{"exc"}  {"op":"instread","cls":CLS,"text":S} -> {"inst":INST}|{"none":true}
        CLS = {"name","super":S|null,"quals":[Q],"props":[P],"methods":[M]}   INST = {"cn":S,"props":[P]}
        P = {"name","ty","rc":S|null,"arr","size","value"?,"quals":[Q]}  M = {"name","rt","params":[PARAM],"quals":[Q]}
  {"op":"lexnum","text":S}   -> {"tok":"float","text":S,"rest":n} | {"tok":"int","v":"dec","rest":n} | {"tok":"error",..} | {"tok":null}
  {"op":"intstr","v":"dec"}  -> {"out":S}
  {"op":"strlist","text":S}                                         -> {"lex":null} | {"ok":S} | {"exc":..}
  {"op":"strarray","text":S}                                        -> {"lex":null} | {"ok":[S..]} | {"exc":..}
  {"op":"roundtrip", mofstr arguments}                              -> mofstr, then strlist on its output -/

def natsToJson (s : List Nat) : Json := Json.arr (s.map (fun (n : Nat) => (n : Json))).toArray

def getNats (j : Json) (k : String) : List Nat := (getArr j k).filterMap jsonToNat?

def intJ (i : Int) : Json := Json.num (JsonNumber.fromInt i)

def resJson (r : Except PyExc (List Nat × Int)) : Json :=
  match r with
  | .ok (m, p) => Json.mkObj [("ok", Json.mkObj [("mof", natsToJson m), ("pos", intJ p)])]
  | .error e => e.toJson

def strRes (r : Except PyExc (List Nat)) : Json :=
  match r with
  | .ok s => Json.mkObj [("ok", natsToJson s)]
  | .error e => e.toJson

def parseItem (j : Json) : MofStr.Item :=
  match j with
  | .null => .null
  | _ =>
    match getField j "s", getField j "c", getField j "l" with
    | .arr a, _, _ => .str (a.toList.filterMap jsonToNat?)
    | _, .arr a, _ => .char16 (a.toList.filterMap jsonToNat?)
    | _, _, .arr a => .lit (a.toList.filterMap jsonToNat?)
    | _, _, _ => .null

/-- driver codec: Python's own texts are the carriers (str(float), str(CIMDateTime), to_wbem_uri()) -/
def drvCodec : MofVal.Codec :=
  { F := List Nat, D := List Nat, R := List Nat, realStr := id, realParse := some, dtStr := id, dtParse := some,
    refStr := id, refParse := some }

def parseScalar (j : Json) : MofVal.Scalar drvCodec :=
  match j with
  | .null => .null
  | _ =>
    match getField j "s", getField j "c", getField j "b", getField j "i", getField j "r", getField j "d",
      getField j "ref" with
    | .arr a, _, _, _, _, _, _ => .str (a.toList.filterMap jsonToNat?)
    | _, .arr a, _, _, _, _, _ => .char16 (a.toList.filterMap jsonToNat?)
    | _, _, .bool b, _, _, _, _ => .bool b
    | _, _, _, .str t, _, _, _ => .int (t.toInt?.getD 0)
    | _, _, _, _, .arr a, _, _ => .real (a.toList.filterMap jsonToNat?)
    | _, _, _, _, _, .arr a, _ => .datetime (a.toList.filterMap jsonToNat?)
    | _, _, _, _, _, _, .arr a => .ref (a.toList.filterMap jsonToNat?)
    | _, _, _, _, _, _, _ => .null

def parseValueJ (j : Json) : MofVal.Value drvCodec :=
  match j with
  | .arr a => .array (a.toList.map parseScalar)
  | x => .scalar (parseScalar x)

def scalarJ (s : MofVal.Scalar drvCodec) : Json :=
  match s with
  | .null => Json.null
  | .str v => Json.mkObj [("s", natsToJson v)]
  | .char16 v => Json.mkObj [("c", natsToJson v)]
  | .bool b => Json.mkObj [("b", b)]
  | .int v => Json.mkObj [("i", intToJson v)]
  | .real x => Json.mkObj [("r", natsToJson x)]
  | .datetime d => Json.mkObj [("d", natsToJson d)]
  | .ref r => Json.mkObj [("ref", natsToJson r)]

def valueJ (v : MofVal.Value drvCodec) : Json :=
  match v with
  | .scalar s => scalarJ s
  | .array xs => Json.arr (xs.map scalarJ).toArray

def typeOf (j : Json) (k : String) : MofVal.CimType :=
  ((getStr j k).bind MofVal.CimType.ofName).getD .string

def optBoolJ : Option Bool → Json
  | some b => b
  | none => Json.null

def getOptBool (j : Json) (k : String) : Option Bool :=
  match getField j k with | .bool b => some b | _ => none

def flavorsOfJ (j : Json) : MofDecl.Flavors :=
  ⟨getOptBool j "o", getOptBool j "s", getOptBool j "t", getOptBool j "i"⟩

def flavorsJ (f : MofDecl.Flavors) : Json :=
  Json.mkObj [("o", optBoolJ f.overridable), ("s", optBoolJ f.tosubclass), ("t", optBoolJ f.translatable),
              ("i", optBoolJ f.toinstance)]

def qualDeclOfJ (j : Json) : MofDecl.QualDecl drvCodec :=
  { name := getNats j "name", ty := typeOf j "ty", isArray := (getBool j "arr").getD false,
    arraySize := getNat j "size",
    value := (match j.getObjVal? "value" with | .ok v => some (parseValueJ v) | .error _ => none),
    scopes := (getArr j "scopes").map (fun x => match x with | .bool b => b | _ => false),
    flavors := flavorsOfJ (getField j "fl") }

def qualDeclJ (q : MofDecl.QualDecl drvCodec) : Json :=
  Json.mkObj ([("name", natsToJson q.name), ("ty", (MofVal.CimType.name q.ty : String)), ("arr", q.isArray),
    ("size", optToJson (fun (n : Nat) => (n : Json)) q.arraySize),
    ("scopes", Json.arr (q.scopes.map (fun (b : Bool) => (b : Json))).toArray), ("fl", flavorsJ q.flavors)] ++
    (match q.value with | some v => [("value", valueJ v)] | none => []))

def qualifierOfJ (j : Json) : MofDecl.Qualifier drvCodec :=
  { name := getNats j "name", ty := typeOf j "ty", value := parseValueJ (getField j "value"),
    flavors := flavorsOfJ (getField j "fl") }

def qualifierJ (q : MofDecl.Qualifier drvCodec) : Json :=
  Json.mkObj [("name", natsToJson q.name), ("ty", (MofVal.CimType.name q.ty : String)), ("value", valueJ q.value),
    ("fl", flavorsJ q.flavors)]

def textRes (r : Except PyExc (List Nat)) : Json :=
  match r with
  | .ok s => Json.mkObj [("ok", natsToJson s)]
  | .error e => e.toJson

def optStr (j : Json) (k : String) : Option (List Nat) :=
  match getField j k with | .arr a => some (a.toList.filterMap jsonToNat?) | _ => none

def optStrJ : Option (List Nat) → Json
  | some s => natsToJson s
  | none => Json.null

def propertyOfJ (j : Json) : MofDecl.Property drvCodec :=
  { name := getNats j "name", ty := typeOf j "ty", refClass := optStr j "rc", isArray := (getBool j "arr").getD false,
    arraySize := getNat j "size",
    value := (match j.getObjVal? "value" with | .ok v => some (parseValueJ v) | .error _ => none),
    quals := (getArr j "quals").map qualifierOfJ }

def propertyJ (p : MofDecl.Property drvCodec) : Json :=
  Json.mkObj ([("name", natsToJson p.name), ("ty", (MofVal.CimType.name p.ty : String)), ("rc", optStrJ p.refClass),
    ("arr", p.isArray), ("size", optToJson (fun (n : Nat) => (n : Json)) p.arraySize),
    ("quals", Json.arr (p.quals.map qualifierJ).toArray)] ++
    (match p.value with | some v => [("value", valueJ v)] | none => []))

def parameterOfJ (j : Json) : MofDecl.Parameter drvCodec :=
  { name := getNats j "name", ty := typeOf j "ty", refClass := optStr j "rc", isArray := (getBool j "arr").getD false,
    arraySize := getNat j "size", quals := (getArr j "quals").map qualifierOfJ }

def parameterJ (p : MofDecl.Parameter drvCodec) : Json :=
  Json.mkObj [("name", natsToJson p.name), ("ty", (MofVal.CimType.name p.ty : String)), ("rc", optStrJ p.refClass),
    ("arr", p.isArray), ("size", optToJson (fun (n : Nat) => (n : Json)) p.arraySize),
    ("quals", Json.arr (p.quals.map qualifierJ).toArray)]

def methodOfJ (j : Json) : MofDecl.Method drvCodec :=
  { name := getNats j "name", returnType := typeOf j "rt", params := (getArr j "params").map parameterOfJ,
    quals := (getArr j "quals").map qualifierOfJ }

def methodJ (m : MofDecl.Method drvCodec) : Json :=
  Json.mkObj [("name", natsToJson m.name), ("rt", (MofVal.CimType.name m.returnType : String)),
    ("params", Json.arr (m.params.map parameterJ).toArray), ("quals", Json.arr (m.quals.map qualifierJ).toArray)]

def classOfJ (j : Json) : MofDecl.Class drvCodec :=
  { name := getNats j "name", superclass := optStr j "super", quals := (getArr j "quals").map qualifierOfJ,
    props := (getArr j "props").map propertyOfJ, methods := (getArr j "methods").map methodOfJ }

def classJ (k : MofDecl.Class drvCodec) : Json :=
  Json.mkObj [("name", natsToJson k.name), ("super", optStrJ k.superclass),
    ("quals", Json.arr (k.quals.map qualifierJ).toArray), ("props", Json.arr (k.props.map propertyJ).toArray),
    ("methods", Json.arr (k.methods.map methodJ).toArray)]

def instanceOfJ (j : Json) : MofDecl.Instance drvCodec :=
  { className := getNats j "cn", props := (getArr j "props").map propertyOfJ }

def instanceJ (i : MofDecl.Instance drvCodec) : Json :=
  Json.mkObj [("cn", natsToJson i.className), ("props", Json.arr (i.props.map propertyJ).toArray)]

def handle (j : Json) : Json :=
  let indent := (getNat j "indent").getD 0
  let maxline := (getNat j "maxline").getD 80
  let pos := (getInt j "pos").getD 0
  let es := (getNat j "es").getD 0
  let avoid := (getBool j "avoid").getD false
  let q := (getNat j "q").getD 34
  match getStr j "op" with
  | some "escape" => Json.mkObj [("out", natsToJson (MofStr.escape (getNats j "s")))]
  | some "mofstr" => resJson (MofStr.mofstr (getNats j "s") indent maxline pos es avoid q)
  | some "mofval" => resJson (MofStr.mofval (getNats j "s") indent maxline pos es)
  | some "value" =>
    let v : MofStr.Item ⊕ List MofStr.Item :=
      match getField j "v" with
      | .arr a => .inr (a.toList.map parseItem)
      | x => .inl (parseItem x)
    resJson (MofStr.valueTomof v indent maxline pos es avoid)
  | some "fix" => strRes (MofLex.fixStringValue (getNats j "tok"))
  | some "lexstr" =>
    match MofLex.lexStringValue (getNats j "text") with
    | some (t, r) => Json.mkObj [("tok", natsToJson t), ("rest", (r.length : Nat))]
    | none => Json.mkObj [("tok", Json.null)]
  | some "lexchar" =>
    match MofLex.lexCharValue (getNats j "text") with
    | some (t, r) => Json.mkObj [("tok", natsToJson t), ("rest", (r.length : Nat))]
    | none => Json.mkObj [("tok", Json.null)]
  | some "valmof" =>
    resJson (MofVal.valueToMof drvCodec (typeOf j "ty") (parseValueJ (getField j "v")) indent maxline pos es avoid)
  | some "valread" =>
    match MofVal.parseValue drvCodec (typeOf j "ty") ((getBool j "arr").getD false) (getNats j "text") with
    | none => Json.mkObj [("none", true)]
    | some v => Json.mkObj [("v", valueJ v)]
  | some "qdmof" => textRes (MofDecl.qualDeclTomof drvCodec (qualDeclOfJ (getField j "qd")) maxline)
  | some "qdread" =>
    match MofDecl.readQualDecl drvCodec (getNats j "text") with
    | none => Json.mkObj [("none", true)]
    | some qd => Json.mkObj [("qd", qualDeclJ qd)]
  | some "qlmof" => textRes (MofDecl.qualifiersTomof drvCodec ((getArr j "quals").map qualifierOfJ) indent maxline)
  | some "qlread" =>
    match MofDecl.readQualList drvCodec ((getArr j "decls").map qualDeclOfJ) (getNats j "text") with
    | none => Json.mkObj [("none", true)]
    | some qs => Json.mkObj [("quals", Json.arr (qs.map qualifierJ).toArray)]
  | some "clsmof" => textRes (MofDecl.classTomof drvCodec (classOfJ (getField j "cls")) maxline)
  | some "clsread" =>
    match MofDecl.readClass drvCodec ((getArr j "decls").map qualDeclOfJ) (getNats j "text") with
    | none => Json.mkObj [("none", true)]
    | some k => Json.mkObj [("cls", classJ k)]
  | some "instmof" => textRes (MofDecl.instanceTomof drvCodec (instanceOfJ (getField j "inst")) maxline)
  | some "instread" =>
    match MofDecl.readInstance drvCodec (classOfJ (getField j "cls")) (getNats j "text") with
    | none => Json.mkObj [("none", true)]
    | some i => Json.mkObj [("inst", instanceJ i)]
  | some "lexnum" =>
    match MofLex.lexNumber (getNats j "text") with
    | none => Json.mkObj [("tok", Json.null)]
    | some (.float t, r) => Json.mkObj [("tok", "float"), ("text", natsToJson t), ("rest", (r.length : Nat))]
    | some (.int v, r) => Json.mkObj [("tok", "int"), ("v", intToJson v), ("rest", (r.length : Nat))]
    | some (.error t, r) => Json.mkObj [("tok", "error"), ("text", natsToJson t), ("rest", (r.length : Nat))]
  | some "intstr" => Json.mkObj [("out", natsToJson (MofLex.intStr ((getInt j "v").getD 0)))]
  | some "strlist" =>
    match MofLex.compileStringList (getNats j "text") with
    | none => Json.mkObj [("lex", Json.null)]
    | some r => strRes r
  | some "strarray" =>
    match MofLex.compileStringArray (getNats j "text") with
    | none => Json.mkObj [("lex", Json.null)]
    | some (.ok ss) => Json.mkObj [("ok", Json.arr (ss.map natsToJson).toArray)]
    | some (.error e) => e.toJson
  | some "roundtrip" =>
    match MofStr.mofstr (getNats j "s") indent maxline pos es avoid q with
    | .error e => e.toJson
    | .ok (m, _) =>
      match MofLex.compileStringList m with
      | none => Json.mkObj [("lex", Json.null)]
      | some r => strRes r
  | _ => Json.mkObj [("bad", "op")]

def main : IO Unit := runDriver handle
