import Pywbem.Model.ValueMap
open Lean Pywbem.Proto Pywbem.Model.ValueMap Pywbem.Model.IntLit

/-! C20 driver.
  {"op":"intlit","s":cps}                         -> {"v": "dec"|null}
  {"op":"vm","typ":str,"values":[cps]|null,"valuemap":[cps]|null,"values_null":bool,"valuemap_null":bool,"vd":cps|null,
   "vs":[int,…],"scan":[lo,hi]|null,"strs":[cps,…]}
     -> {"exc":name}  |  {"ok":{"items":[[bin,cps],…],"tv":[out,…],"scan":[[n,out],…],"tb":[bout,…]}}
        plus "spec": {"exc":name} | {"ents":[bin,…],"tv":[…],"scan":[…]}   (the short spec, same inputs)
  bin = "dec" | ["dec","dec"] | null ; out = cps | {"exc":name} ; bout = {"b":bin} | {"exc":name} -/

def strList? (j : Json) (k : String) : Option (List (List Char)) :=
  match getField j k with
  | .arr a => a.toList.mapM jsonToChars?
  | _ => none

def binToJson : Bin → Json
  | .single v => intToJson v
  | .range lo hi => Json.arr #[intToJson lo, intToJson hi]
  | .unclaimed => Json.null

def outToJson : Except PyExc (List Char) → Json
  | .ok s => cpsToJson s
  | .error e => e.toJson

/-- run-length encoded outcomes of `f` on lo, lo+1, …, lo+n-1 -/
def scanRLE (f : Int → Except PyExc (List Char)) (lo : Int) (n : Nat) : Array Json := Id.run do
  let mut out : Array Json := #[]
  let mut cur : Option (Except PyExc (List Char)) := none
  let mut cnt : Nat := 0
  for k in [0:n] do
    let r := f (lo + (k : Int))
    match cur with
    | none => cur := some r; cnt := 1
    | some c =>
      if (match c, r with
          | .ok a, .ok b => a == b
          | .error a, .error b => a == b
          | _, _ => false) then cnt := cnt + 1
      else
        out := out.push (Json.arr #[(cnt : Json), outToJson c])
        cur := some r; cnt := 1
  match cur with
  | some c => out := out.push (Json.arr #[(cnt : Json), outToJson c])
  | none => pure ()
  return out

def handleVm (j : Json) : Json :=
  let typ := (getStr j "typ").getD ""
  let e : Elem := { typ := typ, values := strList? j "values", valuemap := strList? j "valuemap" }
  let nullOr (k kn : String) : Option (Option (List (List Char))) :=
    if (getBool j kn).getD false then some none else (strList? j k).map some
  let eq : ElemQ := { typ := typ, values := nullOr "values" "values_null", valuemap := nullOr "valuemap" "valuemap_null" }
  let vd := getChars j "vd"
  let vs := (getArr j "vs").filterMap jsonToInt?
  let strs := (getArr j "strs").filterMap jsonToChars?
  let scan : Option (Int × Nat) :=
    match (getArr j "scan").filterMap jsonToInt? with
    | [lo, hi] => some (lo, (hi - lo + 1).toNat)
    | _ => none
  let modelPart : List (String × Json) :=
    match createQ eq vd with
    | .error x => [("exc", Json.str x.name)]
    | .ok vm =>
      [("ok", Json.mkObj [
        ("items", Json.arr ((items vm).map (fun (b, s) => Json.arr #[binToJson b, cpsToJson s])).toArray),
        ("tv", Json.arr (vs.map (fun v => outToJson (tovalues vm v))).toArray),
        ("scan", match scan with
                 | some (lo, n) => Json.arr (scanRLE (tovalues vm) lo n)
                 | none => Json.null),
        ("tb", Json.arr (strs.map (fun s => match tobinary vm s with
                 | .ok b => Json.mkObj [("b", binToJson b)]
                 | .error x => x.toJson)).toArray)])]
  let specPart : Json :=
    match Spec.specCreate e vd with
    | .error x => x.toJson
    | .ok (ents, values) =>
      Json.mkObj [
        ("ents", Json.arr (ents.map (fun en => binToJson (Spec.entBin en))).toArray),
        ("tv", Json.arr (vs.map (fun v => outToJson (Spec.specToValues ents values v))).toArray),
        ("scan", match scan with
                 | some (lo, n) => Json.arr (scanRLE (Spec.specToValues ents values) lo n)
                 | none => Json.null)]
  Json.mkObj (modelPart ++ [("spec", specPart)])

def handle (j : Json) : Json :=
  match getStr j "op" with
  | some "intlit" =>
    match getChars j "s" with
    | some s => Json.mkObj [("v", optToJson intToJson (integerValueToInt s))]
    | none => Json.mkObj [("bad", "s")]
  | some "vm" => handleVm j
  | _ => Json.mkObj [("bad", "op")]

def main : IO Unit := runDriver handle
