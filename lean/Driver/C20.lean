import Pywbem.Model.ValueMapApi
open Lean Pywbem.Proto Pywbem.Model.ValueMap Pywbem.Model.IntLit Pywbem.Model.ValueMap.Api

/-! C20 driver.
  {"op":"intlit","s":cps}                         -> {"v": "dec"|null}
  {"op":"vm","typ":str,"values":[cps]|null,"valuemap":[cps]|null,"values_null":bool,"valuemap_null":bool,"vd":cps|null,
   "vs":[int,…],"scan":[lo,hi]|null,"strs":[cps,…]}
     -> {"exc":name}  |  {"ok":{"items":[[bin,cps],…],"tv":[out,…],"scan":[[n,out],…],"tb":[bout,…]}}
        plus "spec": {"exc":name} | {"ents":[bin,…],"tv":[…],"scan":[…]}   (the short spec, same inputs)
  bin = "dec" | ["dec","dec"] | null ; out = cps | {"exc":name} ; bout = {"b":bin} | {"exc":name} -/

def strList? (j : Json) (k : String) : Option (List (List Char)) :=
  match getField j k with
  | .arr a => a.toList.mapM jsonToChars?
  | _ => none

def binToJson : Bin → Json
  | .single v => intToJson v
  | .range lo hi => Json.arr #[intToJson lo, intToJson hi]
  | .unclaimed => Json.null

def outToJson : Except PyExc (List Char) → Json
  | .ok s => cpsToJson s
  | .error e => e.toJson

/-- run-length encoded outcomes of `f` on lo, lo+1, …, lo+n-1 -/
def scanRLE (f : Int → Except PyExc (List Char)) (lo : Int) (n : Nat) : Array Json := Id.run do
  let mut out : Array Json := #[]
  let mut cur : Option (Except PyExc (List Char)) := none
  let mut cnt : Nat := 0
  for k in [0:n] do
    let r := f (lo + (k : Int))
    match cur with
    | none => cur := some r; cnt := 1
    | some c =>
      if (match c, r with
          | .ok a, .ok b => a == b
          | .error a, .error b => a == b
          | _, _ => false) then cnt := cnt + 1
      else
        out := out.push (Json.arr #[(cnt : Json), outToJson c])
        cur := some r; cnt := 1
  match cur with
  | some c => out := out.push (Json.arr #[(cnt : Json), outToJson c])
  | none => pure ()
  return out

def handleVm (j : Json) : Json :=
  let typ := (getStr j "typ").getD ""
  let e : Elem := { typ := typ, values := strList? j "values", valuemap := strList? j "valuemap" }
  let nullOr (k kn : String) : Option (Option (List (List Char))) :=
    if (getBool j kn).getD false then some none else (strList? j k).map some
  let eq : ElemQ := { typ := typ, values := nullOr "values" "values_null", valuemap := nullOr "valuemap" "valuemap_null" }
  let vd := getChars j "vd"
  let vs := (getArr j "vs").filterMap jsonToInt?
  let strs := (getArr j "strs").filterMap jsonToChars?
  let scan : Option (Int × Nat) :=
    match (getArr j "scan").filterMap jsonToInt? with
    | [lo, hi] => some (lo, (hi - lo + 1).toNat)
    | _ => none
  let modelPart : List (String × Json) :=
    match createQ eq vd with
    | .error x => [("exc", Json.str x.name)]
    | .ok vm =>
      [("ok", Json.mkObj [
        ("items", Json.arr ((items vm).map (fun (b, s) => Json.arr #[binToJson b, cpsToJson s])).toArray),
        ("tv", Json.arr (vs.map (fun v => outToJson (tovalues vm v))).toArray),
        ("scan", match scan with
                 | some (lo, n) => Json.arr (scanRLE (tovalues vm) lo n)
                 | none => Json.null),
        ("tb", Json.arr (strs.map (fun s => match tobinary vm s with
                 | .ok b => Json.mkObj [("b", binToJson b)]
                 | .error x => x.toJson)).toArray)])]
  let specPart : Json :=
    match Spec.specCreate e vd with
    | .error x => x.toJson
    | .ok (ents, values) =>
      Json.mkObj [
        ("ents", Json.arr (ents.map (fun en => binToJson (Spec.entBin en))).toArray),
        ("tv", Json.arr (vs.map (fun v => outToJson (Spec.specToValues ents values v))).toArray),
        ("scan", match scan with
                 | some (lo, n) => Json.arr (scanRLE (Spec.specToValues ents values) lo n)
                 | none => Json.null)]
  Json.mkObj (modelPart ++ [("spec", specPart)])

/-! api op: the factory methods on a class description and the argument forms of tovalues/tobinary.
  {"op":"api","cls":{"exc":name,"code":n} | {"props":[[cps,elem],…],"methods":[[cps,elem,[[cps,elem],…]],…]},
   "call":"property"|"method"|"parameter","names":[cps(,cps)],"vd":…,"vs","scan","strs" as for "vm",
   "args":[arg,…],"tbargs":[scalar,…]}
  elem = {"typ":str,"quals":[[cps,qval],…]} ; qval = null | {"arr":[cps,…]} | {"scalar":cps}
  scalar = null | {"int":"dec"} | {"cimint":"dec"} | {"bool":b} | {"str":cps} | "other" ; arg = scalar | {"list":[scalar,…]}
  adds to the "ok" object: "args":[ret|{"exc"}], "tbargs":[{"b":bin}|{"exc"}] ; ret = null | cps | {"list":[cps,…]} -/

def qvalOf (j : Json) : QVal :=
  match j with
  | .null => .null
  | j =>
    match getField j "arr" with
    | .arr a => .arr (a.toList.filterMap jsonToChars?)
    | _ => match getChars j "scalar" with
      | some s => .scalar s
      | none => .null

def pairsOf {α} (f : Json → α) (j : Json) : List (List Char × α) :=
  match j with
  | .arr a => a.toList.filterMap (fun p => match p with
      | .arr q => match q.toList with
        | n :: v :: _ => (jsonToChars? n).map (fun nm => (nm, f v))
        | _ => none
      | _ => none)
  | _ => []

def elemOf (j : Json) : ElemG :=
  { typ := (getStr j "typ").getD "", quals := pairsOf qvalOf (getField j "quals") }

def methodsOf (j : Json) : List (List Char × MethodG) :=
  match j with
  | .arr a => a.toList.filterMap (fun p => match p with
      | .arr q => match q.toList with
        | n :: r :: ps :: _ => (jsonToChars? n).map (fun nm => (nm, { ret := elemOf r, params := pairsOf elemOf ps }))
        | _ => none
      | _ => none)
  | _ => []

def excOf (j : Json) : PyExc :=
  match getStr j "exc" with
  | some "CIMError" => .cimError ((getNat j "code").getD 0)
  | some "ConnectionError" => .connectionError
  | some "TimeoutError" => .timeoutError
  | some "AuthError" => .authError
  | some "HTTPError" => .httpError
  | _ => .osError

def scalarOf (j : Json) : Scalar :=
  match j with
  | .null => .none
  | .str _ => .other
  | j =>
    match getInt j "int", getInt j "cimint", getBool j "bool", getChars j "str" with
    | some v, _, _, _ => .int v
    | _, some v, _, _ => .cimint v
    | _, _, some b, _ => .bool b
    | _, _, _, some s => .str s
    | _, _, _, _ => .other

def argOf (j : Json) : Arg :=
  match getField j "list" with
  | .arr a => .list (a.toList.map scalarOf)
  | _ => .scalar (scalarOf j)

def retToJson : Ret → Json
  | .none => Json.null
  | .str s => cpsToJson s
  | .list xs => Json.mkObj [("list", Json.arr (xs.map cpsToJson).toArray)]

def handleApi (j : Json) : Json :=
  let cj := getField j "cls"
  let getClass : Except PyExc ClassG :=
    match getStr cj "exc" with
    | some _ => .error (excOf cj)
    | none => .ok { props := pairsOf elemOf (getField cj "props"), methods := methodsOf (getField cj "methods") }
  let names := (getArr j "names").filterMap jsonToChars?
  let n0 := names.getD 0 []
  let n1 := names.getD 1 []
  let vd := getChars j "vd"
  let vs := (getArr j "vs").filterMap jsonToInt?
  let strs := (getArr j "strs").filterMap jsonToChars?
  let args := (getArr j "args").map argOf
  let tbargs := (getArr j "tbargs").map scalarOf
  let scan : Option (Int × Nat) :=
    match (getArr j "scan").filterMap jsonToInt? with
    | [lo, hi] => some (lo, (hi - lo + 1).toNat)
    | _ => none
  let call := (getStr j "call").getD "property"
  let res : Except PyExc VM :=
    if call == "property" then forProperty getClass n0 vd
    else if call == "method" then forMethod getClass n0 vd
    else forParameter getClass n0 n1 vd
  -- the element the spec is evaluated on (only when it is found and carries string arrays)
  let el? : Option ElemG :=
    match getClass with
    | .error _ => none
    | .ok c =>
      if call == "property" then ncGet c.props n0
      else if call == "method" then (ncGet c.methods n0).map (·.ret)
      else (ncGet c.methods n0).bind (fun m => ncGet m.params n1)
  let modelPart : List (String × Json) :=
    match res with
    | .error x => [("exc", Json.str x.name)] ++ (match x with | .cimError c => [("code", (c : Json))] | _ => [])
    | .ok vm =>
      [("ok", Json.mkObj [
        ("items", Json.arr ((items vm).map (fun (b, s) => Json.arr #[binToJson b, cpsToJson s])).toArray),
        ("tv", Json.arr (vs.map (fun v => outToJson (tovalues vm v))).toArray),
        ("scan", match scan with
                 | some (lo, n) => Json.arr (scanRLE (tovalues vm) lo n)
                 | none => Json.null),
        ("tb", Json.arr (strs.map (fun s => match tobinary vm s with
                 | .ok b => Json.mkObj [("b", binToJson b)]
                 | .error x => x.toJson)).toArray),
        ("args", Json.arr (args.map (fun a => match tovaluesArg vm a with
                 | .ok r => retToJson r
                 | .error x => x.toJson)).toArray),
        ("tbargs", Json.arr (tbargs.map (fun a => match tobinaryArg vm a with
                 | .ok b => Json.mkObj [("b", binToJson b)]
                 | .error x => x.toJson)).toArray)])]
  let specPart : Json :=
    match el? with
    | none => Json.null
    | some el =>
      let q := el.toQ
      match q.values, q.valuemap with
      | some none, _ => Json.null
      | _, some none => Json.null
      | v, m =>
        match Spec.specCreate ⟨q.typ, v.bind id, m.bind id⟩ vd with
        | .error x => x.toJson
        | .ok (ents, values) =>
          Json.mkObj [
            ("ents", Json.arr (ents.map (fun en => binToJson (Spec.entBin en))).toArray),
            ("tv", Json.arr (vs.map (fun v => outToJson (Spec.specToValues ents values v))).toArray),
            ("scan", match scan with
                     | some (lo, n) => Json.arr (scanRLE (Spec.specToValues ents values) lo n)
                     | none => Json.null)]
  Json.mkObj (modelPart ++ [("spec", specPart)])

/-! vmI op: _create_for_element on a ValueMap array with NULL items.
  {"op":"vmI","typ":str,"values":[cps,…],"valuemap":[cps|null,…],"vd":cps|null} -> {"exc":name} | {"ok":n_items} -/
def handleVmI (j : Json) : Json :=
  let typ := (getStr j "typ").getD ""
  let values := (getArr j "values").filterMap jsonToChars?
  let vmap : List Item := (getArr j "valuemap").map jsonToChars?
  match createI typ values vmap (getChars j "vd") with
  | .error x => x.toJson
  | .ok vm => Json.mkObj [("ok", ((items vm).length : Json))]

def handle (j : Json) : Json :=
  match getStr j "op" with
  | some "intlit" =>
    match getChars j "s" with
    | some s => Json.mkObj [("v", optToJson intToJson (integerValueToInt s))]
    | none => Json.mkObj [("bad", "s")]
  | some "vm" => handleVm j
  | some "api" => handleApi j
  | some "vmI" => handleVmI j
  | _ => Json.mkObj [("bad", "op")]

def main : IO Unit := runDriver handle
