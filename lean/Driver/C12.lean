import Pywbem.Model.Resolve
open Lean Pywbem.Proto Pywbem.Model.Resolve

/-! C12 driver (schema: harness/c12lib.py, "wire format"); see `handle`. -/

def optBool (j : Json) (k : String) : Option Bool := getBool j k
def optChars (j : Json) (k : String) : Option (List Char) := getChars j k
def natD (j : Json) (k : String) : Nat := (getNat j k).getD 0
def boolD (j : Json) (k : String) : Bool := (getBool j k).getD false
def nameD (j : Json) (k : String) : List Char := (getChars j k).getD []

def parseVal (j : Json) : Val :=
  match j with
  | .null => .null
  | _ => match getChars j "s" with
    | some s => .str s
    | none => .tok (natD j "t")

def parseQual (j : Json) : Qual :=
  { name := nameD j "n", ty := natD j "ty", val := parseVal (getField j "v"),
    propagated := optBool j "p", tosub := optBool j "ts", overr := optBool j "ov", transl := optBool j "tr" }

def scopeOf : Nat → Option Scope
  | 0 => some .cls | 1 => some .assoc | 2 => some .indic | 3 => some .prop
  | 4 => some .ref | 5 => some .meth | 6 => some .param | _ => none

def parseDecl (j : Json) : QDecl :=
  { name := nameD j "n", ty := natD j "ty",
    scopes := (getArr j "sc").filterMap (fun x => (jsonToNat? x).bind scopeOf),
    anyScope := boolD j "any", tosub := optBool j "ts", overr := optBool j "ov", transl := optBool j "tr" }

def parseParam (j : Json) : Param :=
  { name := nameD j "n", ty := natD j "ty", isArr := boolD j "arr", arrSize := getNat j "asz",
    emb := getNat j "emb", refcls := optChars j "ref", quals := (getArr j "q").map parseQual }

def parseElem (j : Json) : Elem :=
  { name := nameD j "n", isMeth := boolD j "m", ty := natD j "ty", isArr := boolD j "arr",
    emb := getNat j "emb", refcls := optChars j "ref", origin := optChars j "org",
    propagated := optBool j "p", quals := (getArr j "q").map parseQual,
    params := (getArr j "ps").map parseParam }

def parseCls (j : Json) : Cls :=
  { name := nameD j "n", super := optChars j "sup", quals := (getArr j "q").map parseQual,
    props := (getArr j "props").map parseElem, meths := (getArr j "meths").map parseElem }

def parseFlags (j : Json) : Flags :=
  { lo := optBool j "lo", iq := optBool j "iq", ico := optBool j "ico",
    pl := match getField j "pl" with
      | .arr a => some (a.toList.filterMap jsonToChars?)
      | _ => none }

def parseOp (j : Json) : Option Op :=
  match getStr j "op" with
  | some "create" => some (.create (parseCls (getField j "c")))
  | some "add" => some (.add (parseCls (getField j "c")))
  | some "modify" => some (.modify (parseCls (getField j "c")))
  | some "delete" => some (.delete (nameD j "n"))
  | some "get" => some (.get (nameD j "n") (parseFlags (getField j "f")))
  | some "enumNames" => some (.enumNames (optChars j "cn") (optBool j "deep"))
  | some "enumClasses" => some (.enumClasses (optChars j "cn") (optBool j "deep") (parseFlags (getField j "f")))
  | some "supers" => some (.supers (nameD j "n"))
  | some "addInst" => some (.addInst { cls := nameD j "cls", key := natD j "key" })
  | some "enumInsts" => some (.enumInsts (nameD j "n"))
  | some "addDecl" => some (.addDecl (parseDecl (getField j "d")))
  | some "mofCreate" => some (.mofCreate (parseCls (getField j "c")))
  | some "isSub" => some (.isSub (nameD j "k") (nameD j "sup"))
  | _ => none

def ob (b : Option Bool) : Json := optToJson (fun (x : Bool) => (x : Json)) b
def on (n : Option Nat) : Json := optToJson (fun (x : Nat) => (x : Json)) n
def oc (n : Option (List Char)) : Json := optToJson cpsToJson n

def valToJson : Val → Json
  | .null => Json.null
  | .str s => Json.mkObj [("s", cpsToJson s)]
  | .tok k => Json.mkObj [("t", (k : Nat))]

def qualToJson (q : Qual) : Json :=
  Json.mkObj [("n", cpsToJson q.name), ("ty", (q.ty : Nat)), ("v", valToJson q.val),
              ("p", ob q.propagated), ("ts", ob q.tosub), ("ov", ob q.overr), ("tr", ob q.transl)]

def qualsToJson (qs : List Qual) : Json := Json.arr (qs.map qualToJson).toArray

def paramToJson (p : Param) : Json :=
  Json.mkObj [("n", cpsToJson p.name), ("ty", (p.ty : Nat)), ("arr", p.isArr), ("asz", on p.arrSize),
              ("emb", on p.emb), ("ref", oc p.refcls), ("q", qualsToJson p.quals)]

def elemToJson (e : Elem) : Json :=
  Json.mkObj [("n", cpsToJson e.name), ("m", e.isMeth), ("ty", (e.ty : Nat)), ("arr", e.isArr),
              ("emb", on e.emb), ("ref", oc e.refcls), ("org", oc e.origin), ("p", ob e.propagated),
              ("q", qualsToJson e.quals), ("ps", Json.arr (e.params.map paramToJson).toArray)]

def clsToJson (c : Cls) : Json :=
  Json.mkObj [("n", cpsToJson c.name), ("sup", oc c.super), ("q", qualsToJson c.quals),
              ("props", Json.arr (c.props.map elemToJson).toArray),
              ("meths", Json.arr (c.meths.map elemToJson).toArray)]

def instToJson (i : Inst) : Json := Json.arr #[cpsToJson i.cls, (i.key : Nat)]

def outToJson : Out → Json
  | .done => Json.mkObj [("ok", Json.null)]
  | .cls c => Json.mkObj [("ok", Json.mkObj [("cls", clsToJson c)])]
  | .classes l => Json.mkObj [("ok", Json.mkObj [("classes", Json.arr (l.map clsToJson).toArray)])]
  | .names l => Json.mkObj [("ok", Json.mkObj [("names", Json.arr (l.map cpsToJson).toArray)])]
  | .insts l => Json.mkObj [("ok", Json.mkObj [("insts", Json.arr (l.map instToJson).toArray)])]
  | .flag b => Json.mkObj [("ok", Json.mkObj [("flag", b)])]
  | .err e => e.toJson

def parseROp (j : Json) : Option ROp :=
  match getStr j "op" with
  | some "addNs" => some (.addNs (nameD j "ns"))
  | some "removeNs" => some (.removeNs (nameD j "ns"))
  | _ => (parseOp j).map (fun o => .inNs (nameD j "ns") o)

def nsToJson (e : List Char × State) : Json :=
  Json.mkObj [("ns", cpsToJson e.1),
              ("classes", Json.arr (e.2.classes.map (fun c => cpsToJson c.name)).toArray),
              ("insts", Json.arr (e.2.insts.map instToJson).toArray),
              ("decls", Json.arr (e.2.decls.map (fun d => cpsToJson d.name)).toArray)]

/-- Input line: {"default": name of the initial namespace, "ops":[rop,…]} where rop carries "ns".
    Output: {"outs":[out,…],"nss":[{"ns","classes","insts","decls"},…]} -/
def handle (j : Json) : Json :=
  match (getArr j "ops").mapM parseROp with
  | none => Json.mkObj [("bad", "op")]
  | some ops =>
    let r0 : Repo := { nss := [(stripSlash (nameD j "default"), {})] }
    let (r, outs) := rrun r0 ops
    Json.mkObj [("outs", Json.arr (outs.map outToJson).toArray),
                ("nss", Json.arr (r.nss.map nsToJson).toArray)]

def main : IO Unit := runDriver handle
