import Pywbem.Model.Dtd
import Pywbem.Model.Request
import Pywbem.Model.Sendable
import Pywbem.Model.CimJson
import Pywbem.Generated.Dtd
import Pywbem.Model.XmlParse
open Lean Pywbem.Proto Pywbem.Model Pywbem.Model.XmlText Pywbem.Model.CimJson

/-! C03 driver.  One JSON object per line:
  {"op":"valid","tree":xml}                                  -> {"valid":b,"why":s|null}
  {"op":"enc","obj":obj,"codec":tables}                      -> {"xml":cps,"valid":b,"why":…,"sendable":b}
  {"op":"encpv","obj":param,"codec":tables}                  -> same for CIMParameter.tocimxml(as_value=True)
  {"op":"imc","name":opname,"dn":cps,"ns":arg,"args":{n:arg},"codec":tables}
  {"op":"invoke","dn":cps,"method":arg,"obj":arg,"params":[mparam],"codec":tables,"kr":[[kind,bits,cps],…]}
  {"op":"export","arg":arg,"codec":tables}
        -> {"ok":{"headers":[[k,v],…],"xml":cps,"valid":b,"why":…,"agree":b}} | {"exc":name}
  {"op":"lpost","msgid":cps,"method":cps,"params":[[cps,isInstance],…],"full":b,"desc":cps} -> {"xml":cps,"valid":b,"why":…}
  {"op":"lrsp","kind":"ok"|"err","msgid":cps,"method":cps,"code":n,"desc":cps} -> {"xml":cps,"valid":b,"why":…}
  {"op":"val","val":value,"codec":tables}                     -> {"ok":{"xml":cps,"valid":b,"why":…}} | {"exc":name}   (tocimxml(value))
  {"op":"par","text":cps}                                     -> {"tree":xml|null,"valid":b,"why":…}   (XmlParse.par on a document text)
  {"op":"match","elem":cps,"kids":[cps,…]}                   -> {"match":b|null}   (content model of a declared element) -/

open Pywbem.Model.Req Pywbem.Model.Dtd

def theDtd : Dtd := Pywbem.Generated.dtd

partial def argOfJson (j : Json) : Arg :=
  match getStr j "k" with
  | some "str" => .str ((getChars j "v").getD [])
  | some "bool" => .bool ((getBool j "v").getD false)
  | some "int" => .int ((getInt j "v").getD 0)
  | some "classname" => .className (pathOfJson (getField j "v"))
  | some "instname" => .instName (pathOfJson (getField j "v"))
  | some "inst" => .inst (instOfJson (getField j "v"))
  | some "cls" => .cls (clsOfJson (getField j "v"))
  | some "qdecl" => .qdecl (qdeclOfJson (getField j "v"))
  | some "list" => .list ((getArr j "v").map argOfJson)
  | some "other" => .other
  | _ => .none

def pitemOfJson (j : Json) : PItem :=
  match getStr j "t" with
  | some "null" => .null
  | some "list" => .list
  | _ => .atom (atomOfJson j)

def pvalOfJson (j : Json) : PVal :=
  match j with
  | .null => .null
  | _ =>
    match j.getObjVal? "s" with
    | .ok a => .scalar (atomOfJson a)
    | .error _ =>
      match j.getObjVal? "a" with
      | .ok (.arr a) => .array (a.toList.map pitemOfJson)
      | _ => .other

def mparamOfJson (j : Json) : MParam :=
  match getStr j "k" with
  | some "cimparam" => .cimparam ((getChars j "name").getD []) ((getChars j "ty").getD []) (pvalOfJson (getField j "val"))
      (jsonToChars? (getField j "emb"))
  | _ => .tuple ((getChars j "name").getD []) (pvalOfJson (getField j "val"))

def keyCodecOfJson (j : Json) : KeyCodec :=
  let tbl : List (Nat × UInt64 × Str) := (getArr j "kr").filterMap (fun e => match e with
    | .arr a => some ((jsonToNat? (a[0]!)).getD 0, bitsOf (a[1]!), (jsonToChars? (a[2]!)).getD [])
    | _ => none)
  { reprReal := fun k b => match tbl.find? (fun e => e.1 == k && e.2.1 == b) with
      | some e => e.2.2 | none => "?repr".toList }

def validJ (t : Xml) : List (String × Json) :=
  [("valid", validTree theDtd t), ("why", match whyInvalid theDtd t with | some w => Json.str w | none => Json.null)]

def headersJ (h : Headers) : Json := Json.arr (h.map (fun p => Json.arr #[cpsToJson p.1, cpsToJson p.2])).toArray

/-- the agreement the theorems state, evaluated: CIMMethod = NAME of the call element, CIMObject starts with /
    equals the namespace of the body -/
def agreeB (h : Headers) (x : Xml) : Bool :=
  match header h "CIMMethod", header h "CIMObject" with
  | some m, some o =>
    bodyMethodName x == some m &&
    (match bodyNamespace x with
     | some n =>
       match bodyClassName x with
       | none => o == n
       | some c => (n ++ ':' :: c).isPrefixOf o
     | none => false)
  | _, _ => header h "CIMExportMethod" == bodyMethodName x

def reqOutJ (r : Except PyExc (Headers × Xml)) : Json :=
  match r with
  | .error e => e.toJson
  | .ok (h, x) => Json.mkObj [("ok", Json.mkObj ([("headers", headersJ h), ("xml", cpsToJson x.ser), ("agree", agreeB h x)] ++ validJ x))]

def handle (j : Json) : Json :=
  let C := codecOfJson (getField j "codec")
  match getStr j "op" with
  | some "valid" => Json.mkObj (validJ (xmlOfJson (getField j "tree")))
  | some "enc" =>
    match objOfJson (getField j "obj") with
    | none => Json.mkObj [("bad", "obj")]
    | some o =>
      let t := encObj C o
      Json.mkObj ([("xml", cpsToJson t.ser), ("sendable", Sendable.sendableObj C o), ("shape", Sendable.shapeObj o),
        ("content", Sendable.contentOkObj C o)] ++ validJ t)
  | some "encpv" =>
    let p := paramOfJson (getField j "obj")
    let t := encParamValue C p
    Json.mkObj ([("xml", cpsToJson t.ser), ("sendable", Sendable.sendableParamValue C p)] ++ validJ t)
  | some "imc" =>
    match findOp ((getStr j "name").getD "") with
    | none => Json.mkObj [("bad", "op name")]
    | some spec =>
      let args : List (String × Arg) := match getField j "args" with
        | .obj kv => kv.toList.map (fun (k, v) => (k, argOfJson v))
        | _ => []
      reqOutJ (sendOp C ((getChars j "dn").getD []) spec (argOfJson (getField j "ns")) args)
  | some "invoke" =>
    reqOutJ (sendInvoke C (keyCodecOfJson j) ((getChars j "dn").getD []) (argOfJson (getField j "method"))
      (argOfJson (getField j "obj")) ((getArr j "params").map mparamOfJson))
  | some "export" => reqOutJ (sendExport C (argOfJson (getField j "arg")))
  | some "lpost" =>
    -- do_POST after a successful parse: which response
    let params : List (Str × Bool) := (getArr j "params").filterMap (fun e => match e with
      | .arr a => some ((jsonToChars? (a[0]!)).getD [], match a[1]! with | .bool b => b | _ => false)
      | _ => none)
    let t := listenerRespond ((getChars j "msgid").getD []) ((getChars j "method").getD []) params
      ((getBool j "full").getD false) ((getChars j "desc").getD [])
    Json.mkObj ([("xml", cpsToJson t.ser)] ++ validJ t)
  | some "lrsp" =>
    let msgid := (getChars j "msgid").getD []
    let m := (getChars j "method").getD []
    let t := match getStr j "kind" with
      | some "ok" => listenerSuccess msgid m
      | _ => listenerError msgid m ((getNat j "code").getD 0) ((getChars j "desc").getD [])
    Json.mkObj ([("xml", cpsToJson t.ser)] ++ validJ t)
  | some "val" =>
    match tocimxmlValue C (valOfJson (getField j "val")) with
    | .ok x => Json.mkObj [("ok", Json.mkObj ([("xml", cpsToJson x.ser)] ++ validJ x))]
    | .error e => e.toJson
  | some "par" =>
    -- the proved parser on a real document text: the tree the receiver sees, and the validator's verdict on it
    match Pywbem.Model.XmlParse.par ((getChars j "text").getD []) with
    | some t => Json.mkObj ([("tree", xmlToJson t)] ++ validJ t)
    | none => Json.mkObj [("tree", Json.null), ("valid", false), ("why", "not accepted by par")]
  | some "match" =>
    match lookupElem theDtd ((getChars j "elem").getD []) with
    | some { content := .children r, .. } =>
      Json.mkObj [("match", matchRe r ((getArr j "kids").filterMap jsonToChars?))]
    | _ => Json.mkObj [("match", Json.null)]
  | _ => Json.mkObj [("bad", "op")]

def main : IO Unit := runDriver handle
