import Pywbem.Model.SubMgr
open Lean Pywbem.Proto Pywbem.Model.SubMgr

/-! C18 driver.  Two request types (one JSON object per line):

  {"t":"re","kind":"filt"|"dest","id":cps,"names":[cps,…]}
     → {"escape":cps,"rawc":bool,"escc":bool,"raw":[bool|null…],"esc":[bool|null…],"code":[bool…],"spec":[bool…]}
  {"t":"hist","nsrv":n,"static":[{"d":[[name,sys,url,pt|null]…],"f":[[name,sys]…],"s":[[fname,fsys,hname,hsys,owner|null]…]}…],
   "ops":[op…]}
     → {"steps":[{"res":…,"snap":…}…]}
  strings travel as arrays of code points on input and as JSON strings on output. -/

def str (s : Str) : Json := Json.str (String.ofList s)

def kindOf (j : Json) : Kind :=
  match getStr j "kind" with
  | some "dest" => .dest
  | _ => .filt

def optBool : Option Bool → Json
  | none => Json.null
  | some b => Json.bool b

def handleRe (j : Json) : Json :=
  let k := kindOf j
  let id := (getChars j "id").getD []
  let names := (getArr j "names").filterMap jsonToChars?
  Json.mkObj [
    ("escape", cpsToJson (reEscape id)),
    ("rawc", Json.bool (compileBody (patBody false k id)).isSome),
    ("escc", Json.bool (compileBody (patBody true k id)).isSome),
    ("raw", Json.arr (names.map (fun n => optBool (ownsRe false k id n))).toArray),
    ("esc", Json.arr (names.map (fun n => optBool (ownsRe true k id n))).toArray),
    ("code", Json.arr (names.map (fun n => Json.bool (ownsCode k id n))).toArray),
    ("spec", Json.arr (names.map (fun n => Json.bool (ownsSpecB k id n))).toArray)]

/-! ### decoding -/

def optChars (j : Json) (k : String) : Option Str :=
  match getField j k with
  | .null => none
  | x => jsonToChars? x

def pathOf (j : Json) : Option Path :=
  match j with
  | .arr a =>
    match a.toList with
    | [n, s] => do
      let n ← jsonToChars? n
      let s ← jsonToNat? s
      pure ⟨n, s⟩
    | _ => none
  | _ => none

def subPathOf (j : Json) : Option (Path × Path) :=
  match j with
  | .arr a =>
    match a.toList with
    | [f, h] => do
      let f ← pathOf f
      let h ← pathOf h
      pure (f, h)
    | _ => none
  | _ => none

def destOf (j : Json) : Option Dest :=
  match j with
  | .arr a =>
    match a.toList with
    | [n, s, u, p] => do
      let n ← jsonToChars? n
      let s ← jsonToNat? s
      let u ← jsonToNat? u
      pure ⟨⟨n, s⟩, u, jsonToNat? p⟩
    | _ => none
  | _ => none

def filtOf (j : Json) : Option Filt := (pathOf j).map Filt.mk

def subOf (j : Json) : Option Sub :=
  match j with
  | .arr a =>
    match a.toList with
    | [fn, fs, hn, hs, ow] => do
      let fn ← jsonToChars? fn
      let fs ← jsonToNat? fs
      let hn ← jsonToChars? hn
      let hs ← jsonToNat? hs
      pure ⟨⟨fn, fs⟩, ⟨hn, hs⟩, match ow with | .null => none | x => jsonToChars? x⟩
    | _ => none
  | _ => none

def storeOf (j : Json) : Store :=
  { dests := (getArr j "d").filterMap destOf,
    filts := (getArr j "f").filterMap filtOf,
    subs := (getArr j "s").filterMap subOf }

def whichOf (j : Json) : Which :=
  match getStr j "which" with
  | some "d" => .dests
  | some "f" => .filts
  | _ => .subs

def parseOp (j : Json) : Option Op := do
  let m := (getNat j "m").getD 0
  let s := (getNat j "s").getD 0
  match getStr j "op" with
  | some "newMgr" => some (.newMgr ((getChars j "id").getD []))
  | some "dropMgr" => some (.dropMgr m)
  | some "addServer" => some (.addServer m s)
  | some "removeServer" => some (.removeServer m s)
  | some "removeAll" => some (.removeAll m)
  | some "exitCtx" => some (.exitCtx m (getNat j "exc"))
  | some "addDest" =>
    some (.addDest m s { url := getNat j "url", owned := (getBool j "owned").getD true,
                         destId := optChars j "destId", name := optChars j "name", pt := optChars j "pt" })
  | some "addFilter" =>
    some (.addFilter m s ((getBool j "owned").getD true) (optChars j "fid") (optChars j "name"))
  | some "addSubs" =>
    let f ← pathOf (getField j "f")
    let sel := getField j "sel"
    let owned := (getBool j "owned").getD true
    match sel with
    | .null => some (.addSubs m s f .all owned)
    | _ =>
      match pathOf (getField sel "one") with
      | some p => some (.addSubs m s f (.one p) owned)
      | none => some (.addSubs m s f (.many ((getArr sel "many").filterMap pathOf)) owned)
  | some "removeDests" =>
    let sel := getField j "sel"
    match pathOf (getField sel "one") with
    | some p => some (.removeDests m s (.one p))
    | none => some (.removeDests m s (.many ((getArr sel "many").filterMap pathOf)))
  | some "removeFilter" => do
    let p ← pathOf (getField j "p")
    some (.removeFilter m s p)
  | some "removeSubs" =>
    let sel := getField j "sel"
    match subPathOf (getField sel "one") with
    | some p => some (.removeSubs m s (.one p.1 p.2))
    | none => some (.removeSubs m s (.many ((getArr sel "many").filterMap subPathOf)))
  | some "getOwned" => some (.getOwned m s (whichOf j))
  | some "getAll" => some (.getAll m s (whichOf j))
  | _ => none

/-! ### encoding -/

def natJ (n : Nat) : Json := (n : Json)

def destJ (d : Dest) : Json :=
  Json.arr #[str d.path.name, natJ d.path.sys, natJ d.url, optToJson natJ d.ptype]
def filtJ (f : Filt) : Json := Json.arr #[str f.path.name, natJ f.path.sys]
def subJ (s : Sub) : Json :=
  Json.arr #[str s.filter.name, natJ s.filter.sys, str s.handler.name, natJ s.handler.sys]

def listJ {α} (f : α → Json) (l : List α) : Json := Json.arr (l.map f).toArray

def resJ : Res → Json
  | .done => Json.mkObj [("ok", Json.null)]
  | .mgr m => Json.mkObj [("ok", Json.mkObj [("mgr", natJ m)])]
  | .dest d => Json.mkObj [("ok", Json.mkObj [("d", destJ d)])]
  | .filt f => Json.mkObj [("ok", Json.mkObj [("f", filtJ f)])]
  | .subs l => Json.mkObj [("ok", Json.mkObj [("S", listJ subJ l)])]
  | .exited r => Json.mkObj [("ok", Json.mkObj [("exit", Json.bool r)])]
  | .dests l => Json.mkObj [("ok", Json.mkObj [("D", listJ destJ l)])]
  | .filts l => Json.mkObj [("ok", Json.mkObj [("F", listJ filtJ l)])]
  | .err e => e.toJson
  | .bad => Json.mkObj [("bad", "op")]

def optListJ {α} (f : α → Json) : Option (List α) → Json
  | none => Json.str "KeyError"
  | some l => listJ f l

def snapJ (w : World) (nsrv : Nat) : Json :=
  let stores := (List.range nsrv).map (fun s =>
    Json.mkObj [("d", listJ destJ (w.store s).dests), ("f", listJ filtJ (w.store s).filts),
                ("s", listJ subJ (w.store s).subs)])
  let mgrs := (List.range w.nMgr).filterMap (fun m =>
    match w.ids m with
    | none => none
    | some _ => some (Json.mkObj [("m", natJ m), ("regs", Json.arr ((w.servers m).map (fun s =>
        Json.mkObj [("s", natJ s), ("od", optListJ destJ (w.owned m s).od),
                    ("of", optListJ filtJ (w.owned m s).of), ("os", optListJ subJ (w.owned m s).os)])).toArray)]))
  Json.mkObj [("stores", Json.arr stores.toArray), ("mgrs", Json.arr mgrs.toArray)]

/-- erase every ghost owner (stores and lists): a second run from scrubbed states must print the same -/
def scrubSub (s : Sub) : Sub := { s with owner := none }
def scrub (w : World) : World :=
  { w with store := fun s => { w.store s with subs := (w.store s).subs.map scrubSub },
           owned := fun m s => { w.owned m s with os := (w.owned m s).os.map (·.map scrubSub) } }

/-- the model run; next to it a shadow run whose ghost fields are erased after every step.  The ghost is a
    proof device: if any step function read it, the two runs could print different things — reported as
    `ghost` = false and treated by the harness as a correspondence failure. -/
def runSteps (nsrv : Nat) : World → World → List Op → List Json
  | _, _, [] => []
  | w, v, op :: ops =>
    let r := step w op
    let q := step v op
    let out := Json.mkObj [("res", resJ r.2), ("snap", snapJ r.1 nsrv)]
    let shadow := Json.mkObj [("res", resJ q.2), ("snap", snapJ q.1 nsrv)]
    let same := out.compress == shadow.compress
    (if same then out else Json.mkObj [("res", resJ r.2), ("snap", snapJ r.1 nsrv), ("ghost", Json.bool false)])
      :: runSteps nsrv r.1 (scrub q.1) ops

def handleHist (j : Json) : Json :=
  match (getArr j "ops").mapM parseOp with
  | none => Json.mkObj [("bad", "op")]
  | some ops =>
    let nsrv := (getNat j "nsrv").getD 1
    let statics := (getArr j "static").map storeOf
    let w := World.init (fun s => statics.getD s {})
    Json.mkObj [("steps", Json.arr (runSteps nsrv w (scrub w) ops).toArray)]

def handle (j : Json) : Json :=
  match getStr j "t" with
  | some "re" => handleRe j
  | some "hist" => handleHist j
  | _ => Json.mkObj [("bad", "t")]

def main : IO Unit := runDriver handle
