import Pywbem.Model.AssocWrite
import Pywbem.Model.AssocSet
open Lean Pywbem.Proto Pywbem.Model.Assoc

/-! C13 driver.  Input line:
  {"host":s, "repo":[{"name":s,"classes":[{"name":s,"super":s|null,"assoc":bool,
                                            "props":[{"name":s,"ref":bool,"rc":s}]}],
                      "insts":[{"cls":s,"path":P,"props":[{"name":s,"ref":bool,"v":P|null}]}]}],
   "reqs":[{"op":"RN"|"R"|"AN"|"A","lvl":"i"|"c","ns":s,"src":P|s,
            "ac":s|null,"rc":s|null,"role":s|null,"rrole":s|null}
          | {"op":"create","ns":s,"inst":{cls,path,props}}
          | {"op":"modify","ns":s,"path":P,"chg":[{"name":s,"ref":bool,"v":P|null}]}
          | {"op":"delete","ns":s,"path":P} | {"op":"delclass","ns":s,"cls":s} ]}
  with P = {"c":s,"n":s|null,"h":s|null,"k":nat}; strings as JSON strings or code point arrays.
  Output: {"outs":[{"ok":[P…]} | {"ok":[[s,s]…]} | {"ok":[s…]} | {"exc":…}],
           "repo":[{"name":s,"paths":[P…],"insts":[{"path":P,"cls":s,"refs":[[s,P|null]…]}]}]}
  (create / modify / delete requests change the repository for the following requests; "repo" is the final
   state; instance-level traversal results are duplicate-free: `dedupPaths`) -/

def optChars (j : Json) (k : String) : Option (List Char) :=
  match getField j k with
  | .null => none
  | v => jsonToChars? v

def str (n : List Char) : Json := Json.str (String.ofList n)

def parsePath (j : Json) : Option Path :=
  match j with
  | .null => none
  | _ => some { cls := (getChars j "c").getD [], ns := optChars j "n", host := optChars j "h",
                key := (getNat j "k").getD 0 }

def pathToJson (p : Path) : Json :=
  Json.mkObj [("c", str p.cls), ("n", optToJson str p.ns), ("h", optToJson str p.host), ("k", (p.key : Nat))]

def parseIProp (j : Json) : IProp :=
  { name := (getChars j "name").getD [], isRef := (getBool j "ref").getD false,
    value := parsePath (getField j "v") }

def parseInst (j : Json) : Inst :=
  { cls := (getChars j "cls").getD [], path := (parsePath (getField j "path")).getD default,
    props := (getArr j "props").map parseIProp }

def parseCProp (j : Json) : CProp :=
  { name := (getChars j "name").getD [], isRef := (getBool j "ref").getD false,
    refCls := (getChars j "rc").getD [] }

def parseCls (j : Json) : Cls :=
  { name := (getChars j "name").getD [], super := optChars j "super",
    isAssoc := (getBool j "assoc").getD false, props := (getArr j "props").map parseCProp }

def parseNs (j : Json) : NsStore :=
  { name := (getChars j "name").getD [], classes := (getArr j "classes").map parseCls,
    insts := (getArr j "insts").map parseInst }

def excJson (e : PyExc) : Json := e.toJson

def outPaths (r : Except PyExc (List Path)) : Json :=
  match r with
  | .error e => excJson e
  | .ok l => Json.mkObj [("ok", Json.arr (l.map pathToJson).toArray)]

def outInsts (r : Except PyExc (List Inst)) : Json :=
  match r with
  | .error e => excJson e
  | .ok l => Json.mkObj [("ok", Json.arr (l.map (fun i => pathToJson i.path)).toArray)]

def outNames (r : Except PyExc (List (List Char))) : Json :=
  match r with
  | .error e => excJson e
  | .ok l => Json.mkObj [("ok", Json.arr (l.map str).toArray)]

def outTuples (r : Except PyExc (List (List Char × List Char))) : Json :=
  match r with
  | .error e => excJson e
  | .ok l => Json.mkObj [("ok", Json.arr (l.map (fun t => Json.arr #[str t.1, str t.2])).toArray)]

def step (sv : Server) (j : Json) : Server × Json :=
  let ns := (getChars j "ns").getD []
  match getStr j "op" with
  | some "create" =>
    match createAssoc sv ns (parseInst (getField j "inst")) with
    | .error e => (sv, excJson e)
    | .ok sv' => (sv', Json.mkObj [("ok", Json.null)])
  | some "modify" =>
    match modifyAssoc sv ns ((parsePath (getField j "path")).getD default) ((getArr j "chg").map parseIProp) with
    | .error e => (sv, excJson e)
    | .ok sv' => (sv', Json.mkObj [("ok", Json.null)])
  | some "delclass" =>
    match deleteClassAssoc sv ns ((getChars j "cls").getD []) with
    | .error e => (sv, excJson e)
    | .ok sv' => (sv', Json.mkObj [("ok", Json.null)])
  | some "delete" =>
    match deleteAssoc sv ns ((parsePath (getField j "path")).getD default) with
    | .error e => (sv, excJson e)
    | .ok sv' => (sv', Json.mkObj [("ok", Json.null)])
  | some op =>
    let f : AFilter := { assocClass := optChars j "ac", resultClass := optChars j "rc",
                         role := optChars j "role", resultRole := optChars j "rrole" }
    if getStr j "lvl" == some "c" then
      let cn := (getChars j "src").getD []
      (sv, match op with
        | "RN" => outNames (referenceNamesC sv ns cn f.resultClass f.role)
        | "R" => outTuples (referencesC sv ns cn f.resultClass f.role)
        | "AN" => outNames (associatorNamesC sv ns cn f)
        | "A" => outTuples (associatorsC sv ns cn f)
        | _ => Json.mkObj [("bad", "op")])
    else
      let x := (parsePath (getField j "src")).getD default
      (sv, match op with
        | "RN" => outPaths (referenceNamesSetI sv ns x f.resultClass f.role)
        | "R" => outInsts (referencesI sv ns x f.resultClass f.role)
        | "AN" => outPaths (associatorNamesSetI sv ns x f)
        | "A" => outInsts (associatorsSetI sv ns x f)
        | _ => Json.mkObj [("bad", "op")])
  | none => (sv, Json.mkObj [("bad", "op")])

def parseWOp (j : Json) : Option WOp :=
  let ns := (getChars j "ns").getD []
  match getStr j "op" with
  | some "create" => some (.create ns (parseInst (getField j "inst")))
  | some "modify" => some (.modify ns ((parsePath (getField j "path")).getD default) ((getArr j "chg").map parseIProp))
  | some "delete" => some (.delete ns ((parsePath (getField j "path")).getD default))
  | some "delclass" => some (.deleteClass ns ((getChars j "cls").getD []))
  | _ => none

def handle (j : Json) : Json :=
  let sv0 : Server := { host := (getChars j "host").getD [], repo := (getArr j "repo").map parseNs }
  let (sv, outs) := (getArr j "reqs").foldl
    (fun (acc : Server × List Json) r => let (s, o) := step acc.1 r; (s, o :: acc.2)) (sv0, [])
  -- for pure write histories: the shadow-copy discipline before / after and the request conditions
  let wstat : List (String × Json) :=
    match (getArr j "reqs").mapM parseWOp with
    | some ops => if ops.isEmpty then [] else
        [("winv0", disciplineB sv0.repo), ("histok", histOkB sv0 ops), ("winv", disciplineB (runW sv0 ops).repo)]
    | none => []
  Json.mkObj (wstat ++ [("outs", Json.arr outs.reverse.toArray),
              ("repo", Json.arr (sv.repo.map (fun S => Json.mkObj [("name", str S.name),
                ("paths", Json.arr (S.insts.map (fun i => pathToJson i.path)).toArray),
                ("classes", Json.arr (S.classes.map (fun c => str c.name)).toArray),
                ("insts", Json.arr (S.insts.map (fun i => Json.mkObj [("path", pathToJson i.path), ("cls", str i.cls),
                  ("refs", Json.arr ((i.props.filter (·.isRef)).map (fun p =>
                    Json.arr #[str p.name, optToJson pathToJson p.value])).toArray)])).toArray)])).toArray)])

def main : IO Unit := runDriver handle
